import WhVerif.Lemmas.C05
import WhVerif.Lemmas.C05Tables
import WhVerif.Lemmas.C03
import WhVerif.Lemmas.C05SolverCol
import WhVerif.Lemmas.C05SolverPed
import WhVerif.Lemmas.C05PipelineExample
import WhVerif.Lemmas.C05Lik
import WhVerif.Lemmas.C05LikSolver
import WhVerif.Lemmas.C05Recomb
import WhVerif.Lemmas.C05Table
/-!
# C05 — pedigree phasing is Mendelian-consistent and ordered paternal|maternal

Statements about the model `Model/C05.lean` (pedigree partitions, admissible allele assignments of a column,
`get_alleles`, `mendelian_conflict`, `find_phaseable_variants`, accessible positions, the writer's decision)
and, for the "unphased in all members" part, the C03 model of `find_components`.
-/
namespace WhVerif.Props.C05
open WhVerif.C05 WhVerif.C05.L WhVerif.C05.T

/-- structure of `compute_haplotype_to_partition_rec` (any pedigree, any transmission value): child haplotype 0
lies in one of the FATHER's two partitions, selected by bit `2k`; haplotype 1 in one of the MOTHER's, selected by
bit `2k+1` (`k` = index of the trio; bit value 1 selects the parent's haplotype 0) -/
theorem child_partitions (ped : Ped) (t i k f m c : Nat) (pc : Nat × Nat)
    (hk : tripleIndex ped i = some k) (htr : ped.triples[k]? = some (f, m, c))
    (h : hapToPartition ped t i = some pc) :
    ∃ pf pm, hapToPartition ped t f = some pf ∧ hapToPartition ped t m = some pm ∧
      pc.1 = (if t.testBit (2 * k) then pf.1 else pf.2) ∧
      pc.2 = (if t.testBit (2 * k + 1) then pm.1 else pm.2) :=
  L.child_partitions ped t i k f m c pc hk htr h

/-- non-vacuity: child listed first; father = individual 1, mother = individual 2 -/
example : hapToPartition ⟨3, [(1, 2, 0)]⟩ 2 0 = some (1, 2) ∧ hapToPartition ⟨3, [(1, 2, 0)]⟩ 2 1 = some (0, 1)
    ∧ hapToPartition ⟨3, [(1, 2, 0)]⟩ 2 2 = some (2, 3) := by decide

/-- every admissible allele assignment of a column is Mendelian-consistent and ordered paternal|maternal:
the child's allele on haplotype 0 is the allele of the father's haplotype selected by the transmission value
(hence one of the father's alleles), the allele on haplotype 1 is the selected mother's allele -/
theorem mendel_ordered (ped : Ped) (t : Nat) (gts : List Gt) (asg : Nat)
    (h : compatible ped t gts asg = true) (c k f m c' : Nat)
    (hk : tripleIndex ped c = some k) (htr : ped.triples[k]? = some (f, m, c'))
    (hc : c < ped.size) (hf : f < ped.size) (hm : m < ped.size) :
    ∃ ca0 ca1 fa0 fa1 ma0 ma1 gf gm,
      indivAlleles ped t asg c = some (ca0, ca1) ∧ indivAlleles ped t asg f = some (fa0, fa1) ∧
      indivAlleles ped t asg m = some (ma0, ma1) ∧ gts[f]? = some gf ∧ gts[m]? = some gm ∧
      ca0 = (if t.testBit (2 * k) then fa0 else fa1) ∧ ca1 = (if t.testBit (2 * k + 1) then ma0 else ma1) ∧
      ca0 ∈ gf ∧ ca1 ∈ gm := by
  obtain ⟨ca0, ca1, fa0, fa1, ma0, ma1, gc, gf, gm, hca, hfa, hma, _, hgf, hgm, _, hmf, hmm, h0, h1⟩ :=
    child_alleles h hk htr hc hf hm
  refine ⟨ca0, ca1, fa0, fa1, ma0, ma1, gf, gm, hca, hfa, hma, hgf, hgm, h0, h1, ?_, ?_⟩
  · rw [← hmf, h0]; split
    · exact mem_mkGt2_left _ _
    · exact mem_mkGt2_right _ _
  · rw [← hmm, h1]; split
    · exact mem_mkGt2_left _ _
    · exact mem_mkGt2_right _ _

/-- non-vacuity: father 0/1 (haplotypes 0|1), mother 1/1, child 0/1, transmission value 0 -/
example : compatible ⟨3, [(0, 1, 2)]⟩ 0 [[1, 0], [1, 1], [1, 0]] 0b1101 = true := by decide

/-- an admissible assignment exists only if no trio of the pedigree has a Mendelian conflict (any pedigree) -/
theorem feasible_implies_no_conflict (ped : Ped) (t : Nat) (gts : List Gt)
    (hne : admissible ped t gts ≠ []) (c k f m c' : Nat)
    (hk : tripleIndex ped c = some k) (htr : ped.triples[k]? = some (f, m, c'))
    (hc : c < ped.size) (hf : f < ped.size) (hm : m < ped.size) :
    ∃ gc gf gm, gts[c]? = some gc ∧ gts[f]? = some gf ∧ gts[m]? = some gm ∧
      mendelianConflict gm gf gc = some false := by
  obtain ⟨asg, hasg⟩ := List.exists_mem_of_ne_nil _ hne
  exact compatible_no_conflict (mem_admissible.mp hasg).2 hk htr hc hf hm

/-- trio, all 27 genotype combinations, every order of the members in the pedigree, EVERY transmission value:
the column has an admissible assignment iff `mendelian_conflict` says "no conflict".  So after
`find_phaseable_variants` the solver never meets an infeasible column. -/
theorem no_conflict_iff_feasible_trio : ∀ a ∈ perms3, ∀ gf ∈ G3, ∀ gm ∈ G3, ∀ gc ∈ G3, ∀ t ∈ List.range 4,
    (mendelianConflict gm gf gc = some false ↔ admissible (ped3 a) t (gts3 a gf gm gc) ≠ []) :=
  trio_table

/-- two-child quartet, all 81 genotype combinations, every order of the members: some transmission value has an
admissible assignment iff neither child's trio has a conflict -/
theorem no_conflict_iff_feasible_quartet : ∀ a ∈ perms4, ∀ gf ∈ G3, ∀ gm ∈ G3, ∀ g1 ∈ G3, ∀ g2 ∈ G3,
    ((mendelianConflict gm gf g1 = some false ∧ mendelianConflict gm gf g2 = some false) ↔
      ∃ t, t < 16 ∧ admissible (ped4 a) t (gts4 a gf gm g1 g2) ≠ []) :=
  quartet_feasible_iff

/-- variants with a missing genotype in some family member or a Mendelian conflict in some trio are not in the
phasable table; hence (the accessible positions are positions of the phasable table, the components are keyed
by the accessible positions, the writer phases only positions that have a component) they are left unphased
for EVERY member, whatever the super-reads and the member's own genotype are -/
theorem conflict_or_missing_unphased (tab : GtTable) (trios : List (Nat × Nat × Nat)) (incl : Bool)
    (positions : List Nat) (hlen : positions.length = nVariants tab)
    (hinj : ∀ i j, i < positions.length → j < positions.length → positions.getD i 0 = positions.getD j 0 → i = j)
    (readPos : List Nat) (famSize : Nat) (genetic : Bool) (acc : List Nat)
    (hacc : accessiblePositions ((findPhaseableVariants tab trios incl).2.map (positions.getD · 0)) readPos
              ((findPhaseableVariants tab trios incl).1.map (positions.getD · 0)) famSize genetic = some acc)
    (phased : List Nat) (hph : ∀ p, p ∈ phased → p ∈ acc)
    (reads : List WhVerif.C03.Read) (master : Option (List Nat)) (het : Option WhVerif.C03.HetMap)
    (comps : List (Nat × Nat)) (hcomps : WhVerif.C03.findComponents phased reads master het = .ok comps)
    (i : Nat) (hi : i < positions.length)
    (hbad : missingAt tab i = true ∨ conflictAt tab trios i = true)
    (superreads : List (Nat × Nat × Nat)) (isHet : Bool) :
    writerPhase comps superreads isHet (positions.getD i 0) = none := by
  cases hw : writerPhase comps superreads isHet (positions.getD i 0) with
  | none => rfl
  | some x =>
    exfalso
    obtain ⟨c, hc⟩ := writerPhase_some hw
    obtain ⟨rep, hrep, _⟩ := WhVerif.C03.L.findComponents_rep phased reads master het comps hcomps
    have hmem : positions.getD i 0 ∈ phased := by
      have := hrep (positions.getD i 0)
      unfold WhVerif.C03.compOf at this
      rw [hc] at this
      by_cases hp : positions.getD i 0 ∈ phased
      · exact hp
      · rw [if_neg hp] at this; cases this
    have hR := (accessible_spec hacc).1 _ (hph _ hmem)
    obtain ⟨j, hj, hje⟩ := List.mem_map.mp hR
    obtain ⟨hjn, hjr⟩ := mem_keep.mp hj
    have hij : j = i := hinj j i (by omega) hi hje
    subst hij
    obtain ⟨h1, h2⟩ := retained_spec hjr
    rcases hbad with hb | hb
    · rw [h1] at hb; cases hb
    · rw [h2] at hb; cases hb

/-- non-vacuity: variant 1 has a conflict (0/0 × 0/0 → 0/1), variant 2 a missing genotype; only variant 0 is kept -/
example : findPhaseableVariants [[[1, 0], [0, 0], [1, 0]], [[1, 1], [0, 0], []], [[1, 0], [1, 0], [1, 0]]] [(0, 1, 2)] false
    = ([0], [0]) := by decide

/-- a retained variant at which some family member is homozygous is among the `homozygous_positions` (which, with
genetic haplotyping, are made accessible even without reads) -/
theorem homozygous_member_in_homozygous_positions (tab : GtTable) (trios : List (Nat × Nat × Nat)) (incl : Bool)
    (i s x : Nat) (hi : i < nVariants tab) (hr : retained tab trios incl i = true)
    (hs : s < tab.length) (hg : gtAt tab s i = [x, x]) :
    i ∈ (findPhaseableVariants tab trios incl).1 := by
  refine mem_hom.mpr ⟨⟨hi, hr⟩, ?_⟩
  unfold homAt
  rw [List.any_eq_true]
  exact ⟨s, List.mem_range.mpr hs, by simp [hg, Gt.isNone, Gt.isHomozygous]⟩

/-- FULL statement (not proved end-to-end): with genetic haplotyping, a variant that is heterozygous in a child and
homozygous in a parent, without conflict/missing genotype, is phased in the child in the output VCF even if no read
covers it.  PROVED here, for any pedigree, any transmission value and ANY read costs (in particular none): the
position is accessible; `get_alleles` of its column reports for the child two definite, different alleles (no
`EQUAL_SCORES`), the first from the father, the second from the mother; and the writer phases a heterozygous call
whose position has a component and such a super-read entry.  ASSUMED (hypothesis `hsr`): the child's super-read
entry at the position is what `get_alleles` of that column returns (that is the DP's back-trace, C01's domain;
checked by the correspondence run against the traced super-reads). -/
theorem homozygous_parent_phased_without_reads_partial
    (ped : Ped) (t : Nat) (gts : List Gt) (cp : PartCosts) (c k f m c' : Nat)
    (hk : tripleIndex ped c = some k) (htr : ped.triples[k]? = some (f, m, c'))
    (hc : c < ped.size) (hf : f < ped.size) (hm : m < ped.size)
    (hgc : gts[c]? = some [1, 0])
    (hhom : (∃ x, gts[f]? = some [x, x]) ∨ (∃ y, gts[m]? = some [y, y]))
    (hne : admissible ped t gts ≠ [])
    -- the position: retained, homozygous in some member, pedigree mode with genetic haplotyping
    (retainedPos readPos homPos acc : List Nat) (famSize : Nat) (pos : Nat)
    (hacc : accessiblePositions retainedPos readPos homPos famSize true = some acc)
    (hfam : famSize > 1) (hpos : pos ∈ homPos)
    -- components keyed by the accessible positions (C03)
    (phased : List Nat) (hph : ∀ p, p ∈ acc → p ∈ phased)
    (reads : List WhVerif.C03.Read) (master : Option (List Nat)) (het : Option WhVerif.C03.HetMap)
    (comps : List (Nat × Nat)) (hcomps : WhVerif.C03.findComponents phased reads master het = .ok comps)
    -- glue (assumed): the child's super-read entry is the column's `get_alleles` entry
    (superreads : List (Nat × Nat × Nat))
    (hsr : ∀ res al, getAlleles ped t gts cp = some res → res[c]? = some al → superreads.lookup pos = some al) :
    ∃ ps a0 a1, writerPhase comps superreads true pos = some (ps, a0, a1) ∧ a0 ≤ 1 ∧ a1 ≤ 1 ∧ a0 ≠ a1 ∧
      (∀ gf, gts[f]? = some gf → a0 ∈ gf) ∧ (∀ gm, gts[m]? = some gm → a1 ∈ gm) := by
  -- all admissible assignments agree on the child's alleles
  obtain ⟨asg0, hasg0⟩ := List.exists_mem_of_ne_nil _ hne
  have hc0 := (mem_admissible.mp hasg0).2
  obtain ⟨ca0, ca1, fa0, fa1, ma0, ma1, gf, gm, hca, _, _, hgf, hgm, _, _, hin0, hin1⟩ :=
    mendel_ordered ped t gts asg0 hc0 c k f m c' hk htr hc hf hm
  have hall : ∀ asg ∈ admissible ped t gts, indivAlleles ped t asg c = some (ca0, ca1) := by
    intro asg hasg
    have hcm := (mem_admissible.mp hasg).2
    rcases hhom with ⟨x, hx⟩ | ⟨y, hy⟩
    · have h1 := ((child_alleles_determined hcm hk htr hc hf hm hgc).1 x hx).1
      have h2 := ((child_alleles_determined hc0 hk htr hc hf hm hgc).1 x hx).1
      rw [h1, ← h2, hca]
    · have h1 := ((child_alleles_determined hcm hk htr hc hf hm hgc).2 y hy).1
      have h2 := ((child_alleles_determined hc0 hk htr hc hf hm hgc).2 y hy).1
      rw [h1, ← h2, hca]
  obtain ⟨res, hres, hresc⟩ := getAlleles_determined ped t gts cp c ca0 ca1 hc hne hall
  -- the two alleles are 0/1 and different
  have hval : ca0 ≤ 1 ∧ ca1 ≤ 1 ∧ ca0 ≠ ca1 := by
    rcases hhom with ⟨x, hx⟩ | ⟨y, hy⟩
    · obtain ⟨h2, hx1⟩ := (child_alleles_determined hc0 hk htr hc hf hm hgc).1 x hx
      rw [hca] at h2
      simp only [Option.some.injEq, Prod.mk.injEq] at h2
      omega
    · obtain ⟨h2, hy1⟩ := (child_alleles_determined hc0 hk htr hc hf hm hgc).2 y hy
      rw [hca] at h2
      simp only [Option.some.injEq, Prod.mk.injEq] at h2
      omega
  -- accessible, hence it has a component
  have hpacc : pos ∈ acc := ((accessible_spec hacc).2 pos).mpr (Or.inr ⟨⟨hfam, rfl⟩, hpos⟩)
  obtain ⟨rep, hrep, _⟩ := WhVerif.C03.L.findComponents_rep phased reads master het comps hcomps
  have hlook : comps.lookup pos = some (rep pos) := by
    have := hrep pos
    unfold WhVerif.C03.compOf at this
    rw [this]; simp [hph pos hpacc]
  refine ⟨rep pos + 1, ca0, ca1, writerPhase_of hlook (hsr res _ hres hresc) hval.1 hval.2.1, hval.1, hval.2.1, hval.2.2, ?_, ?_⟩
  · intro gf' hgf'; rw [hgf] at hgf'; cases hgf'; exact hin0
  · intro gm' hgm'; rw [hgm] at hgm'; cases hgm'; exact hin1

/-- non-vacuity of the column part: father 0/0, mother 0/1, child 0/1, no reads, transmission value 0: the child is
0|1 (and, given the transmission value, the mother's haplotypes are determined as well) -/
example : getAlleles ⟨3, [(0, 1, 2)]⟩ 0 [[0, 0], [1, 0], [1, 0]] [] = some [(0, 0), (0, 1), (0, 1)] := by decide

/-! ## the same, end to end on the SOLVER model (C01's `PedigreeDPTable`): no assumption about the super reads

`Spec/C05Solver.lean` defines the super reads as `get_super_reads` computes them from the back-traced witness
`(β, τ)` of the C01 model: the entry of column `c` is `get_alleles` for the bipartition of the reads active in `c`
and the transmission value `τ_c`.  The instance `I` is the solver's input (`WhVerif.C01.Inst`): any reads (none at
the column included), any recombination costs, any member order; the genotype constraints are the trusted ones
(`none` = incompatible).  "No Mendelian conflict" is the hypothesis that the solver returned a witness at all
(`WhVerif.Props.C01.infeasible_iff`: it raises iff some column has no admissible assignment for any
bipartition/transmission vector; for trios/quartets that is `no_conflict_iff_feasible_trio/_quartet`). -/
open WhVerif.C05.Solver

/-- structure of the partition map of the solver model, any pedigree (`PedOK`: members in range, one trio per child,
acyclic), any transmission value: the child's haplotype 0 is the father's haplotype selected by bit `2k`, its
haplotype 1 the mother's selected by bit `2k+1` (bit value 1 = the parent's haplotype 0) -/
theorem solver_child_partitions (I : WhVerif.C01.Inst) (hok : PedOK I) (t k f m ch : Nat)
    (htr : I.trios[k]? = some (f, m, ch)) :
    WhVerif.C01.h2p I t ch 0 =
      (if WhVerif.C01.bitOf t (2 * k) = 1 then WhVerif.C01.h2p I t f 0 else WhVerif.C01.h2p I t f 1) ∧
    WhVerif.C01.h2p I t ch 1 =
      (if WhVerif.C01.bitOf t (2 * k + 1) = 1 then WhVerif.C01.h2p I t m 0 else WhVerif.C01.h2p I t m 1) :=
  trio_partitions I hok t k f m ch htr

/-- **FULL**: a variant (column `col`) at which a child is heterozygous and one of its parents homozygous gets, in
the super reads the solver returns, two definite alleles for the child (no `EQUAL_SCORES`), different, the first an
allele of the father, the second an allele of the mother (equal to the homozygous parent's allele on that side) —
whatever reads cover the column (none included), whatever the recombination costs and the rest of the instance are;
and the writer phases the child's call `a0|a1` there (the position is accessible through `homozygous_positions`
and therefore has a component).  Every cost-optimal admissible allele assignment of the column agrees with the
reported alleles. -/
theorem homozygous_parent_phased_without_reads
    (I : WhVerif.C01.Inst) (hwf : WhVerif.C01.WF I) (hok : PedOK I)
    (β : List Bool) (τ : List Nat) (hw : WhVerif.C01.witness I = some (β, τ))
    (col k f m ch : Nat) (hcol : col < I.ncols) (htr : I.trios[k]? = some (f, m, ch))
    (hhet : HetAt I ch col) (hhom : (∃ x, HomAt I f col x) ∨ (∃ y, HomAt I m col y))
    -- genomic positions of the columns
    (positions : List Nat) (hlen : positions.length = I.ncols) (hnd : positions.Nodup)
    -- the position: retained, homozygous in some member, pedigree mode with genetic haplotyping
    (retainedPos readPos homPos acc : List Nat) (famSize : Nat)
    (hacc : accessiblePositions retainedPos readPos homPos famSize true = some acc)
    (hfam : famSize > 1) (hpos : positions.getD col 0 ∈ homPos)
    -- components keyed by the accessible positions (C03)
    (phased : List Nat) (hph : ∀ p, p ∈ acc → p ∈ phased)
    (reads : List WhVerif.C03.Read) (master : Option (List Nat)) (het : Option WhVerif.C03.HetMap)
    (comps : List (Nat × Nat)) (hcomps : WhVerif.C03.findComponents phased reads master het = .ok comps) :
    ∃ sr ps a0 a1, solverSuperReads I positions ch = some sr ∧
      writerPhase comps sr true (positions.getD col 0) = some (ps, a0, a1) ∧
      a0 ≤ 1 ∧ a1 ≤ 1 ∧ a0 ≠ a1 ∧ HasAllele I f col a0 ∧ HasAllele I m col a1 ∧
      (∀ x, HomAt I f col x → a0 = x) ∧ (∀ y, HomAt I m col y → a1 = y) ∧
      (∀ ag, WhVerif.C01.IsOptAssign I col (WhVerif.C01.restrict β (I.activeAt col)) (τ.getD col 0) ag →
        WhVerif.C01.bitOf ag.1 (WhVerif.C01.h2p I (τ.getD col 0) ch 0) = a0 ∧
        WhVerif.C01.bitOf ag.1 (WhVerif.C01.h2p I (τ.getD col 0) ch 1) = a1) := by
  obtain ⟨sr, L, hsr, hL, hlook⟩ := solverSuperReads_lookup I hwf β τ hw positions hlen hnd ch col hcol
  obtain ⟨h0, h1, hne, hf, hm, hxf, hym, hopt⟩ :=
    child_entry I hok col _ (τ.getD col 0) k f m ch htr hhet hhom L hL
  simp only [reported_zero, reported_one] at h0 h1 hne hf hm hxf hym hopt
  -- accessible, hence it has a component
  have hpacc : positions.getD col 0 ∈ acc :=
    ((accessible_spec hacc).2 _).mpr (Or.inr ⟨⟨hfam, rfl⟩, hpos⟩)
  obtain ⟨rep, hrep, _⟩ := WhVerif.C03.L.findComponents_rep phased reads master het comps hcomps
  have hlk : comps.lookup (positions.getD col 0) = some (rep (positions.getD col 0)) := by
    have := hrep (positions.getD col 0)
    unfold WhVerif.C03.compOf at this
    rw [this, if_pos (hph _ hpacc)]
  exact ⟨sr, rep (positions.getD col 0) + 1, (L.getD ch (0, 0)).1, (L.getD ch (0, 0)).2, hsr,
    writerPhase_of hlk hlook h0 h1, h0, h1, hne, hf, hm, hxf, hym, hopt⟩

/-- non-vacuity: a trio with the CHILD listed first (father = individual 1, mother = 2), two columns; column 1 is
covered by NO read, the father is 1/1 there, mother and child 0/1.  All hypotheses hold, and the solver's super
reads of the child are `0|1` at position 100 (from its reads) and `1|0` at position 200 (from the genotypes alone). -/
def exSolver : WhVerif.C01.Inst :=
  { ncols := 2
    reads := [ { ind := 0, first := 0, last := 0, entries := [(0, 1, 7)] },
               { ind := 2, first := 0, last := 0, entries := [(0, 0, 4)] } ]
    nind := 3
    trios := [(1, 2, 0)]
    geno := [ [[none, some 0, none], [none, some 0, none]],
              [[none, some 0, none], [none, none, some 0]],
              [[none, some 0, none], [none, some 0, none]] ]
    recomb := [0, 5] }

example : WhVerif.C01.WF exSolver ∧ PedOK exSolver ∧ (WhVerif.C01.witness exSolver).isSome = true ∧
    HetAt exSolver 0 1 ∧ HomAt exSolver 1 1 1 ∧ exSolver.activeAt 1 = [] ∧
    solverSuperReads exSolver [100, 200] 0 = some [(100, 0, 1), (200, 1, 0)] := by
  refine ⟨⟨?_⟩, pedOK_trio exSolver 1 2 0 rfl (by decide) (by decide) (by decide) (by decide) (by decide),
    by decide +kernel, ⟨by decide, by decide⟩, ⟨by decide, ?_⟩, by decide, by decide +kernel⟩
  · intro r1 r2 h1 h2
    have hall : ∀ r2, r2 < 2 → ∀ r1, r1 ≤ r2 → (exSolver.read r1).first ≤ (exSolver.read r2).first := by decide
    exact hall r2 h2 r1 h1
  · intro j hj
    match j with
    | 0 => rfl
    | 1 => rfl
    | 2 => exact absurd rfl hj
    | n + 3 => rfl

end WhVerif.Props.C05

/-! ## composition: ANY reads (noisy, none, deep) — the solver's output for a trio is Mendelian and ordered
paternal|maternal, and so is the child call decoded from the written VCF (solver C01 → components C03 → multi-sample
writer C04 → reader C09; `Spec/C05Pipeline.lean`, `Lemmas/C05Pipeline*.lean`, `notes/C05P.md`) -/
namespace WhVerif.Props.C05
open WhVerif.C01 WhVerif.C05.Solver WhVerif.C05P
open WhVerif.C02P (posAt biallelic)

/-- **solver level, FULL**: any instance (any reads — noisy ones included —, any recombination costs, any `PedOK`
pedigree), `witness I = some (β, τ)`, a trio `(f, m, ch)` = `trios[k]` whose members have trusted genotypes `gf, gm, gc`
(number of ALT alleles; the constraint table admits exactly that one) in column `c`.  For the child's super-read entry
`(a0, a1)` = `get_alleles` of column `c` under the witness: an allele without tie flag (≠ 3, so the writer can phase it) is
0/1, `a0` is an allele of the FATHER's genotype and `a1` of the MOTHER's, `a0 + a1` is the child's genotype, and `a0`
equals the allele the father's super read carries on the haplotype `selHap τ_c (2k)` selected by transmission bit `2k`
whenever that entry has no tie flag (likewise `a1`, the mother, bit `2k+1`). -/
theorem pedigree_output_mendelian (I : Inst) (hwf : WF I) (hok : PedOK I) (β : List Bool) (τ : List Nat)
    (hw : witness I = some (β, τ)) (k f m ch : Nat) (htr : I.trios[k]? = some (f, m, ch))
    (c : Nat) (hc : c < I.ncols) (gf gm gc : Nat)
    (hgf : trustedGeno I f c = some gf) (hgm : trustedGeno I m c = some gm) (hgc : trustedGeno I ch c = some gc) :
    ∃ L, getAlleles I c (restrict β (I.activeAt c)) (τ.getD c 0) = some L ∧ L.length = I.nind ∧
      ∀ a0 a1, L.getD ch (0, 0) = (a0, a1) →
        (a0 ≠ 3 → a0 ≤ 1 ∧ a0 ∈ genoAlleles gf ∧
          (reported L f (selHap (τ.getD c 0) (2 * k)) ≠ 3 → reported L f (selHap (τ.getD c 0) (2 * k)) = a0)) ∧
        (a1 ≠ 3 → a1 ≤ 1 ∧ a1 ∈ genoAlleles gm ∧
          (reported L m (selHap (τ.getD c 0) (2 * k + 1)) ≠ 3 →
            reported L m (selHap (τ.getD c 0) (2 * k + 1)) = a1)) ∧
        (a0 ≠ 3 → a1 ≠ 3 → a0 + a1 = gc) := by
  obtain ⟨L, hL, hlen, h0, h1, hs⟩ := column_mendelian I hwf hok β τ hw k f m ch htr c hc gf gm gc hgf hgm hgc
  refine ⟨L, hL, hlen, ?_⟩
  intro a0 a1 he
  rw [reported_zero, he] at h0 hs
  rw [reported_one, he] at h1 hs
  exact ⟨h0, h1, hs⟩

/-- **end to end, FULL** (tag PS and tag HP, multi-sample records, header may contain samples outside the family):
`Trusted` genotypes, `PedOK` pedigree, the side conditions `PedPipelineOk` the pipeline establishes by construction,
the solver returned `(β, τ)` and `find_components` returned `comps`.  Then no stage raises, the reader returns one row
per biallelic record, and for every trio `(f, m, ch)` = `trios[k]` and every row in which the CHILD's call is decoded
as phased `a|b` (header column `j`): the row is a column `c` of the instance, `(a, b)` is the child's super-read entry
there, `a ≠ b`, `a` is an allele of the father's genotype at `c` and `b` of the mother's, `a + b` is the child's
genotype; and if the FATHER's call in that row is decoded as phased, it is in the same phase set and carries `a` on the
haplotype selected by transmission bit `2k` of `τ_c` (likewise the mother, `b`, bit `2k+1`). -/
theorem pedigree_vcf_mendelian (S : Stage) (hwf : WF S.I) (hok : PedOK S.I) (htrust : Trusted S.I)
    (hin : PedPipelineOk S) (β : List Bool) (τ : List Nat) (hw : witness S.I = some (β, τ))
    (comps : List (Nat × Nat)) (hcomps : components S = .ok comps)
    (k f m ch : Nat) (htr : S.I.trios[k]? = some (f, m, ch)) :
    ∃ rows, pipeline S = some rows ∧
      rows.map (·.pos) = (S.records.filter biallelic).map (·.pos) ∧
      ∀ row ∈ rows, ∀ j ph, S.header[j]? = some (S.names.getD ch "") → samplePhase row j = some ph →
        ∃ c a b gf gm gc, c < S.I.ncols ∧ row.pos = posAt S.pos c ∧
          ph.alleles = [some a, some b] ∧ (a, b) = colEntry S.I β τ c ch ∧ a ≤ 1 ∧ b ≤ 1 ∧ a ≠ b ∧
          trustedGeno S.I f c = some gf ∧ trustedGeno S.I m c = some gm ∧ trustedGeno S.I ch c = some gc ∧
          a ∈ genoAlleles gf ∧ b ∈ genoAlleles gm ∧ a + b = gc ∧
          (∀ jf phf, S.header[jf]? = some (S.names.getD f "") → samplePhase row jf = some phf →
            phf.block = ph.block ∧ phf.alleles[selHap (τ.getD c 0) (2 * k)]? = some (some a)) ∧
          (∀ jm phm, S.header[jm]? = some (S.names.getD m "") → samplePhase row jm = some phm →
            phm.block = ph.block ∧ phm.alleles[selHap (τ.getD c 0) (2 * k + 1)]? = some (some b)) :=
  ped_vcf_mendelian S hwf hok htrust hin β τ hw comps hcomps k f m ch htr

/-- the same against the INPUT records: if the instance's constraint table was built from the input genotypes (the
seam `hlink`, checked by the harness on every traced run), the decoded `a|b` of the child has `a` among the alleles of
the father's input call and `b` among the mother's -/
theorem pedigree_vcf_mendelian_input_gt (S : Stage) (hwf : WF S.I) (hok : PedOK S.I) (htrust : Trusted S.I)
    (hin : PedPipelineOk S) (β : List Bool) (τ : List Nat) (hw : witness S.I = some (β, τ))
    (comps : List (Nat × Nat)) (hcomps : components S = .ok comps)
    (k f m ch : Nat) (htr : S.I.trios[k]? = some (f, m, ch))
    (hlink : ∀ r ∈ S.records, ∀ c, c < S.I.ncols → r.pos = posAt S.pos c → ∀ ind, ind < S.I.nind → ∀ call g,
      WhVerif.C04.clookup r.calls (S.names.getD ind "") = some call → trustedGeno S.I ind c = some g →
      WhVerif.C04.gcode call.gt = genoAlleles g) :
    ∃ rows, pipeline S = some rows ∧
      ∀ row ∈ rows, ∀ j ph, S.header[j]? = some (S.names.getD ch "") → samplePhase row j = some ph →
        ∃ a b, ph.alleles = [some a, some b] ∧
          ∀ r ∈ S.records, r.pos = row.pos → ∀ cf cm,
            WhVerif.C04.clookup r.calls (S.names.getD f "") = some cf →
            WhVerif.C04.clookup r.calls (S.names.getD m "") = some cm →
            a ∈ WhVerif.C04.gcode cf.gt ∧ b ∈ WhVerif.C04.gcode cm.gt := by
  obtain ⟨rows, hp, _, h⟩ := ped_vcf_mendelian S hwf hok htrust hin β τ hw comps hcomps k f m ch htr
  have hmem := hok.members _ (List.mem_of_getElem? htr)
  refine ⟨rows, hp, ?_⟩
  intro row hrow j ph hj hph
  obtain ⟨c, a, b, gf, gm, gc, hc, hpos, hal, _, _, _, _, hgf, hgm, _, ha, hb, _⟩ := h row hrow j ph hj hph
  refine ⟨a, b, hal, ?_⟩
  intro r hr hrp cf cm hcf hcm
  rw [hlink r hr c hc (by rw [hrp, hpos]) f hmem.1 cf gf hcf hgf,
    hlink r hr c hc (by rw [hrp, hpos]) m hmem.2.1 cm gm hcm hgm]
  exact ⟨ha, hb⟩

/-- **completeness** (so the statements above are not vacuous): a column whose super-read entry for family member
`ind` is `0|1` or `1|0` (no tie flag) and whose position has a component IS phased, with exactly that pair, in every
biallelic record at that position -/
theorem pedigree_vcf_phased (S : Stage) (hwf : WF S.I) (hin : PedPipelineOk S) (β : List Bool) (τ : List Nat)
    (hw : witness S.I = some (β, τ)) (comps : List (Nat × Nat)) (hcomps : components S = .ok comps)
    (ind : Nat) (hind : ind < S.I.nind) (c : Nat) (hc : c < S.I.ncols)
    (hent : colEntry S.I β τ c ind = (0, 1) ∨ colEntry S.I β τ c ind = (1, 0))
    (mc : Nat) (hmc : WhVerif.C03.compOf comps (posAt S.pos c) = some mc) :
    ∃ rows, pipeline S = some rows ∧
      ∀ row ∈ rows, row.pos = posAt S.pos c → ∀ j, S.header[j]? = some (S.names.getD ind "") →
        samplePhase row j =
          some ⟨some ((mc : Int) + 1), [some (colEntry S.I β τ c ind).1, some (colEntry S.I β τ c ind).2]⟩ :=
  ped_vcf_phased S hwf hin β τ hw comps hcomps ind hind c hc hent mc hmc

/-- non-vacuity: the trio `exPed` (`Lemmas/C05PipelineExample.lean`) with a NOISY child read (optimal cost 3 > 0) satisfies
every hypothesis of the three theorems, for tag PS and tag HP; the decoded rows (header `kid, dad, mom, other`) are: child
`1|0` at both variants, father `0|1`, mother phased only where heterozygous, the unrelated sample untouched -/
example (tag : WhVerif.C04.Tag) :
    WF exPed ∧ PedOK exPed ∧ Trusted exPed ∧ PedPipelineOk (exStage tag) ∧
    witness exPed = some ([false, false, false], [0, 0]) ∧ dpCost exPed = some 3 ∧
    components (exStage tag) = .ok [(100, 100), (200, 100)] ∧ exPed.trios[0]? = some (0, 1, 2) ∧
    solverColumns exPed = some [[(0, 1), (0, 0), (1, 0)], [(0, 1), (1, 0), (1, 0)]] ∧
    (pipeline (exStage tag)).map (·.map rowPhases) =
      some [(100, [some ⟨some 101, [some 1, some 0]⟩, some ⟨some 101, [some 0, some 1]⟩, none, none]),
            (200, [some ⟨some 101, [some 1, some 0]⟩, some ⟨some 101, [some 0, some 1]⟩,
                   some ⟨some 101, [some 1, some 0]⟩, none])] :=
  ⟨exPed_wf, exPed_pedOK, exPed_trusted, exStage_ok tag, exPed_witness, exPed_cost, exStage_comps tag, rfl,
    exColumns, exPipeline tag⟩

/-- non-vacuity of the seam hypothesis `hlink` of `pedigree_vcf_mendelian_input_gt` on the same example -/
example (tag : WhVerif.C04.Tag) : ∀ r ∈ (exStage tag).records, ∀ c, c < (exStage tag).I.ncols →
    r.pos = posAt (exStage tag).pos c → ∀ ind, ind < (exStage tag).I.nind → ∀ call g,
    WhVerif.C04.clookup r.calls ((exStage tag).names.getD ind "") = some call →
    trustedGeno (exStage tag).I ind c = some g → WhVerif.C04.gcode call.gt = genoAlleles g := exStage_link tag

/-! ### several chromosomes in one `--ped` run (round 10, seed C05-i)

`run_whatshap` drives reader → solver → writer once per chromosome; the writer's duplicate-position tracker `prev_pos` is a
local of one `PhasedVcfWriter.write` call, so a run is the per-chromosome pipeline mapped over the chromosomes
(`WhVerif.Props.C09.write_file_chromosome_local` is this statement for the writer alone; `carried_prev_pos_witness` shows
what a carried `prev_pos` does to chrA 100,200,300 / chrB 300,400,500). -/

/-- a `--ped` run over the chromosomes `Ss` (in file order): `none` if the pipeline of one of them fails -/
def pipelineRun (Ss : List Stage) : Option (List (List WhVerif.C09.Row)) := Ss.mapM pipeline

/-- **pipeline_run_chromosome_local**: what a run over `pre ++ S :: post` puts out for chromosome `S` is what the pipeline puts
out for `S` alone (the pedigree-level form of `C09.write_file_chromosome_local`) -/
theorem pipeline_run_chromosome_local (pre post : List Stage) (S : Stage) :
    ∀ out, pipelineRun (pre ++ S :: post) = some out →
      ∃ rows, pipeline S = some rows ∧ out[pre.length]? = some rows := by
  induction pre with
  | nil =>
    intro out h
    simp only [pipelineRun, List.nil_append, List.mapM_cons] at h
    cases hp : pipeline S with
    | none => simp [hp] at h
    | some rows =>
      cases hq : post.mapM pipeline with
      | none => simp [hp, hq] at h
      | some rest =>
        simp [hp, hq] at h
        exact ⟨rows, rfl, by subst h; simp⟩
  | cons P pre ih =>
    intro out h
    simp only [pipelineRun, List.cons_append, List.mapM_cons] at h
    cases hp : pipeline P with
    | none => simp [hp] at h
    | some r0 =>
      cases hq : (pre ++ S :: post).mapM pipeline with
      | none => simp [hp, hq] at h
      | some rest =>
        simp [hp, hq] at h
        obtain ⟨rows, h1, h2⟩ := ih rest hq
        exact ⟨rows, h1, by subst h; simpa using h2⟩

/-- **pedigree_vcf_phased_every_chromosome**: in a run over several chromosomes the conclusion of `pedigree_vcf_phased`
holds on EACH chromosome `S`, whatever the chromosomes `pre` written before it and `post` after it are — no hypothesis
relates their positions to those of `S` (the last phased POS of `pre` may be the first phased POS of `S`): a column
with a definite `0|1` / `1|0` super-read entry whose position has a component is phased, with exactly that pair, in the
rows of that chromosome in the run's output -/
theorem pedigree_vcf_phased_every_chromosome (pre post : List Stage) (S : Stage) (hwf : WF S.I) (hin : PedPipelineOk S)
    (β : List Bool) (τ : List Nat) (hw : witness S.I = some (β, τ)) (comps : List (Nat × Nat))
    (hcomps : components S = .ok comps) (ind : Nat) (hind : ind < S.I.nind) (c : Nat) (hc : c < S.I.ncols)
    (hent : colEntry S.I β τ c ind = (0, 1) ∨ colEntry S.I β τ c ind = (1, 0))
    (mc : Nat) (hmc : WhVerif.C03.compOf comps (posAt S.pos c) = some mc)
    (out : List (List WhVerif.C09.Row)) (hrun : pipelineRun (pre ++ S :: post) = some out) :
    ∃ rows, out[pre.length]? = some rows ∧ pipeline S = some rows ∧
      ∀ row ∈ rows, row.pos = posAt S.pos c → ∀ j, S.header[j]? = some (S.names.getD ind "") →
        samplePhase row j =
          some ⟨some ((mc : Int) + 1), [some (colEntry S.I β τ c ind).1, some (colEntry S.I β τ c ind).2]⟩ := by
  obtain ⟨rows, h1, h2⟩ := pipeline_run_chromosome_local pre post S out hrun
  obtain ⟨rows', h1', h3⟩ := pedigree_vcf_phased S hwf hin β τ hw comps hcomps ind hind c hc hent mc hmc
  rw [h1] at h1'
  cases h1'
  exact ⟨rows, h2, h1, h3⟩

/-- non-vacuity: a run over two chromosomes (the trio `exStage` twice): the run succeeds and both chromosomes carry the
phase of the single-chromosome pipeline.  (An instance with chrA 1000,2000,3000 / chrB 3000,4000,5000 at the pedigree
level is the corpus case `14_cli_two_chromosomes_last_phased_pos_equals_first`; the Lean instance with coinciding
coordinates is C09's `exChainGroups`.) -/
example (tag : WhVerif.C04.Tag) :
    (pipelineRun [exStage tag, exStage tag]).map (·.map (·.map rowPhases)) =
      some (List.replicate 2
        [(100, [some ⟨some 101, [some 1, some 0]⟩, some ⟨some 101, [some 0, some 1]⟩, none, none]),
         (200, [some ⟨some 101, [some 1, some 0]⟩, some ⟨some 101, [some 0, some 1]⟩,
                some ⟨some 101, [some 1, some 0]⟩, none])]) := by
  have h := exPipeline tag
  cases hp : pipeline (exStage tag) with
  | none => simp [hp] at h
  | some rows =>
    simp [hp] at h
    simp [pipelineRun, List.mapM_cons, hp, h, List.replicate]

end WhVerif.Props.C05

/-! ## genotype likelihoods (`--distrust-genotypes`) and arbitrary recombination costs

Which clauses of C05 survive when the hard genotype constraint is replaced by phred likelihood costs
(`Model/C05Lik.lean`: every allele assignment is a candidate, its cost is the sum of the members' genotype costs), and
for which recombination costs the statements hold (all: `I.recomb` is an arbitrary vector in every solver-level theorem
of this file, old and new; `Model/C05Recomb.lean` models the vector `phase.py` actually computes). -/
namespace WhVerif.Props.C05
open WhVerif.C05 WhVerif.C05.L

/-- **column level, trusted genotypes, tie flags included**: in what `get_alleles` returns, the child's entry on haplotype
0 IS the father's entry on the haplotype selected by transmission bit `2k` — the same allele or the same tie flag 3 — and
its entry on haplotype 1 is the mother's selected by bit `2k+1`; any pedigree, any transmission value, any read costs
(`mendel_ordered` is the statement about single assignments, `pedigree_output_mendelian` its `≠ 3` form on the solver) -/
theorem child_entry_is_parent_entry (ped : Ped) (t : Nat) (gts : List Gt) (cp : PartCosts) (res : List (Nat × Nat))
    (h : getAlleles ped t gts cp = some res) (c k f m c' : Nat)
    (hk : tripleIndex ped c = some k) (htr : ped.triples[k]? = some (f, m, c'))
    (hc : c < ped.size) (hf : f < ped.size) (hm : m < ped.size) :
    ∃ ec ef em, res[c]? = some ec ∧ res[f]? = some ef ∧ res[m]? = some em ∧
      ec.1 = (if t.testBit (2 * k) then ef.1 else ef.2) ∧
      ec.2 = (if t.testBit (2 * k + 1) then em.1 else em.2) ∧
      (ec.1 = 3 ∨ ec.1 ≤ 1) ∧ (ec.2 = 3 ∨ ec.2 ≤ 1) := by
  obtain ⟨best, hbest, hres⟩ := getAlleles_spec h
  obtain ⟨a0, a1, _, hia, _, _⟩ := compatible_at (mem_admissible.mp hbest).2 hc
  have hpc : (hapToPartition ped t c).isSome = true := by
    unfold indivAlleles at hia
    cases hp : hapToPartition ped t c with
    | none => rw [hp] at hia; cases hia
    | some _ => rfl
  exact result_child_entry ped t _ _ best res hres c k f m c' hk htr hc hf hm hpc

/-- non-vacuity: all three members 0/1, transmission value 0 (second haplotypes).  Without reads every entry is a tie
flag — the child's as well as the selected parental ones; with a REF read on the father's first haplotype everything is
definite and the child `1|0` carries the father's second and the mother's second allele -/
example : getAlleles ⟨3, [(0, 1, 2)]⟩ 0 [[1, 0], [1, 0], [1, 0]] [] = some [(3, 3), (3, 3), (3, 3)] ∧
    getAlleles ⟨3, [(0, 1, 2)]⟩ 0 [[1, 0], [1, 0], [1, 0]] [(0, 9), (0, 0), (0, 0), (0, 0)]
      = some [(0, 1), (1, 0), (1, 0)] := by decide

/-- **likelihood variant, every candidate assignment**: whatever allele assignment a column's solution uses — with
likelihoods every bit vector is a candidate of finite cost — the child's allele pair is (allele of the father's
haplotype selected by bit `2k`, allele of the mother's haplotype selected by bit `2k+1`); no genotype hypothesis at all -/
theorem lik_every_assignment_transmits (ped : Ped) (t asg : Nat) (c k f m c' : Nat)
    (hk : tripleIndex ped c = some k) (htr : ped.triples[k]? = some (f, m, c'))
    (ca : Nat × Nat) (hca : indivAlleles ped t asg c = some ca) :
    ∃ fa ma, indivAlleles ped t asg f = some fa ∧ indivAlleles ped t asg m = some ma ∧
      ca.1 = (if t.testBit (2 * k) then fa.1 else fa.2) ∧ ca.2 = (if t.testBit (2 * k + 1) then ma.1 else ma.2) ∧
      ca.1 ≤ 1 ∧ ca.2 ≤ 1 := by
  obtain ⟨fa, ma, hfa, hma, h0, h1⟩ := indivAlleles_child ped t asg c k f m c' hk htr ca hca
  refine ⟨fa, ma, hfa, hma, h0, h1, ?_, ?_⟩
  · unfold indivAlleles at hca
    cases hp : hapToPartition ped t c with
    | none => rw [hp] at hca; cases hca
    | some p => rw [hp] at hca; cases hca; exact alleleOf_le _ _
  · unfold indivAlleles at hca
    cases hp : hapToPartition ped t c with
    | none => rw [hp] at hca; cases hca
    | some p => rw [hp] at hca; cases hca; exact alleleOf_le _ _

example : indivAlleles ⟨3, [(0, 1, 2)]⟩ 1 0b0110 2 = some (0, 0) ∧ indivAlleles ⟨3, [(0, 1, 2)]⟩ 1 0b0110 0 = some (0, 1)
    ∧ indivAlleles ⟨3, [(0, 1, 2)]⟩ 1 0b0110 1 = some (1, 0) := by decide

/-- **likelihood variant, `get_alleles`**: the result exists for every well-formed column (no "Mendelian conflict"
exception can arise from the column), and the child's entry on haplotype 0 IS the father's entry on the haplotype
selected by bit `2k` (allele or tie flag), on haplotype 1 the mother's selected by bit `2k+1` — any pedigree, any
likelihoods, any read costs, any transmission value -/
theorem lik_child_entry_is_parent_entry (ped : Ped) (t : Nat) (gls : List Gl) (cp : PartCosts)
    (res : List (Nat × Nat)) (h : getAllelesLik ped t gls cp = some res) (c k f m c' : Nat)
    (hk : tripleIndex ped c = some k) (htr : ped.triples[k]? = some (f, m, c'))
    (hc : c < ped.size) (hf : f < ped.size) (hm : m < ped.size) :
    ∃ ec ef em, res[c]? = some ec ∧ res[f]? = some ef ∧ res[m]? = some em ∧
      ec.1 = (if t.testBit (2 * k) then ef.1 else ef.2) ∧
      ec.2 = (if t.testBit (2 * k + 1) then em.1 else em.2) ∧
      (ec.1 = 3 ∨ ec.1 ≤ 1) ∧ (ec.2 = 3 ∨ ec.2 ≤ 1) := by
  obtain ⟨best, hbest, hres⟩ := getAllelesLik_spec h
  exact result_child_entry ped t _ _ best res hres c k f m c' hk htr hc hf hm (assignmentsLik_indiv hbest c hc)

/-- `get_alleles` with likelihoods never raises: three likelihoods per member and a terminating partition recursion -/
theorem lik_get_alleles_defined (ped : Ped) (t : Nat) (gls : List Gl) (cp : PartCosts)
    (hp : ∀ i, i < ped.size → (hapToPartition ped t i).isSome = true)
    (hg : ∀ i, i < ped.size → ∃ gl, gls[i]? = some gl ∧ 3 ≤ gl.length) :
    ∃ res, getAllelesLik ped t gls cp = some res :=
  getAllelesLik_isSome ped t gls cp hp hg

/-- non-vacuity (both theorems): the called genotypes are father 0/0, mother 0/1, child 1/1 — a Mendelian CONFLICT, which
the trusted variant refuses — with likelihoods 0 at the call and 30 elsewhere and an ALT read (weight 40) on the father's
first haplotype; transmission value 0.  The solver settles on father 1/1, and the child's paternal entry equals the
father's entry on the selected (second) haplotype.  Second case: the read sits on the father's second haplotype instead;
his first haplotype is a tie, the child's entries are still the selected parental ones -/
example : getAlleles ⟨3, [(0, 1, 2)]⟩ 0 [[0, 0], [1, 0], [1, 1]] [(40, 0), (0, 0), (0, 0), (0, 0)] = none ∧
    getAllelesLik ⟨3, [(0, 1, 2)]⟩ 0 [[0, 30, 30], [30, 0, 30], [30, 30, 0]] [(40, 0), (0, 0), (0, 0), (0, 0)]
      = some [(1, 1), (0, 1), (1, 1)] ∧
    getAllelesLik ⟨3, [(0, 1, 2)]⟩ 0 [[0, 30, 30], [30, 0, 30], [30, 30, 0]] [(0, 0), (40, 0), (0, 0), (0, 9)]
      = some [(3, 1), (0, 1), (1, 1)] := by decide

/-- **no Mendelian conflict among the OUTPUT genotypes** (likelihood variant; the writer replaces a call's genotype by
`{a0, a1}` when both super-read alleles are definite): if the six entries of a trio in a column are definite, the
genotypes written for father, mother and child pass `mendelian_conflict` — whatever the input genotypes were -/
theorem lik_output_genotypes_mendelian (ped : Ped) (t : Nat) (gls : List Gl) (cp : PartCosts)
    (res : List (Nat × Nat)) (h : getAllelesLik ped t gls cp = some res) (c k f m c' : Nat)
    (hk : tripleIndex ped c = some k) (htr : ped.triples[k]? = some (f, m, c'))
    (hc : c < ped.size) (hf : f < ped.size) (hm : m < ped.size)
    (ec ef em : Nat × Nat) (hec : res[c]? = some ec) (hef : res[f]? = some ef) (hem : res[m]? = some em)
    (dc : ec.1 ≤ 1 ∧ ec.2 ≤ 1) (df : ef.1 ≤ 1 ∧ ef.2 ≤ 1) (dm : em.1 ≤ 1 ∧ em.2 ≤ 1) (gic gif gim : Gt) :
    mendelianConflict (outputGt gim em) (outputGt gif ef) (outputGt gic ec) = some false ∧
      ec.1 ∈ outputGt gif ef ∧ ec.2 ∈ outputGt gim em := by
  obtain ⟨ec', ef', em', h1, h2, h3, e0, e1, _, _⟩ :=
    lik_child_entry_is_parent_entry ped t gls cp res h c k f m c' hk htr hc hf hm
  rw [hec] at h1; rw [hef] at h2; rw [hem] at h3
  cases h1; cases h2; cases h3
  have a0 : ec.1 = ef.1 ∨ ec.1 = ef.2 := by rw [e0]; split <;> simp
  have a1 : ec.2 = em.1 ∨ ec.2 = em.2 := by rw [e1]; split <;> simp
  refine ⟨outputGt_no_conflict gic gif gim ec ef em dc df dm a0 a1, ?_, ?_⟩
  · have : outputGt gif ef = mkGt2 ef.1 ef.2 := by unfold outputGt; simp [df.1, df.2]
    rw [this]
    rcases a0 with e | e <;> rw [e]
    · exact mem_mkGt2_left _ _
    · exact mem_mkGt2_right _ _
  · have : outputGt gim em = mkGt2 em.1 em.2 := by unfold outputGt; simp [dm.1, dm.2]
    rw [this]
    rcases a1 with e | e <;> rw [e]
    · exact mem_mkGt2_left _ _
    · exact mem_mkGt2_right _ _

/-- non-vacuity: the conflicting input above; output genotypes father 1/1, mother 0/1, child 1/1 -/
example : (outputGt [0, 0] (1, 1), outputGt [1, 0] (0, 1), outputGt [1, 1] (1, 1)) = ([1, 1], [1, 0], [1, 1]) ∧
    mendelianConflict [1, 0] [1, 1] [1, 1] = some false ∧ mendelianConflict [1, 0] [0, 0] [1, 1] = some true := by decide

/-- the definiteness hypothesis of `lik_output_genotypes_mendelian` is needed — **a tie flag on a parent's untransmitted
haplotype leaves the parent's INPUT genotype in the output while the child's genotype is rewritten**: father called 1/1
with likelihoods `[40, 30, 0]`, REF evidence of weight 90 on his first haplotype (his own read and/or the child's: the
child's paternal haplotype is the same partition under transmission value 3) and of weight 10 on his second; mother 0/0,
child called 0/1 with likelihoods `[0, 30, 30]`.  `get_alleles`: father `(0, tie)`, mother `0|0`, child `0|0` ⇒ the writer
keeps father 1/1 and rewrites the child to 0/0: a Mendelian conflict in the OUTPUT genotypes.  (Outside the property
text, which is about trusted genotypes; observation in notes/C05.md.) -/
example :
    getAllelesLik ⟨3, [(0, 1, 2)]⟩ 3 [[40, 30, 0], [0, 30, 40], [0, 30, 30]] [(0, 90), (0, 10), (0, 0), (0, 0)]
      = some [(0, 3), (0, 0), (0, 0)] ∧
    (outputGt [1, 1] (0, 3), outputGt [0, 0] (0, 0), outputGt [1, 0] (0, 0)) = ([1, 1], [0, 0], [0, 0]) ∧
    mendelianConflict [0, 0] [1, 1] [0, 0] = some true := by decide

end WhVerif.Props.C05

/-! ### the same on the SOLVER model: any genotype costs, any recombination costs -/
namespace WhVerif.Props.C05
open WhVerif.C01 WhVerif.C05.Solver WhVerif.C05P

/-- **solver level, ANY genotype cost table (trusted, phred likelihoods, mixed) and ANY recombination cost vector**:
`WF`, `PedOK`, the solver returned `(β, τ)`.  In every column `c` the super-read entries `L` = `get_alleles` under the
witness exist, and for every trio `(f, m, ch)` = `trios[k]`: the child's entry on haplotype 0 EQUALS the father's entry on
the haplotype selected by transmission bit `2k` of `τ_c` — the same allele or the same tie flag —, its entry on haplotype 1
equals the mother's selected by bit `2k+1`; entries are 0, 1 or 3; an entry without tie flag is the allele EVERY
cost-optimal assignment of the column (one exists) puts on that haplotype.  `pedigree_output_mendelian` is the special
case of trusted genotypes (which adds: the alleles are alleles of the INPUT genotypes). -/
theorem pedigree_output_mendelian_any_costs (I : Inst) (hwf : WF I) (hok : PedOK I) (β : List Bool) (τ : List Nat)
    (hw : witness I = some (β, τ)) (k f m ch : Nat) (htr : I.trios[k]? = some (f, m, ch))
    (c : Nat) (hc : c < I.ncols) :
    ∃ L, getAlleles I c (restrict β (I.activeAt c)) (τ.getD c 0) = some L ∧ L.length = I.nind ∧
      reported L ch 0 = reported L f (selHap (τ.getD c 0) (2 * k)) ∧
      reported L ch 1 = reported L m (selHap (τ.getD c 0) (2 * k + 1)) ∧
      (∀ ind h, ind < I.nind → (h = 0 ∨ h = 1) → reported L ind h = 0 ∨ reported L ind h = 1 ∨ reported L ind h = 3) ∧
      (∀ ag, IsOptAssign I c (restrict β (I.activeAt c)) (τ.getD c 0) ag → ∀ ind h, ind < I.nind → (h = 0 ∨ h = 1) →
        reported L ind h ≠ 3 → bitOf ag.1 (h2p I (τ.getD c 0) ind h) = reported L ind h) ∧
      (∃ ag, IsOptAssign I c (restrict β (I.activeAt c)) (τ.getD c 0) ag) :=
  column_transmitted I hwf hok β τ hw k f m ch htr c hc

/-- **no Mendelian conflict among the output genotypes, solver level**: same setting; if the six super-read alleles of
the trio in column `c` carry no tie flag, then the child's first allele is one of the father's two, its second one of the
mother's two, and the genotypes `{a0, a1}` the writer puts into the VCF for father, mother and child pass
`mendelian_conflict` — with likelihood costs the input genotypes may well have been in conflict. -/
theorem pedigree_output_genotypes_mendelian (I : Inst) (hwf : WF I) (hok : PedOK I) (β : List Bool) (τ : List Nat)
    (hw : witness I = some (β, τ)) (k f m ch : Nat) (htr : I.trios[k]? = some (f, m, ch))
    (c : Nat) (hc : c < I.ncols) :
    ∃ L, getAlleles I c (restrict β (I.activeAt c)) (τ.getD c 0) = some L ∧
      ((∀ h, (h = 0 ∨ h = 1) → reported L ch h ≠ 3 ∧ reported L f h ≠ 3 ∧ reported L m h ≠ 3) →
        (reported L ch 0 = reported L f 0 ∨ reported L ch 0 = reported L f 1) ∧
        (reported L ch 1 = reported L m 0 ∨ reported L ch 1 = reported L m 1) ∧
        WhVerif.C05.mendelianConflict
          (WhVerif.C05.outputGt [] (reported L m 0, reported L m 1))
          (WhVerif.C05.outputGt [] (reported L f 0, reported L f 1))
          (WhVerif.C05.outputGt [] (reported L ch 0, reported L ch 1)) = some false) := by
  obtain ⟨L, hL, _, e0, e1, hr, _, _⟩ := column_transmitted I hwf hok β τ hw k f m ch htr c hc
  refine ⟨L, hL, ?_⟩
  intro hdef
  obtain ⟨hfi, hmi, hci⟩ := hok.members _ (List.mem_of_getElem? htr)
  simp only at hfi hmi hci
  have le1 : ∀ ind h, ind < I.nind → (h = 0 ∨ h = 1) → reported L ind h ≠ 3 → reported L ind h ≤ 1 := by
    intro ind h hi hh h3
    rcases hr ind h hi hh with e | e | e
    · omega
    · omega
    · exact absurd e h3
  have a0 : reported L ch 0 = reported L f 0 ∨ reported L ch 0 = reported L f 1 := by
    rw [e0]; rcases selHap_cases (τ.getD c 0) (2 * k) with e | e <;> rw [e] <;> simp
  have a1 : reported L ch 1 = reported L m 0 ∨ reported L ch 1 = reported L m 1 := by
    rw [e1]; rcases selHap_cases (τ.getD c 0) (2 * k + 1) with e | e <;> rw [e] <;> simp
  have d0 := hdef 0 (Or.inl rfl)
  have d1 := hdef 1 (Or.inr rfl)
  exact ⟨a0, a1, WhVerif.C05.L.outputGt_no_conflict [] [] [] _ _ _
    ⟨le1 ch 0 hci (Or.inl rfl) d0.1, le1 ch 1 hci (Or.inr rfl) d1.1⟩
    ⟨le1 f 0 hfi (Or.inl rfl) d0.2.1, le1 f 1 hfi (Or.inr rfl) d1.2.1⟩
    ⟨le1 m 0 hmi (Or.inl rfl) d0.2.2, le1 m 1 hmi (Or.inr rfl) d1.2.2⟩ a0 a1⟩

/-- non-vacuity of both: a trio with phred likelihoods everywhere (`geno` all `some`), called genotypes in column 0 are
father 0/0, mother 0/1, child 1/1 — a Mendelian conflict —, one read of the father (ALT, weight 40, then REF) and one of
the child; recombination costs `[0, 4]`.  The solver returns a witness (cost 30); in column 0 it makes the father 1|1 and
the child 1|1, in column 1 father 0|0, mother 0|1, child 0|1: all entries definite, output genotypes conflict-free -/
def exLik : Inst :=
  { ncols := 2
    reads := [ { ind := 0, first := 0, last := 1, entries := [(0, 1, 40), (1, 0, 9)] },
               { ind := 2, first := 0, last := 1, entries := [(0, 1, 7), (1, 1, 5)] } ]
    nind := 3
    trios := [(0, 1, 2)]
    geno := [ [[some 0, some 30, some 30], [some 0, some 3, some 30]],
              [[some 30, some 0, some 30], [some 30, some 0, some 30]],
              [[some 30, some 30, some 0], [some 30, some 0, some 30]] ]
    recomb := [0, 4] }

example : WF exLik ∧ PedOK exLik ∧ witness exLik = some ([false, true], [0, 0]) ∧ dpCost exLik = some 30 ∧
    solverColumns exLik = some [[(1, 1), (0, 1), (1, 1)], [(0, 0), (0, 1), (0, 1)]] := by
  refine ⟨⟨?_⟩, pedOK_trio exLik 0 1 2 rfl (by decide) (by decide) (by decide) (by decide) (by decide),
    by decide +kernel, by decide +kernel, by decide +kernel⟩
  intro r1 r2 h1 h2
  have hall : ∀ r2, r2 < 2 → ∀ r1, r1 ≤ r2 → (exLik.read r1).first ≤ (exLik.read r2).first := by decide
  exact hall r2 h2 r1 h1

end WhVerif.Props.C05

/-! ## the recombination cost vector (`Model/C05Recomb.lean`)

Every solver-level theorem above quantifies over an arbitrary `I.recomb`.  What follows is about the vector `phase.py`
computes.  Float stage (`floatOps`): compared with `/repo` bit for bit by the check, not reasoned about.  Integer stage:
proved for every arithmetic, respectively every `Lawful` one (`<` a strict weak order, the rounded phred value antitone
in the distance — tested on the float instance by the check). -/
namespace WhVerif.Props.C05
open WhVerif.C05.Recomb

/-- both cost computers return `max(1, len(positions))` entries, the first is 0 (the solver never reads it) — any
arithmetic, any genetic map / rate, whenever no exception is raised -/
theorem recomb_vector_shape {α : Type} (A : Ops α) (positions : List Int) (r : List Int) :
    (∀ gm, recombinationCostMap A gm positions = .ok r → r.length = max 1 positions.length ∧ r[0]? = some 0) ∧
    (∀ rate, uniformRecombinationMap A rate positions = .ok r → r.length = max 1 positions.length ∧ r[0]? = some 0) :=
  ⟨fun gm h => recombinationCostMap_shape A gm positions r h,
   fun rate h => let ⟨h1, h2, _⟩ := uniformRecombinationMap_spec A rate positions r h; ⟨h1, h2⟩⟩

/-- **uniform map formula**: entry `i+1` is `round(centimorgen_to_phred((positions[i+1] - positions[i]) · 1e-6 · rate))`;
it depends on the difference of the two positions only, so shifting all positions changes nothing (exceptions included) -/
theorem uniform_map_formula {α : Type} (A : Ops α) (rate : α) (positions : List Int) :
    (∀ r, uniformRecombinationMap A rate positions = .ok r →
      ∀ i p q, positions[i]? = some p → positions[i + 1]? = some q →
        ∃ k, r[i + 1]? = some k ∧ A.phredRound (A.mul (A.mul (A.ofInt (q - p)) A.micro) rate) = .ok k) ∧
    (∀ s : Int, uniformRecombinationMap A rate (positions.map (· + s)) = uniformRecombinationMap A rate positions) :=
  ⟨fun r h => (uniformRecombinationMap_spec A rate positions r h).2.2,
   fun s => uniformRecombinationMap_shift A rate positions s⟩

/-- **genetic-map costs: clamp, cap, monotone**.  Entry `i+1` is the rounded phred value of
`max(cum[i+1] - cum[i], 1e-10)`.  In a lawful arithmetic with `cap = round(centimorgen_to_phred(1e-10))`: every entry is
`≤ cap`; a genetic distance below `1e-10` — zero (`cum[i+1] = cum[i]`) or negative (a decreasing map) — costs exactly
`cap`; and of two intervals the one with the larger genetic distance never costs more. -/
theorem recomb_cost_capped_and_antitone {α : Type} (A : Ops α) (hA : Lawful A) (cap : Int)
    (hcap : A.phredRound A.minDist = .ok cap) (cum : List α) (r : List Int) (h : costsFromCum A cum = .ok r) :
    (∀ i a b, cum[i]? = some a → cum[i + 1]? = some b → ∃ k, r[i + 1]? = some k ∧ k ≤ cap ∧
      (A.lt (A.sub b a) A.minDist = true → k = cap)) ∧
    (∀ i j a b a' b' k k', cum[i]? = some a → cum[i + 1]? = some b → cum[j]? = some a' → cum[j + 1]? = some b' →
      r[i + 1]? = some k → r[j + 1]? = some k' → A.le (A.sub b a) (A.sub b' a') → k' ≤ k) := by
  obtain ⟨_, _, hent⟩ := costsFromCum_spec A cum r h
  constructor
  · intro i a b ha hb
    obtain ⟨k, hk, hp⟩ := hent i a b ha hb
    obtain ⟨h1, h2⟩ := clamped_cost_le_cap A hA cap hcap _ k hp
    exact ⟨k, hk, h1, h2⟩
  · intro i j a b a' b' k k' ha hb ha' hb' hk hk' hle
    obtain ⟨k1, hk1, hp1⟩ := hent i a b ha hb
    obtain ⟨k2, hk2, hp2⟩ := hent j a' b' ha' hb'
    rw [hk] at hk1; rw [hk'] at hk2; cases hk1; cases hk2
    exact clamped_cost_antitone A hA _ _ hle k k' hp1 hp2

/-- zero genetic distance costs the cap (lawful arithmetic with `x - x < 1e-10`) -/
theorem recomb_zero_distance_costs_cap {α : Type} (A : Ops α) (hA : LawfulArith A) (cap : Int)
    (hcap : A.phredRound A.minDist = .ok cap) (cum : List α) (r : List Int) (h : costsFromCum A cum = .ok r)
    (i : Nat) (a : α) (ha : cum[i]? = some a) (hb : cum[i + 1]? = some a) : r[i + 1]? = some cap := by
  obtain ⟨k, hk, _, hz⟩ := (recomb_cost_capped_and_antitone A hA.toLawful cap hcap cum r h).1 i a a ha hb
  rw [hk, hz (hA.sub_self_lt_min a)]

/-- uniform map in a lawful arithmetic, non-negative rate: the larger the physical distance the smaller (or equal) the
cost -/
theorem uniform_cost_antitone_in_distance {α : Type} (A : Ops α) (hA : LawfulArith A) (rate : α)
    (hr : A.le (A.ofInt 0) rate) (hmicro : A.le (A.ofInt 0) A.micro) (d d' : Int) (h : d ≤ d') (k k' : Int)
    (hk : A.phredRound (A.mul (A.mul (A.ofInt d) A.micro) rate) = .ok k)
    (hk' : A.phredRound (A.mul (A.mul (A.ofInt d') A.micro) rate) = .ok k') : k' ≤ k :=
  uniform_cost_antitone A hA rate hr hmicro d d' h k k' hk hk'

/-- non-vacuity: the integer instance `intOps` (`cost(d) = 121 - min(d, 118)`, `minDist = 1`) is lawful; a map with a flat
second half: the intervals inside the flat part cost the cap 120 -/
example : LawfulArith intOps ∧ intOps.phredRound intOps.minDist = .ok 120 ∧
    cumulativeDistances intOps #[⟨0, 0⟩, ⟨100, 50⟩, ⟨200, 50⟩] [10, 30, 120, 180, 300] = .ok [5, 15, 50, 50, 50] ∧
    recombinationCostMap intOps #[⟨0, 0⟩, ⟨100, 50⟩, ⟨200, 50⟩] [10, 30, 120, 180, 300] = .ok [0, 111, 86, 120, 120] ∧
    uniformRecombinationMap intOps 2 [10, 13, 40, 400] = .ok [0, 115, 67, 3] ∧
    uniformRecombinationMap intOps 2 [10, 10] = .error "ValueError" :=
  ⟨intOps_lawful, rfl, rfl, rfl, rfl, rfl⟩

end WhVerif.Props.C05

/-! ## the seam "constraint table ↔ input VCF", narrowed (`Model/C05Table.lean`)

`pedigree_vcf_mendelian_input_gt` assumes `hlink`: the solver's trusted genotype of a member in column `c` is the member's
call in the input record at that column's position.  The stage that produces the constraint table — `find_phaseable_variants`
(missing genotypes, `mendelian_conflict`, homozygous variants), `subset_rows_by_position(accessible_positions)` with its
assertion, `create_pedigree` → `Pedigree.add_individual(genotypes_of(sample))`, the column cost computer's genotype test —
is now modelled (`constraintTable`) and `hlink` is PROVED from it; what remains assumed is the VCF reader alone
(`hreader`: the VariantTable's genotype of a member at a variant has the alleles of the record's call). -/
namespace WhVerif.Props.C05
open WhVerif.C01 WhVerif.C05.Solver WhVerif.C05P WhVerif.C05 WhVerif.C05.L
open WhVerif.C02P (posAt biallelic)

/-- `subset_rows_by_position` + assertion: with strictly increasing variant positions and accessible positions the kept
rows are exactly the accessible positions in order, and every kept row passed `find_phaseable_variants` (no missing
genotype, no Mendelian conflict in any trio, heterozygous in some member unless `include_homozygous`) -/
theorem constraint_rows_are_accessible_positions (tab : GtTable) (trios : List (Nat × Nat × Nat)) (incl : Bool)
    (varPos acc rows : List Nat) (hpos : varPos.Pairwise (· < ·)) (hnv : varPos.length = nVariants tab)
    (hacc : acc.Pairwise (· < ·))
    (h : subsetRows varPos (findPhaseableVariants tab trios incl).2 acc = some rows) :
    rows.map (varPos.getD · 0) = acc ∧
    ∀ i ∈ rows, missingAt tab i = false ∧ conflictAt tab trios i = false ∧ (incl = true ∨ hetAt tab i = true) := by
  have hkeep : (findPhaseableVariants tab trios incl).2.Pairwise (· < ·) := by
    unfold findPhaseableVariants
    exact List.Pairwise.filter _ List.pairwise_lt_range
  have hk : ∀ i ∈ (findPhaseableVariants tab trios incl).2, i < varPos.length := by
    intro i hi; rw [hnv]; exact (mem_keep.mp hi).1
  obtain ⟨h1, h2⟩ := subsetRows_positions varPos _ acc rows hkeep hk hpos hacc h
  refine ⟨h1, fun i hi => ?_⟩
  have hr := (mem_keep.mp (h2 i hi)).2
  obtain ⟨hm, hc⟩ := retained_spec hr
  refine ⟨hm, hc, ?_⟩
  unfold retained at hr
  simp only [Bool.and_eq_true, Bool.or_eq_true] at hr
  exact hr.1.1

/-- **end to end against the INPUT records, seam narrowed to the VCF reader**: as `pedigree_vcf_mendelian_input_gt`, with
`hlink` replaced by: the instance's constraint table is `buildGeno tab rows` for the rows `subset_rows_by_position` keeps of
the phasable variants of the family's genotype table `tab` (variant positions `varPos` strictly increasing; `S.pos` are the
accessible positions), and `hreader`: `tab`'s genotype of member `ind` at variant `i` has the alleles of the call of
`names[ind]` in the record at `varPos[i]`. -/
theorem pedigree_vcf_mendelian_input_table (S : Stage) (hwf : WF S.I) (hok : PedOK S.I) (htrust : Trusted S.I)
    (hin : PedPipelineOk S) (β : List Bool) (τ : List Nat) (hw : witness S.I = some (β, τ))
    (comps : List (Nat × Nat)) (hcomps : components S = .ok comps)
    (k f m ch : Nat) (htr : S.I.trios[k]? = some (f, m, ch))
    (tab : GtTable) (ftrios : List (Nat × Nat × Nat)) (incl : Bool) (varPos rows : List Nat)
    (hpos : varPos.Pairwise (· < ·)) (hnv : varPos.length = nVariants tab)
    (hsub : subsetRows varPos (findPhaseableVariants tab ftrios incl).2 S.pos = some rows)
    (hgeno : S.I.geno = buildGeno tab rows)
    (hreader : ∀ r ∈ S.records, ∀ i, i < varPos.length → r.pos = varPos.getD i 0 → ∀ ind, ind < S.I.nind → ∀ call,
      WhVerif.C04.clookup r.calls (S.names.getD ind "") = some call →
      WhVerif.C04.gcode call.gt = WhVerif.C04.sortNat (gtAt tab ind i)) :
    ∃ rws, pipeline S = some rws ∧
      ∀ row ∈ rws, ∀ j ph, S.header[j]? = some (S.names.getD ch "") → samplePhase row j = some ph →
        ∃ a b, ph.alleles = [some a, some b] ∧
          ∀ r ∈ S.records, r.pos = row.pos → ∀ cf cm,
            WhVerif.C04.clookup r.calls (S.names.getD f "") = some cf →
            WhVerif.C04.clookup r.calls (S.names.getD m "") = some cm →
            a ∈ WhVerif.C04.gcode cf.gt ∧ b ∈ WhVerif.C04.gcode cm.gt :=
  pedigree_vcf_mendelian_input_gt S hwf hok htrust hin β τ hw comps hcomps k f m ch htr
    (hlink_of_table S hin tab ftrios incl varPos rows hpos hnv hsub hgeno hreader)

/-- non-vacuity: the family table behind `exPed` — three variants at 100, 150, 200; the one at 150 is a Mendelian conflict
(0/0 × 0/0 → 0/1) and is dropped by `find_phaseable_variants`; accessible positions 100 and 200 ⇒ rows `[0, 2]`, the
constraint table is exactly `exPed.geno`, and the table agrees with the calls of `exRecords` -/
def exTab : GtTable := [[[1, 0], [0, 0], [1, 0]], [[0, 0], [0, 0], [1, 0]], [[1, 0], [1, 0], [1, 0]]]

def exReaderOk (r : WhVerif.C04.Record) (i ind : Nat) : Bool :=
  match WhVerif.C04.clookup r.calls (["dad", "mom", "kid"].getD ind "") with
  | some call => WhVerif.C04.gcode call.gt == WhVerif.C04.sortNat (gtAt exTab ind i)
  | none => true

example (tag : WhVerif.C04.Tag) :
    constraintTable exTab [(0, 1, 2)] false [100, 150, 200] (exStage tag).pos = some ([0, 2], (exStage tag).I.geno) ∧
    [100, 150, 200].Pairwise (· < ·) ∧ [100, 150, 200].length = nVariants exTab ∧
    (∀ r ∈ (exStage tag).records, ∀ i, i < [100, 150, 200].length → r.pos = [100, 150, 200].getD i 0 →
      ∀ ind, ind < (exStage tag).I.nind → ∀ call,
      WhVerif.C04.clookup r.calls ((exStage tag).names.getD ind "") = some call →
      WhVerif.C04.gcode call.gt = WhVerif.C04.sortNat (gtAt exTab ind i)) := by
  have h0 : constraintTable exTab [(0, 1, 2)] false [100, 150, 200] [100, 200] = some ([0, 2], exPed.geno) := by decide
  refine ⟨h0, by decide, by decide, ?_⟩
  have hall : ∀ r ∈ exRecords, ∀ i, i < 3 → ∀ ind, ind < 3 → r.pos = [100, 150, 200].getD i 0 → exReaderOk r i ind = true := by
    decide +kernel
  intro r hr i hi hp ind hind call hcall
  have := hall r hr i hi ind hind hp
  have h1 : WhVerif.C04.clookup r.calls (["dad", "mom", "kid"].getD ind "") = some call := hcall
  unfold exReaderOk at this
  rw [h1] at this
  exact beq_iff_eq.mp this

end WhVerif.Props.C05

import WhVerif.Lemmas.C16
import WhVerif.Lemmas.C16UF
import WhVerif.Model.C16Select
import WhVerif.Model.C16Table
import WhVerif.Lemmas.C16Largest
import WhVerif.Props.C07
/-!
# C16 — results depend on the input only (the part that is logic)

Level "other": the runtime behaviour the property is about (CPython hash randomisation, worker scheduling,
compression threads) cannot be exhibited by an executable model; it is explored by the harness.  What is
proved here is that the places where the code re-establishes an order are insensitive to the order in which
the elements arrive: the result is a function of the *multiset* of elements.
-/
namespace WhVerif.Props.C16
open WhVerif.C16

/-- The read comparator `read_comparator_t` induces a total, transitive order whose ties agree on everything
the comparator looks at. -/
theorem read_order_total :
    (∀ a b, (readLe a b || readLe b a) = true) ∧
    (∀ a b c, readLe a b = true → readLe b c = true → readLe a c = true) ∧
    (∀ a b, readLe a b = true → readLe b a = true →
      a.hasVariants = b.hasVariants ∧ (a.hasVariants = true → a.firstPos = b.firstPos) ∧
      a.nameHash = b.nameHash ∧ a.name = b.name ∧ a.sourceId = b.sourceId) := by
  refine ⟨?_, ?_, ?_⟩
  · intro a b
    simp only [readLe, readLt_eq_codeLt]
    exact sto_code.le_total (code a) (code b)
  · intro a b c
    simp only [readLe, readLt_eq_codeLt]
    exact sto_code.le_trans (code a) (code b) (code c)
  · intro a b h1 h2
    simp only [readLe, readLt_eq_codeLt] at h1 h2
    have := sto_code.le_antisymm (code a) (code b) h1 h2
    simp only [code, Prod.mk.injEq] at this
    obtain ⟨hv, hp, hh, hn, hs⟩ := this
    refine ⟨hv, ?_, hh, hn, hs⟩
    intro hav
    have hbv : b.hasVariants = true := hv ▸ hav
    simpa [hav, hbv] using hp

/-- `ReadSet::sort` is a function of the set of reads: whatever order the reads were added in (any
permutation `l₂` of `l₁`), sorting yields the same sequence — provided no two reads share name and source id,
which `ReadSet::add` enforces. -/
theorem sort_order_independent {β} (l₁ l₂ : List (ReadKey × β)) (h : l₁.Perm l₂)
    (huniq : l₁.Pairwise (fun a b => ¬ (a.1.name = b.1.name ∧ a.1.sourceId = b.1.sourceId))) :
    sortReads l₁ = sortReads l₂ := by
  unfold sortReads
  apply mergeSort_eq_of_perm _ _ _ l₁ l₂ h
  · intro a b ha hb hab hba
    have hk := read_order_total.2.2 a.1 b.1 hab hba
    -- two list elements with the same name and source id are the same element
    by_cases hab' : a = b
    · exact hab'
    · exfalso
      rcases List.mem_iff_getElem.mp ha with ⟨i, hi, rfl⟩
      rcases List.mem_iff_getElem.mp hb with ⟨j, hj, rfl⟩
      have hij : i ≠ j := fun e => hab' (by subst e; rfl)
      rcases Nat.lt_or_gt_of_ne hij with hlt | hgt
      · exact (List.pairwise_iff_getElem.mp huniq i j hi hj hlt) ⟨hk.2.2.2.1, hk.2.2.2.2⟩
      · exact (List.pairwise_iff_getElem.mp huniq j i hj hi hgt) ⟨hk.2.2.2.1.symm, hk.2.2.2.2.symm⟩
  · intro a b c; exact read_order_total.2.1 a.1 b.1 c.1
  · intro a b; exact read_order_total.1 a.1 b.1

example : sortReads [(⟨true, 7, 5, [1], 0⟩, "x"), (⟨false, 9, 3, [2], 0⟩, "y")]
    = sortReads [(⟨false, 9, 3, [2], 0⟩, "y"), (⟨true, 7, 5, [1], 0⟩, "x")] :=
  sort_order_independent _ _ (List.Perm.swap _ _ []) (by decide)

/-- `solve_polyphase_instance`: the block results, re-sorted by block id, do not depend on the order in which the
workers delivered them (block ids are distinct). -/
theorem aggregate_sorted_by_block_id {β} (l₁ l₂ : List (Nat × β)) (h : l₁.Perm l₂)
    (hids : (l₁.map (·.1)).Nodup) : sortByBlockId l₁ = sortByBlockId l₂ := by
  unfold sortByBlockId
  apply mergeSort_eq_of_perm _ _ _ l₁ l₂ h
  · intro a b ha hb hab hba
    have e : a.1 = b.1 := by
      have h1 : a.1 ≤ b.1 := by simpa using hab
      have h2 : b.1 ≤ a.1 := by simpa using hba
      omega
    rcases List.mem_iff_getElem.mp ha with ⟨i, hi, rfl⟩
    rcases List.mem_iff_getElem.mp hb with ⟨j, hj, rfl⟩
    have hnd := List.pairwise_iff_getElem.mp hids
    by_cases hij : i = j
    · subst hij; rfl
    · exfalso
      rcases Nat.lt_or_gt_of_ne hij with hlt | hgt
      · exact hnd i j (by simpa using hi) (by simpa using hj) hlt (by simpa using e)
      · exact hnd j i (by simpa using hj) (by simpa using hi) hgt (by simpa using e.symm)
  · intro a b c hab hbc
    have h1 : a.1 ≤ b.1 := by simpa using hab
    have h2 : b.1 ≤ c.1 := by simpa using hbc
    simpa using Nat.le_trans h1 h2
  · intro a b
    have := Nat.le_total a.1 b.1
    simpa using this

example : sortByBlockId [(2, "c"), (0, "a")] = sortByBlockId [(0, "a"), (2, "c")] :=
  aggregate_sorted_by_block_id _ _ (List.Perm.swap _ _ []) (by decide)

/-- `sorted(a_set)`: two enumerations of the same set (duplicate-free lists with the same members, in whatever
order the hash table yields them) sort to the same list. -/
theorem sorted_set_enumeration_independent (l₁ l₂ : List (List Nat)) (h₁ : l₁.Nodup) (h₂ : l₂.Nodup)
    (hmem : ∀ x, x ∈ l₁ ↔ x ∈ l₂) : sortedNames l₁ = sortedNames l₂ := by
  unfold sortedNames
  apply mergeSort_eq_of_perm _ _ _ l₁ l₂ ((List.perm_ext_iff_of_nodup h₁ h₂).mpr hmem)
  · intro a b _ _ hab hba; exact sto_str.le_antisymm a b hab hba
  · intro a b c; exact sto_str.le_trans a b c
  · intro a b; exact sto_str.le_total a b

example : sortedNames [[99, 2], [97], [99, 1]] = sortedNames [[99, 1], [99, 2], [97]] :=
  sorted_set_enumeration_independent _ _ (by decide) (by decide) (by intro x; simp only [List.mem_cons, List.not_mem_nil, or_false]; constructor <;> (intro h; rcases h with h | h | h <;> simp [h]))

/-- The component finder (phase sets, families) answers with a function of the SET of merged pairs: any two
histories — merges in any order, finds (with their path compression) interleaved anywhere — that merged the same
pairs give the same representative for every element.  (From C18: `find` = minimum of the connected class.) -/
theorem components_order_independent (values : List Nat) (ops1 ops2 : List WhVerif.C18.UOp)
    (hsame : ∀ p, p ∈ WhVerif.C18.UF.mergedPairs (WhVerif.C18.UF.init values) ops1 ↔
                  p ∈ WhVerif.C18.UF.mergedPairs (WhVerif.C18.UF.init values) ops2) (x : Nat) :
    ((WhVerif.C18.UF.exec (WhVerif.C18.UF.init values) ops1).find x).map (fun r => r.2)
      = ((WhVerif.C18.UF.exec (WhVerif.C18.UF.init values) ops2).find x).map (fun r => r.2) :=
  WhVerif.C16UF.find_order_independent values ops1 ops2 hsame x

/-! ## read selection (`select_reads` after `readset.sort()`; model of `readselection`: `WhVerif.C07`) -/

/-- **selection_outcomes_order_independent**: the reads of a sample may arrive in any order (BAM records of one
position in any order, input files in any order of delivery — any permutation `l₂` of `l₁`); provided no two reads share
name and source id (the sort key of `ReadSet::sort` is then injective; `ReadSet::add` enforces it), `readset.sort()` leaves
the same sequence, hence `readselection` — which addresses reads by their index in the sorted read set and breaks the ties
of its priority queue by those indices — returns the same selection for every resolution `cs` of the ties, and the set of
selections it may return at all is the same. -/
theorem selection_outcomes_order_independent (fixed : Bool) (l₁ l₂ : List SelRead) (h : l₁.Perm l₂)
    (huniq : l₁.Pairwise (fun a b => ¬ (a.1.name = b.1.name ∧ a.1.sourceId = b.1.sourceId)))
    (k : Nat) (br : Bool) :
    sortedReads l₁ = sortedReads l₂ ∧
    (∀ cs, selectAfterSort fixed l₁ k br cs = selectAfterSort fixed l₂ k br cs) ∧
    selectOutcomes fixed l₁ k br = selectOutcomes fixed l₂ k br := by
  have hs : sortedReads l₁ = sortedReads l₂ := by
    unfold sortedReads
    rw [sort_order_independent l₁ l₂ h huniq]
  refine ⟨hs, ?_, ?_⟩
  · intro cs; unfold selectAfterSort; rw [hs]
  · unfold selectOutcomes; rw [hs]

def selA : WhVerif.C07.Read := ⟨[10, 20], [30, 30], false⟩
def selB : WhVerif.C07.Read := ⟨[20, 30], [30, 30], false⟩

example : ([((⟨true, 10, 5, [97], 0⟩ : ReadKey), selA), (⟨true, 20, 3, [98], 0⟩, selB)] : List SelRead).Pairwise
    (fun a b => ¬ (a.1.name = b.1.name ∧ a.1.sourceId = b.1.sourceId)) := by decide

/-- which inputs make the outcome depend on the order: a TIE of priority-queue scores between reads that exclude each
other under the coverage cap.  Reads A = (10, 20) and B = (20, 30) have the same score (2, 2, 30); with cap 1 whichever
is popped first blocks the other.  `readselection` breaks the tie by index, so on the list `[A, B]` it selects A and on
`[B, A]` it selects B: without the canonical order established by `readset.sort()` the selected READS depend on the
order of arrival; both answers are admissible outcomes (`C07.allOutcomes`) of either listing. -/
theorem selection_depends_on_order_at_score_ties :
    WhVerif.C07.initScore (WhVerif.C07.positions [selA, selB]) selA
      = WhVerif.C07.initScore (WhVerif.C07.positions [selA, selB]) selB ∧
    (match WhVerif.C07.readselection true [selA, selB] 1 true [] with
      | .ok sel => sel.map (WhVerif.C07.getRead [selA, selB]) | _ => []) = [selA] ∧
    (match WhVerif.C07.readselection true [selB, selA] 1 true [] with
      | .ok sel => sel.map (WhVerif.C07.getRead [selB, selA]) | _ => []) = [selB] ∧
    WhVerif.C07.allOutcomes true [selA, selB] 1 true = [.ok [0], .ok [1]] ∧
    WhVerif.C07.allOutcomes true [selB, selA] 1 true = [.ok [0], .ok [1]] := by
  decide

/-- … and ONLY ties do: when the enumeration of all tie resolutions yields a single outcome (no tie is ever decisive),
every resolution of the ties — every heap layout, every insertion order of the queue — gives that selection. -/
theorem selection_unique_without_decisive_ties (fixed : Bool) (reads : List WhVerif.C07.Read) (k : Nat) (br : Bool)
    (o : WhVerif.C07.Outcome) (h1 : WhVerif.C07.allOutcomes fixed reads k br = [o]) (cs : List Nat) :
    (WhVerif.C07.readselection fixed reads k br cs).canon = o := by
  have := WhVerif.Props.C07.allOutcomes_complete fixed reads k br cs
  rw [h1] at this
  simpa using this

example : WhVerif.C07.allOutcomes true [selA, ⟨[30, 40], [30, 30], false⟩] 1 true = [.ok [0, 1]] := by decide

/-- **per_sample_writes_order_independent** (round 7): a run that iterates over a set of samples and writes one result per
sample into a table (`genotype`: the posterior list of each family member; `haplotag`: `read_to_haplotype[(sample, read)]`;
`polyphase`: one phasing per sample) leaves the same table whatever the enumeration order of the set (`ws₂` any permutation of
`ws₁`) — PROVIDED no two writes go to the same key, i.e. every sample owns its key.  That proviso is exactly what seed
C16-f (one list object shared by all samples) and finding F110 (`--ignore-read-groups`: key `(None, read name)` for every
sample) violate. -/
theorem per_sample_writes_order_independent {κ ν : Type} [DecidableEq κ] (ws₁ ws₂ : List (κ × ν)) (h : ws₁.Perm ws₂)
    (hkeys : ws₁.Pairwise (fun a b => a.1 ≠ b.1)) (t : κ → Option ν) :
    writeAll ws₁ t = writeAll ws₂ t := by
  induction h generalizing t with
  | nil => rfl
  | cons x _ ih =>
    simp only [writeAll, List.foldl_cons]
    exact ih (List.pairwise_cons.1 hkeys).2 _
  | swap x y l =>
    simp only [writeAll, List.foldl_cons]
    congr 1
    funext k
    have hxy : y.1 ≠ x.1 := (List.pairwise_cons.1 hkeys).1 x (by simp)
    by_cases h1 : k = x.1 <;> by_cases h2 : k = y.1 <;> simp_all
  | trans h1 _ ih1 ih2 =>
    rw [ih1 hkeys t]
    exact ih2 ((h1.pairwise_iff (fun hab => fun e => hab e.symm)).1 hkeys) t

example : writeAll [(1, "a"), (2, "b")] (fun _ => none) = writeAll [(2, "b"), (1, "a")] (fun _ => none) :=
  per_sample_writes_order_independent _ _ (List.Perm.swap _ _ _) (by decide) _

/-- … and the proviso is needed (F110): with `--ignore-read-groups` two samples store the assignment of read 7 under the same
key; the sample enumerated last decides, so the two enumeration orders of {sample 1, sample 2} leave different tables —
whereas with the sample in the key they agree. -/
theorem shared_key_last_writer_wins :
    writeAll [(haplotagKey true 1 7, "H1"), (haplotagKey true 2 7, "H2")] (fun _ => none) (haplotagKey true 1 7)
      ≠ writeAll [(haplotagKey true 2 7, "H2"), (haplotagKey true 1 7, "H1")] (fun _ => none) (haplotagKey true 1 7) ∧
    writeAll [(haplotagKey false 1 7, "H1"), (haplotagKey false 2 7, "H2")] (fun _ => none)
      = writeAll [(haplotagKey false 2 7, "H2"), (haplotagKey false 1 7, "H1")] (fun _ => none) := by
  refine ⟨by decide, ?_⟩
  exact per_sample_writes_order_independent _ _ (List.Perm.swap _ _ _) (by decide) _

/-! ## Round 10: `split --only-largest-block` — ties for the largest phase set -/

/-- **largest_block_by_first_occurrence**: `Counter.most_common(1)` on the counter filled row by row from the haplotag list
(`split.py:select_reads_in_largest_phased_blocks`) is `max` over ONE particular enumeration of the phase set names — the
order of their first occurrence in the list `l`, which is the key order of the dict — with the number of rows as the key.
No enumeration of a set enters: the choice is a function of the list alone, also when several phase sets tie. -/
theorem largest_block_by_first_occurrence (l : List Nat) :
    mostCommon1 l = (maxOverEnum (firstOcc l) l).map (fun b => (b, l.count b)) := by
  unfold mostCommon1 maxOverEnum
  rw [counter_eq, firstMaxBy_map]

example : mostCommon1 [5, 3, 3, 5, 9] = some (5, 2) ∧ maxOverEnum (firstOcc [5, 3, 3, 5, 9]) [5, 3, 3, 5, 9] = some 5 := by
  decide

/-- **largest_block_spec**: what the unchanged code selects, for every list of (tagged) phase set names: a phase set `b` of the
list together with its number of rows `n`; no phase set has more rows; and every phase set whose first row comes BEFORE the
first row of `b` has strictly fewer rows — among the phase sets that tie for the largest size the first one in the file wins.
These conditions determine `b` (`largest_block_unique`). -/
theorem largest_block_spec (l : List Nat) (b n : Nat) (h : mostCommon1 l = some (b, n)) :
    n = l.count b ∧ b ∈ l ∧ (∀ b', l.count b' ≤ n) ∧
    ∃ pre post, firstOcc l = pre ++ b :: post ∧ ∀ b' ∈ pre, l.count b' < n := by
  rw [largest_block_by_first_occurrence] at h
  unfold maxOverEnum at h
  cases hm : firstMaxBy (fun b => l.count b) (firstOcc l) with
  | none => rw [hm] at h; simp at h
  | some b0 =>
    rw [hm] at h
    simp only [Option.map_some, Option.some.injEq, Prod.mk.injEq] at h
    obtain ⟨hb, hn⟩ := h
    subst hb
    obtain ⟨hmem, hmax⟩ := firstMaxBy_max _ _ _ hm
    obtain ⟨pre, post, he, hpre, _⟩ := firstMaxBy_spec _ _ _ hm
    refine ⟨hn.symm, (mem_firstOcc l b0).1 hmem, ?_, pre, post, he, ?_⟩
    · intro b'
      by_cases hb' : b' ∈ l
      · have := hmax b' ((mem_firstOcc l b').2 hb'); omega
      · have : l.count b' = 0 := List.count_eq_zero.2 hb'
        omega
    · intro b' hb'
      have := hpre b' hb'; omega

example : mostCommon1 [7, 4, 4, 7] = some (7, 2) := by decide

/-- **max_over_enumeration_independent_without_ties**: if one phase set has strictly more rows than every other one, `max`
over ANY enumeration of the names returns it: two enumerations of the same names (`e₂` a permutation of `e₁`) agree.  So a run
that kept the names in a set would differ from the code only on inputs with a tie for the largest size. -/
theorem max_over_enumeration_independent_without_ties (e₁ e₂ l : List Nat) (hp : e₁.Perm e₂) (b : Nat) (hb : b ∈ e₁)
    (hdom : ∀ x ∈ e₁, x ≠ b → l.count x < l.count b) :
    maxOverEnum e₁ l = some b ∧ maxOverEnum e₂ l = some b := by
  refine ⟨firstMaxBy_of_dominant _ _ _ hb hdom, firstMaxBy_of_dominant _ _ _ (hp.mem_iff.1 hb) ?_⟩
  intro x hx hne
  exact hdom x (hp.mem_iff.2 hx) hne

example : maxOverEnum [3, 5] [5, 3, 5] = some 5 ∧ maxOverEnum [5, 3] [5, 3, 5] = some 5 :=
  max_over_enumeration_independent_without_ties [3, 5] [5, 3] [5, 3, 5] (List.Perm.swap _ _ _) 5 (by decide) (by decide)

/-- **max_over_enumeration_depends_on_order_at_ties** (witness; seed C16-h): with two phase sets of two rows each, `max` over
the two enumerations of the set {3, 5} returns different phase sets — whereas the code (`mostCommon1`) has no enumeration to
depend on and returns the phase set whose first row comes first. -/
theorem max_over_enumeration_depends_on_order_at_ties :
    maxOverEnum [3, 5] [5, 3, 3, 5] ≠ maxOverEnum [5, 3] [5, 3, 3, 5] ∧ mostCommon1 [5, 3, 3, 5] = some (5, 2) := by
  decide

/-- **largest_block_unique**: the conditions of `largest_block_spec` leave no choice — any phase set that satisfies them is the
selected one; the selection is a function of the list. -/
theorem largest_block_unique (l : List Nat) (b n c : Nat) (h : mostCommon1 l = some (b, n))
    (hmax : ∀ b', l.count b' ≤ l.count c)
    (hfirst : ∃ pre post, firstOcc l = pre ++ c :: post ∧ ∀ b' ∈ pre, l.count b' < l.count c) : c = b := by
  obtain ⟨hn, _, hbmax, pre, post, he, hpre⟩ := largest_block_spec l b n h
  obtain ⟨pre', post', he', hpre'⟩ := hfirst
  have hcb : l.count c = l.count b := by
    have h1 := hbmax c; have h2 := hmax b; omega
  -- both decompositions of `firstOcc l`: whichever of b, c comes first would have to be strictly smaller than the other
  have hsplit := List.append_eq_append_iff.1 (he.symm.trans he')
  rcases hsplit with ⟨a', h1, h2⟩ | ⟨c', h1, h2⟩
  · cases a' with
    | nil => simp at h2; exact h2.1.symm
    | cons x xs =>
      simp only [List.cons_append, List.cons.injEq] at h2
      have hbpre : b ∈ pre' := by rw [h1]; simp [h2.1]
      have := hpre' b hbpre; omega
  · cases c' with
    | nil => simp at h2; exact h2.1
    | cons x xs =>
      simp only [List.cons_append, List.cons.injEq] at h2
      have hcpre : c ∈ pre := by rw [h1]; simp [h2.1]
      have := hpre c hcpre; omega

example : (3 : Nat) = 3 :=
  largest_block_unique [3, 8, 8, 3] 3 2 3 (by decide) (by intro b'; simp [List.count_cons]; split <;> split <;> omega)
    ⟨[], [8], by decide, by simp⟩

end WhVerif.Props.C16

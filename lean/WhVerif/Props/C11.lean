import WhVerif.Model.C11
import WhVerif.Spec.C11
namespace WhVerif.Props.C11
open WhVerif.C11
end WhVerif.Props.C11

import WhVerif.Lemmas.C11
import WhVerif.Lemmas.C11Geno
import WhVerif.Lemmas.C11PolyPairs
import WhVerif.Lemmas.C11Invariant
import WhVerif.Lemmas.C11Glue
import WhVerif.Lemmas.C11RunSpec
/-!
# C11 — `whatshap compare` reports the defined error counts, independent of haplotype labelling

Theorems about the model `WhVerif.C11` of `whatshap/cli/compare.py` (diploid, all block lengths).
`dipl a = [a, flipBits a]` is a diploid phasing of heterozygous biallelic variants (what `compare` hands to
`compare_block` for ploidy 2: only common heterozygous variants are compared).
`compareBlock fixA fixB` — the flags only concern the polyploid branch; every theorem holds for all values.
-/
namespace WhVerif.Props.C11
open WhVerif.C11

/-- switches = non-flip switches + 2 · flips, for the raw functions on arbitrary strings -/
theorem switches_eq_nonflip_plus_two_flips (a b : Hap) :
    hamming (switchEncoding a) (switchEncoding b)
      = (computeSwitchFlips a b).switches + 2 * (computeSwitchFlips a b).flips := by
  have := sfLoop_inv ((switchEncoding a).zip (switchEncoding b)) 0 ⟨0, 0⟩ (Or.inr rfl)
  simp only [computeSwitchFlips]
  rw [this, hamming_eq_diffCount]
  simp

/-- … and for what `compare_block` reports on any diploid block -/
theorem compareBlock_switches_eq_nonflip_plus_two_flips (fixA fixB : Bool) (a0 a1 b0 b1 : Hap) (e : PhasingErrors)
    (h : compareBlock fixA fixB [a0, a1] [b0, b1] = some e) :
    e.switches = e.sf.switches + 2 * e.sf.flips := by
  rw [compareBlock_two] at h
  split at h
  · injection h with h; subst h
    exact switches_eq_nonflip_plus_two_flips a0 b0
  · cases h

example : compareBlock false false [[0,0,0,1,1],[1,1,1,0,0]] [[0,0,1,1,1],[1,1,0,0,0]]
    = some ⟨2, 1, ⟨0, 1⟩, 0, 1⟩ := by decide

/-- all numbers are zero when a diploid block is compared with itself -/
theorem zero_on_identical (fixA fixB : Bool) (a0 a1 : Hap) (hl : a1.length = a0.length) :
    compareBlock fixA fixB [a0, a1] [a0, a1] = some ⟨0, 0, ⟨0, 0⟩, 0, 1⟩ := by
  rw [compareBlock_two]
  simp [hl, computeSwitchFlips, sfLoop_diag, matchingPos_self]

example : compareBlock true true [[0,1,1],[1,0,0]] [[0,1,1],[1,0,0]] = some ⟨0, 0, ⟨0, 0⟩, 0, 1⟩ :=
  zero_on_identical true true _ _ rfl

/-- the switch encoding does not see which of the two haplotypes is listed (`complement` as coded) -/
theorem swap_invariant_switchEncoding (s c : Hap) (h : complement s = some c) :
    switchEncoding c = switchEncoding s := by
  obtain ⟨hb, rfl⟩ := (complement_eq_some_iff s c).1 h
  exact switchEncoding_flipBits hb

example : complement [0,1,1,0] = some [1,0,0,1] := by decide

/-- `compare_block` reports the same numbers when the haplotypes of the first phasing are listed in the other order -/
theorem swap_invariant_left (fixA fixB : Bool) (a : Hap) (ph1 : List Hap) (ha : IsBinary a) :
    compareBlock fixA fixB [flipBits a, a] ph1 = compareBlock fixA fixB (dipl a) ph1 := by
  match ph1 with
  | [b0, b1] =>
    simp only [dipl, compareBlock_two, flipBits_length, matchingPos_swap_left, switchEncoding_flipBits ha,
      computeSwitchFlips]
    simp only [Nat.min_comm (hamming b0 (flipBits a) + hamming b1 a)]
  | [] => simp [compareBlock, wellFormed, dipl]
  | [_] => simp [compareBlock, wellFormed, dipl]
  | _ :: _ :: _ :: _ => simp [compareBlock, wellFormed, dipl]

/-- … and when the haplotypes of the second phasing are listed in the other order -/
theorem swap_invariant_right (fixA fixB : Bool) (b : Hap) (ph0 : List Hap) (hb : IsBinary b) :
    compareBlock fixA fixB ph0 [flipBits b, b] = compareBlock fixA fixB ph0 (dipl b) := by
  match ph0 with
  | [a0, a1] =>
    simp only [dipl, compareBlock_two, flipBits_length, matchingPos_swap_right, switchEncoding_flipBits hb,
      computeSwitchFlips]
    simp only [Nat.min_comm (hamming (flipBits b) a0 + hamming b a1), Nat.add_comm (hamming b a1)]
    simp [and_comm, Nat.add_comm]
  | [] => simp [compareBlock, wellFormed, dipl]
  | [_] => simp [compareBlock, wellFormed, dipl]
  | _ :: _ :: _ :: _ => simp [compareBlock, wellFormed, dipl]

example : IsBinary [0,1,1,0] := by decide

/-- the reported Hamming distance is the minimum over the haplotype correspondences (brute-force spec:
all bijections), halved — any diploid block -/
theorem hamming_is_min_over_correspondences (fixA fixB : Bool) (a0 a1 b0 b1 : Hap) (e : PhasingErrors)
    (h : compareBlock fixA fixB [a0, a1] [b0, b1] = some e) :
    e.hamming = Spec.minHammingNum [a0, a1] [b0, b1] / 2 := by
  rw [compareBlock_two] at h
  split at h
  · injection h with h; subst h
    simp [spec_minHammingNum_two]
  · cases h

/-- … which for heterozygous biallelic phasings is `min(d, n - d)`, `d` = Hamming distance of the first haplotypes -/
theorem hamming_eq_min_d (fixA fixB : Bool) (a b : Hap) (e : PhasingErrors)
    (ha : IsBinary a) (hb : IsBinary b) (hl : a.length = b.length)
    (h : compareBlock fixA fixB (dipl a) (dipl b) = some e) :
    e.hamming = min (hamming a b) (a.length - hamming a b) := by
  simp only [dipl] at h
  rw [compareBlock_two] at h
  split at h
  · injection h with h; subst h
    have h1 := hamming_flip_right hb ha hl.symm
    have h2 := hamming_flip_right (isBinary_flipBits b) ha (by simpa using hl.symm)
    have h3 := hamming_flip_flip hb ha
    have h4 := hamming_comm b a
    simp only [h3]
    omega
  · cases h

example : compareBlock false false (dipl [0,1,1,0,1]) (dipl [1,0,0,1,1]) = some ⟨1, 1, ⟨1, 0⟩, 0, 1⟩ := by decide

/-- repaired `compare_pair` (fixes/F3.patch): the agreement vector of a block marks exactly as many
disagreements (zeros) as the Hamming distance `compare_block` reports for it -/
theorem agreement_matches_hamming (fixA fixB : Bool) (a b : Hap) (e : PhasingErrors) (v : List Nat)
    (ha : IsBinary a) (hb : IsBinary b) (hl : a.length = b.length)
    (h : compareBlock fixA fixB (dipl a) (dipl b) = some e)
    (hv : agreementFixed (dipl a) (dipl b) = some v) :
    zerosOf v = e.hamming := by
  rw [hamming_eq_min_d fixA fixB a b e ha hb hl h]
  rw [agreementFixed_dipl a b hb] at hv
  injection hv with hv
  have h1 := hamming_flip_right ha hb hl
  have h2 := zerosOf_agreeEq a b
  have h3 := zerosOf_agreeNe a b hl
  subst hv
  by_cases hlt : hamming a b < hamming a (flipBits b)
  · rw [if_pos hlt]; omega
  · rw [if_neg hlt]; omega

example : agreementFixed (dipl [0,1,1,0,1]) (dipl [1,0,0,1,1]) = some [1,1,1,1,0] := by decide

/-- F3: the code as it is (`hamming(phasing0, phasing1)` on the two LISTS of haplotype strings) violates it:
n = 10, d = 6: six positions marked as disagreeing, reported Hamming distance 4 -/
theorem F3_witness :
    let a : Hap := [0,0,0,0,0,0,0,0,0,0]
    let b : Hap := [1,1,1,1,1,1,0,0,0,0]
    (agreementFaithful (dipl a) (dipl b)).map zerosOf = some 6 ∧
    (compareBlock false false (dipl a) (dipl b)).map (·.hamming) = some 4 ∧
    (agreementFixed (dipl a) (dipl b)).map zerosOf = some 4 := by decide

/-- the reported number of different genotypes is the number of positions whose allele multisets differ
(any ploidy; the model compares sorted allele vectors as `Genotype.__eq__` does, the spec counts alleles) -/
theorem diff_genotypes_eq_definition (fixA fixB : Bool) (ph0 ph1 : List Hap) (e : PhasingErrors)
    (h : compareBlock fixA fixB ph0 ph1 = some e) :
    e.diffGenotypes = Spec.diffGenotypes ph0 ph1 (ph0.headD []).length := by
  unfold compareBlock at h
  split at h
  · cases h
  · simp only at h
    split at h
    · injection h with h; subst h
      exact diffGenotypes_eq_spec _ _ _
    · split at h
      · cases h
      · injection h with h; subst h
        exact diffGenotypes_eq_spec _ _ _

example : (compareBlock false false [[0,0],[0,1],[1,1]] [[0,0],[0,1],[1,0]]).map (·.diffGenotypes) = some 1 := by decide

/-- switch errors of a diploid block = number of adjacent variant pairs at which the haplotype correspondence
(identity where the first haplotypes agree, swapped where they differ) changes: the sequence of correspondences
is forced for heterozygous biallelic variants, so this is the minimum over all flip-free sequences -/
theorem switch_errors_count_correspondence_changes (fixA fixB : Bool) (a b : Hap) (e : PhasingErrors)
    (ha : IsBinary a) (hb : IsBinary b) (hl : a.length = b.length)
    (h : compareBlock fixA fixB (dipl a) (dipl b) = some e) :
    e.switches = (switchEncoding (agreeNe a b)).sum := by
  simp only [dipl] at h
  rw [compareBlock_two] at h
  split at h
  · injection h with h; subst h
    exact switches_orientation a b ha hb hl
  · cases h

example : (compareBlock false false (dipl [0,1,1,0,1]) (dipl [1,0,0,1,1])).map (·.switches) = some 1 ∧
    (switchEncoding (agreeNe [0,1,1,0,1] [1,0,0,1,1])).sum = 1 := by decide

/-- the number of marked disagreements does not depend on which haplotype of either phasing is listed first
(repaired code; the vector itself is inverted at a tie `d = n - d`) -/
theorem agreement_zeros_swap_invariant (a b : Hap) (v w : List Nat)
    (ha : IsBinary a) (hb : IsBinary b) (hl : a.length = b.length)
    (hv : agreementFixed (dipl a) (dipl b) = some v)
    (hw : agreementFixed [flipBits a, a] [flipBits b, b] = some w) :
    zerosOf w = zerosOf v := by
  have ha' := isBinary_flipBits a
  have hb' := isBinary_flipBits b
  have e1 : [flipBits a, a] = dipl (flipBits a) := by simp [dipl, flipBits_flipBits ha]
  have e2 : [flipBits b, b] = dipl (flipBits b) := by simp [dipl, flipBits_flipBits hb]
  rw [e1, e2, agreementFixed_dipl _ _ hb'] at hw
  rw [agreementFixed_dipl _ _ hb] at hv
  injection hv with hv; injection hw with hw
  subst hv; subst hw
  have h1 : hamming a (flipBits b) + hamming a b = a.length := hamming_flip_right ha hb hl
  have h2 : hamming (flipBits a) (flipBits b) = hamming a b := hamming_flip_flip ha hb
  have h3 : zerosOf (agreeEq a b) = hamming a b := zerosOf_agreeEq a b
  have h4 : zerosOf (agreeNe a b) + hamming a b = a.length := zerosOf_agreeNe a b hl
  have h5 : zerosOf (agreeEq (flipBits a) (flipBits b)) = hamming a b := by rw [zerosOf_agreeEq, h2]
  have h6 : zerosOf (agreeNe (flipBits a) (flipBits b)) + hamming a b = a.length := by
    have := zerosOf_agreeNe (flipBits a) (flipBits b) (by simpa using hl)
    rw [h2] at this; simpa using this
  have h7 : hamming (flipBits a) b + hamming a b = a.length := by
    have := hamming_flip_right ha' hb' (by simpa using hl)
    rw [flipBits_flipBits hb, h2] at this; simpa using this
  rw [flipBits_flipBits hb, h2]
  by_cases c1 : hamming a b < hamming a (flipBits b) <;> by_cases c2 : hamming a b < hamming (flipBits a) b
  all_goals simp only [c1, c2, if_true, if_false] <;> omega

example : (agreementFixed (dipl [0,1,1,0,1]) (dipl [0,0,1,1,1])).map zerosOf = some 2 ∧
    (agreementFixed [flipBits [0,1,1,0,1], [0,1,1,0,1]] [flipBits [0,0,1,1,1], [0,0,1,1,1]]).map zerosOf = some 2 := by decide

/-! ## polyploid switch/flip calculator (`switchflipcalculator.cpp`), EVERY ploidy, any number of positions, any costs

`cols` = per position the pair of allele columns.  `Spec.polyBrute` enumerates ALL sequences of haplotype
correspondences (bijections, enumerated naively) and takes the minimum of
`sc · Σ (#haplotypes whose partner changes) + fc · Σ (#mismatching alleles)`. -/

/-- the recurrences of the calculator without its pruning compute that minimum (Viterbi argument) -/
theorem poly_dp_unpruned_optimal_any_ploidy (p sc fc : Nat) (cols : List (List Nat × List Nat)) :
    (polyCompareFull p sc fc cols).1 = (Spec.polyBrute p sc fc cols).1 :=
  polyCompareFull_eq_brute p sc fc cols

/-- the pruning as coded (erase `t` if `score t ≥ score p + sc·d(t,p)` for a profitable `p`, profitable list capped
at `ploidy` members) never changes the result: every erased entry is dominated by a kept one and `d` is a metric -/
theorem poly_prune_sound_any_ploidy (fixA : Bool) (p sc fc : Nat) (cols : List (List Nat × List Nat)) :
    (polyCompare fixA p sc fc cols).cost = (polyCompareFull p sc fc cols).1 :=
  polyCompare_cost_eq_full fixA p sc fc (perms_ne_nil p) (perms_length p) cols

/-- the calculator as coded returns the minimum over all sequences of haplotype correspondences -/
theorem poly_dp_optimal_any_ploidy (fixA : Bool) (p sc fc : Nat) (cols : List (List Nat × List Nat)) :
    (polyCompare fixA p sc fc cols).cost = (Spec.polyBrute p sc fc cols).1 :=
  polyCompare_eq_brute fixA p sc fc cols

/-- … and every `(switches, flips)` pair its back-tracking may return (under any hash order of the `unordered_map`s)
costs exactly that minimum — for ≥ 2 positions, or for the repaired code (fixes/FC11a.patch) -/
theorem poly_reported_pair_has_optimal_cost_any_ploidy (fixA : Bool) (p sc fc : Nat)
    (cols : List (List Nat × List Nat)) (hq : fixA = true ∨ 2 ≤ cols.length) :
    ∀ sf ∈ (polyCompare fixA p sc fc cols).admissible,
      sc * sf.1 + fc * sf.2 = (Spec.polyBrute p sc fc cols).1 := by
  intro sf hsf
  rw [← poly_dp_optimal_any_ploidy fixA p sc fc cols]
  exact polyCompare_admissible_cost fixA p sc fc cols hq sf hsf

example : (polyCompare true 3 1 1 [([0,0,1],[0,1,0]), ([0,1,1],[1,1,0]), ([1,0,0],[0,1,0])]).admissible ≠ [] := by decide

/-- FC11a: the code as it is reports `ploidy − 1` switches for a single position (two identical triploid columns) -/
theorem FC11a_witness :
    (polyCompare false 3 1 7 [([0,0,1],[0,0,1])]).admissible = [(2, 0)] ∧
    (Spec.polyBrute 3 1 7 [([0,0,1],[0,0,1])]).1 = 0 ∧
    (polyCompare true 3 1 7 [([0,0,1],[0,0,1])]).admissible = [(0, 0)] := by decide

/-- FC11b: with costs 1/1 the code may return either of two optimal decompositions (2 switches | 2 flips); which one
depends on iteration order, hence on the order in which the haplotypes are listed; the repaired costs leave one -/
theorem FC11b_witness :
    let ph0 : List Hap := [[1,1,0,0],[0,0,0,1],[1,0,1,0]]
    let ph1 : List Hap := [[1,0,0,1],[0,1,0,0],[1,0,1,0]]
    (polySwitchFlips true false ph0 ph1 3 4).admissible.length = 2 ∧
    (polySwitchFlips true true ph0 ph1 3 4).admissible.length = 1 := by decide

/-! ## realisability of the reported decomposition, and independence of the listing order (polyploid)

Objective the calculator minimises: `sc · switches + fc · flips` over ALL sequences of haplotype correspondences, one
bijection per position (`Spec.polyBrute`).  `compare_block` calls it twice: switch errors with costs `1 / 2np+1` on the
genotype-matching positions, and (repaired, commit 677593e = `fixB`) the switch/flip decomposition with costs
`k / k+1`, `k = pn + 1`, i.e. lexicographically (switches + flips, then flips).  In both regimes the optimal cost
determines the pair, so the reported pair is unique whatever the iteration order of the `unordered_map`s. -/

/-- **realisability**: every `(switches, flips)` pair the back-tracking may return (any hash order) is the count pair
of an actual sequence of haplotype correspondences, one bijection per position, and that sequence is optimal: the
pair is a member of the brute-force set of optimal pairs (≥ 2 positions, or repaired single-position code) -/
theorem poly_reported_pair_realised_any_ploidy (fixA : Bool) (p sc fc : Nat)
    (cols : List (List Nat × List Nat)) (hq : fixA = true ∨ 2 ≤ cols.length) :
    ∀ sf ∈ (polyCompare fixA p sc fc cols).admissible, sf ∈ (Spec.polyBrute p sc fc cols).2 := by
  intro sf hsf
  rw [mem_polyBrute_snd, ← perms_eq_bijections p]
  exact ⟨polyCompare_admissible_realised fixA p sc fc cols hq sf hsf,
    poly_reported_pair_has_optimal_cost_any_ploidy fixA p sc fc cols hq sf hsf⟩

example : (0, 1) ∈ (polyCompare true 3 1 1 [([0,0,1],[0,1,0]), ([0,1,1],[1,0,0])]).admissible ∧
    (0, 1) ∈ (Spec.polyBrute 3 1 1 [([0,0,1],[0,1,0]), ([0,1,1],[1,0,0])]).2 := by decide

/-- the pair reported under first-arg-min tie-breaking is one of the admissible pairs (so it is realised and
optimal as well, and the admissible set is never empty) -/
theorem poly_rep_is_admissible_any_ploidy (fixA : Bool) (p sc fc : Nat) (cols : List (List Nat × List Nat)) :
    (polyCompare fixA p sc fc cols).rep ∈ (polyCompare fixA p sc fc cols).admissible :=
  polyCompare_rep_admissible fixA p sc fc (perms_ne_nil p) cols

example : (polyCompare true 3 1 1 [([0,0,1],[0,1,0]), ([0,1,1],[1,1,0]), ([1,0,0],[0,1,0])]).rep = (2, 0) := by decide

/-- the repaired decomposition of `compare_block` (costs `pn+1 / pn+2`) is unique — every pair the code may return,
under any iteration order, is the same — and it is the lexicographic minimum of (switches + flips, flips) over all
sequences of correspondences -/
theorem poly_fixed_split_unique_lexmin_any_ploidy (p n : Nat) (ph0 ph1 : List Hap) :
    (∀ sf ∈ (polySwitchFlips true true ph0 ph1 p n).admissible, sf = (polySwitchFlips true true ph0 ph1 p n).rep) ∧
    ∀ s ∈ Spec.seqs (Spec.bijections p) n,
      let r := (polySwitchFlips true true ph0 ph1 p n).rep
      let sw := Spec.seqSwitches s
      let fl := Spec.seqFlips s (polyCols ph0 ph1 n)
      r.1 + r.2 < sw + fl ∨ (r.1 + r.2 = sw + fl ∧ r.2 ≤ fl) := by
  have hlen : (polyCols ph0 ph1 n).length = n := polyCols_length ph0 ph1 n
  constructor
  · simp only [polySwitchFlips, if_true]
    apply polyCompare_admissible_unique p _ _
    rw [hlen]; exact determined_lex _ _ (by omega)
  · intro s hs
    simp only [polySwitchFlips, if_true]
    generalize hcols : polyCols ph0 ph1 n = cols at hlen ⊢
    have hrep := polyCompare_rep_admissible true p (p * n + 1) (p * n + 2) (perms_ne_nil p) cols
    have hcost := polyCompare_admissible_cost true p (p * n + 1) (p * n + 2) cols (Or.inl rfl) _ hrep
    obtain ⟨_, hb⟩ := polyCompare_admissible_bounds p (p * n + 1) (p * n + 2) cols _ hrep
    rw [hlen] at hb
    -- lower bound: the cost is the minimum over all sequences
    have hmin : (polyCompare true p (p * n + 1) (p * n + 2) cols).cost
        ≤ (p * n + 1) * Spec.seqSwitches s + (p * n + 2) * Spec.seqFlips s cols := by
      rw [polyCompare_cost_eq_bruteValue true p _ _ cols]
      apply listMin_le_of_mem
      rw [hlen, perms_eq_bijections p]
      exact List.mem_map.2 ⟨s, hs, rfl⟩
    obtain ⟨hl, hall⟩ := (mem_seqs _ _ _).1 hs
    have hfl : Spec.seqFlips s cols ≤ p * n := by
      have := seqFlips_le p s cols (fun r hr => perms_length p r (by rw [perms_eq_bijections p]; exact hall r hr))
      rwa [hlen] at this
    generalize (polyCompare true p (p * n + 1) (p * n + 2) cols).rep = r at hcost hb hmin ⊢
    generalize Spec.seqSwitches s = sw at hmin ⊢
    generalize Spec.seqFlips s cols = fl at hmin hfl ⊢
    generalize (polyCompare true p (p * n + 1) (p * n + 2) cols).cost = c at hcost hmin
    generalize p * n = B at *
    -- (B+1)·(r.1 + r.2) + r.2 ≤ (B+1)·(sw + fl) + fl with r.2, fl ≤ B
    have e1 : (B + 1) * r.1 + (B + 2) * r.2 = (B + 1) * (r.1 + r.2) + r.2 := by
      simp only [Nat.mul_add, Nat.add_mul]; omega
    have e2 : (B + 1) * sw + (B + 2) * fl = (B + 1) * (sw + fl) + fl := by
      simp only [Nat.mul_add, Nat.add_mul]; omega
    show r.1 + r.2 < sw + fl ∨ (r.1 + r.2 = sw + fl ∧ r.2 ≤ fl)
    rcases Nat.lt_trichotomy (r.1 + r.2) (sw + fl) with h | h | h
    · exact Or.inl h
    · right
      refine ⟨h, ?_⟩
      rw [h] at e1
      omega
    · exfalso
      have : (B + 1) * (sw + fl + 1) ≤ (B + 1) * (r.1 + r.2) := Nat.mul_le_mul_left _ h
      rw [Nat.mul_succ] at this
      omega

example : (polySwitchFlips true true [[1,1,0,0],[0,0,0,1],[1,0,1,0]] [[1,0,0,1],[0,1,0,0],[1,0,1,0]] 3 4).admissible
    = [(2, 0)] := by decide

/-- **what is invariant for arbitrary costs** (in particular the as-coded `1 / 1` split): the optimal objective
value and the SET of co-optimal `(switches, flips)` pairs do not depend on the order in which the haplotypes of
either phasing are listed (which member of that set the as-coded calculator returns does: `FC11b_witness`) -/
theorem poly_optimum_perm_invariant_any_ploidy (fixA : Bool) (p sc fc n : Nat) (τ υ : Perm) (hτ : τ ∈ perms p)
    (hυ : υ ∈ perms p) (ph0 ph1 : List Hap) (h0 : ph0.length = p) (h1 : ph1.length = p) :
    (polyCompare fixA p sc fc (polyCols (relabelHaps τ ph0) (relabelHaps υ ph1) n)).cost
        = (polyCompare fixA p sc fc (polyCols ph0 ph1 n)).cost ∧
    ∀ sf, sf ∈ (Spec.polyBrute p sc fc (polyCols (relabelHaps τ ph0) (relabelHaps υ ph1) n)).2
        ↔ sf ∈ (Spec.polyBrute p sc fc (polyCols ph0 ph1 n)).2 := by
  have hc := cost_relabel_eq p sc fc τ υ hτ hυ ph0 ph1 n h0 h1
  refine ⟨by rw [cost_fixA_irrelevant, hc, ← cost_fixA_irrelevant], ?_⟩
  intro sf
  rw [mem_polyBrute_snd, mem_polyBrute_snd, ← perms_eq_bijections p,
    attainable_relabel_iff p τ υ hτ hυ ph0 ph1 n h0 h1 sf,
    ← poly_dp_optimal_any_ploidy true p sc fc, ← poly_dp_optimal_any_ploidy true p sc fc, hc]

example : [2,0,1] ∈ perms 3 ∧ [1,0,2] ∈ perms 3 ∧
    relabelHaps [2,0,1] [[1,1,0,0],[0,0,0,1],[1,0,1,0]] = [[1,0,1,0],[1,1,0,0],[0,0,0,1]] := by decide

/-- **`poly_perm_invariant`** (current code: repaired single-position and tie-breaking behaviour): for every ploidy ≥ 3
everything `compare_block` reports — switch errors, Hamming distance, the switch/flip decomposition, different
genotypes — is unchanged when the haplotypes of the first phasing are listed in the order `τ` and those of the second
in the order `υ`, for all permutations `τ`, `υ` (the diploid case is `swap_invariant_left/right`) -/
theorem poly_perm_invariant_any_ploidy (ph0 ph1 : List Hap) (τ υ : Perm) (hw : wellFormed ph0 ph1 = true)
    (h2 : ph0.length ≠ 2) (hτ : τ ∈ perms ph0.length) (hυ : υ ∈ perms ph0.length) :
    compareBlock true true (relabelHaps τ ph0) (relabelHaps υ ph1) = compareBlock true true ph0 ph1 := by
  obtain ⟨hp2, s0, s1⟩ := (wellFormed_iff ph0 ph1).1 hw
  generalize hpd : ph0.length = p at *
  generalize hnd : (ph0.headD []).length = n at *
  have t0 := s0.relabel τ (perms_length p τ hτ) (perms_entries_lt p τ hτ)
  have t1 := s1.relabel υ (perms_length p υ hυ) (perms_entries_lt p υ hυ)
  rw [compareBlock_poly true true _ _ (t0.wellFormed t1 hp2) (by rw [t0.1]; exact h2),
    compareBlock_poly true true ph0 ph1 hw (by rw [hpd]; exact h2), t0.1, hpd, hnd,
    t0.head_length (by omega)]
  exact polyBlock_relabel p n τ υ hτ hυ ph0 ph1 hpd s1.1

example : wellFormed [[1,1,0,0],[0,0,0,1],[1,0,1,0]] [[1,0,0,1],[0,1,0,0],[1,0,1,0]] = true ∧
    compareBlock true true [[1,1,0,0],[0,0,0,1],[1,0,1,0]] [[1,0,0,1],[0,1,0,0],[1,0,1,0]]
      = some ⟨2, 2, ⟨2, 0⟩, 0, 3⟩ ∧
    compareBlock true true (relabelHaps [2,0,1] [[1,1,0,0],[0,0,0,1],[1,0,1,0]])
      (relabelHaps [1,0,2] [[1,0,0,1],[0,1,0,0],[1,0,1,0]]) = some ⟨2, 2, ⟨2, 0⟩, 0, 3⟩ := by decide

/-! ## F45: the longest-block agreement on multi-allelic calls -/

/-- F45: as coded (also after the F3 repair) the orientation test calls `complement` on the first haplotype of the
second phasing; a multi-allelic heterozygous call `2|1` makes it raise `KeyError` (`none`): `whatshap compare` dies.
With the second haplotype itself (fixes/F45.patch) there is no failure. -/
theorem F45_witness :
    agreementFixed [[2,0,0],[1,1,1]] [[2,0,0],[1,1,1]] = none ∧
    agreementSecond [[2,0,0],[1,1,1]] [[2,0,0],[1,1,1]] = some [1,1,1] ∧
    (comparePair true true true false false 2 [⟨10,[2,1],true,1⟩, ⟨20,[0,1],true,1⟩] [⟨10,[2,1],true,1⟩, ⟨20,[0,1],true,1⟩]).isNone ∧
    (comparePair true true true true false 2 [⟨10,[2,1],true,1⟩, ⟨20,[0,1],true,1⟩] [⟨10,[2,1],true,1⟩, ⟨20,[0,1],true,1⟩]).isSome := by
  decide

/-- the F45 repair never fails, and on heterozygous biallelic phasings (what `compare` handled so far) it is the
F3-repaired function: nothing changes there -/
theorem F45_repair_conservative (a b : Hap) (hb : IsBinary b) (ph0 ph1 : List Hap) :
    (agreementSecond ph0 ph1).isSome ∧ agreementSecond (dipl a) (dipl b) = agreementFixed (dipl a) (dipl b) := by
  refine ⟨rfl, ?_⟩
  rw [agreementFixed_dipl a b hb]
  rfl

example : IsBinary [0,1,1] ∧ agreementSecond (dipl [0,0,1]) (dipl [0,1,1]) = some [1,0,1] := by decide

/-! ## F46: diploid comparison of multi-allelic calls -/

/-- F46 on the model of `compare` as coded: two diploid data sets over the same three variants, the multi-allelic first
call listed `2|1` in one and `1|2` in the other (different phasings: one switch error by definition).  `compare` reports
0 switch errors; listing the haplotypes of the first data set in the other order (`1|2, 1|0, 1|0`) it reports 1.  With
fixes/F46.patch (`fix46`: such a call is not assessed) both listings give the same row. -/
theorem F46_witness :
    let d : List Call := [⟨10,[2,1],true,1⟩, ⟨20,[0,1],true,1⟩, ⟨30,[0,1],true,1⟩]
    let d' : List Call := [⟨10,[1,2],true,1⟩, ⟨20,[1,0],true,1⟩, ⟨30,[1,0],true,1⟩]
    let c : List Call := [⟨10,[1,2],true,1⟩, ⟨20,[0,1],true,1⟩, ⟨30,[0,1],true,1⟩]
    (comparePair true true true true false 2 d c).map (·.total.switches) = some 0 ∧
    (comparePair true true true true false 2 d' c).map (·.total.switches) = some 1 ∧
    (comparePair true true true true true 2 d c).map (fun r => (r.assessedPairs, r.total.switches)) = some (1, 0) ∧
    (comparePair true true true true true 2 d' c).map (fun r => (r.assessedPairs, r.total.switches)) = some (1, 0) := by
  decide

/-- with fixes/F46.patch every block of assessed diploid calls (genotypes of length 2: the reader's ploidy check) that
`compare_pair` hands to `compare_block` is a binary string and its complement — the shape `dipl a`, `IsBinary a` for which
the diploid theorems above (identities, minimality, invariance under listing order, agreement) are proved -/
theorem assessed_diploid_blocks_are_complementary (t : List Call) (common block : List Nat)
    (hall : ∀ i ∈ block, ∃ ps gt, (phasesOfP true 2 t common).getD i none = some (ps, gt) ∧ gt.length = 2) :
    IsBinary (hapOf (phasesOfP true 2 t common) block 0) ∧
    (List.range 2).map (hapOf (phasesOfP true 2 t common) block) = dipl (hapOf (phasesOfP true 2 t common) block 0) :=
  assessed_block_is_dipl t common block hall

example : (phasesOfP true 2 [⟨10,[0,1],true,1⟩, ⟨20,[2,1],true,1⟩, ⟨30,[1,0],true,1⟩] [10,20,30])
    = [some (1,[0,1]), none, some (1,[1,0])] ∧
    (List.range 2).map (hapOf (phasesOfP true 2 [⟨10,[0,1],true,1⟩, ⟨20,[2,1],true,1⟩, ⟨30,[1,0],true,1⟩] [10,20,30]) [0,2])
      = dipl [0,1] := by decide

/-! ## the statements of the earlier rounds (ploidy ≤ 4): instances of the `…_any_ploidy` theorems above

The bound entered only through finite facts about the state list `perms p` (`decide` for `p = 0..4`); they are now proved
for every `p` in `Lemmas/C11Perms.lean` (`mem_perms_iff`, `perms_comp`, `invPerm_spec`, `perms_eq_bijections`). -/

theorem poly_dp_unpruned_optimal (p sc fc : Nat) (_hp : p ≤ 4) (cols : List (List Nat × List Nat)) :
    (polyCompareFull p sc fc cols).1 = (Spec.polyBrute p sc fc cols).1 :=
  poly_dp_unpruned_optimal_any_ploidy p sc fc cols

theorem poly_prune_sound (fixA : Bool) (p sc fc : Nat) (_hp : p ≤ 4) (cols : List (List Nat × List Nat)) :
    (polyCompare fixA p sc fc cols).cost = (polyCompareFull p sc fc cols).1 :=
  poly_prune_sound_any_ploidy fixA p sc fc cols

theorem poly_dp_optimal (fixA : Bool) (p sc fc : Nat) (_hp : p ≤ 4) (cols : List (List Nat × List Nat)) :
    (polyCompare fixA p sc fc cols).cost = (Spec.polyBrute p sc fc cols).1 :=
  poly_dp_optimal_any_ploidy fixA p sc fc cols

theorem poly_reported_pair_has_optimal_cost (fixA : Bool) (p sc fc : Nat) (_hp : p ≤ 4)
    (cols : List (List Nat × List Nat)) (hq : fixA = true ∨ 2 ≤ cols.length) :
    ∀ sf ∈ (polyCompare fixA p sc fc cols).admissible,
      sc * sf.1 + fc * sf.2 = (Spec.polyBrute p sc fc cols).1 :=
  poly_reported_pair_has_optimal_cost_any_ploidy fixA p sc fc cols hq

theorem poly_reported_pair_realised (fixA : Bool) (p sc fc : Nat) (_hp : p ≤ 4)
    (cols : List (List Nat × List Nat)) (hq : fixA = true ∨ 2 ≤ cols.length) :
    ∀ sf ∈ (polyCompare fixA p sc fc cols).admissible, sf ∈ (Spec.polyBrute p sc fc cols).2 :=
  poly_reported_pair_realised_any_ploidy fixA p sc fc cols hq

theorem poly_rep_is_admissible (fixA : Bool) (p sc fc : Nat) (_hp : p ≤ 4) (cols : List (List Nat × List Nat)) :
    (polyCompare fixA p sc fc cols).rep ∈ (polyCompare fixA p sc fc cols).admissible :=
  poly_rep_is_admissible_any_ploidy fixA p sc fc cols

theorem poly_fixed_split_unique_lexmin (p n : Nat) (_hp : p ≤ 4) (ph0 ph1 : List Hap) :
    (∀ sf ∈ (polySwitchFlips true true ph0 ph1 p n).admissible, sf = (polySwitchFlips true true ph0 ph1 p n).rep) ∧
    ∀ s ∈ Spec.seqs (Spec.bijections p) n,
      let r := (polySwitchFlips true true ph0 ph1 p n).rep
      let sw := Spec.seqSwitches s
      let fl := Spec.seqFlips s (polyCols ph0 ph1 n)
      r.1 + r.2 < sw + fl ∨ (r.1 + r.2 = sw + fl ∧ r.2 ≤ fl) :=
  poly_fixed_split_unique_lexmin_any_ploidy p n ph0 ph1

theorem poly_optimum_perm_invariant (fixA : Bool) (p sc fc n : Nat) (_hp : p ≤ 4) (τ υ : Perm) (hτ : τ ∈ perms p)
    (hυ : υ ∈ perms p) (ph0 ph1 : List Hap) (h0 : ph0.length = p) (h1 : ph1.length = p) :
    (polyCompare fixA p sc fc (polyCols (relabelHaps τ ph0) (relabelHaps υ ph1) n)).cost
        = (polyCompare fixA p sc fc (polyCols ph0 ph1 n)).cost ∧
    ∀ sf, sf ∈ (Spec.polyBrute p sc fc (polyCols (relabelHaps τ ph0) (relabelHaps υ ph1) n)).2
        ↔ sf ∈ (Spec.polyBrute p sc fc (polyCols ph0 ph1 n)).2 :=
  poly_optimum_perm_invariant_any_ploidy fixA p sc fc n τ υ hτ hυ ph0 ph1 h0 h1

theorem poly_perm_invariant (ph0 ph1 : List Hap) (τ υ : Perm) (hw : wellFormed ph0 ph1 = true)
    (_hp : ph0.length ≤ 4) (h2 : ph0.length ≠ 2) (hτ : τ ∈ perms ph0.length) (hυ : υ ∈ perms ph0.length) :
    compareBlock true true (relabelHaps τ ph0) (relabelHaps υ ph1) = compareBlock true true ph0 ph1 :=
  poly_perm_invariant_any_ploidy ph0 ph1 τ υ hw h2 hτ hυ

/-- non-vacuity beyond the old bound: a hexaploid block (720 states per position), relabelled -/
example : [5,4,3,2,1,0] ∈ perms 6 ∧ [1,0,2,3,4,5] ∈ perms 6 :=
  ⟨(mem_perms_iff 6 _).2 (by decide), (mem_perms_iff 6 _).2 (by decide)⟩

example : wellFormed [[0,1],[1,0],[0,0],[1,1],[0,1],[0,0]] [[1,1],[0,0],[0,0],[1,1],[0,0],[0,1]] = true := by decide

/-- what membership in the state list means for every ploidy (used to state `hτ`, `hυ` without enumerating) -/
theorem perms_are_exactly_the_bijections (p : Nat) (σ : Perm) :
    (σ ∈ perms p ↔ σ.length = p ∧ σ.Nodup ∧ ∀ x ∈ σ, x < p) ∧ perms p = Spec.bijections p :=
  ⟨mem_perms_iff p σ, perms_eq_bijections p⟩

/-! ## the pairwise report against its definition (`Spec/C11Run.lean`)

`Spec.pairSpec` / `Spec.runSpec` DEFINE what `whatshap compare` must report for two diploid call lists (common heterozygous
variants, intersection blocks by naive group-by, per block the error counts by definition, totals as sums, first longest
block, BED rows, `het_variants0`).  Full statement aimed at (compared three-way on every run: Lean spec `c11.runspec`, Python
oracle, real CLI; not yet proved in full):

    theorem run_compare_meets_spec (t0 t1) (hgt : every call has 2 alleles) (r) (h : comparePair true true true true true 2 t0 t1 = some r) :
      let S := Spec.pairSpec t0 t1
      r.intersectionBlocks = S.intersectionBlocks ∧ r.coveredVariants = S.coveredVariants ∧ r.assessedPairs = S.assessedPairs ∧
      r.total = ⟨S.switches, S.hamming, ⟨S.sfSwitches, S.sfFlips⟩, S.diffGenotypes, 1⟩ ∧ r.bed = S.bed ∧
      r.perBlock.map (fun b => (b.1, b.2.1)) = S.blocks.map (fun b => (b.positions, ⟨b.switches, b.hamming, ⟨b.sfSwitches, b.sfFlips⟩, b.diffGenotypes, 1⟩)) ∧ …

Missing for it: `jointBlocks` (a `foldl` of `addToBlocks`) = `Spec.groupByKey` (naive group-by) on the keyed variants, and
`sfLoop` = run-length decomposition `Spec.runLengths`; per block `switches`, `hamming`, `diffGenotypes` already equal their
definitions by `switch_errors_count_correspondence_changes`, `hamming_is_min_over_correspondences`, `diff_genotypes_eq_definition`
(+ `assessed_diploid_blocks_are_complementary` for their hypotheses).  Proved below: the totals part and the shape of the run. -/

/-- **totals = sums over the intersection blocks**, any ploidy, any flags, any number of blocks: every total column of a
pairwise row (`all_switches`, `blockwise_hamming`, `all_switchflips` both parts, `blockwise_diff_genotypes`,
`all_assessed_pairs`, `covered_variants`, `intersection_blocks`) is the sum over the per-block results `compare_block`
returned for the intersection blocks with ≥ 2 variants (`perBlock`: positions, errors) — nothing is dropped, nothing is
counted twice, whatever block becomes "the longest" -/
theorem totals_are_sums (fixA fixB fix3 fix45 fix46 : Bool) (ploidy : Nat) (t0 t1 : List Call) (r : PairResult)
    (h : comparePair fixA fixB fix3 fix45 fix46 ploidy t0 t1 = some r) :
    r.total.switches = (r.perBlock.map (·.2.1.switches)).sum ∧
    r.total.hamming = (r.perBlock.map (·.2.1.hamming)).sum ∧
    r.total.sf.switches = (r.perBlock.map (·.2.1.sf.switches)).sum ∧
    r.total.sf.flips = (r.perBlock.map (·.2.1.sf.flips)).sum ∧
    r.total.diffGenotypes = (r.perBlock.map (·.2.1.diffGenotypes)).sum ∧
    r.assessedPairs = (r.perBlock.map (·.1.length - 1)).sum ∧
    r.coveredVariants = (r.perBlock.map (·.1.length)).sum ∧
    r.intersectionBlocks = r.perBlock.length := by
  unfold comparePair at h
  simp only at h
  split at h
  · cases h
  · rename_i st hst
    injection h with h; subst h
    obtain ⟨g1, g2, g3, g4, g5, g6⟩ := pairLoop_good _ _ _ _ _ _ _ _ _ _ _ good_init hst
    have hl := pairLoop_lengths _ _ _ _ _ _ _ _ _ _ _ hst
    simp only [List.map_nil, List.nil_append] at hl
    refine ⟨g1, g2, g3, g4, g5, g6, ?_, ?_⟩
    · simp only [hl]
    · have := congrArg List.length hl
      simpa using this.symm

example : (comparePair true true true true true 2
      [⟨10,[0,1],true,1⟩, ⟨20,[0,1],true,1⟩, ⟨30,[1,0],true,2⟩, ⟨40,[0,1],true,2⟩, ⟨50,[0,1],true,2⟩]
      [⟨10,[0,1],true,7⟩, ⟨20,[1,0],true,7⟩, ⟨30,[0,1],true,7⟩, ⟨40,[0,1],true,7⟩, ⟨50,[0,1],true,7⟩]).map
        (fun r => (r.total.switches, r.perBlock.length, r.coveredVariants)) = some (2, 2, 5) := by decide

/-- **shape of the whole run** (any number of files, chromosomes, pairs; any flags): every pairwise result `run_compare`
produces — on every common chromosome, for every pair of files — is `compare` applied to two call lists, so
`totals_are_sums` (and every per-block theorem above) applies to every row of `--tsv-pairwise` -/
theorem run_compare_rows_are_pair_comparisons (fix3 fix45 fix46 : Bool) (o : Opts) (files : List VFile) (out : List ChromOut)
    (h : runCompare fix3 fix45 fix46 o files = .ok out) :
    ∀ ch ∈ out, ∀ po ∈ ch.pairs, ∀ r, po.result = some r →
      (∃ t0 t1, comparePair true true fix3 fix45 fix46 o.ploidy t0 t1 = some r) ∧
      r.total.switches = (r.perBlock.map (·.2.1.switches)).sum ∧
      r.total.hamming = (r.perBlock.map (·.2.1.hamming)).sum ∧
      r.total.sf.switches = (r.perBlock.map (·.2.1.sf.switches)).sum ∧
      r.total.sf.flips = (r.perBlock.map (·.2.1.sf.flips)).sum ∧
      r.total.diffGenotypes = (r.perBlock.map (·.2.1.diffGenotypes)).sum ∧
      r.assessedPairs = (r.perBlock.map (·.1.length - 1)).sum ∧
      r.coveredVariants = (r.perBlock.map (·.1.length)).sum ∧
      r.intersectionBlocks = r.perBlock.length := by
  intro ch hch po hpo r hr
  have hmem : ∃ names tabsAll cs, ch ∈ runChroms fix3 fix45 fix46 o files tabsAll names cs := by
    unfold runCompare at h
    cases hn : sampleNames o files with
    | error e => simp [hn, bind, Except.bind] at h
    | ok names =>
      cases ht : files.mapM (readFile o) with
      | error e => simp [hn, ht, bind, Except.bind] at h
      | ok tabsAll =>
        simp only [hn, ht, bind, Except.bind] at h
        split at h
        · cases h
        · simp only [pure, Except.pure, Except.ok.injEq] at h
          subst h
          exact ⟨_, _, _, hch⟩
  obtain ⟨names, tabsAll, cs, hc⟩ := hmem
  obtain ⟨t0, t1, ht⟩ := runChroms_results fix3 fix45 fix46 o files tabsAll names cs ch hc po hpo
  rw [hr] at ht
  exact ⟨⟨t0, t1, ht.symm⟩, totals_are_sums _ _ _ _ _ _ _ _ r ht.symm⟩
example :
    let f1 : VFile := ⟨["S"], [⟨"c", 10, "A", ["C"], [⟨[some 0, some 1], true, some 10⟩]⟩, ⟨"c", 20, "A", ["C"], [⟨[some 0, some 1], true, some 10⟩]⟩]⟩
    let f2 : VFile := ⟨["S"], [⟨"c", 10, "A", ["C"], [⟨[some 0, some 1], true, some 10⟩]⟩, ⟨"c", 20, "A", ["C"], [⟨[some 1, some 0], true, some 10⟩]⟩]⟩
    (match runCompare true true true ⟨2, none, false, false⟩ [f1, f2] with
      | .ok out => out.map (fun ch => ch.pairs.map (fun po => po.result.map (·.total.switches)))
      | .error _ => []) = [[some 1]] := by decide

end WhVerif.Props.C11

import WhVerif.Lemmas.C11
import WhVerif.Lemmas.C11Geno
import WhVerif.Lemmas.C11PolyPairs
/-!
# C11 — `whatshap compare` reports the defined error counts, independent of haplotype labelling

Theorems about the model `WhVerif.C11` of `whatshap/cli/compare.py` (diploid, all block lengths).
`dipl a = [a, flipBits a]` is a diploid phasing of heterozygous biallelic variants (what `compare` hands to
`compare_block` for ploidy 2: only common heterozygous variants are compared).
`compareBlock fixA fixB` — the flags only concern the polyploid branch; every theorem holds for all values.
-/
namespace WhVerif.Props.C11
open WhVerif.C11

/-- switches = non-flip switches + 2 · flips, for the raw functions on arbitrary strings -/
theorem switches_eq_nonflip_plus_two_flips (a b : Hap) :
    hamming (switchEncoding a) (switchEncoding b)
      = (computeSwitchFlips a b).switches + 2 * (computeSwitchFlips a b).flips := by
  have := sfLoop_inv ((switchEncoding a).zip (switchEncoding b)) 0 ⟨0, 0⟩ (Or.inr rfl)
  simp only [computeSwitchFlips]
  rw [this, hamming_eq_diffCount]
  simp

/-- … and for what `compare_block` reports on any diploid block -/
theorem compareBlock_switches_eq_nonflip_plus_two_flips (fixA fixB : Bool) (a0 a1 b0 b1 : Hap) (e : PhasingErrors)
    (h : compareBlock fixA fixB [a0, a1] [b0, b1] = some e) :
    e.switches = e.sf.switches + 2 * e.sf.flips := by
  rw [compareBlock_two] at h
  split at h
  · injection h with h; subst h
    exact switches_eq_nonflip_plus_two_flips a0 b0
  · cases h

example : compareBlock false false [[0,0,0,1,1],[1,1,1,0,0]] [[0,0,1,1,1],[1,1,0,0,0]]
    = some ⟨2, 1, ⟨0, 1⟩, 0, 1⟩ := by decide

/-- all numbers are zero when a diploid block is compared with itself -/
theorem zero_on_identical (fixA fixB : Bool) (a0 a1 : Hap) (hl : a1.length = a0.length) :
    compareBlock fixA fixB [a0, a1] [a0, a1] = some ⟨0, 0, ⟨0, 0⟩, 0, 1⟩ := by
  rw [compareBlock_two]
  simp [hl, computeSwitchFlips, sfLoop_diag, matchingPos_self]

example : compareBlock true true [[0,1,1],[1,0,0]] [[0,1,1],[1,0,0]] = some ⟨0, 0, ⟨0, 0⟩, 0, 1⟩ :=
  zero_on_identical true true _ _ rfl

/-- the switch encoding does not see which of the two haplotypes is listed (`complement` as coded) -/
theorem swap_invariant_switchEncoding (s c : Hap) (h : complement s = some c) :
    switchEncoding c = switchEncoding s := by
  obtain ⟨hb, rfl⟩ := (complement_eq_some_iff s c).1 h
  exact switchEncoding_flipBits hb

example : complement [0,1,1,0] = some [1,0,0,1] := by decide

/-- `compare_block` reports the same numbers when the haplotypes of the first phasing are listed in the other order -/
theorem swap_invariant_left (fixA fixB : Bool) (a : Hap) (ph1 : List Hap) (ha : IsBinary a) :
    compareBlock fixA fixB [flipBits a, a] ph1 = compareBlock fixA fixB (dipl a) ph1 := by
  match ph1 with
  | [b0, b1] =>
    simp only [dipl, compareBlock_two, flipBits_length, matchingPos_swap_left, switchEncoding_flipBits ha,
      computeSwitchFlips]
    simp only [Nat.min_comm (hamming b0 (flipBits a) + hamming b1 a)]
  | [] => simp [compareBlock, wellFormed, dipl]
  | [_] => simp [compareBlock, wellFormed, dipl]
  | _ :: _ :: _ :: _ => simp [compareBlock, wellFormed, dipl]

/-- … and when the haplotypes of the second phasing are listed in the other order -/
theorem swap_invariant_right (fixA fixB : Bool) (b : Hap) (ph0 : List Hap) (hb : IsBinary b) :
    compareBlock fixA fixB ph0 [flipBits b, b] = compareBlock fixA fixB ph0 (dipl b) := by
  match ph0 with
  | [a0, a1] =>
    simp only [dipl, compareBlock_two, flipBits_length, matchingPos_swap_right, switchEncoding_flipBits hb,
      computeSwitchFlips]
    simp only [Nat.min_comm (hamming (flipBits b) a0 + hamming b a1), Nat.add_comm (hamming b a1)]
    simp [and_comm, Nat.add_comm]
  | [] => simp [compareBlock, wellFormed, dipl]
  | [_] => simp [compareBlock, wellFormed, dipl]
  | _ :: _ :: _ :: _ => simp [compareBlock, wellFormed, dipl]

example : IsBinary [0,1,1,0] := by decide

/-- the reported Hamming distance is the minimum over the haplotype correspondences (brute-force spec:
all bijections), halved — any diploid block -/
theorem hamming_is_min_over_correspondences (fixA fixB : Bool) (a0 a1 b0 b1 : Hap) (e : PhasingErrors)
    (h : compareBlock fixA fixB [a0, a1] [b0, b1] = some e) :
    e.hamming = Spec.minHammingNum [a0, a1] [b0, b1] / 2 := by
  rw [compareBlock_two] at h
  split at h
  · injection h with h; subst h
    simp [spec_minHammingNum_two]
  · cases h

/-- … which for heterozygous biallelic phasings is `min(d, n - d)`, `d` = Hamming distance of the first haplotypes -/
theorem hamming_eq_min_d (fixA fixB : Bool) (a b : Hap) (e : PhasingErrors)
    (ha : IsBinary a) (hb : IsBinary b) (hl : a.length = b.length)
    (h : compareBlock fixA fixB (dipl a) (dipl b) = some e) :
    e.hamming = min (hamming a b) (a.length - hamming a b) := by
  simp only [dipl] at h
  rw [compareBlock_two] at h
  split at h
  · injection h with h; subst h
    have h1 := hamming_flip_right hb ha hl.symm
    have h2 := hamming_flip_right (isBinary_flipBits b) ha (by simpa using hl.symm)
    have h3 := hamming_flip_flip hb ha
    have h4 := hamming_comm b a
    simp only [h3]
    omega
  · cases h

example : compareBlock false false (dipl [0,1,1,0,1]) (dipl [1,0,0,1,1]) = some ⟨1, 1, ⟨1, 0⟩, 0, 1⟩ := by decide

/-- repaired `compare_pair` (fixes/F3.patch): the agreement vector of a block marks exactly as many
disagreements (zeros) as the Hamming distance `compare_block` reports for it -/
theorem agreement_matches_hamming (fixA fixB : Bool) (a b : Hap) (e : PhasingErrors) (v : List Nat)
    (ha : IsBinary a) (hb : IsBinary b) (hl : a.length = b.length)
    (h : compareBlock fixA fixB (dipl a) (dipl b) = some e)
    (hv : agreementFixed (dipl a) (dipl b) = some v) :
    zerosOf v = e.hamming := by
  rw [hamming_eq_min_d fixA fixB a b e ha hb hl h]
  rw [agreementFixed_dipl a b hb] at hv
  injection hv with hv
  have h1 := hamming_flip_right ha hb hl
  have h2 := zerosOf_agreeEq a b
  have h3 := zerosOf_agreeNe a b hl
  subst hv
  by_cases hlt : hamming a b < hamming a (flipBits b)
  · rw [if_pos hlt]; omega
  · rw [if_neg hlt]; omega

example : agreementFixed (dipl [0,1,1,0,1]) (dipl [1,0,0,1,1]) = some [1,1,1,1,0] := by decide

/-- F3: the code as it is (`hamming(phasing0, phasing1)` on the two LISTS of haplotype strings) violates it:
n = 10, d = 6: six positions marked as disagreeing, reported Hamming distance 4 -/
theorem F3_witness :
    let a : Hap := [0,0,0,0,0,0,0,0,0,0]
    let b : Hap := [1,1,1,1,1,1,0,0,0,0]
    (agreementFaithful (dipl a) (dipl b)).map zerosOf = some 6 ∧
    (compareBlock false false (dipl a) (dipl b)).map (·.hamming) = some 4 ∧
    (agreementFixed (dipl a) (dipl b)).map zerosOf = some 4 := by decide

/-- the reported number of different genotypes is the number of positions whose allele multisets differ
(any ploidy; the model compares sorted allele vectors as `Genotype.__eq__` does, the spec counts alleles) -/
theorem diff_genotypes_eq_definition (fixA fixB : Bool) (ph0 ph1 : List Hap) (e : PhasingErrors)
    (h : compareBlock fixA fixB ph0 ph1 = some e) :
    e.diffGenotypes = Spec.diffGenotypes ph0 ph1 (ph0.headD []).length := by
  unfold compareBlock at h
  split at h
  · cases h
  · simp only at h
    split at h
    · injection h with h; subst h
      exact diffGenotypes_eq_spec _ _ _
    · split at h
      · cases h
      · injection h with h; subst h
        exact diffGenotypes_eq_spec _ _ _

example : (compareBlock false false [[0,0],[0,1],[1,1]] [[0,0],[0,1],[1,0]]).map (·.diffGenotypes) = some 1 := by decide

/-- switch errors of a diploid block = number of adjacent variant pairs at which the haplotype correspondence
(identity where the first haplotypes agree, swapped where they differ) changes: the sequence of correspondences
is forced for heterozygous biallelic variants, so this is the minimum over all flip-free sequences -/
theorem switch_errors_count_correspondence_changes (fixA fixB : Bool) (a b : Hap) (e : PhasingErrors)
    (ha : IsBinary a) (hb : IsBinary b) (hl : a.length = b.length)
    (h : compareBlock fixA fixB (dipl a) (dipl b) = some e) :
    e.switches = (switchEncoding (agreeNe a b)).sum := by
  simp only [dipl] at h
  rw [compareBlock_two] at h
  split at h
  · injection h with h; subst h
    exact switches_orientation a b ha hb hl
  · cases h

example : (compareBlock false false (dipl [0,1,1,0,1]) (dipl [1,0,0,1,1])).map (·.switches) = some 1 ∧
    (switchEncoding (agreeNe [0,1,1,0,1] [1,0,0,1,1])).sum = 1 := by decide

/-- the number of marked disagreements does not depend on which haplotype of either phasing is listed first
(repaired code; the vector itself is inverted at a tie `d = n - d`) -/
theorem agreement_zeros_swap_invariant (a b : Hap) (v w : List Nat)
    (ha : IsBinary a) (hb : IsBinary b) (hl : a.length = b.length)
    (hv : agreementFixed (dipl a) (dipl b) = some v)
    (hw : agreementFixed [flipBits a, a] [flipBits b, b] = some w) :
    zerosOf w = zerosOf v := by
  have ha' := isBinary_flipBits a
  have hb' := isBinary_flipBits b
  have e1 : [flipBits a, a] = dipl (flipBits a) := by simp [dipl, flipBits_flipBits ha]
  have e2 : [flipBits b, b] = dipl (flipBits b) := by simp [dipl, flipBits_flipBits hb]
  rw [e1, e2, agreementFixed_dipl _ _ hb'] at hw
  rw [agreementFixed_dipl _ _ hb] at hv
  injection hv with hv; injection hw with hw
  subst hv; subst hw
  have h1 : hamming a (flipBits b) + hamming a b = a.length := hamming_flip_right ha hb hl
  have h2 : hamming (flipBits a) (flipBits b) = hamming a b := hamming_flip_flip ha hb
  have h3 : zerosOf (agreeEq a b) = hamming a b := zerosOf_agreeEq a b
  have h4 : zerosOf (agreeNe a b) + hamming a b = a.length := zerosOf_agreeNe a b hl
  have h5 : zerosOf (agreeEq (flipBits a) (flipBits b)) = hamming a b := by rw [zerosOf_agreeEq, h2]
  have h6 : zerosOf (agreeNe (flipBits a) (flipBits b)) + hamming a b = a.length := by
    have := zerosOf_agreeNe (flipBits a) (flipBits b) (by simpa using hl)
    rw [h2] at this; simpa using this
  have h7 : hamming (flipBits a) b + hamming a b = a.length := by
    have := hamming_flip_right ha' hb' (by simpa using hl)
    rw [flipBits_flipBits hb, h2] at this; simpa using this
  rw [flipBits_flipBits hb, h2]
  by_cases c1 : hamming a b < hamming a (flipBits b) <;> by_cases c2 : hamming a b < hamming (flipBits a) b
  all_goals simp only [c1, c2, if_true, if_false] <;> omega

example : (agreementFixed (dipl [0,1,1,0,1]) (dipl [0,0,1,1,1])).map zerosOf = some 2 ∧
    (agreementFixed [flipBits [0,1,1,0,1], [0,1,1,0,1]] [flipBits [0,0,1,1,1], [0,0,1,1,1]]).map zerosOf = some 2 := by decide

/-! ## polyploid switch/flip calculator (`switchflipcalculator.cpp`), ploidy ≤ 4, any number of positions, any costs

`cols` = per position the pair of allele columns.  `Spec.polyBrute` enumerates ALL sequences of haplotype
correspondences (bijections, enumerated naively) and takes the minimum of
`sc · Σ (#haplotypes whose partner changes) + fc · Σ (#mismatching alleles)`. -/

/-- the recurrences of the calculator without its pruning compute that minimum (Viterbi argument) -/
theorem poly_dp_unpruned_optimal (p sc fc : Nat) (hp : p ≤ 4) (cols : List (List Nat × List Nat)) :
    (polyCompareFull p sc fc cols).1 = (Spec.polyBrute p sc fc cols).1 :=
  polyCompareFull_eq_brute p sc fc hp cols

/-- the pruning as coded (erase `t` if `score t ≥ score p + sc·d(t,p)` for a profitable `p`, profitable list capped
at `ploidy` members) never changes the result: every erased entry is dominated by a kept one and `d` is a metric -/
theorem poly_prune_sound (fixA : Bool) (p sc fc : Nat) (hp : p ≤ 4) (cols : List (List Nat × List Nat)) :
    (polyCompare fixA p sc fc cols).cost = (polyCompareFull p sc fc cols).1 :=
  polyCompare_cost_eq_full fixA p sc fc (perms_ne_nil p hp) (perms_length p hp) cols

/-- the calculator as coded returns the minimum over all sequences of haplotype correspondences -/
theorem poly_dp_optimal (fixA : Bool) (p sc fc : Nat) (hp : p ≤ 4) (cols : List (List Nat × List Nat)) :
    (polyCompare fixA p sc fc cols).cost = (Spec.polyBrute p sc fc cols).1 :=
  polyCompare_eq_brute fixA p sc fc hp cols

/-- … and every `(switches, flips)` pair its back-tracking may return (under any hash order of the `unordered_map`s)
costs exactly that minimum — for ≥ 2 positions, or for the repaired code (fixes/FC11a.patch) -/
theorem poly_reported_pair_has_optimal_cost (fixA : Bool) (p sc fc : Nat) (hp : p ≤ 4)
    (cols : List (List Nat × List Nat)) (hq : fixA = true ∨ 2 ≤ cols.length) :
    ∀ sf ∈ (polyCompare fixA p sc fc cols).admissible,
      sc * sf.1 + fc * sf.2 = (Spec.polyBrute p sc fc cols).1 := by
  intro sf hsf
  rw [← poly_dp_optimal fixA p sc fc hp cols]
  exact polyCompare_admissible_cost fixA p sc fc cols hq sf hsf

example : (polyCompare true 3 1 1 [([0,0,1],[0,1,0]), ([0,1,1],[1,1,0]), ([1,0,0],[0,1,0])]).admissible ≠ [] := by decide

/-- FC11a: the code as it is reports `ploidy − 1` switches for a single position (two identical triploid columns) -/
theorem FC11a_witness :
    (polyCompare false 3 1 7 [([0,0,1],[0,0,1])]).admissible = [(2, 0)] ∧
    (Spec.polyBrute 3 1 7 [([0,0,1],[0,0,1])]).1 = 0 ∧
    (polyCompare true 3 1 7 [([0,0,1],[0,0,1])]).admissible = [(0, 0)] := by decide

/-- FC11b: with costs 1/1 the code may return either of two optimal decompositions (2 switches | 2 flips); which one
depends on iteration order, hence on the order in which the haplotypes are listed; the repaired costs leave one -/
theorem FC11b_witness :
    let ph0 : List Hap := [[1,1,0,0],[0,0,0,1],[1,0,1,0]]
    let ph1 : List Hap := [[1,0,0,1],[0,1,0,0],[1,0,1,0]]
    (polySwitchFlips true false ph0 ph1 3 4).admissible.length = 2 ∧
    (polySwitchFlips true true ph0 ph1 3 4).admissible.length = 1 := by decide

end WhVerif.Props.C11

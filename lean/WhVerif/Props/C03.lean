import WhVerif.Lemmas.C03
import WhVerif.Lemmas.C03BFS
import WhVerif.Lemmas.C03Total
/-!
# C03 — phase sets are exactly the read-connected components, named by leftmost variant

All statements are about the model (`Model/C03.lean`: `findComponents`, `computeOverallComponents`, `psOf`)
and the union-find-free specification (`Spec/C03.lean`: `Connected`).  The guard of every theorem is
"the run of `find_components` did not raise" (`= .ok comps`).
-/
namespace WhVerif.Props.C03
open WhVerif.C03 WhVerif.C03.L

/-- two phased positions get the same component iff they are linked by a chain of reads (and the master
block) in which consecutive variants are covered by a common read -/
theorem components_iff_connected (phased : List Nat) (reads : List Read) (master : Option (List Nat))
    (het : Option HetMap) (comps : List (Nat × Nat))
    (h : findComponents phased reads master het = .ok comps)
    (p q : Nat) (hp : p ∈ phased) (hq : q ∈ phased) :
    compOf comps p = compOf comps q ↔ Connected phased reads master het p q := by
  obtain ⟨rep, hc, hk, _, _, _⟩ := findComponents_rep phased reads master het comps h
  rw [hc p, hc q]
  simp only [hp, hq, if_true, Option.some.injEq]
  exact hk p q

/-- non-vacuity: two interleaved components -/
example : findComponents [10, 20, 30, 40, 50] [⟨0, [10, 30]⟩, ⟨0, [20, 40]⟩, ⟨0, [30, 50]⟩] none none
    = .ok [(10, 10), (20, 20), (30, 10), (40, 20), (50, 10)] := by rfl

/-- the component of a phased position is the leftmost (smallest) position connected to it -/
theorem component_is_min (phased : List Nat) (reads : List Read) (master : Option (List Nat))
    (het : Option HetMap) (comps : List (Nat × Nat))
    (h : findComponents phased reads master het = .ok comps) (p : Nat) (hp : p ∈ phased) :
    ∃ c, compOf comps p = some c ∧ c ∈ phased ∧ Connected phased reads master het p c ∧
      ∀ q, Connected phased reads master het p q → c ≤ q := by
  obtain ⟨rep, hc, hk, hle, hmem, hconn⟩ := findComponents_rep phased reads master het comps h
  refine ⟨rep p, by rw [hc p]; simp [hp], hmem p hp, hconn p, fun q hq => ?_⟩
  rw [(hk p q).mpr hq]; exact hle q

example : findComponents [3, 5, 9] [⟨0, [5, 9]⟩, ⟨1, [3, 9]⟩] none none = .ok [(3, 3), (5, 3), (9, 3)] := by rfl

/-- the phase-set name written to the VCF (PS, or the prefix of the HP entries) of a phased variant is the
1-based position of the leftmost variant of its connected component -/
theorem ps_is_leftmost_plus_one (phased : List Nat) (reads : List Read) (master : Option (List Nat))
    (het : Option HetMap) (comps : List (Nat × Nat))
    (h : findComponents phased reads master het = .ok comps) (p : Nat) (hp : p ∈ phased) :
    ∃ c, psOf comps p = some (c + 1) ∧ c ∈ phased ∧ Connected phased reads master het p c ∧
      ∀ q, Connected phased reads master het p q → c ≤ q := by
  obtain ⟨c, h1, h2, h3, h4⟩ := component_is_min phased reads master het comps h p hp
  exact ⟨c, by simp [psOf, h1, psName], h2, h3, h4⟩

example : psOf [(3, 3), (5, 3), (9, 3)] 9 = some 4 := by rfl

/-- pedigree mode with genetic haplotyping: all components touching a variant that is homozygous in some
family member (and accessible) are merged into one set -/
theorem masterblock_merges (accessible : List Nat) (reads : List Read) (distrust : Bool) (famSize : Nat)
    (genetic : Bool) (homozygous : List Nat) (superreads : List SuperReads) (comps : List (Nat × Nat))
    (h : computeOverallComponents accessible reads distrust famSize genetic homozygous superreads = .ok comps)
    (hf : famSize > 1) (hg : genetic = true)
    (p q p' q' : Nat) (hp : p ∈ accessible) (hq : q ∈ accessible)
    (hp' : p' ∈ accessible ∧ HomInSomeMember distrust famSize homozygous superreads p')
    (hq' : q' ∈ accessible ∧ HomInSomeMember distrust famSize homozygous superreads q')
    (c1 : Connected accessible reads (overallParams accessible distrust famSize genetic homozygous superreads).1
            (overallParams accessible distrust famSize genetic homozygous superreads).2 p p')
    (c2 : Connected accessible reads (overallParams accessible distrust famSize genetic homozygous superreads).1
            (overallParams accessible distrust famSize genetic homozygous superreads).2 q q') :
    compOf comps p = compOf comps q := by
  unfold computeOverallComponents at h
  obtain ⟨m, hm, hmem⟩ := overallParams_master accessible distrust famSize genetic homozygous superreads hf hg
  refine (components_iff_connected _ _ _ _ _ h p q hp hq).mpr ?_
  have hl : Connected accessible reads (overallParams accessible distrust famSize genetic homozygous superreads).1
      (overallParams accessible distrust famSize genetic homozygous superreads).2 p' q' :=
    Chain.single (Or.inr ⟨m, hm, (hmem p').mpr hp', (hmem q').mpr hq'⟩)
  exact Chain.trans c1 (Chain.trans hl (Chain.symm Linked.symm c2))

/-- non-vacuity: trio, positions 20 and 40 homozygous in some member, reads connect 10–20 and 40–50 -/
example : computeOverallComponents [10, 20, 30, 40, 50] [⟨0, [10, 20]⟩, ⟨1, [40, 50]⟩] false 3 true [40, 20, 7] []
    = .ok [(10, 10), (20, 10), (30, 30), (40, 10), (50, 10)] := by rfl

/-- single-sample phasing, or `--no-genetic-haplotyping`: there is no master block; the components are
purely read-connected -/
theorem no_masterblock_without_genetic_haplotyping (accessible : List Nat) (distrust : Bool) (famSize : Nat)
    (genetic : Bool) (homozygous : List Nat) (superreads : List SuperReads)
    (h : famSize ≤ 1 ∨ genetic = false) :
    (overallParams accessible distrust famSize genetic homozygous superreads).1 = none :=
  overallParams_no_master accessible distrust famSize genetic homozygous superreads h

/-- the executable oracle used by the harness (breadth-first closure over "some read covers both", no union-find)
decides the specification's `Connected` -/
theorem connectedB_iff_connected (phased : List Nat) (reads : List Read) (master : Option (List Nat))
    (het : Option HetMap) (a b : Nat) :
    connectedB phased reads master het a b = true ↔ Connected phased reads master het a b :=
  WhVerif.C03.BFS.connectedB_iff phased reads master het a b

/-- model = executable brute-force spec -/
theorem components_iff_connectedB (phased : List Nat) (reads : List Read) (master : Option (List Nat))
    (het : Option HetMap) (comps : List (Nat × Nat))
    (h : findComponents phased reads master het = .ok comps)
    (p q : Nat) (hp : p ∈ phased) (hq : q ∈ phased) :
    compOf comps p = compOf comps q ↔ connectedB phased reads master het p q = true := by
  rw [connectedB_iff_connected]
  exact components_iff_connected phased reads master het comps h p q hp hq

example : connectedB [10, 20, 30, 40, 50] [⟨0, [10, 30]⟩, ⟨0, [20, 40]⟩, ⟨0, [30, 50]⟩] none none 10 50 = true
    ∧ connectedB [10, 20, 30, 40, 50] [⟨0, [10, 30]⟩, ⟨0, [20, 40]⟩, ⟨0, [30, 50]⟩] none none 10 40 = false := by decide

/-- the guard of the theorems above holds in the situation of the pipeline: `find_components` does not raise when
the phased positions are sorted, every read carries a position at most once, the het map (if any) knows every read's
sample and the master block (if any) consists of distinct phased positions -/
theorem find_components_total (phased : List Nat) (reads : List Read) (master : Option (List Nat))
    (het : Option HetMap) (hsorted : isSortedB phased = true) (hnd : ∀ r ∈ reads, r.positions.Nodup)
    (hk : WhVerif.C03.Total.HetKnows het reads) (hm : WhVerif.C03.Total.MasterOk phased master) :
    ∃ comps, findComponents phased reads master het = .ok comps :=
  WhVerif.C03.Total.findComponents_ok phased reads master het hsorted hnd hk hm

end WhVerif.Props.C03

import WhVerif.Lemmas.C03
import WhVerif.Lemmas.C03BFS
import WhVerif.Lemmas.C03Total
import WhVerif.Lemmas.C03PipeExample
import WhVerif.Lemmas.C03Header
import WhVerif.Props.C04
/-!
# C03 — phase sets are exactly the read-connected components, named by leftmost variant

All statements are about the model (`Model/C03.lean`: `findComponents`, `computeOverallComponents`, `psOf`)
and the union-find-free specification (`Spec/C03.lean`: `Connected`).  The guard of every theorem is
"the run of `find_components` did not raise" (`= .ok comps`).
-/
namespace WhVerif.Props.C03
open WhVerif.C03 WhVerif.C03.L

/-- two phased positions get the same component iff they are linked by a chain of reads (and the master
block) in which consecutive variants are covered by a common read -/
theorem components_iff_connected (phased : List Nat) (reads : List Read) (master : Option (List Nat))
    (het : Option HetMap) (comps : List (Nat × Nat))
    (h : findComponents phased reads master het = .ok comps)
    (p q : Nat) (hp : p ∈ phased) (hq : q ∈ phased) :
    compOf comps p = compOf comps q ↔ Connected phased reads master het p q := by
  obtain ⟨rep, hc, hk, _, _, _⟩ := findComponents_rep phased reads master het comps h
  rw [hc p, hc q]
  simp only [hp, hq, if_true, Option.some.injEq]
  exact hk p q

/-- non-vacuity: two interleaved components -/
example : findComponents [10, 20, 30, 40, 50] [⟨0, [10, 30]⟩, ⟨0, [20, 40]⟩, ⟨0, [30, 50]⟩] none none
    = .ok [(10, 10), (20, 20), (30, 10), (40, 20), (50, 10)] := by rfl

/-- the component of a phased position is the leftmost (smallest) position connected to it -/
theorem component_is_min (phased : List Nat) (reads : List Read) (master : Option (List Nat))
    (het : Option HetMap) (comps : List (Nat × Nat))
    (h : findComponents phased reads master het = .ok comps) (p : Nat) (hp : p ∈ phased) :
    ∃ c, compOf comps p = some c ∧ c ∈ phased ∧ Connected phased reads master het p c ∧
      ∀ q, Connected phased reads master het p q → c ≤ q := by
  obtain ⟨rep, hc, hk, hle, hmem, hconn⟩ := findComponents_rep phased reads master het comps h
  refine ⟨rep p, by rw [hc p]; simp [hp], hmem p hp, hconn p, fun q hq => ?_⟩
  rw [(hk p q).mpr hq]; exact hle q

example : findComponents [3, 5, 9] [⟨0, [5, 9]⟩, ⟨1, [3, 9]⟩] none none = .ok [(3, 3), (5, 3), (9, 3)] := by rfl

/-- the phase-set name written to the VCF (PS, or the prefix of the HP entries) of a phased variant is the
1-based position of the leftmost variant of its connected component -/
theorem ps_is_leftmost_plus_one (phased : List Nat) (reads : List Read) (master : Option (List Nat))
    (het : Option HetMap) (comps : List (Nat × Nat))
    (h : findComponents phased reads master het = .ok comps) (p : Nat) (hp : p ∈ phased) :
    ∃ c, psOf comps p = some (c + 1) ∧ c ∈ phased ∧ Connected phased reads master het p c ∧
      ∀ q, Connected phased reads master het p q → c ≤ q := by
  obtain ⟨c, h1, h2, h3, h4⟩ := component_is_min phased reads master het comps h p hp
  exact ⟨c, by simp [psOf, h1, psName], h2, h3, h4⟩

example : psOf [(3, 3), (5, 3), (9, 3)] 9 = some 4 := by rfl

/-- pedigree mode with genetic haplotyping: all components touching a variant that is homozygous in some
family member (and accessible) are merged into one set -/
theorem masterblock_merges (accessible : List Nat) (reads : List Read) (distrust : Bool) (famSize : Nat)
    (genetic : Bool) (homozygous : List Nat) (superreads : List SuperReads) (comps : List (Nat × Nat))
    (h : computeOverallComponents accessible reads distrust famSize genetic homozygous superreads = .ok comps)
    (hf : famSize > 1) (hg : genetic = true)
    (p q p' q' : Nat) (hp : p ∈ accessible) (hq : q ∈ accessible)
    (hp' : p' ∈ accessible ∧ HomInSomeMember distrust famSize homozygous superreads p')
    (hq' : q' ∈ accessible ∧ HomInSomeMember distrust famSize homozygous superreads q')
    (c1 : Connected accessible reads (overallParams accessible distrust famSize genetic homozygous superreads).1
            (overallParams accessible distrust famSize genetic homozygous superreads).2 p p')
    (c2 : Connected accessible reads (overallParams accessible distrust famSize genetic homozygous superreads).1
            (overallParams accessible distrust famSize genetic homozygous superreads).2 q q') :
    compOf comps p = compOf comps q := by
  unfold computeOverallComponents at h
  obtain ⟨m, hm, hmem⟩ := overallParams_master accessible distrust famSize genetic homozygous superreads hf hg
  refine (components_iff_connected _ _ _ _ _ h p q hp hq).mpr ?_
  have hl : Connected accessible reads (overallParams accessible distrust famSize genetic homozygous superreads).1
      (overallParams accessible distrust famSize genetic homozygous superreads).2 p' q' :=
    Chain.single (Or.inr ⟨m, hm, (hmem p').mpr hp', (hmem q').mpr hq'⟩)
  exact Chain.trans c1 (Chain.trans hl (Chain.symm Linked.symm c2))

/-- non-vacuity: trio, positions 20 and 40 homozygous in some member, reads connect 10–20 and 40–50 -/
example : computeOverallComponents [10, 20, 30, 40, 50] [⟨0, [10, 20]⟩, ⟨1, [40, 50]⟩] false 3 true [40, 20, 7] []
    = .ok [(10, 10), (20, 10), (30, 30), (40, 10), (50, 10)] := by rfl

/-- single-sample phasing, or `--no-genetic-haplotyping`: there is no master block; the components are
purely read-connected -/
theorem no_masterblock_without_genetic_haplotyping (accessible : List Nat) (distrust : Bool) (famSize : Nat)
    (genetic : Bool) (homozygous : List Nat) (superreads : List SuperReads)
    (h : famSize ≤ 1 ∨ genetic = false) :
    (overallParams accessible distrust famSize genetic homozygous superreads).1 = none :=
  overallParams_no_master accessible distrust famSize genetic homozygous superreads h

/-- the executable oracle used by the harness (breadth-first closure over "some read covers both", no union-find)
decides the specification's `Connected` -/
theorem connectedB_iff_connected (phased : List Nat) (reads : List Read) (master : Option (List Nat))
    (het : Option HetMap) (a b : Nat) :
    connectedB phased reads master het a b = true ↔ Connected phased reads master het a b :=
  WhVerif.C03.BFS.connectedB_iff phased reads master het a b

/-- model = executable brute-force spec -/
theorem components_iff_connectedB (phased : List Nat) (reads : List Read) (master : Option (List Nat))
    (het : Option HetMap) (comps : List (Nat × Nat))
    (h : findComponents phased reads master het = .ok comps)
    (p q : Nat) (hp : p ∈ phased) (hq : q ∈ phased) :
    compOf comps p = compOf comps q ↔ connectedB phased reads master het p q = true := by
  rw [connectedB_iff_connected]
  exact components_iff_connected phased reads master het comps h p q hp hq

example : connectedB [10, 20, 30, 40, 50] [⟨0, [10, 30]⟩, ⟨0, [20, 40]⟩, ⟨0, [30, 50]⟩] none none 10 50 = true
    ∧ connectedB [10, 20, 30, 40, 50] [⟨0, [10, 30]⟩, ⟨0, [20, 40]⟩, ⟨0, [30, 50]⟩] none none 10 40 = false := by decide

/-- the guard of the theorems above holds in the situation of the pipeline: `find_components` does not raise when
the phased positions are sorted, every read carries a position at most once, the het map (if any) knows every read's
sample and the master block (if any) consists of distinct phased positions -/
theorem find_components_total (phased : List Nat) (reads : List Read) (master : Option (List Nat))
    (het : Option HetMap) (hsorted : isSortedB phased = true) (hnd : ∀ r ∈ reads, r.positions.Nodup)
    (hk : WhVerif.C03.Total.HetKnows het reads) (hm : WhVerif.C03.Total.MasterOk phased master) :
    ∃ comps, findComponents phased reads master het = .ok comps :=
  WhVerif.C03.Total.findComponents_ok phased reads master het hsorted hnd hk hm


/-! ## From the selected reads to the phase sets in the written records

Model: `Model/C03Pipe.lean` (`mergeReadsets`, `accessiblePositions`, `familyStage`, `chromTargets`, `phaseChrom`,
`readList`) composed with the writer model of C04 (`writeChrom`, repaired = the writer of /repo) and the decoders of C09
(`decodeCall` = GT/PS statement, else HP statement).  `FamConnected d g f o` is `Connected` over the SELECTED reads of all
members of family `f` (`f.selected.flatten`), the master block and het map `compute_overall_components` derives. -/
section pipeline
open WhVerif.C03.Pipe WhVerif.C04

/-- **the reads used for phasing are the selected reads of all family members**: `merge_readsets` returns a permutation
of the concatenated selected read sets; nothing is added, dropped or duplicated, and every read is strictly sorted -/
theorem used_reads_are_the_selected_reads (readsets : List (List SelRead)) (all : List SelRead)
    (h : mergeReadsets readsets = .ok all) :
    all.Perm readsets.flatten ∧ ∀ r ∈ all, r.positions.Pairwise (· < ·) := by
  obtain ⟨h1, h2⟩ := mergeReadsets_spec readsets all h
  exact ⟨h1, fun r hr => strictSorted_pairwise _ (h2 r hr)⟩

example : mergeReadsets Ex.exReads = .ok Ex.exOut.allReads := by rfl

/-- a position is accessible (can get a phase set at all) iff a selected read of some family member covers it, or — only
in pedigree mode with genetic haplotyping — it is one of the homozygous positions -/
theorem accessible_iff_covered_by_selected_read (distrust genetic : Bool) (f : FamilyIn) (o : FamilyOut)
    (h : familyStage distrust genetic f = .ok o) (p : Nat) :
    p ∈ o.accessible ↔ (∃ rs ∈ f.selected, ∃ r ∈ rs, p ∈ r.positions) ∨
      (f.members.length > 1 ∧ genetic = true ∧ p ∈ f.homozygous) :=
  mem_stage_accessible (familyStage_spec distrust genetic f o h) p

example : familyStage false true Ex.exFam = .ok Ex.exOut := Ex.exFam_stage

/-- **`find_components` cannot raise inside `whatshap phase`**: if `merge_readsets` succeeds (reads sorted, no repeated
read name), the members' ids agree with their super-reads and every selected read belongs to a member, the whole family
stage succeeds — for trusted and distrusted genotypes, with and without genetic haplotyping -/
theorem family_stage_total (distrust genetic : Bool) (f : FamilyIn) (all : List SelRead)
    (hm : mergeReadsets f.selected = .ok all) (hok : FamilyOk f) :
    ∃ o, familyStage distrust genetic f = .ok o :=
  familyStage_ok distrust genetic f all hm hok

example : FamilyOk Ex.trioFam ∧ ∃ all, mergeReadsets Ex.trioFam.selected = .ok all := by
  refine ⟨⟨?_, rfl, ?_⟩, _, rfl⟩
  · decide
  · decide

/-- **the order of the reads is irrelevant** (the tie-break of `ReadSet.sort` is a hash of the read name): two runs of
`find_components` on read lists with the same members give the same component to every position, and if the
pipeline's invariants hold for one order the other order does not raise either -/
theorem read_order_irrelevant (phased : List Nat) (reads reads' : List Read) (master : Option (List Nat))
    (het : Option HetMap) (hperm : reads.Perm reads') (comps comps' : List (Nat × Nat))
    (h : findComponents phased reads master het = .ok comps) (h' : findComponents phased reads' master het = .ok comps')
    (p : Nat) : compOf comps p = compOf comps' p :=
  compOf_congr (fun _ => hperm.mem_iff) h h' p

example : findComponents [10, 20, 30] [⟨0, [10, 20]⟩, ⟨0, [20, 30]⟩] none none =
    findComponents [10, 20, 30] [⟨0, [20, 30]⟩, ⟨0, [10, 20]⟩] none none := by rfl

/-- **reads that cover fewer than two phased variants link nothing**: removing them from the read set changes no
component (they may still make a position accessible, which then forms a set of its own) -/
theorem short_reads_link_nothing (phased : List Nat) (reads : List Read) (master : Option (List Nat))
    (het : Option HetMap) (comps comps' : List (Nat × Nat))
    (h : findComponents phased reads master het = .ok comps)
    (h' : findComponents phased (reads.filter (usefulB phased)) master het = .ok comps') (p : Nat) :
    compOf comps p = compOf comps' p := by
  obtain ⟨rep, hc, hk, hle, _, hconn⟩ := findComponents_rep phased reads master het comps h
  obtain ⟨rep', hc', hk', hle', _, hconn'⟩ := findComponents_rep phased _ master het comps' h'
  rw [hc p, hc' p]
  split
  · congr 1
    apply Nat.le_antisymm
    · have := (connected_filter_useful phased reads master het p (rep' p)).mpr (hconn' p)
      rw [(hk p (rep' p)).mpr this]; exact hle _
    · have := (connected_filter_useful phased reads master het p (rep p)).mp (hconn p)
      rw [(hk' p (rep p)).mpr this]; exact hle' _
  · rfl

example : findComponents [10, 20, 30] [⟨0, [10, 20]⟩, ⟨0, [30, 99]⟩, ⟨0, [20]⟩] none none = .ok [(10, 10), (20, 10), (30, 30)] ∧
    [⟨0, [10, 20]⟩, ⟨0, [30, 99]⟩, ⟨0, [20]⟩].filter (usefulB [10, 20, 30]) = [(⟨0, [10, 20]⟩ : Read)] ∧
    findComponents [10, 20, 30] [⟨0, [10, 20]⟩] none none = .ok [(10, 10), (20, 10), (30, 30)] := by
  refine ⟨by rfl, by rfl, by rfl⟩

/-- **alleles and qualities of the read variants are irrelevant** for accessibility and components: two read sets that
agree on sample ids and positions give the same accessible positions and the same `find_components` result -/
theorem alleles_and_qualities_irrelevant (all all' : List SelRead) (h : all.map SelRead.toRead = all'.map SelRead.toRead)
    (n : Nat) (g distrust : Bool) (hom : List Nat) (srs : List SuperReads) :
    accessiblePositions all n g hom = accessiblePositions all' n g hom ∧
    computeOverallComponents (accessiblePositions all n g hom) (all.map SelRead.toRead) distrust n g hom srs =
      computeOverallComponents (accessiblePositions all' n g hom) (all'.map SelRead.toRead) distrust n g hom srs := by
  have hp : all.flatMap (·.positions) = all'.flatMap (·.positions) := by
    have e : ∀ l : List SelRead, l.flatMap (·.positions) = (l.map SelRead.toRead).flatMap (·.positions) := by
      intro l; rw [List.flatMap_map]; rfl
    rw [e all, e all', h]
  have hacc : accessiblePositions all n g hom = accessiblePositions all' n g hom := by
    unfold accessiblePositions; rw [hp]
  exact ⟨hacc, by rw [hacc, h]⟩

example : [(⟨"a", 0, 0, [(10, 0, 30), (20, 1, 5)]⟩ : SelRead)].map SelRead.toRead =
    [(⟨"b", 3, 0, [(10, 1, 0), (20, 0, 60)]⟩ : SelRead)].map SelRead.toRead := by rfl

/-- **family stage = C03 on the selected reads**: every accessible position gets the phase-set name `1 +` the leftmost
position connected to it by chains of SELECTED reads of the family's members (plus the master block) -/
theorem family_ps_is_leftmost_selected (distrust genetic : Bool) (f : FamilyIn) (o : FamilyOut)
    (h : familyStage distrust genetic f = .ok o) (p : Nat) (hp : p ∈ o.accessible) :
    ∃ c, psOf o.comps p = some (c + 1) ∧ c ∈ o.accessible ∧ FamConnected distrust genetic f o p c ∧
      ∀ q, FamConnected distrust genetic f o p q → c ≤ q := by
  have hs := familyStage_spec distrust genetic f o h
  obtain ⟨rep, h1, _, _, _, _⟩ := stage_findComponents hs
  have hc : compOf o.comps p = some (rep p) := by rw [h1 p]; simp [hp]
  obtain ⟨_, h2, h3, h4⟩ := stage_comp_leftmost hs hc
  exact ⟨rep p, by simp [psOf, hc, psName], h2, h3, h4⟩

example : psOf Ex.exOut.comps 50 = some 11 ∧ psOf Ex.exOut.comps 40 = some 21 := by decide

/-- **end to end, soundness**: in ANY record written for a requested chromosome, whatever phase statement decodes from the
call of a phased sample (PS or HP encoded, whatever the input call carried) names the phase set `1 + k`, where `k` is the
leftmost position connected to the record's position by the selected reads of the sample's family; the alleles are the
member's two super-read alleles at that position, which differ (a variant that ends up homozygous is never phased).
No assumption on the order of the records, duplicate positions or the records the writer skips. -/
theorem written_ps_is_leftmost_selected (rc : RunCfg) (c : ChromIn) (outs : List Out)
    (h : phaseChrom rc c = .ok outs) (hreq : requested rc c.name = true)
    (hnames : ((c.families.flatMap (·.members)).map (·.name)).Nodup)
    (hwf : ∀ r ∈ c.records, ∀ nc ∈ r.calls, WhVerif.C09.WfCall r.format nc.2)
    (f : FamilyIn) (hf : f ∈ c.families) (fo : FamilyOut) (hfo : familyStage rc.distrust rc.genetic f = .ok fo)
    (m : Member) (s : SuperReads) (hms : (m, s) ∈ f.members.zip f.superreads)
    (o : Out) (ho : o ∈ outs) (call : Call) (hcall : clookup o.record.calls m.name = some call)
    (ph : WhVerif.C09.Phase) (hdec : decodeCall o.record.format call = some ph) :
    ∃ k : Nat, ph.block = some ((k : Int) + 1) ∧ o.record.pos ∈ fo.accessible ∧ k ∈ fo.accessible ∧
      FamConnected rc.distrust rc.genetic f fo o.record.pos k ∧
      (∀ q, FamConnected rc.distrust rc.genetic f fo o.record.pos q → k ≤ q) ∧
      ∃ v ∈ s.vars, v.1 = o.record.pos ∧ ph.alleles = [some v.2.1, some v.2.2] ∧ v.2.1 ≠ v.2.2 ∧ v.2.1 ≤ 1 ∧ v.2.2 ≤ 1 := by
  unfold phaseChrom at h
  cases hts : chromTargets rc c with
  | error e => simp [hts] at h
  | ok ts =>
    simp only [hts, Except.ok.injEq] at h
    subst h
    obtain ⟨hfam, hnd⟩ := chromTargets_spec rc c ts hts hreq
    obtain ⟨fo', hfo', hmem⟩ := hfam f hf
    have : fo' = fo := by rw [hfo] at hfo'; cases hfo'; rfl
    subst this
    have hs := familyStage_spec rc.distrust rc.genetic f fo' hfo
    have ht : toTarget m.name s fo'.comps ∈ ts := hmem _ (by rw [hs.targets]; exact List.mem_map.mpr ⟨(m, s), hms, rfl⟩)
    obtain ⟨comp, p, hcomp, hp, hph, hhet⟩ := decode_chrom (pipeCfg rc ts) rfl rfl (hnd hnames) c.records hwf none
      (toTarget m.name s fo'.comps) ht o ho call hcall ph hdec
    have hcomp' : compOf fo'.comps o.record.pos = some comp := hcomp
    obtain ⟨h1, h2, h3, h4⟩ := stage_comp_leftmost hs hcomp'
    obtain ⟨v, hv, hvpos, hpv, hv1, hv2⟩ := lookupPhase_toTarget hp
    refine ⟨comp, by rw [hph], h1, h2, h3, h4, v, hv, hvpos, by rw [hph, hpv]; rfl, ?_, hv1, hv2⟩
    intro heq
    rw [hpv, heq, WhVerif.C09.sortNat_pair] at hhet
    simp [isHom] at hhet

/-- non-vacuity: the interleaved single-sample run, tag PS and tag HP: phase sets 11 and 21, position 40 (equal
super-read alleles) unphased -/
example (tag : Tag) : Ex.runDecoded (Ex.exRc tag) Ex.exChrom "S" =
    some [(10, some ⟨some 11, [some 0, some 1]⟩), (20, some ⟨some 21, [some 1, some 0]⟩),
          (30, some ⟨some 11, [some 1, some 0]⟩), (40, none), (50, some ⟨some 11, [some 0, some 1]⟩)] := Ex.ex_run tag

/-- the hypotheses of `written_ps_is_leftmost_selected` / `written_same_set_iff_connected` hold for that run -/
example (tag : Tag) : requested (Ex.exRc tag) Ex.exChrom.name = true ∧
    ((Ex.exChrom.families.flatMap (·.members)).map (·.name)).Nodup ∧
    (∀ r ∈ Ex.exChrom.records, ∀ nc ∈ r.calls, WhVerif.C09.WfCall r.format nc.2) ∧
    Ex.exFam ∈ Ex.exChrom.families ∧ familyStage (Ex.exRc tag).distrust (Ex.exRc tag).genetic Ex.exFam = .ok Ex.exOut ∧
    ((⟨"S", 0⟩ : Member), Ex.exSuper) ∈ Ex.exFam.members.zip Ex.exFam.superreads :=
  ⟨rfl, by decide, Ex.exRecords_wf, by simp [Ex.exChrom], Ex.exFam_stage, by simp [Ex.exFam]⟩

/-- **end to end, "same phase set iff connected"**: two phase statements decoded from written records of the same
chromosome, for members of the same family (the same sample, or two members of a pedigree), name the same phase set iff
the two positions are connected by selected reads of that family (plus the master block) -/
theorem written_same_set_iff_connected (rc : RunCfg) (c : ChromIn) (outs : List Out)
    (h : phaseChrom rc c = .ok outs) (hreq : requested rc c.name = true)
    (hnames : ((c.families.flatMap (·.members)).map (·.name)).Nodup)
    (hwf : ∀ r ∈ c.records, ∀ nc ∈ r.calls, WhVerif.C09.WfCall r.format nc.2)
    (f : FamilyIn) (hf : f ∈ c.families) (fo : FamilyOut) (hfo : familyStage rc.distrust rc.genetic f = .ok fo)
    (m1 m2 : Member) (s1 s2 : SuperReads) (hms1 : (m1, s1) ∈ f.members.zip f.superreads)
    (hms2 : (m2, s2) ∈ f.members.zip f.superreads)
    (o1 o2 : Out) (ho1 : o1 ∈ outs) (ho2 : o2 ∈ outs) (call1 call2 : Call)
    (hcall1 : clookup o1.record.calls m1.name = some call1) (hcall2 : clookup o2.record.calls m2.name = some call2)
    (ph1 ph2 : WhVerif.C09.Phase) (hdec1 : decodeCall o1.record.format call1 = some ph1)
    (hdec2 : decodeCall o2.record.format call2 = some ph2) :
    ph1.block = ph2.block ↔ FamConnected rc.distrust rc.genetic f fo o1.record.pos o2.record.pos := by
  unfold phaseChrom at h
  cases hts : chromTargets rc c with
  | error e => simp [hts] at h
  | ok ts =>
    simp only [hts, Except.ok.injEq] at h
    subst h
    obtain ⟨hfam, hnd⟩ := chromTargets_spec rc c ts hts hreq
    obtain ⟨fo', hfo', hmem⟩ := hfam f hf
    have : fo' = fo := by rw [hfo] at hfo'; cases hfo'; rfl
    subst this
    have hs := familyStage_spec rc.distrust rc.genetic f fo' hfo
    have ht1 : toTarget m1.name s1 fo'.comps ∈ ts :=
      hmem _ (by rw [hs.targets]; exact List.mem_map.mpr ⟨(m1, s1), hms1, rfl⟩)
    have ht2 : toTarget m2.name s2 fo'.comps ∈ ts :=
      hmem _ (by rw [hs.targets]; exact List.mem_map.mpr ⟨(m2, s2), hms2, rfl⟩)
    obtain ⟨k1, p1, hc1, _, hph1, _⟩ := decode_chrom (pipeCfg rc ts) rfl rfl (hnd hnames) c.records hwf none
      _ ht1 o1 ho1 call1 hcall1 ph1 hdec1
    obtain ⟨k2, p2, hc2, _, hph2, _⟩ := decode_chrom (pipeCfg rc ts) rfl rfl (hnd hnames) c.records hwf none
      _ ht2 o2 ho2 call2 hcall2 ph2 hdec2
    have hc1' : compOf fo'.comps o1.record.pos = some k1 := hc1
    have hc2' : compOf fo'.comps o2.record.pos = some k2 := hc2
    rw [← stage_comp_iff hs hc1' hc2', hph1, hph2]
    simp only [Option.some.injEq]
    omega

example : FamConnected false true Ex.exFam Ex.exOut 10 50 :=
  (stage_comp_iff (familyStage_spec _ _ _ _ Ex.exFam_stage) (by rfl : compOf Ex.exOut.comps 10 = some 10)
    (by rfl : compOf Ex.exOut.comps 50 = some 10)).mp rfl

/-- **end to end, completeness**: when the writer stands at a biallelic record (an SNV under `--only-snvs`) that is not a
repetition of the position it tagged last, the sample is a header sample, its family stage gave the position a component
and the member's (one-per-position) super-reads carry two different alleles from {0, 1} there, then the written call
decodes to exactly that phase set `1 + component` and those alleles — for tag PS and tag HP -/
theorem written_phased_complete (rc : RunCfg) (c : ChromIn) (ts : List Target) (hts : chromTargets rc c = .ok ts)
    (hreq : requested rc c.name = true) (hnames : ((c.families.flatMap (·.members)).map (·.name)).Nodup)
    (f : FamilyIn) (hf : f ∈ c.families) (fo : FamilyOut) (hfo : familyStage rc.distrust rc.genetic f = .ok fo)
    (m : Member) (s : SuperReads) (hms : (m, s) ∈ f.members.zip f.superreads) (hhdr : m.name ∈ rc.header)
    (hsnd : (s.vars.map (·.1)).Nodup)
    (prev : Option Nat) (r : Record) (halts : r.alts.length = 1) (hprev : prev ≠ some r.pos)
    (hsnv : rc.onlySnvs = true → isSnv r = true)
    (c0 : Call) (hwf : WhVerif.C09.WfCall r.format c0)
    (v : Nat × Nat × Nat) (hv : v ∈ s.vars) (hvpos : v.1 = r.pos) (hne : v.2.1 ≠ v.2.2) (h1 : v.2.1 ≤ 1) (h2 : v.2.2 ≤ 1)
    (k : Nat) (hk : compOf fo.comps r.pos = some k) :
    decodeCall (writeRecord (pipeCfg rc ts) prev r).record.format (finalCall (pipeCfg rc ts) prev r m.name c0) =
      some ⟨some ((k : Int) + 1), [some v.2.1, some v.2.2]⟩ := by
  obtain ⟨hfam, hnd⟩ := chromTargets_spec rc c ts hts hreq
  obtain ⟨fo', hfo', hmem⟩ := hfam f hf
  have : fo' = fo := by rw [hfo] at hfo'; cases hfo'; rfl
  subst this
  have hs := familyStage_spec rc.distrust rc.genetic f fo' hfo
  have ht : toTarget m.name s fo'.comps ∈ ts := hmem _ (by rw [hs.targets]; exact List.mem_map.mpr ⟨(m, s), hms, rfl⟩)
  have hft : findTarget (pipeCfg rc ts) (toTarget m.name s fo'.comps).name = some (toTarget m.name s fo'.comps) :=
    findTarget_of_mem (hnd hnames) ht
  have hlp : lookupPhase false (toTarget m.name s fo'.comps) r.pos = some [v.2.1, v.2.2] := by
    rw [← hvpos]; exact lookupPhase_toTarget_of_mem m.name s fo'.comps hsnd v hv h1 h2
  have hre : reaches (pipeCfg rc ts) prev r = true :=
    reaches_of_target (pipeCfg rc ts) rfl prev r halts hprev hsnv _ hhdr hft (by simp [toTarget, hk]) (by simp [hlp])
  have hfin := decode_final_of_reaches (pipeCfg rc ts) rfl rfl prev r m.name _ hft c0 hwf hre
  rw [hfin]
  unfold WhVerif.C09.written
  have hal : alookup (toTarget m.name s fo'.comps).comps r.pos = some k := by
    rw [alookup_eq_lookup]; exact hk
  rw [hal, hlp]
  have hhet : isHom (sortNat [v.2.1, v.2.2]) = false := by
    rw [WhVerif.C09.sortNat_pair]
    split <;> simp [isHom] <;> omega
  simp [hhet]

/-- non-vacuity: the theorem applied to the record at position 10 of the interleaved run, tag HP -/
example : decodeCall (writeRecord (pipeCfg (Ex.exRc .HP) Ex.exOut.targets) none (Ex.mkRec 10 [some 0, some 1])).record.format
      (finalCall (pipeCfg (Ex.exRc .HP) Ex.exOut.targets) none (Ex.mkRec 10 [some 0, some 1]) "S" ⟨some [some 0, some 1], false, []⟩) =
    some ⟨some 11, [some 0, some 1]⟩ :=
  written_phased_complete (Ex.exRc .HP) Ex.exChrom Ex.exOut.targets rfl rfl (by decide) Ex.exFam (by simp [Ex.exChrom])
    Ex.exOut Ex.exFam_stage ⟨"S", 0⟩ Ex.exSuper (by simp [Ex.exFam]) (by simp [Ex.exRc]) (by decide) none
    (Ex.mkRec 10 [some 0, some 1]) rfl (by simp) (by simp [Ex.exRc]) ⟨some [some 0, some 1], false, []⟩
    (Ex.mkRec_wf 10 [some 0, some 1] ("S", ⟨some [some 0, some 1], false, []⟩) (by simp [Ex.mkRec])) (10, 0, 1) (by simp [Ex.exSuper]) rfl (by decide) (by decide)
    (by decide) 10 rfl

/-- **a chromosome excluded by `--chromosome` gets no phase set**: it is written with two empty dicts, and every one of
its records comes out unchanged -/
theorem unrequested_chromosome_unchanged (rc : RunCfg) (c : ChromIn) (hreq : requested rc c.name = false) :
    ∃ outs, phaseChrom rc c = .ok outs ∧ outRecords outs = c.records := by
  unfold phaseChrom
  rw [chromTargets_unrequested rc c hreq]
  exact ⟨_, rfl, (WhVerif.Props.C04.untouched_when_no_targets (pipeCfg rc []) rfl none c.records).1⟩

example : requested ⟨.PS, false, false, true, ["S"], ["chr2"]⟩ "chr1" = false := by decide

/-- **per-sample / per-family and per-chromosome state**: the targets handed to the writer for a chromosome are, family
by family, the family's own stage result — a function of that family's selected reads, super-reads and homozygous
positions on THIS chromosome only (`phaseFile` maps `phaseChrom` over the chromosomes; nothing is carried over) -/
theorem targets_are_per_family (rc : RunCfg) (c : ChromIn) (ts : List Target) (hts : chromTargets rc c = .ok ts)
    (hreq : requested rc c.name = true) (f : FamilyIn) (hf : f ∈ c.families) :
    ∃ fo, familyStage rc.distrust rc.genetic f = .ok fo ∧ ∀ t ∈ fo.targets, t ∈ ts ∧ t.comps = fo.comps := by
  obtain ⟨hfam, _⟩ := chromTargets_spec rc c ts hts hreq
  obtain ⟨fo, hfo, hmem⟩ := hfam f hf
  refine ⟨fo, hfo, fun t ht => ⟨hmem t ht, ?_⟩⟩
  rw [(familyStage_spec _ _ f fo hfo).targets] at ht
  obtain ⟨x, _, rfl⟩ := List.mem_map.mp ht
  rfl

example : chromTargets (Ex.exRc .PS) Ex.exChrom = .ok Ex.exOut.targets := by rfl

/-- **pedigree merge rule in a whole run** (round-8 seed C03-f): with `--ped` and genetic haplotyping on — the OPTION
`rc.genetic`, one value for the whole run — on every requested chromosome and for EVERY family with more than one member,
wherever it stands in the list of families and whatever families (e.g. samples without relatives) stand before it, the
components handed to the writer for the family's members put any two accessible positions that are each connected (by the
family's selected reads) to an accessible position homozygous in some family member into the same set.  (The loop
`for representative_sample, family in sorted(families.items())` carries no state from one family / chromosome to the next.) -/
theorem pedigree_merge_in_every_family_of_the_run (rc : RunCfg) (c : ChromIn) (ts : List Target)
    (hts : chromTargets rc c = .ok ts) (hreq : requested rc c.name = true) (hg : rc.genetic = true)
    (f : FamilyIn) (hf : f ∈ c.families) (hm : f.members.length > 1) :
    ∃ fo, familyStage rc.distrust rc.genetic f = .ok fo ∧ (∀ t ∈ fo.targets, t ∈ ts ∧ t.comps = fo.comps) ∧
      ∀ p q p' q' : Nat, p ∈ fo.accessible → q ∈ fo.accessible →
        (p' ∈ fo.accessible ∧ HomInSomeMember rc.distrust f.members.length f.homozygous f.superreads p') →
        (q' ∈ fo.accessible ∧ HomInSomeMember rc.distrust f.members.length f.homozygous f.superreads q') →
        FamConnected rc.distrust rc.genetic f fo p p' → FamConnected rc.distrust rc.genetic f fo q q' →
        compOf fo.comps p = compOf fo.comps q := by
  obtain ⟨fo, hfo, htg⟩ := targets_are_per_family rc c ts hts hreq f hf
  refine ⟨fo, hfo, htg, ?_⟩
  intro p q p' q' hp hq hp' hq' c1 c2
  have hs := familyStage_spec rc.distrust rc.genetic f fo hfo
  obtain ⟨rep, h1, h2, _, _, _⟩ := stage_findComponents hs
  rw [h1 p, h1 q]
  simp only [hp, hq, if_true, Option.some.injEq]
  refine (h2 p q).mpr ?_
  obtain ⟨m, hm', hmem⟩ := overallParams_master fo.accessible rc.distrust f.members.length rc.genetic f.homozygous
    f.superreads hm hg
  have hl : FamConnected rc.distrust rc.genetic f fo p' q' :=
    Chain.single (Or.inr ⟨m, hm', (hmem p').mpr hp', (hmem q').mpr hq'⟩)
  exact Chain.trans c1 (Chain.trans hl (Chain.symm Linked.symm c2))

/-- non-vacuity: a single-sample family processed BEFORE a trio on the same chromosome: the trio's components 10–20 and
40–50 (20 and 40 homozygous in a member) are one set for every member of the trio -/
example : (match chromTargets ⟨.PS, false, false, true, ["S", "F", "M", "C"], []⟩ ⟨"chr2", [Ex.exFam, Ex.trioFam], []⟩ with
    | .ok ts => ts.map (fun t => (t.name, compOf t.comps 10, compOf t.comps 50))
    | .error _ => []) =
    [("S", some 10, some 10), ("F", some 10, some 10), ("M", some 10, some 10), ("C", some 10, some 10)] := by rfl

/-- **read list**: `--output-read-list` has one row per read used for phasing, in their order; the phase-set column of a
row is `1 +` the leftmost position connected (by the selected reads of the family) to the read's FIRST variant; with
trusted genotypes every variant of the read lies in that same phase set -/
theorem read_list_phase_set (distrust genetic : Bool) (f : FamilyIn) (o : FamilyOut)
    (h : familyStage distrust genetic f = .ok o) (bip : List Nat) (rows : List ReadListRow)
    (hrows : familyReadList f o bip = .ok rows) :
    rows.map (·.name) = o.allReads.map (·.name) ∧
    ∀ row ∈ rows, ∃ r ∈ f.selected.flatten, ∃ p rest k, r.positions = p :: rest ∧ row.name = r.name ∧
      row.sourceId = r.sourceId ∧ row.first = p + 1 ∧ row.phaseset = k + 1 ∧ psOf o.comps p = some row.phaseset ∧
      FamConnected distrust genetic f o p k ∧ (∀ q, FamConnected distrust genetic f o p q → k ≤ q) ∧
      (distrust = false → ∀ q ∈ r.positions, psOf o.comps q = some row.phaseset) := by
  have hs := familyStage_spec distrust genetic f o h
  obtain ⟨_, hnames, hall⟩ := readList_spec hrows
  refine ⟨hnames, fun row hrow => ?_⟩
  obtain ⟨r, hr, hap, hrr⟩ := hall row hrow
  obtain ⟨sname, comps, p, rest, k, hsn, hlk, hpos, hk, hre⟩ := readListRow_spec hrr
  have hcomps : comps = o.comps := lookup_member_comps_eq o.comps f.members sname comps hlk
  subst hcomps
  obtain ⟨hpa, _, hconn, hmin⟩ := stage_comp_leftmost hs hk
  have hrsel := (mem_allReads hs r).mp hr
  refine ⟨r, hrsel, p, rest, k, hpos, by rw [hre], by rw [hre], by rw [hre], by rw [hre],
    by rw [hre]; simp [psOf, hk, psName], hconn, hmin, ?_⟩
  intro hd q hq
  subst hd
  -- the read itself links its first position with `q`
  have hqa : q ∈ o.accessible :=
    (mem_stage_accessible hs q).mpr (Or.inl (by
      obtain ⟨rs, hrs, hrin⟩ := List.mem_flatten.mp hrsel
      exact ⟨rs, hrs, r, hrin, hq⟩))
  have hhet : famHet false genetic f o = none := by
    unfold famHet overallParams; simp
  have hlink : FamConnected false genetic f o p q := by
    refine Chain.single (Or.inl ⟨r.toRead, List.mem_map.mpr ⟨r, hrsel, rfl⟩, ?_, hq, hpa, hqa, ?_, ?_⟩)
    · show p ∈ r.positions
      rw [hpos]; simp
    · rw [hhet]; trivial
    · rw [hhet]; trivial
  obtain ⟨rep, h1, _, _, _, _⟩ := stage_findComponents hs
  have hkq : compOf o.comps q = some (rep q) := by rw [h1 q]; simp [hqa]
  have : k = rep q := (stage_comp_iff hs hk hkq).mpr hlink
  rw [hre]
  simp [psOf, hkq, psName, this]

example : familyReadList Ex.exFam Ex.exOut [0, 1, 0] =
    .ok [⟨"a", 0, "S", 11, 0, 2, 11, 31⟩, ⟨"b", 0, "S", 21, 1, 2, 21, 41⟩, ⟨"c", 0, "S", 11, 0, 2, 31, 51⟩] := by rfl

/-- the read list cannot raise in the pipeline: one haplotype per read, every read belongs to a member and has a variant -/
theorem read_list_total (distrust genetic : Bool) (f : FamilyIn) (o : FamilyOut)
    (h : familyStage distrust genetic f = .ok o) (bip : List Nat) (hlen : bip.length = o.allReads.length)
    (hown : ∀ rs ∈ f.selected, ∀ r ∈ rs, (∃ m ∈ f.members, m.id = r.sample) ∧ r.positions ≠ []) :
    ∃ rows, familyReadList f o bip = .ok rows := by
  have hs := familyStage_spec distrust genetic f o h
  unfold familyReadList readList
  have hl : (o.allReads.length != bip.length) = false := by simp [hlen]
  simp only [hl, Bool.false_eq_true, if_false]
  apply readListRows_ok _ _ hlen.symm
  intro r hr
  obtain ⟨rs, hrs, hrin⟩ := List.mem_flatten.mp ((mem_allReads hs r).mp hr)
  obtain ⟨hm, hne⟩ := hown rs hrs r hrin
  refine ⟨hm, ?_⟩
  cases hp : r.positions with
  | nil => exact absurd hp hne
  | cons p rest =>
    refine ⟨p, rest, rfl, ?_⟩
    obtain ⟨rep, h1, _, _, _, _⟩ := stage_findComponents hs
    have hpa : p ∈ o.accessible :=
      (mem_stage_accessible hs p).mpr (Or.inl ⟨rs, hrs, r, hrin, by rw [hp]; simp⟩)
    rw [h1 p]; simp [hpa]

example : [0, 1, 0].length = Ex.exOut.allReads.length ∧
    ∀ rs ∈ Ex.exFam.selected, ∀ r ∈ rs, (∃ m ∈ Ex.exFam.members, m.id = r.sample) ∧ r.positions ≠ [] := by
  refine ⟨rfl, ?_⟩
  intro rs hrs r hr
  simp only [Ex.exFam, Ex.exReads, List.mem_singleton] at hrs
  subst hrs
  simp only [List.mem_cons, List.not_mem_nil, or_false] at hr
  rcases hr with rfl | rfl | rfl <;> exact ⟨⟨⟨"S", 0⟩, by simp [Ex.exFam], rfl⟩, by simp [SelRead.positions]⟩

end pipeline


/-! ## Round 10 (F140): the phase set identifier as TEXT — the declared type of PS decides what is written

`_set_PS` assigns the integer `component + 1`; the file shows what htslib renders under the type the OUTPUT header declares for PS
(`Model/C03Header.lean`).  As coded, `missing_headers` tolerates `##FORMAT=<ID=PS,Number=1,Type=Float>`. -/
section PsText
open WhVerif.C03.Header

/-- **F140, as coded**: an input header declaring PS `Number=1,Type=Float` is accepted, the output header keeps `Float`, and the
identifier of the phase set whose leftmost variant is at 1-based position 20000001 is written as `2e+07`: it is no decimal number
(does not read back as 20000001), and the set at 20000004 — not connected to it — gets the very same token -/
theorem f140_witness :
    formatRule "PS" ⟨.n 1, .float⟩ = .accept ∧
    psOutputType formatRule (some ⟨.n 1, .float⟩) = some .float ∧
    renderToken .float 20000001 = ['2', 'e', '+', '0', '7'] ∧
    parseDec (renderToken .float 20000001) ≠ some 20000001 ∧
    renderToken .float 20000001 = renderToken .float 20000004 ∧
    renderToken .float 20000203 = "2.00002e+07".toList := by decide

/-- **repaired rule**: whatever the input header declares for PS (nothing, or any `Number` / `Type`), a run that is not refused
writes PS under type Integer, and the text of ANY identifier `n` (= 1-based position of the leftmost variant) is the decimal
number that reads back as `n` — so different positions never share a token -/
theorem ps_token_roundtrip_when_integer (decl : Option Decl) (t : Typ)
    (h : psOutputType formatRuleFixed decl = some t) (n : Nat) :
    t = .integer ∧ parseDec (renderToken t n) = some n ∧
    ∀ m, renderToken t m = renderToken t n → m = n := by
  have ht : t = .integer := by
    cases decl with
    | none => simpa [psOutputType] using h.symm
    | some d =>
      obtain ⟨num, typ⟩ := d
      cases typ <;>
        simp [psOutputType, formatRuleFixed, predefined, seenType] at h <;>
        (split at h <;> simp_all)
  subst ht
  refine ⟨rfl, L.parseDec_renderDec n, ?_⟩
  intro m hm
  have h1 := L.parseDec_renderDec m
  have h2 := L.parseDec_renderDec n
  simp only [renderToken] at hm
  rw [hm, h2] at h1
  exact (Option.some.inj h1).symm

/-- non-vacuity: the standard declaration, a `Number=.` declaration (header line rewritten) and no declaration are not refused;
`Type=Float` now is -/
example : psOutputType formatRuleFixed (some ⟨.n 1, .integer⟩) = some .integer ∧
    psOutputType formatRuleFixed (some ⟨.dot, .integer⟩) = some .integer ∧
    psOutputType formatRuleFixed none = some .integer ∧
    psOutputType formatRuleFixed (some ⟨.n 1, .float⟩) = none ∧
    psOutputType formatRuleFixed (some ⟨.n 1, .string⟩) = none := by decide

/-- the repair changes the decision for exactly one declaration of one key: PS `Number=1,Type=Float` (accept → refuse) -/
theorem f140_repair_is_minimal (key : String) (d : Decl) :
    formatRuleFixed key d ≠ formatRule key d ↔ (key = "PS" ∧ d = ⟨.n 1, .float⟩) := by
  obtain ⟨num, typ⟩ := d
  by_cases hk : key = "PS"
  · subst hk
    cases typ <;> simp [formatRuleFixed, formatRule, predefined, seenType]
  · simp [formatRuleFixed, formatRule, hk]

/-- why small test files never show F140: below 10^6 a Float-typed identifier is written exactly like an Integer-typed one -/
theorem float_g_exact_below_1e6 (n : Nat) (h : n < 1000000) :
    renderToken .float n = renderDec n ∧ parseDec (renderToken .float n) = some n := by
  have h24 : n < 2 ^ 24 := by omega
  have : renderToken .float n = renderDec n := by
    simp [renderToken, renderFloatG, L.toF32_of_lt n h24, renderG6, h]
  exact ⟨this, this ▸ L.parseDec_renderDec n⟩

example : renderToken .float 999999 = "999999".toList ∧ renderToken .float 1000000 = "1e+06".toList := by decide

end PsText

end WhVerif.Props.C03

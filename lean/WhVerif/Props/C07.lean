import WhVerif.Model.C07
import WhVerif.Spec.C07
namespace WhVerif.Props.C07
open WhVerif.C07
theorem placeholder (r : Read) (p : Nat) : r.spans p = true → r.first ≤ p := by
  intro h; simp [Read.spans] at h; exact h.1
end WhVerif.Props.C07

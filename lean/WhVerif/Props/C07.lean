import WhVerif.Model.C07
import WhVerif.Spec.C07
import WhVerif.Lemmas.C07
import WhVerif.Lemmas.C07Term
import WhVerif.Lemmas.C07Max
import WhVerif.Lemmas.C07Fam
import WhVerif.Lemmas.C07Pop
import WhVerif.Lemmas.C07CompleteReplay
import WhVerif.Lemmas.C07Pipe
import WhVerif.Lemmas.C07Pref
import WhVerif.Lemmas.C07Opts
import WhVerif.Lemmas.C07Cov
/-!
# C07 — read selection never exceeds the coverage cap and leaves no admissible read out

All theorems are about `WhVerif.C07.readselection fixed reads k bridging choices`
(`fixed = false`: the code as it is, with defect F9; `fixed = true`: the repaired code), for every read
list, every cap, both settings of bridging and every list of tie choices of the abstract priority queue.
-/
namespace WhVerif.Props.C07
open WhVerif.C07

/-- **subset**: the result is a duplicate-free set of indices of input reads -/
theorem subset (fixed : Bool) (reads : List Read) (k : Nat) (br : Bool) (cs : List Nat) (sel : List Nat)
    (h : readselection fixed reads k br cs = .ok sel) :
    sel.Nodup ∧ ∀ i ∈ sel, i < reads.length := by
  obtain ⟨-, rfl⟩ := readselection_ok h
  have := (phases_good fixed reads k br cs).2
  exact ⟨this.1, this.2.1⟩

/-- **cap_invariant** (variants of the read set): no variant position of the read set is spanned, first to
last covered variant, by more than `k` selected reads -/
theorem cap_invariant_own (fixed : Bool) (reads : List Read) (k : Nat) (br : Bool) (cs : List Nat) (sel : List Nat)
    (h : readselection fixed reads k br cs = .ok sel) :
    ∀ p ∈ positions reads, countSel reads sel p ≤ k := by
  obtain ⟨-, rfl⟩ := readselection_ok h
  have := (phases_good fixed reads k br cs).2
  intro p hp
  exact Nat.le_trans (this.2.2.1 p) (this.2.2.2 p hp)

/-- **terminates**: no loop of the model runs out of the fuel it is given, i.e. `readselection_helper`'s
`while len(undecided_reads) > 0` ends after at most `len(undecided_reads)` iterations -/
theorem terminates (fixed : Bool) (reads : List Read) (k : Nat) (br : Bool) (cs : List Nat) :
    readselection fixed reads k br cs ≠ .outOfFuel := by
  unfold readselection
  split
  · simp
  · rename_i h2
    split
    · simp
    · have ht := phases_terminate fixed reads k br cs (by
        intro r hr
        simp only [List.any_eq_true, decide_eq_true_eq, not_exists, not_and, Nat.not_lt] at h2
        exact h2 r hr)
      simp only
      split
      · rename_i hf
        simp [ht.1, ht.2] at hf
      · simp

/-- the inner loops end with an empty queue (not by exhausting their fuel) -/
theorem slice_terminates (reads : List Read) (P : List Nat) (k : Nat) (st : SliceSt) :
    (sliceLoop reads P k st.pq.length st).pq = [] :=
  sliceLoop_pq_nil reads P k _ st (Nat.le_refl _)

/-- the abstract priority queue: `pop` on a non-empty queue returns an entry whose 3-score no queued entry
exceeds (lexicographically), and removes exactly that entry -/
theorem pop_returns_maximal (pq : List Entry) (c ci : Nat) (e : Entry) (pq' : List Entry)
    (h : popChoice pq c = some (ci, e, pq')) :
    e ∈ pq ∧ pq'.length + 1 = pq.length ∧ ∀ f ∈ pq, e.score.lt f.score = false :=
  ⟨popChoice_mem h, popChoice_length h, popChoice_isMax h⟩

theorem bridge_terminates (reads : List Read) (P : List Nat) (k : Nat) (st : BridgeSt) :
    (bridgeLoop reads P k st.pq.length st).pq = [] :=
  bridgeLoop_pq_nil reads P k _ st (Nat.le_refl _)

/-- **cap_invariant**: for the code as it is and for the repaired code, for every cap, every tie choice:
NO position at all (variant of the read set or not, e.g. a variant only another family member covers) is
spanned, first to last covered variant, by more than `k` selected reads.  (For `k ≥ 1` as in the property
text; the statement also holds for `k = 0`, where nothing is selected.) -/
theorem cap_invariant (fixed : Bool) (reads : List Read) (k : Nat) (br : Bool) (cs : List Nat) (sel : List Nat)
    (h : readselection fixed reads k br cs = .ok sel) :
    ∀ q, countSel reads sel q ≤ k := by
  intro q
  have hsub := subset fixed reads k br cs sel h
  have hown := cap_invariant_own fixed reads k br cs sel h
  obtain ⟨h2, -⟩ := readselection_ok h
  have hne : ∀ r ∈ reads, r.pos ≠ [] := by
    intro r hr h0
    have := h2 r hr
    rw [h0] at this
    simp at this
  rcases countSel_le_own hsub.2 hne q with h0 | ⟨p, hp, hle⟩
  · omega
  · exact Nat.le_trans hle (hown p hp)

/-- **maximal** (repaired code, `fixes/F9.patch`): every read left out spans a variant of the read set that
is already spanned by `k` selected reads — adding it would push that variant above `k` -/
theorem maximal (reads : List Read) (k : Nat) (br : Bool) (cs : List Nat) (sel : List Nat)
    (h : readselection true reads k br cs = .ok sel) :
    ∀ i, i < reads.length → i ∉ sel →
      ∃ p ∈ positions reads, (getRead reads i).spans p = true ∧ k ≤ countSel reads sel p := by
  obtain ⟨h2, rfl⟩ := readselection_ok h
  have hm := phases_max reads k br cs h2
  have ht := (phases_terminate true reads k br cs h2).2
  intro i hi hns
  rcases hm.dec i (List.mem_range.mpr hi) with hu | hs | hb
  · rw [ht] at hu; simp at hu
  · exact absurd hs hns
  · obtain ⟨p, hp, hsp, hk⟩ := blocked_true_iff.mp hb
    exact ⟨p, hp, hsp, by rw [← hm.exact p]; exact hk⟩

/-- the code as it is coincides with the repaired code when no read comes from a preferred source, so it
is maximal there (this is `whatshap phase` without phased-VCF input) -/
theorem maximal_as_is_without_preferred (reads : List Read) (k : Nat) (br : Bool) (cs : List Nat) (sel : List Nat)
    (hp : ∀ r ∈ reads, r.pref = false)
    (h : readselection false reads k br cs = .ok sel) :
    ∀ i, i < reads.length → i ∉ sel →
      ∃ p ∈ positions reads, (getRead reads i).spans p = true ∧ k ≤ countSel reads sel p := by
  have hpi : preferredIdx reads = [] := by
    unfold preferredIdx
    apply List.filter_eq_nil_iff.mpr
    intro i hi
    have := hp _ (getRead_mem (List.mem_range.mp hi))
    simp [this]
  have : readselection false reads k br cs = readselection true reads k br cs := by
    unfold readselection
    rw [phases_no_preferred reads k br cs hpi]
  rw [this] at h
  exact maximal reads k br cs sel h

/-! ### defect F9: the code as it is, with preferred sources, is NOT maximal -/

/-- two reads over the same two variants, the first (better quality) from a preferred source, `k = 2` -/
def witness2 : List Read := [⟨[10, 20], [2, 2], true⟩, ⟨[10, 20], [1, 1], false⟩]

/-- DESIGN §6 F9: `[(17,72), (86,142)ᵖ, (17,72), (72,142), (86,142)]`, `k = 3`, bridging off -/
def witness5 : List Read :=
  [⟨[17, 72], [1, 1], false⟩, ⟨[86, 142], [1, 1], true⟩, ⟨[17, 72], [1, 1], false⟩,
   ⟨[72, 142], [1, 1], false⟩, ⟨[86, 142], [1, 1], false⟩]

/-- **not maximal as it is**: the faithful model selects only read 0 although read 1 spans variants that
are spanned by a single selected read (cap 2); no tie occurs, every enumerated outcome is this one.
The same input on the repaired model selects both reads. -/
theorem not_maximal_as_is :
    readselection false witness2 2 false [] = .ok [0] ∧ maximalOK witness2 2 [0] = false ∧
    allOutcomes false witness2 2 false = [.ok [0]] ∧ allOutcomes true witness2 2 false = [.ok [0, 1]] := by
  decide

/-- the 5-read case of DESIGN §6: read 3 is left out although its span is covered twice, cap 3 -/
theorem not_maximal_as_is_design_witness :
    (readselection false witness5 3 false []).canon = .ok [0, 1, 2, 4] ∧
    maximalOK witness5 3 [0, 1, 2, 4] = false ∧ countSel witness5 [0, 1, 2, 4] 72 = 2 ∧
    countSel witness5 [0, 1, 2, 4] 142 = 2 ∧
    (readselection true witness5 3 false []).canon = .ok [0, 1, 2, 3, 4] := by
  decide

/-- hence the universally quantified `maximal` statement is false of the code as it is -/
theorem maximal_fails_as_is :
    ¬ ∀ (reads : List Read) (k : Nat) (br : Bool) (cs : List Nat) (sel : List Nat),
      1 ≤ k → readselection false reads k br cs = .ok sel →
      ∀ i, i < reads.length → i ∉ sel →
        ∃ p ∈ positions reads, (getRead reads i).spans p = true ∧ k ≤ countSel reads sel p := by
  intro hall
  have := hall witness2 2 false [] [0] (by decide) not_maximal_as_is.1 1 (by decide) (by decide)
  obtain ⟨p, hp, hs, hk⟩ := this
  have hpos : positions witness2 = [10, 20] := by decide
  rw [hpos] at hp
  simp only [List.mem_cons, List.not_mem_nil, or_false] at hp
  rcases hp with rfl | rfl
  · revert hk; decide
  · revert hk; decide

/-! ### the per-family cap of `whatshap phase` -/

/-- **family_total_cap**: every member's reads are selected with the cap `max(1, k div m)`; for a family of
`m ≤ k` members the reads handed to the solver span no position (in particular no accessible position, also
one that is not among a member's own variants) more than `k` times in total -/
theorem family_total_cap (fixed : Bool) (members : List (List Read)) (k : Nat) (choices : List (List Nat))
    (hk : members.length ≤ k) :
    ∀ q, familyCount (familySelect fixed members k choices) q ≤ k := by
  intro q
  unfold familyCount familySelect
  rw [List.map_map]
  have hbound := sum_map_le (members.zip (choices ++ List.replicate members.length []))
    ((fun rs => countReads rs q) ∘ fun (x : List Read × List Nat) =>
      match readselection fixed x.1 (perSampleCap k members.length) true x.2 with
      | .ok sel => sel.map (getRead x.1)
      | _ => [])
    (perSampleCap k members.length) (by
      intro x _
      simp only [Function.comp]
      split
      · rename_i sel hsel
        rw [countReads_map]
        exact cap_invariant fixed x.1 _ true x.2 sel hsel q
      · simp [countReads])
  have hlen : (members.zip (choices ++ List.replicate members.length [])).length ≤ members.length := by
    rw [List.length_zip]; exact Nat.min_le_left _ _
  have hmul := perSampleCap_mul_le hk
  calc _ ≤ (members.zip (choices ++ List.replicate members.length [])).length * perSampleCap k members.length := hbound
    _ ≤ members.length * perSampleCap k members.length := Nat.mul_le_mul_right _ hlen
    _ ≤ k := hmul

/-! ### the enumeration used by the correspondence check -/

/-- every outcome the driver enumerates is the (sorted) outcome of the verified function for some list of
tie choices, so all theorems above apply to it -/
theorem allOutcomes_sound (fixed : Bool) (reads : List Read) (k : Nat) (br : Bool) (o : Outcome)
    (h : o ∈ allOutcomes fixed reads k br) : ∃ cs, o = (readselection fixed reads k br cs).canon := by
  unfold allOutcomes at h
  have hsub : ∀ (l : List Outcome), ∀ x ∈ dedupOutcomes l, x ∈ l := by
    intro l
    induction l with
    | nil => intro x hx; simp [dedupOutcomes] at hx
    | cons a as ih =>
      intro x hx
      simp only [dedupOutcomes, List.foldr_cons] at hx
      split at hx
      · exact List.mem_cons_of_mem _ (ih x hx)
      · rcases List.mem_cons.mp hx with rfl | hx
        · simp
        · exact List.mem_cons_of_mem _ (ih x hx)
  obtain ⟨cs, -, hcs⟩ := List.mem_map.mp (hsub _ o h)
  exact ⟨cs, hcs.symm⟩

example : popChoice [⟨0, ⟨1, 1, 5⟩⟩, ⟨1, ⟨2, 0, 0⟩⟩, ⟨2, ⟨2, 0, 0⟩⟩] 3 = some (1, ⟨2, ⟨2, 0, 0⟩⟩, [⟨0, ⟨1, 1, 5⟩⟩, ⟨1, ⟨2, 0, 0⟩⟩]) := by
  decide

/-! ### non-vacuity: the hypotheses are satisfiable, with a forced rejection -/

example : readselection true witness5 2 true [] = .ok [2, 4, 0, 1] := by decide  -- read 3 rejected
example : readselection false witness5 2 true [3, 1, 4] = .ok [0, 2, 1] := by decide
example : (familySelect true [witness5, witness2] 4 []).map List.length = [4, 2] := by decide
example : ∀ r ∈ witness5.map (fun r => { r with pref := false }), r.pref = false := by decide

/-! ### completeness of the enumeration: the membership test of the correspondence check is exact -/

/-- **allOutcomes_complete**: for EVERY list of tie choices the (sorted) outcome of the verified function is among
the enumerated outcomes.  No fuel hypothesis is needed: the breadth-first enumeration runs to the same depths
(queue length / number of undecided reads) that `terminates` proves sufficient for the deterministic loops, and
merging states that agree up to the order of their sets, of the coverage history and of the queue loses nothing
(every step of the model is invariant under such reorderings; the component finder's merges commute). -/
theorem allOutcomes_complete (fixed : Bool) (reads : List Read) (k : Nat) (br : Bool) (cs : List Nat) :
    (readselection fixed reads k br cs).canon ∈ allOutcomes fixed reads k br := by
  obtain ⟨e, he, hE⟩ := exploreStates_complete fixed reads k br cs
  have hmem : e.trace.reverse ∈ explore fixed reads k br := by
    rw [explore_eq]; exact List.mem_map.mpr ⟨e, he, rfl⟩
  have hsel : (phases fixed reads k br e.trace.reverse).2.selected.Perm (phases fixed reads k br cs).2.selected := by
    rw [exploreStates_replay fixed reads k br e he]; exact hE.selected
  unfold allOutcomes
  apply mem_dedupOutcomes
  exact List.mem_map.mpr ⟨_, hmem, readselection_canon_eq fixed reads k br _ _ hsel⟩

/-- the enumerated set is EXACTLY the set of (sorted) outcomes of the verified function over all tie choices -/
theorem allOutcomes_exact (fixed : Bool) (reads : List Read) (k : Nat) (br : Bool) (o : Outcome) :
    o ∈ allOutcomes fixed reads k br ↔ ∃ cs, o = (readselection fixed reads k br cs).canon :=
  ⟨allOutcomes_sound fixed reads k br o, fun ⟨cs, h⟩ => h ▸ allOutcomes_complete fixed reads k br cs⟩

/-- non-vacuity with a real tie: two identical reads, cap 1 — either may be popped first, two outcomes, each reached
by a choice list (below also four identical reads, cap 2: all C(4,2) = 6 selections are enumerated) -/
def tie2 : List Read := [⟨[10, 20], [1, 1], false⟩, ⟨[10, 20], [1, 1], false⟩]

example : allOutcomes true tie2 1 true = [.ok [0], .ok [1]] ∧
    (readselection true tie2 1 true [0]).canon = .ok [0] ∧ (readselection true tie2 1 true [1]).canon = .ok [1] ∧
    (readselection true tie2 1 true [7, 3]).canon ∈ allOutcomes true tie2 1 true := by
  decide

example : (allOutcomes false (tie2 ++ tie2) 2 false).length = 6 := by decide


/-! ## `whatshap phase`: the selection stage per sample and per family (`Model/C07Pipe.lean`)

`sampleStage rs cap prefIds choices` = the `len(read) >= 2` filter, `select_reads` (= `readselection` of /repo with
bridging, preferred reads = reads whose source id is a phase-input VCF) and `ReadSet.subset`; `familySel k members` runs it
for every member with `cap = max(1, k // len(family))`, `k` = the `--internal-downsampling` integer. -/

/-- **the selection stage cannot raise**: on a sample's read set whose reads are position-sorted without repeated position
(what `Read`/`ReadSet` guarantee), the `len(read) >= 2` filter makes `readselection`'s `ValueError` unreachable, and
the loops terminate — for every cap (also `0`), every preferred-source set, every tie choice -/
theorem stage_total (rs : List SRead) (cap : Nat) (prefIds choices : List Nat) (hwf : ∀ r ∈ rs, r.wf = true) :
    ∃ o, sampleStage rs cap prefIds choices = .ok o :=
  sampleStage_ok rs cap prefIds choices hwf

/-- a sample with a one-variant read, a preferred pseudo read and two ordinary reads over the same two variants -/
def stageEx : List SRead := [⟨0, [10], [30]⟩, ⟨2, [10, 20], [9, 9]⟩, ⟨0, [10, 20], [30, 30]⟩, ⟨0, [10, 20], [20, 20]⟩]

example : (∀ r ∈ stageEx, r.wf = true) ∧
    (match sampleStage stageEx 2 [2] [] with
     | .ok o => some (o.cands.length, o.selIdx)
     | .error _ => none) = some (3, [0, 1]) := by decide

/-- **subset, with the candidate filter**: the reads handed on for a sample are reads of the sample's read set that
cover at least two variants, each candidate at most once, in the order of the read set (ascending candidate index);
a read covering fewer than two variants is never handed to the solver -/
theorem stage_subset (rs : List SRead) (cap : Nat) (prefIds choices : List Nat) (o : SampleOut)
    (h : sampleStage rs cap prefIds choices = .ok o) :
    o.cands = candidates rs ∧ o.selIdx.Nodup ∧ o.selIdx.Pairwise (· ≤ ·) ∧ (∀ i ∈ o.selIdx, i < o.cands.length) ∧
    o.selected = o.selIdx.map (fun i => o.cands.getD i default) ∧
    ∀ r ∈ o.selected, r ∈ rs ∧ 2 ≤ r.pos.length := by
  obtain ⟨hc, ⟨sel, hsel, hidx⟩, hselected⟩ := sampleStage_spec h
  obtain ⟨hnd, hlt⟩ := subset true _ cap true choices sel hsel
  have hperm := sortNat_perm sel
  have hlt' : ∀ i ∈ o.selIdx, i < o.cands.length := by
    intro i hi
    rw [hidx] at hi
    have := hlt i (hperm.mem_iff.mp hi)
    rw [hc]; simpa using this
  refine ⟨hc, by rw [hidx]; exact hperm.nodup_iff.mpr hnd, by rw [hidx]; exact sortNat_sorted sel, hlt',
    by rw [hselected, hc], ?_⟩
  intro r hr
  rw [hselected] at hr
  obtain ⟨i, hi, rfl⟩ := List.mem_map.mp hr
  have hi' := hlt' i hi
  rw [hc] at hi'
  have : (candidates rs).getD i default = (candidates rs)[i] := by
    simp [List.getD_eq_getElem?_getD, List.getElem?_eq_getElem hi']
  rw [this]
  exact candidates_long rs _ (List.getElem_mem hi')

example : candidates stageEx = stageEx.tail := by decide

/-- **cap of the per-sample share**: no position at all is spanned (first to last covered variant) by more than `cap`
of the reads handed on for the sample -/
theorem stage_cap (rs : List SRead) (cap : Nat) (prefIds choices : List Nat) (o : SampleOut)
    (h : sampleStage rs cap prefIds choices = .ok o) :
    ∀ q, countReads (o.selected.map (SRead.toRead [])) q ≤ cap := by
  obtain ⟨hc, ⟨sel, hsel, hidx⟩, hselected⟩ := sampleStage_spec h
  obtain ⟨_, hlt⟩ := subset true _ cap true choices sel hsel
  intro q
  have hcap := cap_invariant true _ cap true choices sel hsel q
  rw [countSel_perm (sortNat_perm sel).symm q, ← hidx, ← countReads_map] at hcap
  refine Nat.le_trans (Nat.le_of_eq ?_) hcap
  rw [hselected]
  simp only [countReads, List.countP_map]
  apply List.countP_congr
  intro i hi
  have hi' : i < ((candidates rs).map (SRead.toRead prefIds)).length := by
    rw [hidx] at hi
    exact hlt i ((sortNat_perm sel).mem_iff.mp hi)
  simp only [Function.comp]
  rw [getRead_map_toRead prefIds _ i (by simpa using hi')]
  rfl

/-- **maximality of the per-sample share**: every candidate (read with ≥ 2 variants) that is left out spans a variant of
the candidates that `cap` selected reads of the sample span already -/
theorem stage_maximal (rs : List SRead) (cap : Nat) (prefIds choices : List Nat) (o : SampleOut)
    (h : sampleStage rs cap prefIds choices = .ok o) :
    ∀ i, i < o.cands.length → i ∉ o.selIdx →
      ∃ p ∈ positions (o.cands.map (SRead.toRead prefIds)),
        ((o.cands.getD i default).toRead prefIds).spans p = true ∧
        cap ≤ countSel (o.cands.map (SRead.toRead prefIds)) o.selIdx p := by
  obtain ⟨hc, ⟨sel, hsel, hidx⟩, _⟩ := sampleStage_spec h
  intro i hi hns
  rw [hc] at hi ⊢
  have hi' : i < ((candidates rs).map (SRead.toRead prefIds)).length := by simpa using hi
  have hns' : i ∉ sel := fun hm => hns (by rw [hidx]; exact (sortNat_perm sel).mem_iff.mpr hm)
  obtain ⟨p, hp, hsp, hk⟩ := maximal _ cap true choices sel hsel i hi' hns'
  refine ⟨p, hp, ?_, ?_⟩
  · rw [← getRead_map_toRead prefIds _ i hi]; exact hsp
  · rw [hidx, countSel_perm (sortNat_perm sel) p]; exact hk

/-- non-vacuity: cap 1 on `stageEx` with the pseudo read preferred: the pseudo read is taken, both other candidates are
left out and saturated at position 10 -/
example : (match sampleStage stageEx 1 [2] [] with
     | .ok o => some (o.selIdx, countSel (o.cands.map (SRead.toRead [2])) o.selIdx 10)
     | .error _ => none) = some ([0], 1) := by decide

/-- **preferred reads come first** (repaired code = /repo): a read from a preferred source (a pseudo read of a phase-input
VCF) is left out only if some variant it spans is already spanned by `k` selected reads that are ALL from preferred
sources — ordinary reads never displace a preferred one -/
theorem preferred_first (reads : List Read) (k : Nat) (br : Bool) (cs : List Nat) (sel : List Nat)
    (h : readselection true reads k br cs = .ok sel) :
    ∀ i, i < reads.length → (getRead reads i).pref = true → i ∉ sel →
      ∃ S : List Nat, S.Nodup ∧ (∀ j ∈ S, j ∈ sel ∧ (getRead reads j).pref = true) ∧
        ∃ p ∈ positions reads, (getRead reads i).spans p = true ∧ k ≤ countSel reads S p := by
  obtain ⟨h2, rfl⟩ := readselection_ok h
  have h1 := phase1_max reads k br cs
  have ht := (phases_terminate true reads k br cs h2).1
  have hsub := phase1_sub_final reads k br cs
  have hgood := (phases_good true reads k br cs).2
  intro i hi hpref hns
  refine ⟨(phases true reads k br cs).1.selected, ?_, fun j hj => ⟨hsub j hj, (mem_preferredIdx_iff.mp (h1.selU j hj)).2⟩, ?_⟩
  · -- the selected list of phase 1 is duplicate-free: it satisfies the cap/subset invariant too
    have : HGood reads (positions reads) k (phases true reads k br cs).1 := by
      unfold phases
      simp only
      have h0 : Good reads (positions reads) k [] [] :=
        ⟨List.nodup_nil, by simp, by simp [countSel, Cov.at], by simp [Cov.at]⟩
      split
      · exact ⟨by simp, h0⟩
      · exact helper_good ⟨fun i hi => mem_preferredIdx hi, h0⟩
    exact this.2.1
  · rcases h1.dec i (mem_preferredIdx_iff.mpr ⟨hi, hpref⟩) with hu | hs | hb
    · rw [ht] at hu; simp at hu
    · exact absurd (hsub i hs) hns
    · obtain ⟨p, hp, hsp, hk⟩ := blocked_true_iff.mp hb
      exact ⟨p, hp, hsp, by rw [← h1.exact p]; exact hk⟩

/-- non-vacuity: cap 1, the preferred read 0 and the better-quality ordinary read 1 over the same variants: read 0 wins -/
example : readselection true [⟨[10, 20], [1, 1], true⟩, ⟨[10, 20], [50, 50], false⟩] 1 true [] = .ok [0] := by decide

/-- **the per-sample share** `max(1, k // len(family))` of `--internal-downsampling k`: at least 1 whatever `k` is (a cap
of 0 or below acts as cap 1 per sample); for `k ≥ 1` at most `k`, and the shares of a family of at most `k` members
add up to at most `k`; `validate` rejects `k > 23`, so a share never exceeds 23 -/
theorem per_sample_share (k : Int) (m : Nat) :
    1 ≤ perSampleCapInt k m ∧ (k ≤ 0 → perSampleCapInt k m = 1) ∧ (1 ≤ k → (perSampleCapInt k m : Int) ≤ k) ∧
    ((m : Int) ≤ k → m * perSampleCapInt k m ≤ k.toNat) ∧ (capAccepted k = true → perSampleCapInt k m ≤ 23) := by
  refine ⟨perSampleCapInt_ge_one k m, perSampleCapInt_nonpos k m, perSampleCapInt_le k m, perSampleCapInt_mul_le k m, ?_⟩
  intro hacc
  simp only [capAccepted, decide_eq_true_eq] at hacc
  by_cases hk : 1 ≤ k
  · have := perSampleCapInt_le k m hk; omega
  · rw [perSampleCapInt_nonpos k m (by omega)]; omega

example : perSampleCapInt 15 3 = 5 ∧ perSampleCapInt 2 3 = 1 ∧ perSampleCapInt 0 1 = 1 ∧ perSampleCapInt (-4) 2 = 1 ∧
    perSampleCapInt 23 1 = 23 ∧ capAccepted 24 = false := by decide

/-- **cap of the merged family read set** (what `merge_readsets` hands to the solver): for a family of at most `k`
members, no position is spanned by more than `k` reads of all members together -/
theorem family_merged_cap (k : Int) (members : List MemberIn) (os : List SampleOut)
    (h : familySel k members = .ok os) (hk : (members.length : Int) ≤ k) :
    ∀ q, mergedCount os q ≤ k.toNat := by
  intro q
  obtain ⟨hlen, hall⟩ := familyStageSel_spec k members.length members os h
  unfold mergedCount
  have hb := sum_map_le os (fun o => countReads (o.selected.map (SRead.toRead [])) q)
    (perSampleCapInt k members.length) (by
      intro o ho
      obtain ⟨j, hj, rfl⟩ := List.getElem_of_mem ho
      have hj' : j < members.length := by omega
      have hz : (members[j], os[j]) ∈ members.zip os := by
        have : (members.zip os)[j]'(by simp [List.length_zip]; omega) = (members[j], os[j]) := by simp
        rw [← this]; exact List.getElem_mem _
      exact stage_cap _ _ _ _ _ (hall _ _ hz) q)
  rw [hlen] at hb
  exact Nat.le_trans hb (perSampleCapInt_mul_le k members.length hk)

/-- **maximality inside the family**: for every member, every candidate of that member that was left out is saturated
with respect to the member's share `max(1, k // len(family))` -/
theorem family_member_maximal (k : Int) (members : List MemberIn) (os : List SampleOut)
    (h : familySel k members = .ok os) (x : MemberIn) (o : SampleOut) (hxo : (x, o) ∈ members.zip os) :
    o.cands = candidates x.reads ∧
    ∀ i, i < o.cands.length → i ∉ o.selIdx →
      ∃ p ∈ positions (o.cands.map (SRead.toRead x.prefIds)),
        ((o.cands.getD i default).toRead x.prefIds).spans p = true ∧
        perSampleCapInt k members.length ≤ countSel (o.cands.map (SRead.toRead x.prefIds)) o.selIdx p := by
  obtain ⟨_, hall⟩ := familyStageSel_spec k members.length members os h
  have hst := hall x o hxo
  exact ⟨(stage_subset _ _ _ _ _ hst).1, stage_maximal _ _ _ _ _ hst⟩

/-- **the cap of the run is `--internal-downsampling`** (`add_arguments` / `validate` / `main`): whenever the command line
is accepted, the `max_coverage` that `run_whatshap` gets is the value of the LAST `--internal-downsampling` occurrence
(15 if the option is absent), it is at most 23, and the per-sample share derived from it is at most 23 -/
theorem option_cap (a : PhaseArgs) (k : Int) (h : validateCap a = .ok k) :
    k = lastOr a.internalDownsampling 15 ∧ k ≤ 23 ∧ capAccepted k = true ∧ ∀ m, perSampleCapInt k m ≤ 23 := by
  have hk := validateCap_ok a k h
  obtain ⟨rfl, hacc⟩ := hk
  refine ⟨rfl, ?_, hacc, fun m => (per_sample_share _ m).2.2.2.2 hacc⟩
  simpa [capAccepted] using hacc

example : (validateCap { internalDownsampling := [3, 5], legacyMaxCoverage := [40], reference := true }).toOption = some 5 ∧
    (validateCap { legacyMaxCoverage := [40] }).toOption = some 15 ∧
    (validateCap { internalDownsampling := [24] }).toOption = none ∧
    (validateCap { internalDownsampling := [24, 4] }).toOption = some 4 ∧
    (validateCap { internalDownsampling := [4, 24] }).toOption = none ∧
    (validateCap { internalDownsampling := [-2], legacyMaxCoverage := [99, 7] }).toOption = some (-2) := by decide

/-- **the hidden legacy option `-H` / `--max-coverage` has no effect** on acceptance or on the cap, whatever values it is
given and however often; neither has the hidden `--indels` -/
theorem legacy_options_without_effect (a : PhaseArgs) (hs : List Int) (ind : Bool) :
    validateCap { a with legacyMaxCoverage := hs, indels := ind } = validateCap a := by
  rfl

/-- a trio with 3 identical two-variant reads per member, `--internal-downsampling 3`: one read per member -/
def famEx : List MemberIn :=
  List.replicate 3 ⟨[⟨0, [10, 20], [30, 30]⟩, ⟨0, [10, 20], [30, 30]⟩, ⟨0, [10, 20], [30, 30]⟩], [], []⟩

example : (match familySel 3 famEx with
     | .ok os => some (os.map (·.selIdx), mergedCount os 10, mergedCount os 15)
     | .error _ => none) = some ([[0], [0], [0]], 3, 3) ∧ ((famEx.length : Int) ≤ 3) := by decide

/-- **the solver's table**: a column of the DP ranges over the bipartitions of the reads spanning it; with at most `k`
such reads (and `k ≤ 23` enforced by `validate`) it has at most `2^k ≤ 2^23` rows -/
theorem solver_table_bound (k : Int) (members : List MemberIn) (os : List SampleOut)
    (h : familySel k members = .ok os) (hk : (members.length : Int) ≤ k) (hacc : capAccepted k = true) (q : Nat) :
    2 ^ mergedCount os q ≤ 2 ^ k.toNat ∧ 2 ^ k.toNat ≤ 2 ^ 23 := by
  simp only [capAccepted, decide_eq_true_eq] at hacc
  exact ⟨Nat.pow_le_pow_right (by omega) (family_merged_cap k members os h hk q),
    Nat.pow_le_pow_right (by omega) (by omega)⟩

/-! ## the coverage monitor as coded: an array of counters (`Model/C07Cov.lean`) — every cap, every depth

`cap_invariant` & co. are about the history abstraction `Cov` of the monitor.  The four theorems below are about the class
as it is written (`[0] * length`, `coverage[i] += 1`, `max(coverage[begin:end])`), with the counter arithmetic as a
parameter: `none` = Python ints (the code), `some b` = `b`-bit counters that wrap. -/

/-- **the counters are exact** for every number of calls: with Python ints, after ANY sequence of guarded calls (the
`max_coverage_in_range(b, e) >= k` test followed by `add_read(b, e)`), `coverage[i]` is the number of admitted calls whose
range contains `i` — the array IS the history abstraction `Cov.at` of `Model/C07.lean`, for every cap `k` and however deep
the pile-up -/
theorem monitor_exact (k n : Nat) (calls : List (Nat × Nat)) (i : Nat) (hi : i < n) :
    (Mon.guardedRun none k n calls).cov[i]? = some (Mon.count (Mon.guardedRun none k n calls).admitted i) :=
  ((Mon.good_run k n calls _ (Mon.good_init k n)).2 i hi).1

/-- **the guard keeps the cap**: with Python ints no variant index is ever inside more than `k` admitted calls, for EVERY
cap `k` (no bound like 23 or 255 is needed) and every sequence of calls -/
theorem monitor_guard_keeps_cap (k n : Nat) (calls : List (Nat × Nat)) (i : Nat) (hi : i < n) :
    Mon.count (Mon.guardedRun none k n calls).admitted i ≤ k :=
  ((Mon.good_run k n calls _ (Mon.good_init k n)).2 i hi).2

/-- **the test of the callers is the one of the model**: `max(coverage[b:e]) >= k` holds iff some counter inside the range
is `≥ k` (`blocked` of `Model/C07.lean`) -/
theorem monitor_test_is_blocked (cov : List Nat) (b e k m : Nat) (h : Mon.maxIn cov b e = some m) :
    k ≤ m ↔ ∃ i, b ≤ i ∧ i < e ∧ ∃ x, cov[i]? = some x ∧ k ≤ x :=
  Mon.maxIn_ge cov b e k m h

/-- **a narrowed counter type never blocks a cap it cannot represent**: with `b`-bit counters and ANY cap `k ≥ 2^b`, every
call (non-empty range inside the array) is admitted, whatever was admitted before -/
theorem narrow_monitor_never_blocks (b k n : Nat) (hk : 2 ^ b ≤ k) (calls : List (Nat × Nat))
    (hc : ∀ c ∈ calls, c.1 < c.2 ∧ c.2 ≤ n) :
    (Mon.guardedRun (some b) k n calls).admitted = calls.reverse := by
  have := (Mon.narrow_run b k n hk calls hc ⟨Mon.init n, []⟩ (Mon.small_init b n)).2
  simpa [Mon.guardedRun] using this

/-- … so the cap IS exceeded: for every width `b` and every cap `k ≥ 2^b`, `k + 1` reads over the same two variants are all
admitted by the `b`-bit monitor (variant 0 is then spanned `k + 1 > k` times), while the monitor of the code (Python ints)
admits exactly `k` of them (`monitor_guard_keeps_cap`; instance below) -/
theorem narrow_monitor_exceeds_cap (b k : Nat) (hk : 2 ^ b ≤ k) :
    Mon.count (Mon.guardedRun (some b) k 2 (List.replicate (k + 1) (0, 2))).admitted 0 = k + 1 := by
  rw [narrow_monitor_never_blocks b k 2 hk _ (by
    intro c hc
    rw [List.eq_of_mem_replicate hc]
    exact ⟨by decide, Nat.le_refl _⟩)]
  simp [Mon.count, Mon.contains, List.countP_replicate]

-- non-vacuity: `uint8`-like counters (b = 3 for a small instance), cap 8 = 2^3, 9 reads: all 9 admitted, counter wrapped to 1;
-- the code (Python ints) admits 8 and its counters say 8
example : (Mon.guardedRun (some 3) 8 2 (List.replicate 9 (0, 2))).admitted.length = 9
    ∧ (Mon.guardedRun (some 3) 8 2 (List.replicate 9 (0, 2))).cov = [1, 1]
    ∧ (Mon.guardedRun none 8 2 (List.replicate 9 (0, 2))).admitted.length = 8
    ∧ (Mon.guardedRun none 8 2 (List.replicate 9 (0, 2))).cov = [8, 8] := by decide
example : Mon.count (Mon.guardedRun none 2 3 [(0, 2), (1, 3), (0, 3), (0, 2)]).admitted 1 = 2
    ∧ (Mon.guardedRun none 2 3 [(0, 2), (1, 3), (0, 3), (0, 2)]).cov[1]? = some 2 := by decide
example : Mon.maxIn [1, 4, 2] 0 2 = some 4 ∧ ((3 ≤ 4) ↔ ∃ i, 0 ≤ i ∧ i < 2 ∧ ∃ x, [1, 4, 2][i]? = some x ∧ 3 ≤ x) :=
  ⟨by decide, fun _ => ⟨1, by decide, by decide, 4, by decide, by decide⟩, fun _ => by decide⟩
example : (2 : Nat) ^ 8 ≤ 256 ∧ ∀ c ∈ [((0 : Nat), (2 : Nat)), (1, 3)], c.1 < c.2 ∧ c.2 ≤ 3 := by decide

end WhVerif.Props.C07

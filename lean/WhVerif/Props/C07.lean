import WhVerif.Model.C07
import WhVerif.Spec.C07
import WhVerif.Lemmas.C07
import WhVerif.Lemmas.C07Term
/-!
# C07 — read selection never exceeds the coverage cap and leaves no admissible read out

All theorems are about `WhVerif.C07.readselection fixed reads k bridging choices`
(`fixed = false`: the code as it is, with defect F9; `fixed = true`: the repaired code), for every read
list, every cap, both settings of bridging and every list of tie choices of the abstract priority queue.
-/
namespace WhVerif.Props.C07
open WhVerif.C07

/-- unpacking a successful run -/
theorem ok_iff {fixed : Bool} {reads : List Read} {k : Nat} {br : Bool} {cs : List Nat} {sel : List Nat}
    (h : readselection fixed reads k br cs = .ok sel) :
    (∀ r ∈ reads, 2 ≤ r.pos.length) ∧ sel = (phases fixed reads k br cs).2.selected := by
  unfold readselection at h
  split at h
  · cases h
  · rename_i h2
    split at h
    · cases h
    · simp only at h
      split at h
      · cases h
      · simp only [Outcome.ok.injEq] at h
        refine ⟨?_, h.symm⟩
        intro r hr
        simp only [List.any_eq_true, decide_eq_true_eq, not_exists, not_and, Nat.not_lt] at h2
        exact h2 r hr

/-- **subset**: the result is a duplicate-free set of indices of input reads -/
theorem subset (fixed : Bool) (reads : List Read) (k : Nat) (br : Bool) (cs : List Nat) (sel : List Nat)
    (h : readselection fixed reads k br cs = .ok sel) :
    sel.Nodup ∧ ∀ i ∈ sel, i < reads.length := by
  obtain ⟨-, rfl⟩ := ok_iff h
  have := (phases_good fixed reads k br cs).2
  exact ⟨this.1, this.2.1⟩

/-- **cap_invariant** (variants of the read set): no variant position of the read set is spanned, first to
last covered variant, by more than `k` selected reads -/
theorem cap_invariant_own (fixed : Bool) (reads : List Read) (k : Nat) (br : Bool) (cs : List Nat) (sel : List Nat)
    (h : readselection fixed reads k br cs = .ok sel) :
    ∀ p ∈ positions reads, countSel reads sel p ≤ k := by
  obtain ⟨-, rfl⟩ := ok_iff h
  have := (phases_good fixed reads k br cs).2
  intro p hp
  exact Nat.le_trans (this.2.2.1 p) (this.2.2.2 p hp)

/-- **terminates**: no loop of the model runs out of the fuel it is given, i.e. `readselection_helper`'s
`while len(undecided_reads) > 0` ends after at most `len(undecided_reads)` iterations -/
theorem terminates (fixed : Bool) (reads : List Read) (k : Nat) (br : Bool) (cs : List Nat) :
    readselection fixed reads k br cs ≠ .outOfFuel := by
  unfold readselection
  split
  · simp
  · rename_i h2
    split
    · simp
    · have ht := phases_terminate fixed reads k br cs (by
        intro r hr
        simp only [List.any_eq_true, decide_eq_true_eq, not_exists, not_and, Nat.not_lt] at h2
        exact h2 r hr)
      simp only
      split
      · rename_i hf
        simp [ht.1, ht.2] at hf
      · simp

/-- the inner loops end with an empty queue (not by exhausting their fuel) -/
theorem slice_terminates (reads : List Read) (P : List Nat) (k : Nat) (st : SliceSt) :
    (sliceLoop reads P k st.pq.length st).pq = [] :=
  sliceLoop_pq_nil reads P k _ st (Nat.le_refl _)

theorem bridge_terminates (reads : List Read) (P : List Nat) (k : Nat) (st : BridgeSt) :
    (bridgeLoop reads P k st.pq.length st).pq = [] :=
  bridgeLoop_pq_nil reads P k _ st (Nat.le_refl _)

end WhVerif.Props.C07

import WhVerif.Lemmas.C04Header
import WhVerif.Lemmas.C09
import WhVerif.Lemmas.C04File
/-!
# C04 — the phased VCF is the input VCF plus phase information and nothing else

Theorems about `writeChrom` / `writeRecord` (= `PhasedVcfWriter.write`) and `outputHeader`
(= `missing_headers` + `augment_header` + `add_meta` + `setup_header`) of `Model/C04.lean`.
`untouched_outside_targets`, `only_phase_fields_change`, `alleles_preserved` and `header_superset` hold for the
code as it is *and* for the repaired writer (no hypothesis on `Cfg.repaired`); `phased_only_if_het_supported`
needs the tag-independent removal of fixes/F4.patch (`repaired = true`): as coded, `--tag HP` leaves a phased
GT of the input in place (`f4_stale_phased_flag`).
-/
namespace WhVerif.Props.C04
open WhVerif.C04 WhVerif.C09

/-- **untouched_outside_targets**.  `write` emits exactly one record per input record, in the same order; in each,
    all site-level columns (CHROM … INFO) are identical, the sample columns are the same samples in the same
    order, every FORMAT key of the input is still there, and the call of every sample that is not a target of
    this run is identical (genotype, phased flag and every FORMAT value). -/
theorem untouched_outside_targets (cfg : Cfg) (prev : Option Nat) (rs : List Record) :
    (writeChrom cfg prev rs).length = rs.length ∧
    ∀ (i : Nat) (o : Out) (r : Record), (writeChrom cfg prev rs)[i]? = some o → rs[i]? = some r →
      o.record.site = r.site ∧ o.record.pos = r.pos ∧ o.record.ref = r.ref ∧ o.record.alts = r.alts ∧
      o.record.calls.map (·.1) = r.calls.map (·.1) ∧
      (∀ k ∈ r.format, k ∈ o.record.format) ∧
      (∀ (j : Nat) (n : String) (c : Call), r.calls[j]? = some (n, c) → isTargetName cfg n = false → o.record.calls[j]? = some (n, c)) := by
  refine ⟨writeChrom_length cfg rs prev, ?_⟩
  intro i o r ho hr
  obtain ⟨prev', r', hr', rfl⟩ := writeChrom_getElem cfg rs prev i o ho
  rw [hr] at hr'; cases hr'
  obtain ⟨h1, h2, h3, h4⟩ := writeRecord_site cfg prev' r
  refine ⟨h1, h2, h3, h4, ?_, ?_, ?_⟩
  · rw [writeRecord_calls]; simp [List.map_map, Function.comp]
  · intro k hk
    rw [writeRecord_format]
    split
    · unfold addKey; split
      · exact hk
      · exact List.mem_append_left _ hk
    · exact hk
  · intro j n c hj hnt
    rw [writeRecord_calls, List.getElem?_map, hj]
    simp only [Option.map_some, Option.some.injEq, Prod.mk.injEq, true_and]
    unfold finalCall
    simp only [isTargetName, Option.isSome_eq_false_iff, Option.isNone_iff_eq_none] at hnt
    rw [hnt]

/-- chromosomes that were not selected (`write` called with empty dictionaries) are copied unchanged -/
theorem untouched_when_no_targets (cfg : Cfg) (hno : cfg.targets = []) (prev : Option Nat) (rs : List Record) :
    outRecords (writeChrom cfg prev rs) = rs ∧ outChanges (writeChrom cfg prev rs) = [] := by
  have hft : ∀ n, findTarget cfg n = none := by intro n; simp [findTarget, hno]
  have hreach : ∀ p r, reaches cfg p r = false := by
    intro p r
    have : anyPhased cfg r.pos = false := by
      simp [anyPhased, hft]
    simp [reaches, this]
  have hrec : ∀ p r, writeRecord cfg p r = ⟨r, p, [], false⟩ := by
    intro p r
    simp only [writeRecord, hreach, Bool.false_eq_true, if_false, mapTargets, hft]
    simp
  induction rs generalizing prev with
  | nil => exact ⟨rfl, rfl⟩
  | cons r rest ih =>
    obtain ⟨h1, h2⟩ := ih prev
    simp only [writeChrom, hrec, outRecords, outChanges, List.map_cons, List.flatMap_cons, List.nil_append] at h1 h2 ⊢
    exact ⟨by rw [h1], h2⟩

/-- **only_phase_fields_change**.  For the call of any sample (target or not) in any record, every FORMAT key
    other than PS and HP keeps its value; the FORMAT key list of the record is the input's, with the tag key
    appended when the record was processed and did not have it. -/
theorem only_phase_fields_change (cfg : Cfg) (prev : Option Nat) (r : Record) (n : String) (c : Call) (k : String)
    (hk1 : k ≠ "PS") (hk2 : k ≠ "HP") :
    (finalCall cfg prev r n c).get k = c.get k ∧
    ((writeRecord cfg prev r).record.format = r.format ∨
      (cfg.tag.key ∉ r.format ∧ (writeRecord cfg prev r).record.format = r.format ++ [cfg.tag.key])) := by
  constructor
  · unfold finalCall
    have hkt : k ≠ cfg.tag.key := by cases cfg.tag <;> simpa [Tag.key]
    split
    · split
      · rw [updateCall_get_other _ _ _ _ _ hkt, clearPhasing_get_other _ _ _ _ hk1 hk2]
      · exact clearPhasing_get_other _ _ _ _ hk1 hk2
    · rfl
  · rw [writeRecord_format]
    split
    · unfold addKey; split
      · exact Or.inl rfl
      · rename_i h; exact Or.inr ⟨h, rfl⟩
    · exact Or.inl rfl

/-- **alleles_preserved** (trusted genotypes).  If every phase handed to the writer has the alleles of the input
    genotype of its call (the super-read genotype equals the input genotype — what the solver guarantees unless
    `--distrust-genotypes`), then no genotype change is reported and every call of the record keeps its alleles
    as a multiset (only their order may change). -/
theorem alleles_preserved (cfg : Cfg) (prev : Option Nat) (r : Record)
    (htrust : ∀ t ∈ cfg.targets, ∀ c p, clookup r.calls t.name = some c →
        lookupPhase cfg.mav t r.pos = some p → sortNat p = gcode c.gt) :
    (writeRecord cfg prev r).changes = [] ∧
    ∀ n c c', clookup r.calls n = some c → clookup (writeRecord cfg prev r).record.calls n = some c' →
      GtPerm c'.gt c.gt := by
  have hnil := writeRecord_changes_nil_of_trusted cfg prev r htrust
  refine ⟨hnil, fun n c c' hc hc' => writeRecord_gtPerm_of_no_row cfg prev r n c c' hc hc' ?_⟩
  rw [hnil]; intro row hrow; cases hrow

/-- without the trust hypothesis: alleles change only where a change row says so -/
theorem alleles_change_only_with_row (cfg : Cfg) (prev : Option Nat) (r : Record) (n : String) (c c' : Call)
    (hc : clookup r.calls n = some c) (hc' : clookup (writeRecord cfg prev r).record.calls n = some c')
    (hno : ∀ row ∈ (writeRecord cfg prev r).changes, row.sample ≠ n) : GtPerm c'.gt c.gt :=
  writeRecord_gtPerm_of_no_row cfg prev r n c c' hc hc' hno

/-- **phased_only_if_het_supported** (repaired writer).  If, after `write`, the call of a target sample is marked
    phased or carries a PS or HP value, then the record has exactly one ALT allele (unless `mav`), is not a
    duplicate of the previously processed position, is an SNV if `--only-snvs`, the position is phased in this
    run, and the call's genotype is fully called and heterozygous. -/
theorem phased_only_if_het_supported (cfg : Cfg) (hr : cfg.repaired = true) (prev : Option Nat) (r : Record)
    (n : String) (t : Target) (hft : findTarget cfg n = some t) (c : Call) (hwf : WfCall r.format c)
    (hmark : (finalCall cfg prev r n c).phased = true ∨ (finalCall cfg prev r n c).get "PS" ≠ .missing ∨
      (finalCall cfg prev r n c).get "HP" ≠ .missing) :
    r.alts ≠ [] ∧ (r.alts.length = 1 ∨ cfg.mav = true) ∧ prev ≠ some r.pos ∧ (cfg.onlySnvs = true → isSnv r = true) ∧
    (lookupPhase cfg.mav t r.pos).isSome ∧ (alookup t.comps r.pos).isSome ∧
    gcode (finalCall cfg prev r n c).gt ≠ [] ∧ isHom (gcode (finalCall cfg prev r n c).gt) = false := by
  rcases finalCall_summary cfg hr prev r n t hft c hwf with ⟨h1, h2, h3⟩ | ⟨hreach, comp, p, hcomp, hp, hhet, hg⟩
  · rcases hmark with h | h | h
    · rw [h1] at h; cases h
    · exact absurd h2 h
    · exact absurd h3 h
  · simp only [reaches, Bool.and_eq_true, Bool.not_eq_true', Bool.and_eq_false_imp, decide_eq_true_eq,
      beq_eq_false_iff_ne, ne_eq] at hreach
    obtain ⟨⟨⟨⟨ha, hb⟩, hc⟩, hd⟩, _⟩ := hreach
    refine ⟨?_, ?_, ?_, ?_, by simp [hp], by simp [hcomp], ?_, ?_⟩
    · intro h0; simp [h0] at ha
    · by_cases hl : r.alts.length > 1
      · right
        have := hb hl
        simpa using this
      · left
        have hne : r.alts ≠ [] := by intro h0; simp [h0] at ha
        have : r.alts.length ≠ 0 := by intro h0; exact hne (List.eq_nil_of_length_eq_zero h0)
        omega
    · exact fun h => hc h
    · intro hs
      have := hd hs
      simpa using this
    · rw [hg]; intro h0; exact lookupPhase_ne_nil hp (sortNat_eq_nil h0)
    · rw [hg]; exact hhet

/-- as coded (`repaired = false`), `--tag HP` does not clear the phased flag of the input: a homozygous call on a
    multi-ALT record stays marked phased (with its old PS) -/
theorem f4_stale_phased_flag :
    let c : Call := ⟨some [some 1, some 1], true, [("PS", .int 7)]⟩
    let r : Record := ⟨"s", 10, "A", ["C", "G"], ["GT", "PS"], [("A", c)]⟩
    let cfg (rep : Bool) : Cfg := ⟨.HP, false, false, rep, ["A"], [⟨"A", [], [], []⟩]⟩
    (finalCall (cfg false) none r "A" c).phased = true ∧ (finalCall (cfg false) none r "A" c).get "PS" = .int 7 ∧
    (finalCall (cfg true) none r "A" c).phased = false ∧ (finalCall (cfg true) none r "A" c).get "PS" = .missing := by
  refine ⟨?_, ?_, ?_, ?_⟩ <;> decide

/-- **header_superset**.  When the header pipeline succeeds, every contig / INFO / FILTER / FORMAT (indeed every
    structured line other than `phasing`) that is defined in the input header is still defined in the output
    header; every line whose key is neither `FORMAT` nor `phasing` is kept literally; at most one line — a
    `phasing=` line — disappears without replacement. -/
theorem header_superset (tag : Tag) (cl : Bool) (h h' : List HLine) (cs fs is : List String)
    (hout : outputHeader tag cl h cs fs is = some h') :
    (∀ key id, key ≠ "phasing" → defined h key id = true → defined h' key id = true) ∧
    (∀ l ∈ h, l.key ≠ "FORMAT" → l.key ≠ "phasing" → l ∈ h') := by
  unfold outputHeader at hout
  split at hout
  · cases hout
  · simp only at hout
    split at hout
    · cases hout
    · rename_i h2 hf
      split at hout
      · cases hout
      · rename_i h3 hi
        simp only [Option.some.injEq] at hout
        subst hout
        constructor
        · intro key id hk hd
          apply defined_addLine
          apply defined_removeFirstPhasing _ hk
          have h3d : defined h3 key id = true :=
            defined_addInfos hi (defined_addFormats hf (defined_foldContigs _ _ hd))
          split
          · exact defined_append_left h3d
          · exact h3d
        · intro l hl hk1 hk2
          apply mem_addLine
          apply mem_removeFirstPhasing _ hk2
          have h3m : l ∈ h3 := mem_addInfos hi (mem_addFormats hf (mem_foldContigs _ _ hl) hk1)
          split
          · exact List.mem_append_left _ h3m
          · exact h3m

/-! ### non-vacuity -/

example : outputHeader .PS true
    [⟨"fileformat", none, "", "", "VCFv4.2"⟩, ⟨"phasing", none, "", "", "none"⟩, ⟨"contig", some "chr1", "", "", ""⟩,
     ⟨"FORMAT", some "GT", "1", "String", ""⟩, ⟨"FORMAT", some "GQ", ".", "Integer", ""⟩, ⟨"INFO", some "XX", "1", "Float", ""⟩]
    ["chr1", "chr2"] ["GT", "GQ", "AD"] ["XX", "AC"]
  = some [⟨"fileformat", none, "", "", "VCFv4.2"⟩, ⟨"contig", some "chr1", "", "", ""⟩, ⟨"FORMAT", some "GT", "1", "String", ""⟩,
      ⟨"INFO", some "XX", "1", "Float", ""⟩, ⟨"contig", some "chr2", "", "", ""⟩, ⟨"FORMAT", some "GQ", "1", "Integer", ""⟩,
      ⟨"FORMAT", some "AD", ".", "Integer", ""⟩, ⟨"INFO", some "AC", "A", "Integer", ""⟩, ⟨"commandline", none, "", "", ""⟩,
      ⟨"FORMAT", some "PS", "1", "Integer", ""⟩] := by decide

/-- an undefined FORMAT that is not predefined makes the writer give up (`VcfError`) -/
example : outputHeader .PS false [⟨"FORMAT", some "GT", "1", "String", ""⟩] [] ["GT", "ZZ"] [] = none := by decide

def exCfg : Cfg :=
  ⟨.PS, false, false, true, ["A", "B"], [⟨"A", [(10, 0), (20, 1)], [(10, 1), (20, 0)], [(10, 10), (20, 10)]⟩]⟩
def exRec : Record :=
  ⟨"chr1\t11\t.\tA\tC\t.\tPASS\tXX=1", 10, "A", ["C"], ["GT", "DP"],
   [("A", ⟨some [some 1, some 0], false, [("DP", .int 7)]⟩), ("B", ⟨some [some 1, some 0], true, [("DP", .int 9)]⟩)]⟩

example : (writeRecord exCfg none exRec).record =
    ⟨"chr1\t11\t.\tA\tC\t.\tPASS\tXX=1", 10, "A", ["C"], ["GT", "DP", "PS"],
     [("A", ⟨some [some 0, some 1], true, [("DP", .int 7), ("PS", .int 11)]⟩),
      ("B", ⟨some [some 1, some 0], true, [("DP", .int 9)]⟩)]⟩ := by decide
example : ∀ t ∈ exCfg.targets, ∀ c p, clookup exRec.calls t.name = some c →
    lookupPhase exCfg.mav t exRec.pos = some p → sortNat p = gcode c.gt := by
  intro t ht c p hc hp
  simp only [exCfg, List.mem_singleton] at ht
  subst ht
  have hc' : c = ⟨some [some 1, some 0], false, [("DP", .int 7)]⟩ := by
    have : clookup exRec.calls "A" = some ⟨some [some 1, some 0], false, [("DP", .int 7)]⟩ := by decide
    exact Option.some.inj (hc.symm.trans this)
  have hp' : p = [0, 1] := by
    have : lookupPhase false ⟨"A", [(10, 0), (20, 1)], [(10, 1), (20, 0)], [(10, 10), (20, 10)]⟩ 10 = some [0, 1] := by decide
    exact Option.some.inj (hp.symm.trans this)
  subst hc' hp'
  decide
example : WfCall exRec.format ⟨some [some 1, some 0], false, [("DP", .int 7)]⟩ := by
  constructor
  · intro k hk
    simp only [exRec, List.mem_cons, List.not_mem_nil, or_false, not_or] at hk
    simp [Call.get, fget, Ne.symm hk.2]
  · intro h; cases h

/-! ## file level (`Model/C04File.lean`): from the input file to the output file -/

/-- **stream_lockstep**.  The chromosome loop of `run_whatshap` (one `write` call per table of `VcfReader.__iter__`,
    i.e. per `groupby` run of CHROM) drives the augmenter's one-record look-ahead without ever hitting one of its
    `assert`s, and the `k`-th call edits and writes exactly the records of the `k`-th run, with the arguments of that
    call: the output file is, block by block, `PhasedVcfWriter.write` of the input blocks — also when a chromosome
    name comes back later in the file. -/
theorem stream_lockstep (fc : FileCfg) (ph : Phasing) (recs : List FRec) :
    phaseFile fc ph recs = some (expectedBlocks fc ph 0 (groupChrom recs)) ∧
    (groupChrom recs).flatMap (·.2) = recs ∧
    (∀ cg ∈ groupChrom recs, ∀ x ∈ cg.2, x.chrom = cg.1) :=
  ⟨runLoop_eq fc ph recs.length recs (Nat.le_refl _) ⟨none, recs⟩ 0 (Or.inl ⟨rfl, rfl⟩),
   groupChrom_flatten recs, groupChrom_chrom recs⟩

/-- **file_untouched_outside_selection**.  The output file has one record per input record, in the same order.  For
    the record at any place `i`: CHROM … INFO (`site`), POS, REF, ALT are identical, the sample columns are the same
    samples in the same order, every FORMAT key is still there (the only possible new key is the tag, at the end),
    every value of a key other than PS/HP is unchanged for every sample, the call of a sample that was not
    selected is identical in every respect, and on a chromosome excluded by `--chromosome` the whole record is
    identical and no genotype change is reported. -/
theorem file_untouched_outside_selection (fc : FileCfg) (ph : Phasing) (recs : List FRec) :
    (fileOut fc ph recs).length = recs.length ∧
    ∀ (i : Nat) (fr : FRec) (o : Out), recs[i]? = some fr → (fileOut fc ph recs)[i]? = some o →
      o.record.site = fr.record.site ∧ o.record.pos = fr.record.pos ∧ o.record.ref = fr.record.ref ∧
      o.record.alts = fr.record.alts ∧
      o.record.calls.map (·.1) = fr.record.calls.map (·.1) ∧
      (o.record.format = fr.record.format ∨
        (fc.tag.key ∉ fr.record.format ∧ o.record.format = fr.record.format ++ [fc.tag.key])) ∧
      (∀ (j : Nat) (n : String) (c : Call), fr.record.calls[j]? = some (n, c) →
        ∃ c', o.record.calls[j]? = some (n, c') ∧ ∀ k, k ≠ "PS" → k ≠ "HP" → c'.get k = c.get k) ∧
      (∀ (j : Nat) (n : String) (c : Call), fr.record.calls[j]? = some (n, c) → n ∉ fc.order →
        o.record.calls[j]? = some (n, c)) ∧
      (chromSelected fc fr.chrom = false → o.record = fr.record ∧ o.changes = []) := by
  obtain ⟨hlen, hpt⟩ := fileOut_pointwise fc ph recs
  refine ⟨hlen.symm, ?_⟩
  intro i fr o hfr ho
  obtain ⟨k, p, rfl⟩ := hpt i fr o hfr ho
  obtain ⟨h1, h2, h3, h4⟩ := writeRecord_site (blockCfg fc ph k fr.chrom) p fr.record
  refine ⟨h1, h2, h3, h4, ?_, ?_, ?_, ?_, ?_⟩
  · rw [writeRecord_calls]; simp [List.map_map, Function.comp]
  · exact (only_phase_fields_change (blockCfg fc ph k fr.chrom) p fr.record "" ⟨none, false, []⟩ "GT"
      (by decide) (by decide)).2
  · intro j n c hj
    refine ⟨finalCall (blockCfg fc ph k fr.chrom) p fr.record n c, ?_, ?_⟩
    · rw [writeRecord_calls, List.getElem?_map, hj]; rfl
    · intro key hk1 hk2
      exact (only_phase_fields_change (blockCfg fc ph k fr.chrom) p fr.record n c key hk1 hk2).1
  · intro j n c hj hn
    have hnt : findTarget (blockCfg fc ph k fr.chrom) n = none := by
      unfold findTarget blockCfg
      simp only
      split
      · rw [List.find?_eq_none]
        intro t ht
        simp only [List.mem_map] at ht
        obtain ⟨s, hs, rfl⟩ := ht
        simp only [decide_eq_true_eq]
        intro he; exact hn (he ▸ hs)
      · rfl
    rw [writeRecord_calls, List.getElem?_map, hj]
    simp only [Option.map_some, Option.some.injEq, Prod.mk.injEq, true_and]
    unfold finalCall
    rw [hnt]
  · intro hsel
    have hno : (blockCfg fc ph k fr.chrom).targets = [] := by simp [blockCfg, hsel]
    have h := untouched_when_no_targets (blockCfg fc ph k fr.chrom) hno p [fr.record]
    simp only [writeChrom, outRecords, outChanges, List.map_cons, List.map_nil, List.flatMap_cons, List.flatMap_nil,
      List.append_nil, List.cons.injEq, and_true] at h
    exact h

/-- **writer_reader_agree**.  On a chromosome block that the reader accepts (no `VcfNotSortedError`, no
    `PloidyError`), the records that pass all `continue`s of `PhasedVcfWriter.write` are exactly the records that
    `VcfReader` turned into rows of the variant table, restricted to the positions phased in this run: reader and
    writer never disagree about which of several records at one position "is" the variant the phasing result
    talks about (no ALT, multi-ALT, non-SNVs under `--only-snvs`, duplicate positions in any mixture). -/
theorem writer_reader_agree (cfg : Cfg) (hmav : cfg.mav = false) (rs : List Record) (pl pl' : Option Nat)
    (flags : List Bool) (hread : readerRows cfg.onlySnvs none pl rs = .ok (flags, pl')) :
    reachFlags cfg none rs = List.zipWith (fun k r => k && anyPhased cfg r.pos) flags rs :=
  agree_aux cfg hmav rs none none pl pl' flags (by unfold PrevInv; exact ⟨fun _ h _ => (by cases h), fun _ h => (by cases h)⟩) hread

/-- **alleles_preserved_from_table** (trusted genotypes, composition of reader, solver contract and writer).
    If for every TABLE ROW (record kept by the reader) the phase handed to the writer for a sample has the alleles
    of that row's genotype — which is all the solver can promise, it never sees the other records — then `write`
    reports no genotype change on the block and every call of EVERY record of the block, kept or skipped, keeps its
    alleles as a multiset. -/
theorem alleles_preserved_from_table (cfg : Cfg) (hmav : cfg.mav = false) (rs : List Record) (pl pl' : Option Nat)
    (flags : List Bool) (hread : readerRows cfg.onlySnvs none pl rs = .ok (flags, pl'))
    (htrust : ∀ (i : Nat) (r : Record), rs[i]? = some r → flags[i]? = some true → ∀ t ∈ cfg.targets, ∀ c p,
        clookup r.calls t.name = some c → lookupPhase cfg.mav t r.pos = some p → sortNat p = gcode c.gt) :
    outChanges (writeChrom cfg none rs) = [] ∧
    ∀ (i : Nat) (r : Record) (o : Out), rs[i]? = some r → (writeChrom cfg none rs)[i]? = some o →
      ∀ n c c', clookup r.calls n = some c → clookup o.record.calls n = some c' → GtPerm c'.gt c.gt := by
  have hagree := writer_reader_agree cfg hmav rs pl pl' flags hread
  have key : ∀ (i : Nat) (r : Record) (o : Out), rs[i]? = some r → (writeChrom cfg none rs)[i]? = some o →
      o.changes = [] ∧ ∀ n c c', clookup r.calls n = some c → clookup o.record.calls n = some c' → GtPerm c'.gt c.gt := by
    intro i r o hr ho
    obtain ⟨p, r', hr', rfl, hflag⟩ := writeChrom_getElem_reach cfg rs none i o ho
    rw [hr] at hr'; cases hr'
    cases hreach : reaches cfg p r with
    | false =>
      have hch := writeRecord_changes_of_not_reaches cfg p r hreach
      refine ⟨hch, fun n c c' hc hc' => writeRecord_gtPerm_of_no_row cfg p r n c c' hc hc' ?_⟩
      rw [hch]; intro row hrow; cases hrow
    | true =>
      rw [hagree, hreach, List.getElem?_zipWith] at hflag
      have hfl : flags[i]? = some true := by
        cases hf : flags[i]? with
        | none => rw [hf] at hflag; simp at hflag
        | some b =>
          rw [hf, hr] at hflag
          simp only [Option.some.injEq, Bool.and_eq_true] at hflag
          rw [hflag.1]
      exact alleles_preserved cfg p r (htrust i r hr hfl)
  refine ⟨?_, fun i r o hr ho => (key i r o hr ho).2⟩
  unfold outChanges
  rw [List.flatMap_eq_nil_iff]
  intro o ho
  obtain ⟨i, hi, hio⟩ := List.getElem_of_mem ho
  have ho' : (writeChrom cfg none rs)[i]? = some o := by rw [List.getElem?_eq_getElem hi, hio]
  have hlen := writeChrom_length cfg rs none
  have hi' : i < rs.length := by omega
  exact (key i rs[i] o (List.getElem?_eq_getElem hi') ho').1

/-- **header_covers_body**.  When the header pipeline succeeds, the output header defines every contig, every
    FORMAT key and every INFO key that any record of the file uses (so htslib can write every record back), the
    `END` INFO for symbolic ALT alleles, and the FORMAT of the tag that is written. -/
theorem header_covers_body (tag : Tag) (cl : Bool) (h h' : List HLine) (recs : List FRec)
    (hout : fileHeader tag cl h recs = some h') :
    defined h' "FORMAT" tag.key = true ∧
    ∀ fr ∈ recs, defined h' "contig" fr.chrom = true ∧ (∀ k ∈ fr.record.format, defined h' "FORMAT" k = true) ∧
      (∀ k ∈ fr.infoKeys, defined h' "INFO" k = true) ∧
      (fr.record.alts.any isSymbolic = true → defined h' "INFO" "END" = true) := by
  unfold fileHeader scanUsed at hout
  obtain ⟨hc, hf, hi, ht⟩ := outputHeader_covers hout
  refine ⟨ht, fun fr hfr => ⟨hc _ (List.mem_map.mpr ⟨fr, hfr, rfl⟩), ?_, ?_, ?_⟩⟩
  · intro k hk; exact hf k (List.mem_flatMap.mpr ⟨fr, hfr, hk⟩)
  · intro k hk; exact hi k (List.mem_flatMap.mpr ⟨fr, hfr, List.mem_append_left _ hk⟩)
  · intro hs; exact hi "END" (List.mem_flatMap.mpr ⟨fr, hfr, List.mem_append_right _ (by simp [hs])⟩)

/-- **text_nothing_else**.  Text of the sample columns (one entry per FORMAT key, joined by `:`): for a record the
    writer emits, (a) the column of a sample that is not a target has the same entries as in the input, followed by
    a single `.` exactly when the tag key was appended to FORMAT; (b) in the column of any sample the entry of every
    key other than GT, PS and HP is the same text as in the input. -/
theorem text_nothing_else (cfg : Cfg) (prev : Option Nat) (r : Record) (n : String) (c : Call) :
    (isTargetName cfg n = false → WfCall r.format c →
      renderEntries (writeRecord cfg prev r).record.format (finalCall cfg prev r n c) = renderEntries r.format c ∨
      renderEntries (writeRecord cfg prev r).record.format (finalCall cfg prev r n c) = renderEntries r.format c ++ ["."]) ∧
    (∀ (i : Nat) (k : String), r.format[i]? = some k → k ≠ "GT" → k ≠ "PS" → k ≠ "HP" →
      (renderEntries (writeRecord cfg prev r).record.format (finalCall cfg prev r n c))[i]? = (renderEntries r.format c)[i]?) := by
  constructor
  · intro hnt hwf
    have hfc : finalCall cfg prev r n c = c := by
      unfold finalCall
      simp only [isTargetName, Option.isSome_eq_false_iff, Option.isNone_iff_eq_none] at hnt
      rw [hnt]
    rw [hfc]
    rcases (only_phase_fields_change cfg prev r n c "GT" (by decide) (by decide)).2 with h | ⟨hk, h⟩
    · left; rw [h]
    · right
      rw [h, renderEntries_append _ _ _ (by cases cfg.tag <;> decide), hwf.1 _ hk]
      rfl
  · intro i k hi hk0 hk1 hk2
    have hget := (only_phase_fields_change cfg prev r n c k hk1 hk2).1
    have hi' : (writeRecord cfg prev r).record.format[i]? = some k := by
      rcases (only_phase_fields_change cfg prev r n c k hk1 hk2).2 with h | ⟨_, h⟩
      · rw [h]; exact hi
      · rw [h]
        have hlt : i < r.format.length := by
          by_cases hlt : i < r.format.length
          · exact hlt
          · rw [List.getElem?_eq_none (by omega)] at hi; cases hi
        rw [List.getElem?_append_left hlt]; exact hi
    rw [renderEntries_getElem _ _ i k hi' hk0, renderEntries_getElem _ _ i k hi hk0, hget]

/-- **one_record_per_position** (round 10; as coded and repaired, every tag, `mav` or not).  Within one `write` call, of
    the records standing at one position `p` in a row — *whatever `p` is, the first base of the contig (0-based position 0,
    POS 1) included* — at most one is processed: if record `i` passed all the `continue`s, a later record `j` of the same
    run of equal positions does not; it is written with nothing but the removal of its existing phasing (the FORMAT keys of
    the input, no genotype change row, no `KeyError`).  The duplicate test compares
    `Option Nat` values: `none` (no previous record) is different from `some 0`. -/
theorem one_record_per_position (cfg : Cfg) (prev : Option Nat) (rs : List Record) (i j p : Nat) (hij : i < j)
    (hj : j < rs.length) (hsame : ∀ k, i ≤ k → k ≤ j → ∀ r, rs[k]? = some r → r.pos = p)
    (hi : (reachFlags cfg prev rs)[i]? = some true) :
    (reachFlags cfg prev rs)[j]? = some false ∧
    ∃ r o, rs[j]? = some r ∧ (writeChrom cfg prev rs)[j]? = some o ∧
      o.record = { r with calls := mapTargets cfg (fun _ c => clearPhasing cfg r.format c) r.calls } ∧
      o.changes = [] ∧ o.err = false := by
  have hflag : ∀ (rs : List Record) (prev : Option Nat) (i j : Nat), i < j → j < rs.length →
      (∀ k, i ≤ k → k ≤ j → ∀ r, rs[k]? = some r → r.pos = p) → (reachFlags cfg prev rs)[i]? = some true →
      (reachFlags cfg prev rs)[j]? = some false := by
    intro rs
    induction rs with
    | nil => intro prev i j _ hj; simp at hj
    | cons r rest ih =>
      intro prev i j hij hj hsame hi
      obtain ⟨j', rfl⟩ : ∃ j', j = j' + 1 := ⟨j - 1, by omega⟩
      cases i with
      | zero =>
        have hreach : reaches cfg prev r = true := by simpa [reachFlags] using hi
        have hr : r.pos = p := hsame 0 (Nat.le_refl _) (Nat.zero_le _) r (by simp)
        simp only [reachFlags, List.getElem?_cons_succ, writeRecord_prev_of_reaches cfg prev r hreach, hr]
        exact reachFlags_same_pos cfg p rest j' (by simpa using hj)
          (fun k hk r' hr' => hsame (k + 1) (Nat.zero_le _) (by omega) r' (by simpa using hr'))
      | succ i' =>
        simp only [reachFlags, List.getElem?_cons_succ] at hi ⊢
        exact ih _ i' j' (by omega) (by simpa using hj)
          (fun k hk1 hk2 r' hr' => hsame (k + 1) (by omega) (by omega) r' (by simpa using hr')) hi
  have hf := hflag rs prev i j hij hj hsame hi
  refine ⟨hf, ?_⟩
  have hlen : j < (writeChrom cfg prev rs).length := by rw [writeChrom_length]; exact hj
  obtain ⟨pv, r, hr, ho, hfl⟩ := writeChrom_getElem_reach cfg rs prev j _ (List.getElem?_eq_getElem hlen)
  rw [hf] at hfl
  have hnr : reaches cfg pv r = false := by simpa using hfl.symm
  refine ⟨r, _, hr, List.getElem?_eq_getElem hlen, ?_, ?_, ?_⟩
  · rw [ho]; simp [writeRecord, hnr]
  · rw [ho]; simp [writeRecord, hnr]
  · rw [ho]; simp [writeRecord, hnr]

/-! ### non-vacuity (file level) -/

def exRecs : List FRec :=
  [⟨"chr1", ["XX"], exRec⟩, ⟨"chr2", [], { exRec with site := "chr2 line", alts := ["<DEL>"] }⟩,
   ⟨"chr1", [], { exRec with pos := 20, site := "chr1 again" }⟩]
def exPh : Phasing := fun _ _ => ⟨[(10, 0), (20, 1)], [(10, 1), (20, 0)], [(10, 10), (20, 10)]⟩
def exFc : FileCfg := ⟨.PS, false, ["A", "B"], ["A"], ["chr1"]⟩

/-- three tables (chr1, chr2, chr1 again): three `write` calls, no assertion, every record written once -/
example : (phaseFile exFc exPh exRecs).map (·.map (·.length)) = some [1, 1, 1] := by decide
example : ((fileOut exFc exPh exRecs).map (·.record.format)) = [["GT", "DP", "PS"], ["GT", "DP"], ["GT", "DP", "PS"]] := by decide
/-- called for a chromosome that is not the next one, the augmenter trips over its assertion -/
example : (iterRecords "chr2" ⟨none, exRecs⟩).1 = .assertFirst ∧ (iterRecords "chr1" ⟨some ⟨"chr2", [], exRec⟩, []⟩).1 = .assertChrom := by
  decide
/-- reader: the duplicate of position 10 and the multi-ALT record are no table rows; the writer reaches the rows -/
example : (readerRows false none none [exRec, exRec, { exRec with pos := 15, alts := ["C", "G"] }, { exRec with pos := 20 }]).toOption
    = some ([true, false, false, true], some 2) := by decide
example : reachFlags exCfg none [exRec, exRec, { exRec with pos := 15, alts := ["C", "G"] }, { exRec with pos := 20 }]
    = [true, false, false, true] := by decide
example : (match readerRows false none none [{ exRec with pos := 20 }, exRec] with | .error .notSorted => true | _ => false) = true := by
  decide
example : (fileHeader .PS true [⟨"FORMAT", some "GT", "1", "String", ""⟩] exRecs).isSome = false := by decide  -- DP, XX undefined
example : (fileHeader .PS true [⟨"FORMAT", some "GT", "1", "String", ""⟩, ⟨"FORMAT", some "DP", "1", "Integer", ""⟩,
    ⟨"INFO", some "XX", "1", "Float", ""⟩] exRecs).map (·.map fun l => (l.key, l.id)) =
    some [("FORMAT", some "GT"), ("FORMAT", some "DP"), ("INFO", some "XX"), ("contig", some "chr1"), ("contig", some "chr2"),
      ("INFO", some "END"), ("commandline", none), ("FORMAT", some "PS")] := by decide
example : renderColumns (writeRecord exCfg none exRec).record = ["GT:DP:PS", "0|1:7:11", "1|0:9:."] := by decide

/-- `one_record_per_position` at the first base of a contig (0-based position 0): the first record is processed and gets
    PS 1, the second record at POS 1 (another ALT allele, same heterozygous genotype) is not, and stays as it was -/
def exCfg0 : Cfg := { exCfg with targets := exCfg.targets.map fun t =>
  { t with sr0 := [(0, 0), (20, 1)], sr1 := [(0, 1), (20, 0)], comps := [(0, 0), (20, 0)] } }
def exRec0 : Record := { exRec with pos := 0 }
example : reachFlags exCfg0 none [exRec0, { exRec0 with alts := ["G"] }, { exRec with pos := 20 }] = [true, false, true] := by decide
example : (writeChrom exCfg0 none [exRec0, { exRec0 with alts := ["G"] }]).map (fun o => renderColumns o.record) =
    [["GT:DP:PS", "0|1:7:1", "1|0:9:."], ["GT:DP", "0/1:7", "1|0:9"]] := by decide

end WhVerif.Props.C04

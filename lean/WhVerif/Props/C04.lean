import WhVerif.Lemmas.C04Header
import WhVerif.Lemmas.C09
/-!
# C04 — the phased VCF is the input VCF plus phase information and nothing else

Theorems about `writeChrom` / `writeRecord` (= `PhasedVcfWriter.write`) and `outputHeader`
(= `missing_headers` + `augment_header` + `add_meta` + `setup_header`) of `Model/C04.lean`.
`untouched_outside_targets`, `only_phase_fields_change`, `alleles_preserved` and `header_superset` hold for the
code as it is *and* for the repaired writer (no hypothesis on `Cfg.repaired`); `phased_only_if_het_supported`
needs the tag-independent removal of fixes/F4.patch (`repaired = true`): as coded, `--tag HP` leaves a phased
GT of the input in place (`f4_stale_phased_flag`).
-/
namespace WhVerif.Props.C04
open WhVerif.C04 WhVerif.C09

/-- **untouched_outside_targets**.  `write` emits exactly one record per input record, in the same order; in each,
    all site-level columns (CHROM … INFO) are identical, the sample columns are the same samples in the same
    order, every FORMAT key of the input is still there, and the call of every sample that is not a target of
    this run is identical (genotype, phased flag and every FORMAT value). -/
theorem untouched_outside_targets (cfg : Cfg) (prev : Option Nat) (rs : List Record) :
    (writeChrom cfg prev rs).length = rs.length ∧
    ∀ (i : Nat) (o : Out) (r : Record), (writeChrom cfg prev rs)[i]? = some o → rs[i]? = some r →
      o.record.site = r.site ∧ o.record.pos = r.pos ∧ o.record.ref = r.ref ∧ o.record.alts = r.alts ∧
      o.record.calls.map (·.1) = r.calls.map (·.1) ∧
      (∀ k ∈ r.format, k ∈ o.record.format) ∧
      (∀ (j : Nat) (n : String) (c : Call), r.calls[j]? = some (n, c) → isTargetName cfg n = false → o.record.calls[j]? = some (n, c)) := by
  refine ⟨writeChrom_length cfg rs prev, ?_⟩
  intro i o r ho hr
  obtain ⟨prev', r', hr', rfl⟩ := writeChrom_getElem cfg rs prev i o ho
  rw [hr] at hr'; cases hr'
  obtain ⟨h1, h2, h3, h4⟩ := writeRecord_site cfg prev' r
  refine ⟨h1, h2, h3, h4, ?_, ?_, ?_⟩
  · rw [writeRecord_calls]; simp [List.map_map, Function.comp]
  · intro k hk
    rw [writeRecord_format]
    split
    · unfold addKey; split
      · exact hk
      · exact List.mem_append_left _ hk
    · exact hk
  · intro j n c hj hnt
    rw [writeRecord_calls, List.getElem?_map, hj]
    simp only [Option.map_some, Option.some.injEq, Prod.mk.injEq, true_and]
    unfold finalCall
    simp only [isTargetName, Option.isSome_eq_false_iff, Option.isNone_iff_eq_none] at hnt
    rw [hnt]

/-- chromosomes that were not selected (`write` called with empty dictionaries) are copied unchanged -/
theorem untouched_when_no_targets (cfg : Cfg) (hno : cfg.targets = []) (prev : Option Nat) (rs : List Record) :
    outRecords (writeChrom cfg prev rs) = rs ∧ outChanges (writeChrom cfg prev rs) = [] := by
  have hft : ∀ n, findTarget cfg n = none := by intro n; simp [findTarget, hno]
  have hreach : ∀ p r, reaches cfg p r = false := by
    intro p r
    have : anyPhased cfg r.pos = false := by
      simp [anyPhased, hft]
    simp [reaches, this]
  have hrec : ∀ p r, writeRecord cfg p r = ⟨r, p, [], false⟩ := by
    intro p r
    simp only [writeRecord, hreach, Bool.false_eq_true, if_false, mapTargets, hft]
    simp
  induction rs generalizing prev with
  | nil => exact ⟨rfl, rfl⟩
  | cons r rest ih =>
    obtain ⟨h1, h2⟩ := ih prev
    simp only [writeChrom, hrec, outRecords, outChanges, List.map_cons, List.flatMap_cons, List.nil_append] at h1 h2 ⊢
    exact ⟨by rw [h1], h2⟩

/-- **only_phase_fields_change**.  For the call of any sample (target or not) in any record, every FORMAT key
    other than PS and HP keeps its value; the FORMAT key list of the record is the input's, with the tag key
    appended when the record was processed and did not have it. -/
theorem only_phase_fields_change (cfg : Cfg) (prev : Option Nat) (r : Record) (n : String) (c : Call) (k : String)
    (hk1 : k ≠ "PS") (hk2 : k ≠ "HP") :
    (finalCall cfg prev r n c).get k = c.get k ∧
    ((writeRecord cfg prev r).record.format = r.format ∨
      (cfg.tag.key ∉ r.format ∧ (writeRecord cfg prev r).record.format = r.format ++ [cfg.tag.key])) := by
  constructor
  · unfold finalCall
    have hkt : k ≠ cfg.tag.key := by cases cfg.tag <;> simpa [Tag.key]
    split
    · split
      · rw [updateCall_get_other _ _ _ _ _ hkt, clearPhasing_get_other _ _ _ _ hk1 hk2]
      · exact clearPhasing_get_other _ _ _ _ hk1 hk2
    · rfl
  · rw [writeRecord_format]
    split
    · unfold addKey; split
      · exact Or.inl rfl
      · rename_i h; exact Or.inr ⟨h, rfl⟩
    · exact Or.inl rfl

/-- **alleles_preserved** (trusted genotypes).  If every phase handed to the writer has the alleles of the input
    genotype of its call (the super-read genotype equals the input genotype — what the solver guarantees unless
    `--distrust-genotypes`), then no genotype change is reported and every call of the record keeps its alleles
    as a multiset (only their order may change). -/
theorem alleles_preserved (cfg : Cfg) (prev : Option Nat) (r : Record)
    (htrust : ∀ t ∈ cfg.targets, ∀ c p, clookup r.calls t.name = some c →
        lookupPhase cfg.mav t r.pos = some p → sortNat p = gcode c.gt) :
    (writeRecord cfg prev r).changes = [] ∧
    ∀ n c c', clookup r.calls n = some c → clookup (writeRecord cfg prev r).record.calls n = some c' →
      GtPerm c'.gt c.gt := by
  have hnil := writeRecord_changes_nil_of_trusted cfg prev r htrust
  refine ⟨hnil, fun n c c' hc hc' => writeRecord_gtPerm_of_no_row cfg prev r n c c' hc hc' ?_⟩
  rw [hnil]; intro row hrow; cases hrow

/-- without the trust hypothesis: alleles change only where a change row says so -/
theorem alleles_change_only_with_row (cfg : Cfg) (prev : Option Nat) (r : Record) (n : String) (c c' : Call)
    (hc : clookup r.calls n = some c) (hc' : clookup (writeRecord cfg prev r).record.calls n = some c')
    (hno : ∀ row ∈ (writeRecord cfg prev r).changes, row.sample ≠ n) : GtPerm c'.gt c.gt :=
  writeRecord_gtPerm_of_no_row cfg prev r n c c' hc hc' hno

/-- **phased_only_if_het_supported** (repaired writer).  If, after `write`, the call of a target sample is marked
    phased or carries a PS or HP value, then the record has exactly one ALT allele (unless `mav`), is not a
    duplicate of the previously processed position, is an SNV if `--only-snvs`, the position is phased in this
    run, and the call's genotype is fully called and heterozygous. -/
theorem phased_only_if_het_supported (cfg : Cfg) (hr : cfg.repaired = true) (prev : Option Nat) (r : Record)
    (n : String) (t : Target) (hft : findTarget cfg n = some t) (c : Call) (hwf : WfCall r.format c)
    (hmark : (finalCall cfg prev r n c).phased = true ∨ (finalCall cfg prev r n c).get "PS" ≠ .missing ∨
      (finalCall cfg prev r n c).get "HP" ≠ .missing) :
    r.alts ≠ [] ∧ (r.alts.length = 1 ∨ cfg.mav = true) ∧ prev ≠ some r.pos ∧ (cfg.onlySnvs = true → isSnv r = true) ∧
    (lookupPhase cfg.mav t r.pos).isSome ∧ (alookup t.comps r.pos).isSome ∧
    gcode (finalCall cfg prev r n c).gt ≠ [] ∧ isHom (gcode (finalCall cfg prev r n c).gt) = false := by
  rcases finalCall_summary cfg hr prev r n t hft c hwf with ⟨h1, h2, h3⟩ | ⟨hreach, comp, p, hcomp, hp, hhet, hg⟩
  · rcases hmark with h | h | h
    · rw [h1] at h; cases h
    · exact absurd h2 h
    · exact absurd h3 h
  · simp only [reaches, Bool.and_eq_true, Bool.not_eq_true', Bool.and_eq_false_imp, decide_eq_true_eq,
      beq_eq_false_iff_ne, ne_eq] at hreach
    obtain ⟨⟨⟨⟨ha, hb⟩, hc⟩, hd⟩, _⟩ := hreach
    refine ⟨?_, ?_, ?_, ?_, by simp [hp], by simp [hcomp], ?_, ?_⟩
    · intro h0; simp [h0] at ha
    · by_cases hl : r.alts.length > 1
      · right
        have := hb hl
        simpa using this
      · left
        have hne : r.alts ≠ [] := by intro h0; simp [h0] at ha
        have : r.alts.length ≠ 0 := by intro h0; exact hne (List.eq_nil_of_length_eq_zero h0)
        omega
    · exact fun h => hc h
    · intro hs
      have := hd hs
      simpa using this
    · rw [hg]; intro h0; exact lookupPhase_ne_nil hp (sortNat_eq_nil h0)
    · rw [hg]; exact hhet

/-- as coded (`repaired = false`), `--tag HP` does not clear the phased flag of the input: a homozygous call on a
    multi-ALT record stays marked phased (with its old PS) -/
theorem f4_stale_phased_flag :
    let c : Call := ⟨some [some 1, some 1], true, [("PS", .int 7)]⟩
    let r : Record := ⟨"s", 10, "A", ["C", "G"], ["GT", "PS"], [("A", c)]⟩
    let cfg (rep : Bool) : Cfg := ⟨.HP, false, false, rep, ["A"], [⟨"A", [], [], []⟩]⟩
    (finalCall (cfg false) none r "A" c).phased = true ∧ (finalCall (cfg false) none r "A" c).get "PS" = .int 7 ∧
    (finalCall (cfg true) none r "A" c).phased = false ∧ (finalCall (cfg true) none r "A" c).get "PS" = .missing := by
  refine ⟨?_, ?_, ?_, ?_⟩ <;> decide

/-- **header_superset**.  When the header pipeline succeeds, every contig / INFO / FILTER / FORMAT (indeed every
    structured line other than `phasing`) that is defined in the input header is still defined in the output
    header; every line whose key is neither `FORMAT` nor `phasing` is kept literally; at most one line — a
    `phasing=` line — disappears without replacement. -/
theorem header_superset (tag : Tag) (cl : Bool) (h h' : List HLine) (cs fs is : List String)
    (hout : outputHeader tag cl h cs fs is = some h') :
    (∀ key id, key ≠ "phasing" → defined h key id = true → defined h' key id = true) ∧
    (∀ l ∈ h, l.key ≠ "FORMAT" → l.key ≠ "phasing" → l ∈ h') := by
  unfold outputHeader at hout
  split at hout
  · cases hout
  · simp only at hout
    split at hout
    · cases hout
    · rename_i h2 hf
      split at hout
      · cases hout
      · rename_i h3 hi
        simp only [Option.some.injEq] at hout
        subst hout
        constructor
        · intro key id hk hd
          apply defined_addLine
          apply defined_removeFirstPhasing _ hk
          have h3d : defined h3 key id = true :=
            defined_addInfos hi (defined_addFormats hf (defined_foldContigs _ _ hd))
          split
          · exact defined_append_left h3d
          · exact h3d
        · intro l hl hk1 hk2
          apply mem_addLine
          apply mem_removeFirstPhasing _ hk2
          have h3m : l ∈ h3 := mem_addInfos hi (mem_addFormats hf (mem_foldContigs _ _ hl) hk1)
          split
          · exact List.mem_append_left _ h3m
          · exact h3m

/-! ### non-vacuity -/

example : outputHeader .PS true
    [⟨"fileformat", none, "", "", "VCFv4.2"⟩, ⟨"phasing", none, "", "", "none"⟩, ⟨"contig", some "chr1", "", "", ""⟩,
     ⟨"FORMAT", some "GT", "1", "String", ""⟩, ⟨"FORMAT", some "GQ", ".", "Integer", ""⟩, ⟨"INFO", some "XX", "1", "Float", ""⟩]
    ["chr1", "chr2"] ["GT", "GQ", "AD"] ["XX", "AC"]
  = some [⟨"fileformat", none, "", "", "VCFv4.2"⟩, ⟨"contig", some "chr1", "", "", ""⟩, ⟨"FORMAT", some "GT", "1", "String", ""⟩,
      ⟨"INFO", some "XX", "1", "Float", ""⟩, ⟨"contig", some "chr2", "", "", ""⟩, ⟨"FORMAT", some "GQ", "1", "Integer", ""⟩,
      ⟨"FORMAT", some "AD", ".", "Integer", ""⟩, ⟨"INFO", some "AC", "A", "Integer", ""⟩, ⟨"commandline", none, "", "", ""⟩,
      ⟨"FORMAT", some "PS", "1", "Integer", ""⟩] := by decide

/-- an undefined FORMAT that is not predefined makes the writer give up (`VcfError`) -/
example : outputHeader .PS false [⟨"FORMAT", some "GT", "1", "String", ""⟩] [] ["GT", "ZZ"] [] = none := by decide

def exCfg : Cfg :=
  ⟨.PS, false, false, true, ["A", "B"], [⟨"A", [(10, 0), (20, 1)], [(10, 1), (20, 0)], [(10, 10), (20, 10)]⟩]⟩
def exRec : Record :=
  ⟨"chr1\t11\t.\tA\tC\t.\tPASS\tXX=1", 10, "A", ["C"], ["GT", "DP"],
   [("A", ⟨some [some 1, some 0], false, [("DP", .int 7)]⟩), ("B", ⟨some [some 1, some 0], true, [("DP", .int 9)]⟩)]⟩

example : (writeRecord exCfg none exRec).record =
    ⟨"chr1\t11\t.\tA\tC\t.\tPASS\tXX=1", 10, "A", ["C"], ["GT", "DP", "PS"],
     [("A", ⟨some [some 0, some 1], true, [("DP", .int 7), ("PS", .int 11)]⟩),
      ("B", ⟨some [some 1, some 0], true, [("DP", .int 9)]⟩)]⟩ := by decide
example : ∀ t ∈ exCfg.targets, ∀ c p, clookup exRec.calls t.name = some c →
    lookupPhase exCfg.mav t exRec.pos = some p → sortNat p = gcode c.gt := by
  intro t ht c p hc hp
  simp only [exCfg, List.mem_singleton] at ht
  subst ht
  have hc' : c = ⟨some [some 1, some 0], false, [("DP", .int 7)]⟩ := by
    have : clookup exRec.calls "A" = some ⟨some [some 1, some 0], false, [("DP", .int 7)]⟩ := by decide
    exact Option.some.inj (hc.symm.trans this)
  have hp' : p = [0, 1] := by
    have : lookupPhase false ⟨"A", [(10, 0), (20, 1)], [(10, 1), (20, 0)], [(10, 10), (20, 10)]⟩ 10 = some [0, 1] := by decide
    exact Option.some.inj (hp.symm.trans this)
  subst hc' hp'
  decide
example : WfCall exRec.format ⟨some [some 1, some 0], false, [("DP", .int 7)]⟩ := by
  constructor
  · intro k hk
    simp only [exRec, List.mem_cons, List.not_mem_nil, or_false, not_or] at hk
    simp [Call.get, fget, Ne.symm hk.2]
  · intro h; cases h

end WhVerif.Props.C04

import WhVerif.Lemmas.C15
import WhVerif.Lemmas.C15Blocks
/-!
# C15 — polyphase output obeys the input genotypes and forms contiguous blocks

Theorems about the model `WhVerif.C15` (see `Model/C15.lean`) of the three enforcing stages
(`force_genotypes`, `permute_blocks`, `compute_cut_positions` + component construction); the
clustering/threading heuristic upstream is universally quantified (arbitrary columns, arbitrary
permutations per block, arbitrary breakpoints and confidences, arbitrary float arithmetic).

The full claim "after `force_genotypes` every fully determined column has the genotype's alleles" is FALSE
for the faithful model: if no permutation beats −inf the column is left as given (`Verdict.fallback`,
defect F8, reached by the real CLI).  What is proved: the counting facts that make every *chosen* permutation
right (`force_counts`, `force_perm_obeys_genotype`, `force_nothing_abundant_obeys_genotype`), that the
fallback is wrong whenever it is taken (`force_fallback_violates`), and that the harness's classification of
an observed result (`classify`) is sound with respect to these (`classify_sound`).
-/
namespace WhVerif.Props.C15
open WhVerif.C15

/-! ## force_genotypes (one column; `gv` = the genotype as a list of alleles, `col` = the threaded alleles) -/

/-- `len(alleles_to_insert) == len(affected_positions)` whenever the genotype has as many alleles as there are
haplotypes: every permutation fills exactly the affected slots. -/
theorem force_counts (col gv : List Allele) (hlen : gv.length = col.length) :
    (toInsert col gv).length = (affected col gv).length :=
  length_toInsert_eq_affected col gv hlen

example : (toInsert [0, 0, 0, 2] [0, 1, 1, 2]).length = (affected [0, 0, 0, 2] [0, 1, 1, 2]).length :=
  force_counts _ _ rfl

/-- Whichever permutation of `alleles_to_insert` is chosen, the new column lists exactly the alleles of the
genotype with their multiplicities. -/
theorem force_perm_obeys_genotype (col gv perm : List Allele) (hlen : gv.length = col.length)
    (hperm : perm.Perm (toInsert col gv)) (a : Allele) :
    (assign col (affected col gv) perm).count a = gv.count a :=
  count_assign_perm col gv perm hlen hperm a

example : ∀ a, (assign [0, 0, 0, 2] (affected [0, 0, 0, 2] [0, 1, 1, 2]) (toInsert [0, 0, 0, 2] [0, 1, 1, 2])).count a
    = ([0, 1, 1, 2] : List Allele).count a :=
  fun a => force_perm_obeys_genotype [0, 0, 0, 2] [0, 1, 1, 2] _ rfl (List.Perm.refl _) a

/-- the `if len(abundant_alleles) == 0: continue` branch is taken only by columns that already obey the genotype -/
theorem force_nothing_abundant_obeys_genotype (col gv : List Allele) (hlen : gv.length = col.length)
    (h : affected col gv = []) (a : Allele) : col.count a = gv.count a :=
  count_eq_of_affected_nil col gv hlen h a

example : affected [1, 0, 1] [0, 1, 1] = [] := by decide

/-- F8: whenever the permutation stage is entered, leaving the column as given (the `-inf` fallback of the
code as it is) violates the genotype. -/
theorem force_fallback_violates (col gv : List Allele) (h : affected col gv ≠ []) :
    ∃ a, col.count a ≠ gv.count a := by
  obtain ⟨a, _, hlt⟩ := exists_abundant_of_affected_ne_nil col gv h
  exact ⟨a, by omega⟩

/-- F8 witness on the faithful model: genotype 0/1, both haplotypes threaded with allele 0; the unforced
column is an admissible result of the code (`fallback`) and it is not the genotype. -/
example : classify [0, 0] [0, 1] [0, 0] = Verdict.fallback ∧ ([0, 0] : List Allele).count 1 ≠ ([0, 1] : List Allele).count 1 := by
  decide

/-- soundness of the classification used by the harness on the real function's result -/
theorem classify_sound (col gv out : List Allele) (hlen : gv.length = col.length) :
    ((classify col gv out = Verdict.perm ∨ classify col gv out = Verdict.unchangedNothingAbundant) →
        ∀ a, out.count a = gv.count a)
    ∧ (classify col gv out = Verdict.fallback → out = col ∧ ∃ a, out.count a ≠ gv.count a) := by
  by_cases h1 : (-1 : Allele) ∈ col
  · have hfs : forceStep col gv = .skipUndetermined := by simp [forceStep, h1]
    simp only [classify, hfs]
    constructor
    · intro h; by_cases ho : out = col <;> simp [ho] at h
    · intro h; by_cases ho : out = col <;> simp [ho] at h
  · by_cases h2 : affected col gv = []
    · have hfs : forceStep col gv = .nothingAbundant := by simp [forceStep, h1, h2]
      have hnil : affected col gv = [] := h2
      simp only [classify, hfs]
      constructor
      · intro h
        by_cases ho : out = col
        · subst ho; exact fun a => count_eq_of_affected_nil out gv hlen hnil a
        · simp [ho] at h
      · intro h; by_cases ho : out = col <;> simp [ho] at h
    · have hfs : forceStep col gv = .choose (affected col gv) (toInsert col gv) := by
        simp [forceStep, h1, h2]
      have hne : affected col gv ≠ [] := h2
      simp only [classify, hfs]
      constructor
      · intro h
        by_cases ho : out = col
        · simp [ho] at h
        · simp only [ho, if_false] at h
          by_cases hc : isPermResult col (affected col gv) (toInsert col gv) out
          · intro a
            rw [hc.2]
            apply count_assign_perm col gv _ hlen
            rw [← hc.1]
            exact (List.mergeSort_perm _ _).symm
          · simp [hc] at h
      · intro h
        by_cases ho : out = col
        · subst ho
          exact ⟨rfl, force_fallback_violates out gv hne⟩
        · simp only [ho, if_false] at h
          by_cases hc : isPermResult col (affected col gv) (toInsert col gv) out <;> simp [hc] at h

/-! ## permute_blocks -/

/-- Reordering only permutes the alleles among the haplotypes of one position: whatever the breakpoints and
whatever permutations of `range(ploidy)` are chosen per block, every column of the result is a rearrangement
of the same column of the input (so its allele multiset is unchanged), and no column appears or disappears. -/
theorem reorder_preserves_multiset {α} [Inhabited α] (cols : List (List α)) (bps : List Nat)
    (perms : List (List Nat)) (ploidy : Nat)
    (hcols : ∀ c ∈ cols, c.length = ploidy) (hperms : ∀ p ∈ perms, p.Perm (List.range ploidy)) :
    (permuteBlocks cols bps perms).length = cols.length ∧
    ∀ q, ((permuteBlocks cols bps perms).getD q []).Perm (cols.getD q []) := by
  unfold permuteBlocks
  apply ColsInv.permuteLoop ploidy hcols
  · intro b hb
    unfold blockList at hb
    exact hperms _ (List.of_mem_zip hb).2
  · exact ⟨rfl, fun q => List.Perm.refl _⟩

example : permuteBlocks [[0, 1, 1], [1, 0, 2], [0, 0, 1]] [2] [[0, 1, 2], [2, 0, 1]]
    = ([[0, 1, 1], [1, 0, 2], [1, 0, 0]] : List (List Int)) := by decide

/-! ## compute_cut_positions (for every float arithmetic `A`) -/

/-- with breakpoints sorted by position (duplicates allowed) the cut positions are strictly increasing -/
theorem cuts_strictly_increasing {C L} (A : ConfArith C L) (bps : List (Breakpoint C)) (ploidy B : Nat)
    (hs : bps.Pairwise (fun a b => a.position ≤ b.position)) :
    (computeCutPositions A bps ploidy B).1.Pairwise (fun a b => a < b) := by
  unfold computeCutPositions
  simp only [List.pairwise_reverse]
  exact cutLoop_sorted A ploidy B _ bps hs (by simp [CutState.init]) (by simp [CutState.init])

/-- every cut is the position of one of the breakpoints -/
theorem cuts_are_breakpoint_positions {C L} (A : ConfArith C L) (bps : List (Breakpoint C)) (ploidy B : Nat) :
    ∀ c ∈ (computeCutPositions A bps ploidy B).1, ∃ b ∈ bps, b.position = c := by
  intro c hc
  unfold computeCutPositions at hc
  simp only [List.mem_reverse] at hc
  rcases cutLoop_mem A ploidy B _ bps c hc with h | h
  · simp [CutState.init] at h
  · exact h

/-- the first breakpoint, if it has confidence 0.0, always cuts (whatever the sensitivity) and stays the first cut -/
theorem first_zero_confidence_breakpoint_cuts {C L} (A : ConfArith C L) (b0 : Breakpoint C)
    (rest : List (Breakpoint C)) (ploidy B : Nat) (hz : A.isZero b0.confidence = true) :
    (computeCutPositions A (b0 :: rest) ploidy B).1.head? = some b0.position := by
  unfold computeCutPositions
  simp only
  unfold cutLoop
  simp only [CutState.init, List.head?_nil, List.isEmpty_nil, Bool.not_true, Bool.false_and, hz, if_true]
  have hne : ¬ ((none : Option Nat) == some b0.position) = true := by simp
  simp only [hne, if_false, Bool.false_eq_true]
  obtain ⟨pre, h⟩ := cutLoop_suffix A ploidy B
    ⟨[b0.position], addHapCuts (List.replicate ploidy []) (List.range ploidy) b0.position,
      List.replicate ploidy A.zero⟩ rest
  rw [h]
  simp

/-! ## components of `phase_single_individual` -/

/-- Phase sets are disjoint intervals, named by their first position.

`bps` are the breakpoints handed to `compute_cut_positions`: sorted by position, the first one at index 0 with
confidence 0.0 (as `aggregate_results` always produces), all inside the `acc.length` accessible positions `acc`
(strictly increasing genomic positions).  Then the cut list is strictly increasing and starts with 0, and the
component dictionary maps every accessible position `acc[p]` to `acc[c]` where `c` is the greatest cut `≤ p`:
the set named `acc[c]` is exactly the index interval from `c` up to the next cut. -/
theorem components_are_intervals {C L} (A : ConfArith C L) (b0 : Breakpoint C) (rest : List (Breakpoint C))
    (ploidy B : Nat) (acc : List Nat)
    (h0 : b0.position = 0) (hz : A.isZero b0.confidence = true)
    (hsorted : (b0 :: rest).Pairwise (fun a b => a.position ≤ b.position))
    (hrange : ∀ b ∈ b0 :: rest, b.position < acc.length)
    (hacc : acc.Pairwise (fun a b => a < b)) :
    let cuts := (computeCutPositions A (b0 :: rest) ploidy B).1
    let comp := fun p => dictGet (componentWrites acc acc.length cuts) (acc.getD p 0)
    cuts.Pairwise (fun a b => a < b) ∧ cuts.head? = some 0 ∧
    ∀ p, p < acc.length →
      ∃ c ∈ cuts, c ≤ p ∧ (∀ c' ∈ cuts, c' ≤ p → c' ≤ c) ∧ comp p = some (acc.getD c 0) := by
  intro cuts comp
  have hpw := cuts_strictly_increasing A (b0 :: rest) ploidy B hsorted
  have hhead : cuts.head? = some 0 := h0 ▸ first_zero_confidence_breakpoint_cuts A b0 rest ploidy B hz
  refine ⟨hpw, hhead, ?_⟩
  have hm : ∀ i j, i < j → j < acc.length → acc.getD i 0 < acc.getD j 0 := by
    intro i j hij hj
    have := List.pairwise_iff_getElem.mp hacc i j (by omega) hj hij
    simpa [List.getD_eq_getElem?_getD, hj, (by omega : i < acc.length)] using this
  have hcr : ∀ c ∈ cuts, c < acc.length := by
    intro c hc
    obtain ⟨b, hb, e⟩ := cuts_are_breakpoint_positions A (b0 :: rest) ploidy B c hc
    exact e ▸ hrange b hb
  cases hcs : cuts with
  | nil => rw [hcs] at hhead; simp at hhead
  | cons s tl =>
    rw [hcs] at hhead
    have hs : s = 0 := by simpa using hhead
    intro p hp
    have := (componentWrites_lookup acc acc.length hm tl s (hcs ▸ hpw) (hcs ▸ hcr)).1 p (by omega) hp
    simpa [comp, hcs] using this

/-- contiguity, stated directly: if two accessible positions carry the same phase-set name, so does every
accessible position between them; and the position that gives the set its name is the first one of the set. -/
theorem components_contiguous_and_named_by_first {C L} (A : ConfArith C L) (b0 : Breakpoint C)
    (rest : List (Breakpoint C)) (ploidy B : Nat) (acc : List Nat)
    (h0 : b0.position = 0) (hz : A.isZero b0.confidence = true)
    (hsorted : (b0 :: rest).Pairwise (fun a b => a.position ≤ b.position))
    (hrange : ∀ b ∈ b0 :: rest, b.position < acc.length)
    (hacc : acc.Pairwise (fun a b => a < b)) :
    let cuts := (computeCutPositions A (b0 :: rest) ploidy B).1
    let comp := fun p => dictGet (componentWrites acc acc.length cuts) (acc.getD p 0)
    (∀ p q r, p ≤ q → q ≤ r → r < acc.length → comp p = comp r → comp q = comp p) ∧
    (∀ p, p < acc.length → ∃ c, c ≤ p ∧ comp p = some (acc.getD c 0) ∧ comp c = some (acc.getD c 0) ∧
        ∀ q, q < c → comp q ≠ comp p) := by
  intro cuts comp
  obtain ⟨hpw, _, hmain⟩ := components_are_intervals A b0 rest ploidy B acc h0 hz hsorted hrange hacc
  have hcr : ∀ c ∈ cuts, c < acc.length := by
    intro c hc
    obtain ⟨b, hb, e⟩ := cuts_are_breakpoint_positions A (b0 :: rest) ploidy B c hc
    exact e ▸ hrange b hb
  have hinj : ∀ i j, i < acc.length → j < acc.length → acc.getD i 0 = acc.getD j 0 → i = j := by
    intro i j hi hj he
    have hm : ∀ i j, i < j → j < acc.length → acc.getD i 0 < acc.getD j 0 := by
      intro i j hij hj
      have := List.pairwise_iff_getElem.mp hacc i j (by omega) hj hij
      simpa [List.getD_eq_getElem?_getD, hj, (by omega : i < acc.length)] using this
    rcases Nat.lt_trichotomy i j with h | h | h
    · have := hm i j h hj; omega
    · exact h
    · have := hm j i h hi; omega
  constructor
  · intro p q r hpq hqr hr hpr
    obtain ⟨cp, hcp, hcpp, hmaxp, hgp⟩ := hmain p (by omega)
    obtain ⟨cq, hcq, hcqq, hmaxq, hgq⟩ := hmain q (by omega)
    obtain ⟨cr, hcr', hcrr, hmaxr, hgr⟩ := hmain r hr
    have hgp : comp p = some (acc.getD cp 0) := hgp
    have hgq : comp q = some (acc.getD cq 0) := hgq
    have hgr : comp r = some (acc.getD cr 0) := hgr
    have hpr' : comp p = comp r := hpr
    have e1 : acc.getD cp 0 = acc.getD cr 0 := by
      have : some (acc.getD cp 0) = some (acc.getD cr 0) := by rw [← hgp, ← hgr]; exact hpr'
      exact Option.some.inj this
    have e2 : cp = cr := hinj cp cr (hcr cp hcp) (hcr cr hcr') e1
    have h1 : cp ≤ cq := hmaxq cp hcp (by omega)
    have h2 : cq ≤ cr := hmaxr cq hcq (by omega)
    have e3 : cq = cp := by omega
    show comp q = comp p
    rw [hgq, hgp, e3]
  · intro p hp
    obtain ⟨c, hc, hcp, hmax, hg⟩ := hmain p hp
    obtain ⟨c2, hc2, hc2c, hmax2, hg2⟩ := hmain c (hcr c hc)
    have hg : comp p = some (acc.getD c 0) := hg
    have hg2 : comp c = some (acc.getD c2 0) := hg2
    have e : c2 = c := by
      have := hmax2 c hc (Nat.le_refl _)
      omega
    refine ⟨c, hcp, hg, e ▸ hg2, ?_⟩
    intro q hq hqp
    obtain ⟨cq, hcq, hcqq, _, hgq⟩ := hmain q (by omega)
    have hgq : comp q = some (acc.getD cq 0) := hgq
    have hqp' : comp q = comp p := hqp
    have e1 : acc.getD cq 0 = acc.getD c 0 := by
      have : some (acc.getD cq 0) = some (acc.getD c 0) := by rw [← hgq, ← hg]; exact hqp'
      exact Option.some.inj this
    have := hinj cq c (hcr cq hcq) (hcr c hc) e1
    omega

/-- non-vacuity: a concrete arithmetic (confidence in percent, "log" = identity, never below threshold)
and breakpoints satisfying all hypotheses; cuts come out as [0, 2] and the dictionary names {10,11}→10, {20,30}→20 -/
def exArith : ConfArith Nat Nat := ⟨fun c => c == 0, id, 0, (· + ·), fun _ _ => false, fun _ => 0⟩
example :
    let bps : List (Breakpoint Nat) := [⟨0, [0, 1], 0⟩, ⟨1, [0, 1], 90⟩, ⟨2, [0, 1], 0⟩]
    (computeCutPositions exArith bps 2 4).1 = [0, 2] ∧
    ([0, 1, 2, 3].map fun p => dictGet (componentWrites [10, 11, 20, 30] 4 [0, 2]) ([10, 11, 20, 30].getD p 0))
      = [some 10, some 10, some 20, some 20] := by decide

end WhVerif.Props.C15

import WhVerif.Lemmas.C15
import WhVerif.Lemmas.C15Blocks
import WhVerif.Lemmas.C15Glue
import WhVerif.Lemmas.C15Solve
import WhVerif.Lemmas.C15Writer
import WhVerif.Lemmas.C15Bps
import WhVerif.Lemmas.C15Assign
import WhVerif.Lemmas.C15Deep
/-!
# C15 — polyphase output obeys the input genotypes and forms contiguous blocks

Theorems about the model `WhVerif.C15` (see `Model/C15.lean`) of the three enforcing stages
(`force_genotypes`, `permute_blocks`, `compute_cut_positions` + component construction); the
clustering/threading heuristic upstream is universally quantified (arbitrary columns, arbitrary
permutations per block, arbitrary breakpoints and confidences, arbitrary float arithmetic).

The full claim "after `force_genotypes` every fully determined column has the genotype's alleles" is FALSE
for the faithful model: if no permutation beats −inf the column is left as given (`Verdict.fallback`,
defect F8, reached by the real CLI).  What is proved: the counting facts that make every *chosen* permutation
right (`force_counts`, `force_perm_obeys_genotype`, `force_nothing_abundant_obeys_genotype`), that the
fallback is wrong whenever it is taken (`force_fallback_violates`), and that the harness's classification of
an observed result (`classify`) is sound with respect to these (`classify_sound`).
-/
namespace WhVerif.Props.C15
open WhVerif.C15

/-! ## force_genotypes (one column; `gv` = the genotype as a list of alleles, `col` = the threaded alleles) -/

/-- `len(alleles_to_insert) == len(affected_positions)` whenever the genotype has as many alleles as there are
haplotypes: every permutation fills exactly the affected slots. -/
theorem force_counts (col gv : List Allele) (hlen : gv.length = col.length) :
    (toInsert col gv).length = (affected col gv).length :=
  length_toInsert_eq_affected col gv hlen

example : (toInsert [0, 0, 0, 2] [0, 1, 1, 2]).length = (affected [0, 0, 0, 2] [0, 1, 1, 2]).length :=
  force_counts _ _ rfl

/-- Whichever permutation of `alleles_to_insert` is chosen, the new column lists exactly the alleles of the
genotype with their multiplicities. -/
theorem force_perm_obeys_genotype (col gv perm : List Allele) (hlen : gv.length = col.length)
    (hperm : perm.Perm (toInsert col gv)) (a : Allele) :
    (assign col (affected col gv) perm).count a = gv.count a :=
  count_assign_perm col gv perm hlen hperm a

example : ∀ a, (assign [0, 0, 0, 2] (affected [0, 0, 0, 2] [0, 1, 1, 2]) (toInsert [0, 0, 0, 2] [0, 1, 1, 2])).count a
    = ([0, 1, 1, 2] : List Allele).count a :=
  fun a => force_perm_obeys_genotype [0, 0, 0, 2] [0, 1, 1, 2] _ rfl (List.Perm.refl _) a

/-- the `if len(abundant_alleles) == 0: continue` branch is taken only by columns that already obey the genotype -/
theorem force_nothing_abundant_obeys_genotype (col gv : List Allele) (hlen : gv.length = col.length)
    (h : affected col gv = []) (a : Allele) : col.count a = gv.count a :=
  count_eq_of_affected_nil col gv hlen h a

example : affected [1, 0, 1] [0, 1, 1] = [] := by decide

/-- F8: whenever the permutation stage is entered, leaving the column as given (the `-inf` fallback of the
code as it is) violates the genotype. -/
theorem force_fallback_violates (col gv : List Allele) (h : affected col gv ≠ []) :
    ∃ a, col.count a ≠ gv.count a := by
  obtain ⟨a, _, hlt⟩ := exists_abundant_of_affected_ne_nil col gv h
  exact ⟨a, by omega⟩

/-- F8 witness on the faithful model: genotype 0/1, both haplotypes threaded with allele 0; the unforced
column is an admissible result of the code (`fallback`) and it is not the genotype. -/
example : classify [0, 0] [0, 1] [0, 0] = Verdict.fallback ∧ ([0, 0] : List Allele).count 1 ≠ ([0, 1] : List Allele).count 1 := by
  decide

/-- soundness of the classification used by the harness on the real function's result -/
theorem classify_sound (col gv out : List Allele) (hlen : gv.length = col.length) :
    ((classify col gv out = Verdict.perm ∨ classify col gv out = Verdict.unchangedNothingAbundant) →
        ∀ a, out.count a = gv.count a)
    ∧ (classify col gv out = Verdict.fallback → out = col ∧ ∃ a, out.count a ≠ gv.count a) := by
  by_cases h1 : (-1 : Allele) ∈ col
  · have hfs : forceStep col gv = .skipUndetermined := by simp [forceStep, h1]
    simp only [classify, hfs]
    constructor
    · intro h; by_cases ho : out = col <;> simp [ho] at h
    · intro h; by_cases ho : out = col <;> simp [ho] at h
  · by_cases h2 : affected col gv = []
    · have hfs : forceStep col gv = .nothingAbundant := by simp [forceStep, h1, h2]
      have hnil : affected col gv = [] := h2
      simp only [classify, hfs]
      constructor
      · intro h
        by_cases ho : out = col
        · subst ho; exact fun a => count_eq_of_affected_nil out gv hlen hnil a
        · simp [ho] at h
      · intro h; by_cases ho : out = col <;> simp [ho] at h
    · have hfs : forceStep col gv = .choose (affected col gv) (toInsert col gv) := by
        simp [forceStep, h1, h2]
      have hne : affected col gv ≠ [] := h2
      simp only [classify, hfs]
      constructor
      · intro h
        by_cases ho : out = col
        · simp [ho] at h
        · simp only [ho, if_false] at h
          by_cases hc : isPermResult col (affected col gv) (toInsert col gv) out
          · intro a
            rw [hc.2]
            apply count_assign_perm col gv _ hlen
            rw [← hc.1]
            exact (List.mergeSort_perm _ _).symm
          · simp [hc] at h
      · intro h
        by_cases ho : out = col
        · subst ho
          exact ⟨rfl, force_fallback_violates out gv hne⟩
        · simp only [ho, if_false] at h
          by_cases hc : isPermResult col (affected col gv) (toInsert col gv) out <;> simp [hc] at h

/-! ## permute_blocks -/

/-- Reordering only permutes the alleles among the haplotypes of one position: whatever the breakpoints and
whatever permutations of `range(ploidy)` are chosen per block, every column of the result is a rearrangement
of the same column of the input (so its allele multiset is unchanged), and no column appears or disappears. -/
theorem reorder_preserves_multiset {α} [Inhabited α] (cols : List (List α)) (bps : List Nat)
    (perms : List (List Nat)) (ploidy : Nat)
    (hcols : ∀ c ∈ cols, c.length = ploidy) (hperms : ∀ p ∈ perms, p.Perm (List.range ploidy)) :
    (permuteBlocks cols bps perms).length = cols.length ∧
    ∀ q, ((permuteBlocks cols bps perms).getD q []).Perm (cols.getD q []) := by
  unfold permuteBlocks
  apply ColsInv.permuteLoop ploidy hcols
  · intro b hb
    unfold blockList at hb
    exact hperms _ (List.of_mem_zip hb).2
  · exact ⟨rfl, fun q => List.Perm.refl _⟩

example : permuteBlocks [[0, 1, 1], [1, 0, 2], [0, 0, 1]] [2] [[0, 1, 2], [2, 0, 1]]
    = ([[0, 1, 1], [1, 0, 2], [1, 0, 0]] : List (List Int)) := by decide

/-! ## compute_cut_positions (for every float arithmetic `A`) -/

/-- with breakpoints sorted by position (duplicates allowed) the cut positions are strictly increasing -/
theorem cuts_strictly_increasing {C L} (A : ConfArith C L) (bps : List (Breakpoint C)) (ploidy B : Nat)
    (hs : bps.Pairwise (fun a b => a.position ≤ b.position)) :
    (computeCutPositions A bps ploidy B).1.Pairwise (fun a b => a < b) := by
  unfold computeCutPositions
  simp only [List.pairwise_reverse]
  exact cutLoop_sorted A ploidy B _ bps hs (by simp [CutState.init]) (by simp [CutState.init])

/-- every cut is the position of one of the breakpoints -/
theorem cuts_are_breakpoint_positions {C L} (A : ConfArith C L) (bps : List (Breakpoint C)) (ploidy B : Nat) :
    ∀ c ∈ (computeCutPositions A bps ploidy B).1, ∃ b ∈ bps, b.position = c := by
  intro c hc
  unfold computeCutPositions at hc
  simp only [List.mem_reverse] at hc
  rcases cutLoop_mem A ploidy B _ bps c hc with h | h
  · simp [CutState.init] at h
  · exact h

/-- the first breakpoint, if it has confidence 0.0, always cuts (whatever the sensitivity) and stays the first cut -/
theorem first_zero_confidence_breakpoint_cuts {C L} (A : ConfArith C L) (b0 : Breakpoint C)
    (rest : List (Breakpoint C)) (ploidy B : Nat) (hz : A.isZero b0.confidence = true) :
    (computeCutPositions A (b0 :: rest) ploidy B).1.head? = some b0.position := by
  unfold computeCutPositions
  simp only
  unfold cutLoop
  simp only [CutState.init, List.head?_nil, List.isEmpty_nil, Bool.not_true, Bool.false_and, hz, if_true]
  have hne : ¬ ((none : Option Nat) == some b0.position) = true := by simp
  simp only [hne, if_false, Bool.false_eq_true]
  obtain ⟨pre, h⟩ := cutLoop_suffix A ploidy B
    ⟨[b0.position], addHapCuts (List.replicate ploidy []) (List.range ploidy) b0.position,
      List.replicate ploidy A.zero⟩ rest
  rw [h]
  simp

/-! ## components of `phase_single_individual` -/

/-- Phase sets are disjoint intervals, named by their first position.

`bps` are the breakpoints handed to `compute_cut_positions`: sorted by position, the first one at index 0 with
confidence 0.0 (as `aggregate_results` always produces), all inside the `acc.length` accessible positions `acc`
(strictly increasing genomic positions).  Then the cut list is strictly increasing and starts with 0, and the
component dictionary maps every accessible position `acc[p]` to `acc[c]` where `c` is the greatest cut `≤ p`:
the set named `acc[c]` is exactly the index interval from `c` up to the next cut. -/
theorem components_are_intervals {C L} (A : ConfArith C L) (b0 : Breakpoint C) (rest : List (Breakpoint C))
    (ploidy B : Nat) (acc : List Nat)
    (h0 : b0.position = 0) (hz : A.isZero b0.confidence = true)
    (hsorted : (b0 :: rest).Pairwise (fun a b => a.position ≤ b.position))
    (hrange : ∀ b ∈ b0 :: rest, b.position < acc.length)
    (hacc : acc.Pairwise (fun a b => a < b)) :
    let cuts := (computeCutPositions A (b0 :: rest) ploidy B).1
    let comp := fun p => dictGet (componentWrites acc acc.length cuts) (acc.getD p 0)
    cuts.Pairwise (fun a b => a < b) ∧ cuts.head? = some 0 ∧
    ∀ p, p < acc.length →
      ∃ c ∈ cuts, c ≤ p ∧ (∀ c' ∈ cuts, c' ≤ p → c' ≤ c) ∧ comp p = some (acc.getD c 0) := by
  intro cuts comp
  have hpw := cuts_strictly_increasing A (b0 :: rest) ploidy B hsorted
  have hhead : cuts.head? = some 0 := h0 ▸ first_zero_confidence_breakpoint_cuts A b0 rest ploidy B hz
  refine ⟨hpw, hhead, ?_⟩
  have hm : ∀ i j, i < j → j < acc.length → acc.getD i 0 < acc.getD j 0 := by
    intro i j hij hj
    have := List.pairwise_iff_getElem.mp hacc i j (by omega) hj hij
    simpa [List.getD_eq_getElem?_getD, hj, (by omega : i < acc.length)] using this
  have hcr : ∀ c ∈ cuts, c < acc.length := by
    intro c hc
    obtain ⟨b, hb, e⟩ := cuts_are_breakpoint_positions A (b0 :: rest) ploidy B c hc
    exact e ▸ hrange b hb
  cases hcs : cuts with
  | nil => rw [hcs] at hhead; simp at hhead
  | cons s tl =>
    rw [hcs] at hhead
    have hs : s = 0 := by simpa using hhead
    intro p hp
    have := (componentWrites_lookup acc acc.length hm tl s (hcs ▸ hpw) (hcs ▸ hcr)).1 p (by omega) hp
    simpa [comp, hcs] using this

/-- contiguity, stated directly: if two accessible positions carry the same phase-set name, so does every
accessible position between them; and the position that gives the set its name is the first one of the set. -/
theorem components_contiguous_and_named_by_first {C L} (A : ConfArith C L) (b0 : Breakpoint C)
    (rest : List (Breakpoint C)) (ploidy B : Nat) (acc : List Nat)
    (h0 : b0.position = 0) (hz : A.isZero b0.confidence = true)
    (hsorted : (b0 :: rest).Pairwise (fun a b => a.position ≤ b.position))
    (hrange : ∀ b ∈ b0 :: rest, b.position < acc.length)
    (hacc : acc.Pairwise (fun a b => a < b)) :
    let cuts := (computeCutPositions A (b0 :: rest) ploidy B).1
    let comp := fun p => dictGet (componentWrites acc acc.length cuts) (acc.getD p 0)
    (∀ p q r, p ≤ q → q ≤ r → r < acc.length → comp p = comp r → comp q = comp p) ∧
    (∀ p, p < acc.length → ∃ c, c ≤ p ∧ comp p = some (acc.getD c 0) ∧ comp c = some (acc.getD c 0) ∧
        ∀ q, q < c → comp q ≠ comp p) := by
  intro cuts comp
  obtain ⟨hpw, _, hmain⟩ := components_are_intervals A b0 rest ploidy B acc h0 hz hsorted hrange hacc
  have hcr : ∀ c ∈ cuts, c < acc.length := by
    intro c hc
    obtain ⟨b, hb, e⟩ := cuts_are_breakpoint_positions A (b0 :: rest) ploidy B c hc
    exact e ▸ hrange b hb
  have hinj : ∀ i j, i < acc.length → j < acc.length → acc.getD i 0 = acc.getD j 0 → i = j := by
    intro i j hi hj he
    have hm : ∀ i j, i < j → j < acc.length → acc.getD i 0 < acc.getD j 0 := by
      intro i j hij hj
      have := List.pairwise_iff_getElem.mp hacc i j (by omega) hj hij
      simpa [List.getD_eq_getElem?_getD, hj, (by omega : i < acc.length)] using this
    rcases Nat.lt_trichotomy i j with h | h | h
    · have := hm i j h hj; omega
    · exact h
    · have := hm j i h hi; omega
  constructor
  · intro p q r hpq hqr hr hpr
    obtain ⟨cp, hcp, hcpp, hmaxp, hgp⟩ := hmain p (by omega)
    obtain ⟨cq, hcq, hcqq, hmaxq, hgq⟩ := hmain q (by omega)
    obtain ⟨cr, hcr', hcrr, hmaxr, hgr⟩ := hmain r hr
    have hgp : comp p = some (acc.getD cp 0) := hgp
    have hgq : comp q = some (acc.getD cq 0) := hgq
    have hgr : comp r = some (acc.getD cr 0) := hgr
    have hpr' : comp p = comp r := hpr
    have e1 : acc.getD cp 0 = acc.getD cr 0 := by
      have : some (acc.getD cp 0) = some (acc.getD cr 0) := by rw [← hgp, ← hgr]; exact hpr'
      exact Option.some.inj this
    have e2 : cp = cr := hinj cp cr (hcr cp hcp) (hcr cr hcr') e1
    have h1 : cp ≤ cq := hmaxq cp hcp (by omega)
    have h2 : cq ≤ cr := hmaxr cq hcq (by omega)
    have e3 : cq = cp := by omega
    show comp q = comp p
    rw [hgq, hgp, e3]
  · intro p hp
    obtain ⟨c, hc, hcp, hmax, hg⟩ := hmain p hp
    obtain ⟨c2, hc2, hc2c, hmax2, hg2⟩ := hmain c (hcr c hc)
    have hg : comp p = some (acc.getD c 0) := hg
    have hg2 : comp c = some (acc.getD c2 0) := hg2
    have e : c2 = c := by
      have := hmax2 c hc (Nat.le_refl _)
      omega
    refine ⟨c, hcp, hg, e ▸ hg2, ?_⟩
    intro q hq hqp
    obtain ⟨cq, hcq, hcqq, _, hgq⟩ := hmain q (by omega)
    have hgq : comp q = some (acc.getD cq 0) := hgq
    have hqp' : comp q = comp p := hqp
    have e1 : acc.getD cq 0 = acc.getD c 0 := by
      have : some (acc.getD cq 0) = some (acc.getD c 0) := by rw [← hgq, ← hg]; exact hqp'
      exact Option.some.inj this
    have := hinj cq c (hcr cq hcq) (hcr c hc) e1
    omega

/-- non-vacuity: a concrete arithmetic (confidence in percent, "log" = identity, never below threshold)
and breakpoints satisfying all hypotheses; cuts come out as [0, 2] and the dictionary names {10,11}→10, {20,30}→20 -/
def exArith : ConfArith Nat Nat := ⟨fun c => c == 0, id, 0, (· + ·), fun _ _ => false, fun _ => 0⟩
example :
    let bps : List (Breakpoint Nat) := [⟨0, [0, 1], 0⟩, ⟨1, [0, 1], 90⟩, ⟨2, [0, 1], 0⟩]
    (computeCutPositions exArith bps 2 4).1 = [0, 2] ∧
    ([0, 1, 2, 3].map fun p => dictGet (componentWrites [10, 11, 20, 30] 4 [0, 2]) ([10, 11, 20, 30].getD p 0))
      = [some 10, some 10, some 20, some 20] := by decide

/-! ## the glue of `run_polyphase` / `phase_single_individual` around the solver (`Model/C15Glue.lean`) -/

/-- The variant table `VcfReader` builds from the records of a chromosome has strictly increasing positions (so a
position identifies a row), consists of input records the reader does not skip, and every non-missing genotype in
it has `ploidy` alleles. -/
theorem table_positions_strictly_increasing (c : Cfg) (recs table : List VRec) (h : readTable c recs = .ok table) :
    (table.map (·.pos)).Pairwise (· < ·) ∧
    ∀ r ∈ table, r ∈ recs ∧ readerSkips c r = false ∧ (r.gt = [] ∨ r.gt.length = c.ploidy) := by
  obtain ⟨h1, h2⟩ := readLoop_spec c recs none table h
  exact ⟨h1, fun r hr => (h2 r hr).2⟩

def exCfg : Cfg := ⟨2, true, false, 16, 15, 2⟩
/-- records at 10, 20, 20 (duplicate), 30 (no ALT), 40 (homozygous), 50 -/
def exRecs : List VRec :=
  [⟨10, 1, true, true, [0, 1], false⟩, ⟨20, 2, true, true, [2, 1], false⟩, ⟨20, 1, true, true, [0, 1], false⟩,
   ⟨30, 0, true, true, [0, 1], false⟩, ⟨40, 1, true, true, [1, 1], false⟩, ⟨50, 1, true, true, [1, 0], false⟩]
example : (readTable exCfg exRecs).toOption.map (·.map (·.pos)) = some [10, 20, 40, 50] := by decide

/-- **Alignment invariant.**  Whatever the records and whatever the reads (as long as the BAM reader reports
alleles only at positions of the variants it was asked for): if the glue reaches the solver call, the genotype list
has exactly one entry per allele-matrix column, the columns are strictly increasing, and entry `i` is the count
dictionary of the input genotype of *the* table row at column `i`'s position — a heterozygous, non-skipped input
record with `ploidy` alleles.  This covers variants covered only by discarded reads (they are in no column and in no
entry), and the two early exits (fewer than two heterozygous variants, no read left) never reach the solver. -/
theorem genotype_list_aligned (c : Cfg) (recs table : List VRec) (hread : readTable c recs = .ok table)
    (reads : List PRead) (hreads : ∀ r ∈ reads, ∀ v ∈ r, v.1 ∈ (phasable table).map (·.pos))
    (cols : List Nat) (rows : List VRec) (gl : List (List (Allele × Nat))) (kept : List PRead)
    (hglue : glue c table reads = .solve cols rows gl kept) :
    gl.length = cols.length ∧ cols.Pairwise (· < ·) ∧ cols = readPositions kept ∧ rows.map (·.pos) = cols ∧
    gl = genotypeList rows ∧
    ∀ i (hi : i < cols.length), ∃ r ∈ recs, r ∈ table ∧ r.pos = cols[i] ∧ isHet r.gt = true ∧
      r.gt.length = c.ploidy ∧ readerSkips c r = false ∧ (∀ r' ∈ table, r'.pos = cols[i] → r' = r) ∧
      rows[i]? = some r ∧ ∀ a, dictCount (gl.getD i []) a = r.gt.count a := by
  obtain ⟨hts, htm⟩ := table_positions_strictly_increasing c recs table hread
  unfold glue at hglue
  simp only at hglue
  split at hglue
  · cases hglue
  · split at hglue
    · cases hglue
    · cases hglue
      have hhet : ((hetRows table).map (·.pos)).Pairwise (· < ·) := filter_pos_sorted _ table hts
      have hps : (readPositions (keepReads c.minOverlap reads)).Pairwise (· < ·) := posSet_sorted _
      have hsub : ∀ p ∈ readPositions (keepReads c.minOverlap reads), p ∈ (hetRows table).map (·.pos) := by
        intro p hp
        simp only [readPositions, mem_posSet, List.mem_flatMap] at hp
        obtain ⟨r, hr, hp⟩ := hp
        obtain ⟨v, hv, rfl⟩ := List.mem_map.mp hp
        exact hreads r (List.mem_filter.mp hr).1 v hv
      have hpos := subsetRows_positions _ _ hhet hps hsub
      refine ⟨?_, hps, rfl, hpos, rfl, ?_⟩
      · have := congrArg List.length hpos
        simpa [genotypeList] using this
      · intro i hi
        have hlen : (subsetRows (readPositions (keepReads c.minOverlap reads)) (hetRows table)).length
            = (readPositions (keepReads c.minOverlap reads)).length := by
          have := congrArg List.length hpos
          simpa using this
        have hi' : i < (subsetRows (readPositions (keepReads c.minOverlap reads)) (hetRows table)).length := by
          rw [hlen]; exact hi
        let r := (subsetRows (readPositions (keepReads c.minOverlap reads)) (hetRows table))[i]
        have hr1 : r ∈ hetRows table := (List.mem_filter.mp (List.getElem_mem hi')).1
        have hr2 : r ∈ table := (List.mem_filter.mp hr1).1
        have hr3 : isHet r.gt = true := (List.mem_filter.mp hr1).2
        have hrp : r.pos = (readPositions (keepReads c.minOverlap reads))[i] := by
          have := congrArg (fun l => l[i]?) hpos
          simp only [List.getElem?_map, hi', List.getElem?_eq_getElem, hi, Option.map_some] at this
          exact Option.some.inj this
        have hne : r.gt ≠ [] := by intro h; rw [h] at hr3; simp [isHet] at hr3
        refine ⟨r, (htm r hr2).1, hr2, hrp, hr3, ?_, (htm r hr2).2.1, ?_, ?_, ?_⟩
        · rcases (htm r hr2).2.2 with h | h
          · exact absurd h hne
          · exact h
        · intro r' hr' hp'
          exact row_unique table hts r' r hr' hr2 (hp'.trans hrp.symm)
        · simp [r, hi']
        · intro a
          have : (genotypeList (subsetRows (readPositions (keepReads c.minOverlap reads)) (hetRows table))).getD i []
              = genotypeDict r.gt := by
            simp [genotypeList, List.getD_eq_getElem?_getD, hi', r]
          rw [this, dictCount_genotypeDict]

/-- reads: one covering 10 and 20, one covering only 50 (discarded: fewer than two variants), one covering 20 and 50 -/
def exReads : List PRead := [[(10, 0), (20, 1)], [(50, 1)], [(20, 0), (50, 0)]]
example : (match glue exCfg [exRecs[0]!, exRecs[1]!, exRecs[4]!, exRecs[5]!] exReads with
    | .solve cols _ gl _ => (cols, gl) | _ => ([], [])) = ([10, 20, 50], [[(1, 1), (0, 1)], [(2, 1), (1, 1)], [(1, 1), (0, 1)]]) := by
  decide

/-- `ReadSet.sort()` (any reordering of the reads) does not change the columns, the table subset or the genotype
list: only the reads themselves come in another order. -/
theorem glue_independent_of_read_order (c : Cfg) (table : List VRec) (r1 r2 : List PRead) (h : r1.Perm r2)
    (cols : List Nat) (rows : List VRec) (gl : List (List (Allele × Nat))) (k1 : List PRead)
    (hglue : glue c table r1 = .solve cols rows gl k1) :
    ∃ k2, glue c table r2 = .solve cols rows gl k2 ∧ k1.Perm k2 := by
  have hk : (keepReads c.minOverlap r1).Perm (keepReads c.minOverlap r2) := h.filter _
  have hp := readPositions_perm _ _ hk
  unfold glue at hglue ⊢
  simp only at hglue ⊢
  split at hglue
  · cases hglue
  · rename_i hlen
    simp only [hlen, if_false]
    split at hglue
    · cases hglue
    · rename_i hne
      have hne2 : (keepReads c.minOverlap r2).isEmpty = false := by
        cases h2 : keepReads c.minOverlap r2 with
        | nil => rw [h2] at hk; simp [hk.eq_nil] at hne
        | cons x xs => rfl
      cases hglue
      simp only [hne2, Bool.false_eq_true, if_false]
      exact ⟨_, by rw [hp], hk⟩

example : readPositions exReads = readPositions exReads.reverse := readPositions_perm _ _ (List.reverse_perm _).symm

/-! ## what the solver does with the genotype list (`Model/C15Solve.lean`) -/

/-- The block starts of `compute_block_starts` (whatever the merged-cluster labels are): first start 0, strictly
increasing, inside the variants — so the blocks `zip(block_starts[:-1], block_starts[1:])` partition the columns. -/
theorem block_starts_wellformed (labels : List Nat) (hne : labels ≠ []) :
    (blockStartsOfLabels labels).head? = some 0 ∧ (blockStartsOfLabels labels).Pairwise (· < ·) ∧
    ∀ x ∈ blockStartsOfLabels labels, x < labels.length :=
  blockStartsOfLabels_spec labels hne

example : blockStartsOfLabels [0, 0, 1, 1, 1, 0, 2] = [0, 2, 5, 6] := by decide

/-- `solve_polyphase_instance` indexes the genotype list by allele-matrix column: the slices
`genotype_list[start:end]` handed to the blocks, concatenated in block order (as `aggregate_results` concatenates the
haplotypes), are the genotype list itself — for every well-formed list of block starts. -/
theorem block_genotype_slices_cover {α} (gl : List α) (starts : List Nat) (h0 : starts.head? = some 0)
    (hs : starts.Pairwise (· < ·)) (hr : ∀ s ∈ starts, s < gl.length) :
    ((blocks starts gl.length).map (slice gl)).flatten = gl :=
  blocks_cover gl starts h0 hs hr

example : (blocks [0, 2, 5] 6).map (slice [10, 11, 12, 13, 14, 15]) = [[10, 11], [12, 13, 14], [15]] := by decide

/-- Every column `solve_polyphase_instance` can return for a genotype (one-variant block; or arbitrary threading,
`force_genotypes`, sub-instance write-backs of recursively solved sub-genotypes, `permute_blocks`) that has no
undetermined allele lists exactly the alleles of that genotype with their multiplicities. -/
theorem solved_column_obeys_genotype (n : Nat) (gv out : List Allele) (h : SolvedN n gv out)
    (hdet : (-1 : Allele) ∉ out) : out.Perm gv := by
  rcases solvedN_good n gv out h with h | h
  · exact absurd h hdet
  · exact h

/-- non-vacuity: genotype 0/1/1/2, threaded as 0,0,0,2, forced to 0,1,1,2 (slots 0..2), the sub-instance on the
threads {1,2} returns its two alleles swapped (nothing to swap here: both 1), haplotypes permuted by [3,0,1,2] -/
example : SolvedN 1 [0, 1, 1, 2] [2, 0, 1, 1] := by
  refine Or.inr ⟨[0, 0, 0, 2], [0, 1, 1, 2], [0, 1, 1, 2], [3, 0, 1, 2], rfl, ?_, ?_, by decide, by decide⟩
  · show ForceOut [0, 0, 0, 2] [0, 1, 1, 2] [0, 1, 1, 2]
    have hfs : forceStep [0, 0, 0, 2] [0, 1, 1, 2] = .choose [0, 1, 2] [0, 1, 1] := by
      unfold forceStep; simp only [show ([0, 0, 0, 2] : List Allele).contains (-1) = false by decide]
      have ha : affected [0, 0, 0, 2] [0, 1, 1, 2] = [0, 1, 2] := by decide
      have hi : toInsert [0, 0, 0, 2] [0, 1, 1, 2] = [0, 1, 1] := by
        unfold toInsert; simp [alleles, dedup, insertFor, List.mergeSort]
      simp [ha, hi]
    unfold ForceOut; rw [hfs]
    exact ⟨[0, 1, 1], List.Perm.refl _, by decide⟩
  · exact .step [] [1, 2] [0, 1, 1, 2] [1, 1] [0, 1, 1, 2] (by decide) (by decide) (by simp) rfl
      (by show SolvedN 0 (extractPerm [1, 2] [0, 1, 1, 2]) [1, 1]
          simp only [SolvedN]; decide)
      (by have : assign [0, 1, 1, 2] [1, 2] [1, 1] = [0, 1, 1, 2] := by decide
          rw [this]; exact .done _ _)

/-- **End to end.**  One chromosome, one sample of `whatshap polyphase` (genotypes trusted, writer as repaired by
F50): let `recs` be the records, `reads` what the BAM reader returned for the heterozygous variants, and `haps` any
columns the solver can return for the genotype list it was given (`haps[i]` solved for `genotype_list[i]`,
everything heuristic quantified away), `comps` any component dictionary.  Then the writer returns one call per
record, **every** call lists exactly the alleles of the input genotype with their multiplicities, and a call comes
out phased only if the record is a heterozygous, non-skipped row of the variant table at a read-covered position. -/
theorem polyphase_output_obeys_input_genotypes (c : Cfg) (recs table : List VRec)
    (hread : readTable c recs = .ok table)
    (reads : List PRead) (hreads : ∀ r ∈ reads, ∀ v ∈ r, v.1 ∈ (phasable table).map (·.pos))
    (cols : List Nat) (rows : List VRec) (gl : List (List (Allele × Nat))) (kept : List PRead)
    (hglue : glue c table reads = .solve cols rows gl kept)
    (n : Nat) (haps : List (List Allele))
    (hsolved : ∀ i (h1 : i < gl.length) (h2 : i < haps.length), SolvedN n (dictExpand gl[i]) haps[i])
    (comps : Nat → Option Nat) :
    let out := writeLoop true c (phasesOf c.mav cols haps) comps none recs
    out.length = recs.length ∧
    ∀ j (h1 : j < recs.length) (h2 : j < out.length),
      (∀ a, out[j].gt.count a = recs[j].gt.count a) ∧
      (out[j].phased = true → isHet recs[j].gt = true ∧ readerSkips c recs[j] = false ∧ recs[j] ∈ table ∧
        recs[j].pos ∈ cols ∧ (-1 : Allele) ∉ out[j].gt) := by
  intro out
  obtain ⟨hgl, _, _, hpos, hgle, hal⟩ := genotype_list_aligned c recs table hread reads hreads cols rows gl kept hglue
  have hgood : ∀ r ∈ table, ∀ p, lookupPhase (phasesOf c.mav cols haps) r.pos = some p →
      isHet r.gt = true ∧ p.Perm r.gt := by
    intro r hr p hl
    obtain ⟨i, h1, h2, hci, hpi, hdet⟩ := lookup_phasesOf c.mav cols haps r.pos p hl
    obtain ⟨r0, _, _, hr0p, hhet, _, _, huniq, hrow, hcnt⟩ := hal i h1
    have he : r = r0 := huniq r hr (hci.symm ▸ rfl)
    subst he
    refine ⟨hhet, ?_⟩
    have hi : i < gl.length := hgl ▸ h1
    have hs := hsolved i hi h2
    rw [hpi] at hs
    have hp := solved_column_obeys_genotype n _ p hs hdet
    have hgi : gl[i] = genotypeDict r.gt := by
      subst hgle
      have hri : i < rows.length := by simpa [genotypeList] using hi
      have : rows[i] = r := by
        have := hrow; rw [List.getElem?_eq_getElem hri] at this; exact Option.some.inj this
      simp [genotypeList, this]
    rw [hgi] at hp
    exact hp.trans (List.perm_iff_count.mpr (count_dictExpand_genotypeDict r.gt))
  have hall := writeLoop_ok c (phasesOf c.mav cols haps) comps table recs none none table hread
    (fun _ h => h) (by simp) hgood
  have hlen : out.length = recs.length := hall.length_eq.symm
  refine ⟨hlen, ?_⟩
  intro j h1 h2
  obtain ⟨hc, hp⟩ := hall.get j h1 h2
  refine ⟨hc, fun hph => ?_⟩
  obtain ⟨a, b, d, e⟩ := hp hph
  obtain ⟨i, hi1, _, hci, hpi, hdet⟩ := lookup_phasesOf c.mav cols haps _ _ e
  exact ⟨a, b, d, hci ▸ List.getElem_mem hi1, hdet⟩

/-- non-vacuity of the end-to-end statement on the example records: the solver returns 1|0, 1|2, 0|1 for the three
columns; the output phases the first record at 20 (the multi-allelic one the reader accepted), not its duplicate -/
example :
    (writeLoop true exCfg (phasesOf true [10, 20, 50] [[1, 0], [1, 2], [0, 1]]) (fun _ => some 10) none exRecs).map
      (fun o => (o.gt, o.phased)) =
    [([1, 0], true), ([1, 2], true), ([0, 1], false), ([0, 1], false), ([1, 1], false), ([0, 1], true)] := by
  decide

/-- F50 (the writer as coded before the repair): with `--only-snvs`, the record `A→C,AT` at 68 is skipped by the
reader (not all alternative alleles are SNVs) but not by the writer (its first one is); the phase found for
position 68 belongs to the *second* record at 68, and the writer gives it to the first one: genotype `1/2` comes out
as `1|0`.  With the repaired writer the first record stays as it is and the second one is phased. -/
example :
    let cfg : Cfg := ⟨2, true, true, 16, 15, 2⟩
    let recs : List VRec := [⟨27, 1, true, true, [0, 1], false⟩, ⟨68, 2, false, true, [1, 2], false⟩,
                             ⟨68, 1, true, true, [0, 1], false⟩]
    let ph := phasesOf true [27, 68] [[0, 1], [1, 0]]
    (readTable cfg recs).toOption.map (·.map (·.gt)) = some [[0, 1], [0, 1]] ∧
    (writeLoop false cfg ph (fun _ => some 27) none recs).map (fun o => (o.gt, o.phased))
      = [([0, 1], true), ([1, 0], true), ([0, 1], false)] ∧
    (writeLoop true cfg ph (fun _ => some 27) none recs).map (fun o => (o.gt, o.phased))
      = [([0, 1], true), ([1, 2], false), ([1, 0], true)] := by
  decide

/-! ## where the breakpoints come from, and phase sets end to end -/

/-- The breakpoints a block result carries (`integrate_sub_results`: `find_breakpoints` of the thread matrix plus the
mapped breakpoints of the sub-instances, sorted by position, duplicates joined; `run_reordering` afterwards only
rewrites confidences): strictly increasing positions, all inside the block — provided each sub-instance's
breakpoints lie inside that sub-instance (the same statement one level down) and its positions inside the block
(asserted by the code). -/
theorem block_breakpoints_wellformed {C} (zero : C) (mul : C → C → C) (threads : List (List Nat))
    (subs : List (List Nat × List Nat × List (Breakpoint C)))
    (hsnps : ∀ s ∈ subs, ∀ p ∈ s.1, p < threads.length)
    (hsub : ∀ s ∈ subs, ∀ b ∈ s.2.2, b.position < s.1.length) :
    (integrateBreakpoints zero mul threads subs).Pairwise (fun a b => a.position < b.position) ∧
    ∀ b ∈ integrateBreakpoints zero mul threads subs, b.position < threads.length :=
  integrateBreakpoints_spec zero mul threads subs hsnps hsub

example : (integrateBreakpoints (0 : Nat) (· * ·) [[0, 0, 1], [0, 2, 1], [0, 2, 1], [3, 3, 1]]
    [([1, 3], [0, 1], [⟨0, [0, 1], 5⟩, ⟨1, [0, 1], 7⟩])]).map (fun b => (b.position, b.haplotypes, b.confidence))
    = [(1, [0, 1], 0), (3, [0, 1], 0)] := by decide

/-- `aggregate_results`: if every block result has at least one column and breakpoints sorted by position inside the
block, the aggregated list starts with `(0, all haplotypes, 0.0)`, is sorted by position, and every position lies
inside the `totalCols` columns of the aggregate — exactly the hypotheses of `components_are_intervals`. -/
theorem aggregate_breakpoints_wellformed {C} (zero : C) (ploidy : Nat) (borders : List Nat)
    (r : BlockBps C) (rs : List (BlockBps C))
    (h : ∀ x ∈ r :: rs, 0 < x.ncols ∧ x.bps.Pairwise (fun a b => a.position ≤ b.position) ∧
      ∀ b ∈ x.bps, b.position < x.ncols) :
    (∃ rest, aggregateBps zero ploidy borders 0 (r :: rs) = ⟨0, List.range ploidy, zero⟩ :: rest) ∧
    (aggregateBps zero ploidy borders 0 (r :: rs)).Pairwise (fun a b => a.position ≤ b.position) ∧
    ∀ b ∈ aggregateBps zero ploidy borders 0 (r :: rs), b.position < totalCols (r :: rs) := by
  obtain ⟨h1, h2⟩ := aggregateBps_spec zero ploidy borders (r :: rs) 0 h
  exact ⟨aggregateBps_head zero ploidy borders r rs, h1, fun b hb => by have := (h2 b hb).2; omega⟩

example : (aggregateBps (0 : Nat) 2 [] 0 [⟨2, [⟨1, [0, 1], 50⟩]⟩, ⟨1, []⟩, ⟨3, [⟨0, [0, 1], 30⟩, ⟨2, [0, 1], 90⟩]⟩]).map
    (fun b => (b.position, b.confidence)) = [(0, 0), (1, 50), (2, 0), (3, 0), (3, 30), (5, 90)] := by decide

/-- **Phase sets end to end from the block results.**  For any block results as above, any sensitivity and float
arithmetic (with `0.0 == 0.0`), and the strictly increasing accessible positions `acc` (one per column): the cut
list computed from the aggregated breakpoints is strictly increasing and starts with 0, every accessible position
is mapped to the accessible position at the greatest cut below it, names are contiguous, and each set is named by
its first position. -/
theorem phase_sets_are_intervals_from_blocks {C L} (A : ConfArith C L) (zero : C) (hzero : A.isZero zero = true)
    (ploidy B : Nat) (borders : List Nat) (r : BlockBps C) (rs : List (BlockBps C))
    (h : ∀ x ∈ r :: rs, 0 < x.ncols ∧ x.bps.Pairwise (fun a b => a.position ≤ b.position) ∧
      ∀ b ∈ x.bps, b.position < x.ncols)
    (acc : List Nat) (hlen : acc.length = totalCols (r :: rs)) (hacc : acc.Pairwise (fun a b => a < b)) :
    let cuts := (computeCutPositions A (aggregateBps zero ploidy borders 0 (r :: rs)) ploidy B).1
    let comp := fun p => dictGet (componentWrites acc acc.length cuts) (acc.getD p 0)
    cuts.Pairwise (fun a b => a < b) ∧ cuts.head? = some 0 ∧
    (∀ p, p < acc.length →
      ∃ c ∈ cuts, c ≤ p ∧ (∀ c' ∈ cuts, c' ≤ p → c' ≤ c) ∧ comp p = some (acc.getD c 0)) ∧
    (∀ p q s, p ≤ q → q ≤ s → s < acc.length → comp p = comp s → comp q = comp p) ∧
    (∀ p, p < acc.length → ∃ c, c ≤ p ∧ comp p = some (acc.getD c 0) ∧ comp c = some (acc.getD c 0) ∧
        ∀ q, q < c → comp q ≠ comp p) := by
  obtain ⟨⟨rest, he⟩, hs, hr⟩ := aggregate_breakpoints_wellformed zero ploidy borders r rs h
  rw [he] at hs hr ⊢
  have hr' : ∀ b ∈ (⟨0, List.range ploidy, zero⟩ : Breakpoint C) :: rest, b.position < acc.length :=
    fun b hb => hlen ▸ hr b hb
  obtain ⟨a1, a2, a3⟩ := components_are_intervals A ⟨0, List.range ploidy, zero⟩ rest ploidy B acc rfl hzero hs hr' hacc
  obtain ⟨b1, b2⟩ := components_contiguous_and_named_by_first A ⟨0, List.range ploidy, zero⟩ rest ploidy B acc rfl
    hzero hs hr' hacc
  exact ⟨a1, a2, a3, b1, b2⟩

example :
    let rs : List (BlockBps Nat) := [⟨2, [⟨1, [0, 1], 90⟩]⟩, ⟨2, []⟩]
    (computeCutPositions exArith (aggregateBps 0 2 [] 0 rs) 2 4).1 = [0, 2] ∧ totalCols rs = 4 := by decide

/-! ## get_optimal_assignments (without pre-phasing affiliations) -/

/-- Whatever relinking is chosen at each breakpoint (a duplicate-free list of haplotype indices `< ploidy`: the
keys of `lllh[b]` are the permutations of the breakpoint's haplotypes), every block's assignment is a permutation of
`range(ploidy)` — the hypothesis `hperms` of `reorder_preserves_multiset`. -/
theorem optimal_assignments_are_permutations (ploidy : Nat) (choices : List (List Nat))
    (h : ∀ ch ∈ choices, ch.Nodup ∧ ∀ x ∈ ch, x < ploidy) :
    (optimalAssignments ploidy choices).length = choices.length + 1 ∧
    ∀ a ∈ optimalAssignments ploidy choices, a.Perm (List.range ploidy) := by
  refine ⟨?_, assignmentsFrom_perm ploidy choices _ (List.Perm.refl _) h⟩
  clear h
  unfold optimalAssignments
  generalize List.range ploidy = a
  induction choices generalizing a with
  | nil => simp [assignmentsFrom]
  | cons p ps ih => simp [assignmentsFrom, ih]

example : optimalAssignments 4 [[2, 0], [3, 1, 0]] = [[0, 1, 2, 3], [2, 1, 0, 3], [2, 1, 3, 0]] := by decide

/-! ## round 10: sub-instances (`find_subinstances`, `integrate_sub_results`), haploid sets, stage order -/

/-- `find_subinstances`, for every thread matrix, haplotype columns and read distribution (`hasReads`): each
sub-instance is a cluster with a non-empty, strictly increasing list of positions inside the block and, at every one of
them, exactly the threads that run through the cluster (≥ 1, duplicate-free, inside the ploidy of the row) carrying
≥ 2 different alleles; and two sub-instances never share a cell (position, haplotype) — the write-backs of
`integrate_sub_results` touch pairwise disjoint cells. -/
theorem subinstances_disjoint_and_inside_block (hasReads : SubInst → Bool) (ploidy : Nat)
    (threads : List (List Nat)) (cols : List (List Allele)) :
    (∀ s ∈ findSubinstances hasReads ploidy threads cols,
      s.snps ≠ [] ∧ s.snps.Pairwise (· < ·) ∧ s.ts ≠ [] ∧ s.ts.Nodup ∧
      ∀ p ∈ s.snps, p < threads.length ∧
        (∀ t, t ∈ s.ts ↔ t < (threads.getD p []).length ∧ (threads.getD p []).getD t 0 = s.cid) ∧
        isHetOn s.ts (cols.getD p []) = true) ∧
    (findSubinstances hasReads ploidy threads cols).Pairwise
      (fun a b => ∀ p, p ∈ a.snps → p ∈ b.snps → ∀ t, t ∈ a.ts → t ∉ b.ts) := by
  constructor
  · intro s hs
    have hm : s ∈ findCollapsed threads cols := (List.mem_filter.mp hs).1
    obtain ⟨hne, hok⟩ := findCollapsed_mem threads cols s hm
    obtain ⟨p0, hp0⟩ := List.exists_mem_of_ne_nil _ hne
    have h0 := hok p0 hp0
    refine ⟨hne, findCollapsed_snps_sorted threads cols s hm, h0.2.2.1, ?_, ?_⟩
    · rw [h0.2.1]; exact threadSet_nodup _ _
    · intro p hp
      have h := hok p hp
      refine ⟨h.1, ?_, h.2.2.2⟩
      intro t
      rw [h.2.1]
      exact mem_threadSet
  · exact (findCollapsed_pairwise threads cols).filter _

example : findSubinstances (fun _ => true) 3 [[0, 0, 1], [0, 0, 1], [0, 2, 2], [0, 2, 2]]
      [[0, 1, 1], [1, 0, 0], [1, 0, 1], [0, 1, 0]] = [⟨0, [0, 1], [0, 1]⟩, ⟨2, [1, 2], [2, 3]⟩] := by decide

/-- The haplotype part of `integrate_sub_results`: for sub-instances that write pairwise disjoint cells inside the
matrix (what `find_subinstances` returns: previous theorem) and ANY sub-results that obey the sub-instances'
genotypes (each result column is a rearrangement of the alleles the thread set carried at that position — the
`subgeno` handed to the recursive solve), the write-back keeps every column's allele multiset: every column of the
result is a rearrangement of the same column before.  Hence a column that listed the input genotype still does. -/
theorem integrate_preserves_genotype_multiset (cols : List (List Allele))
    (pairs : List (SubInst × List (List Allele)))
    (hdisj : (pairs.map (·.1)).Pairwise (fun a b => ∀ p, p ∈ a.snps → p ∈ b.snps → ∀ t, t ∈ a.ts → t ∉ b.ts))
    (hok : ∀ sr ∈ pairs, sr.1.snps.Nodup ∧ sr.1.ts.Nodup ∧ sr.2.length = sr.1.snps.length ∧
      (∀ p ∈ sr.1.snps, p < cols.length ∧ ∀ t ∈ sr.1.ts, t < (cols.getD p []).length) ∧
      ∀ pr ∈ sr.1.snps.zip sr.2, pr.2.Perm (extractPerm sr.1.ts (cols.getD pr.1 [])))
    (gts : List (List Allele)) :
    (integrateHaps cols pairs).length = cols.length ∧
    (∀ p, ((integrateHaps cols pairs).getD p []).Perm (cols.getD p [])) ∧
    (∀ p, (cols.getD p []).Perm (gts.getD p []) → ((integrateHaps cols pairs).getD p []).Perm (gts.getD p [])) := by
  have h := integrateHaps_good (fun _ => False) badOk_false cols pairs cols hdisj
    (fun sr hsr => by
      obtain ⟨a, b, c, d, e⟩ := hok sr hsr
      refine ⟨a, b, c, d, fun pr hpr => ⟨?_, Or.inr (e pr hpr)⟩⟩
      have := (e pr hpr).length_eq
      simpa [extractPerm] using this)
    rfl (fun _ => rfl) (fun _ _ _ _ => rfl) (fun _ => Or.inr (List.Perm.refl _))
  have hperm : ∀ p, ((integrateHaps cols pairs).getD p []).Perm (cols.getD p []) := fun p => by
    rcases h.2 p with hf | hp
    · exact hf.elim
    · exact hp
  exact ⟨h.1, hperm, fun p hg => (hperm p).trans hg⟩

/-- non-vacuity: two sub-instances on disjoint cells, results that swap the alleles -/
example : integrateHaps [[0, 1, 1], [1, 0, 0], [1, 0, 1]] [(⟨0, [0, 1], [0, 1]⟩, [[1, 0], [0, 1]]), (⟨2, [1, 2], [2]⟩, [[1, 0]])]
    = [[1, 0, 1], [0, 1, 0], [1, 1, 0]] := by decide

/-- The HS value the (repaired) writer leaves in a call is never empty (F24 cannot return): it is absent, `.`, or
`ploidy ≥ 1` identifiers, each ≥ 1 (position + 1); the writer as coded before 202db3e did leave an empty value. -/
theorem hs_value_wellformed (ploidy : Nat) (inFormat phasedNow : Bool) (hc : Option (List Nat)) :
    hsOfCall true ploidy inFormat phasedNow hc ≠ .empty ∧
    (∀ l, hsOfCall true ploidy inFormat phasedNow hc = .values l → l ≠ [] ∧ l.length = ploidy ∧ ∀ v ∈ l, 1 ≤ v) ∧
    (inFormat = true → hsOfCall true ploidy inFormat phasedNow hc ≠ .absent) := by
  unfold hsOfCall
  cases phasedNow <;> cases hc <;> cases inFormat <;> simp
  all_goals
    rename_i l
    by_cases h1 : l.length = ploidy <;> by_cases h2 : l = [] <;> simp [h1, h2]
    all_goals try (intro l' hl'; subst hl'; simp [h1, h2]; omega)

example : hsOfCall false 2 true false none = .empty ∧ hsOfCall true 2 true false none = .missing ∧
    hsOfCall true 2 true true (some [10, 27]) = .values [11, 28] := by decide

/- FULL statements asked for (round 10), not proved / not true:
   `haploid_sets_are_intervals_per_haplotype`: for `(cuts, hap_cuts) = computeCutPositions A bps ploidy B` (first
   breakpoint at 0 with zero confidence, sorted positions, duplicate-free haplotype lists) every `hap_cuts[j]` starts
   with 0, is strictly increasing and a sub-list of `cuts`.  Missing: the invariant of `cutLoop` on `hapCutsRev`
   (`addHapCuts` prepends the position to the listed haplotypes only); the hypotheses below are checked as an oracle on
   every run (`hapcuts-wellformed`).
   `haploid_sets_refine_phase_sets` ("every HS interval lies inside one PS block") is FALSE for the code: a cut made
   at a breakpoint of non-zero confidence enters `hap_cuts[h]` only for `h in b.haplotypes`, the haploid sets of the
   other haplotypes run across that phase-set border (witness below).  What holds is the converse: every haploid
   border is a phase-set border, so each PS block lies inside one HS interval of every haplotype. -/

/-- Haploid sets, per haplotype: the entry `j` of `haploid_components[key]` is the value the loop over
`hap_cuts[j] + [num_vars]` wrote (the same writes as for the phase sets, with `hap_cuts[j]` for `cuts`), 0 if it wrote
none; and for every haplotype cut list that starts with 0, is strictly increasing and inside the accessible
positions, the value at accessible position `p` is the accessible position at the greatest haploid cut `≤ p`: per
haplotype the haploid sets are disjoint intervals in the order of the accessible positions, named by their first. -/
theorem haploid_sets_are_intervals_per_haplotype_partial (acc : List Nat) (hacc : acc.Pairwise (fun a b => a < b))
    (cuts : List Nat) (hapCuts : List (List Nat)) :
    (∀ key l, haploidDict acc acc.length cuts hapCuts key = some l →
      dictGet (componentWrites acc acc.length cuts) key ≠ none ∧ l.length = hapCuts.length ∧
      l = hapCuts.map (fun hc => (dictGet (componentWrites acc acc.length hc) key).getD 0)) ∧
    ∀ hc ∈ hapCuts, ∀ rest, hc = 0 :: rest → hc.Pairwise (fun a b => a < b) → (∀ c ∈ hc, c < acc.length) →
      ∀ p, p < acc.length → ∃ c ∈ hc, c ≤ p ∧ (∀ c' ∈ hc, c' ≤ p → c' ≤ c) ∧
        dictGet (componentWrites acc acc.length hc) (acc.getD p 0) = some (acc.getD c 0) := by
  constructor
  · intro key l h
    unfold haploidDict at h
    cases hd : dictGet (componentWrites acc acc.length cuts) key with
    | none => rw [hd] at h; simp at h
    | some v =>
      rw [hd] at h
      have : l = hapCuts.map (fun hc => (dictGet (componentWrites acc acc.length hc) key).getD 0) := by
        simpa using h.symm
      exact ⟨by simp, by rw [this]; simp, this⟩
  · intro hc _ rest he hpw hcr p hp
    have hm : ∀ i j, i < j → j < acc.length → acc.getD i 0 < acc.getD j 0 := by
      intro i j hij hj
      have := List.pairwise_iff_getElem.mp hacc i j (by omega) hj hij
      simpa [List.getD_eq_getElem?_getD, hj, (by omega : i < acc.length)] using this
    subst he
    exact (componentWrites_lookup acc acc.length hm rest 0 hpw hcr).1 p (by omega) hp

/-- The part of "haploid sets refine phase sets" that holds: when every haploid cut of haplotype `j` is a phase-set cut
(`hap_cuts[j]` ⊆ `cuts`, both starting at 0 and strictly increasing), two accessible positions in the same phase set
are in the same haploid set of `j` — a PS block lies inside one HS interval; HS identifiers are accessible positions
of cuts (named by the first position of the interval). -/
theorem haploid_sets_refine_phase_sets_partial (acc : List Nat) (hacc : acc.Pairwise (fun a b => a < b))
    (rest restj : List Nat) (hpw : (0 :: rest).Pairwise (fun a b => a < b)) (hpwj : (0 :: restj).Pairwise (fun a b => a < b))
    (hr : ∀ c ∈ 0 :: rest, c < acc.length) (hsub : ∀ c ∈ 0 :: restj, c ∈ 0 :: rest)
    (p q : Nat) (hp : p < acc.length) (hq : q < acc.length)
    (hsame : dictGet (componentWrites acc acc.length (0 :: rest)) (acc.getD p 0) =
             dictGet (componentWrites acc acc.length (0 :: rest)) (acc.getD q 0)) :
    dictGet (componentWrites acc acc.length (0 :: restj)) (acc.getD p 0) =
      dictGet (componentWrites acc acc.length (0 :: restj)) (acc.getD q 0) := by
  have hm : ∀ i j, i < j → j < acc.length → acc.getD i 0 < acc.getD j 0 := by
    intro i j hij hj
    have := List.pairwise_iff_getElem.mp hacc i j (by omega) hj hij
    simpa [List.getD_eq_getElem?_getD, hj, (by omega : i < acc.length)] using this
  have hinj : ∀ i j, i < acc.length → j < acc.length → acc.getD i 0 = acc.getD j 0 → i = j := by
    intro i j hi hj e
    rcases Nat.lt_trichotomy i j with h | h | h
    · have := hm i j h hj; omega
    · exact h
    · have := hm j i h hi; omega
  have hrj : ∀ c ∈ 0 :: restj, c < acc.length := fun c hc => hr c (hsub c hc)
  obtain ⟨c1, hc1, hc1p, hc1m, e1⟩ := (componentWrites_lookup acc acc.length hm rest 0 hpw hr).1 p (by omega) hp
  obtain ⟨c2, hc2, hc2q, hc2m, e2⟩ := (componentWrites_lookup acc acc.length hm rest 0 hpw hr).1 q (by omega) hq
  obtain ⟨d1, hd1, hd1p, hd1m, f1⟩ := (componentWrites_lookup acc acc.length hm restj 0 hpwj hrj).1 p (by omega) hp
  obtain ⟨d2, hd2, hd2q, hd2m, f2⟩ := (componentWrites_lookup acc acc.length hm restj 0 hpwj hrj).1 q (by omega) hq
  rw [e1, e2] at hsame
  have hc : c1 = c2 := hinj c1 c2 (hr c1 hc1) (hr c2 hc2) (Option.some.inj hsame)
  -- the greatest haploid cut below p and below q coincide: each is a phase-set cut ≤ c1 = c2
  have h1 : d1 ≤ c1 := hc1m d1 (hsub d1 hd1) hd1p
  have h2 : d2 ≤ c2 := hc2m d2 (hsub d2 hd2) hd2q
  have h3 : d2 ≤ d1 := hd1m d2 hd2 (by omega)
  have h4 : d1 ≤ d2 := hd2m d1 hd1 (by omega)
  rw [f1, f2, Nat.le_antisymm h4 h3]

/-- witness that the converse fails for the code: ploidy 2, sensitivity 5, second breakpoint `(1, [0], 0.5)` cuts the
phase set but only haplotype 0: the haploid set of haplotype 1 named 10 spans both phase sets -/
example :
    let r := computeCutPositions exArith [⟨0, [0, 1], 0⟩, ⟨1, [0], 5⟩] 2 5
    r = ([0, 1], [[0, 1], [0]]) ∧
    haploidDict [10, 20] 2 r.1 r.2 10 = some [10, 10] ∧ haploidDict [10, 20] 2 r.1 r.2 20 = some [20, 10] ∧
    dictGet (componentWrites [10, 20] 2 r.1) 10 = some 10 ∧ dictGet (componentWrites [10, 20] 2 r.1) 20 = some 20 := by
  decide

/- FULL statement asked for (round 10): for `solveInstance H fuel k gl` (the functional stage order of
   `solve_polyphase_instance` / `phase_single_block` in `Model/C15Deep.lean`, every heuristic a field of `H`), for
   every `H` whose `thread` returns `len(gl)` rows/columns of `k` entries and whose `labels` has one label per column,
   every column `i` of the result has an undetermined allele or is a rearrangement of `gl[i]`.  Proved below: the
   statement per column for one level of the recursion, with the sub-instance write-backs given by the relation
   `SubSteps` (whose side conditions are now theorems: `subinstances_disjoint_and_inside_block`,
   `integrate_preserves_genotype_multiset`).  Missing: the induction over `fuel` through the matrix-level functions
   (`List.zipWith forceCol`, `integrateHaps` column by column = `SubSteps`, the block slices), i.e. that column `p` of
   `phaseBlock` is `permuteCol (sanPerm …) (column p of integrateHaps …)`. -/

/-- **Stage order with arbitrary heuristics, one column.**  Threading (`col0`: any column of `ploidy` alleles) →
`force_genotypes` with ANY likelihood `pick` → write-backs of recursively solved sub-instances → `permute_blocks` with
ANY assignment `perm` (`sanPerm`: an assignment is one-to-one): the result is a column `solve_polyphase_instance` can
return (`SolvedN`), so it has an undetermined allele or lists exactly the genotype — no property of `pick`, `perm`,
`col0` is used. -/
theorem pipeline_obeys_genotypes_for_any_heuristic_partial
    (pick : List Allele → List Allele → List Nat → List Allele → List Allele) (perm : List Nat)
    (col0 gv : List Allele) (hlen : col0.length = gv.length) (n : Nat) (col2 : List Allele)
    (hsub : SubSteps (SolvedN n) (forceCol pick col0 gv) [] (forceCol pick col0 gv) col2) :
    SolvedN (n + 1) gv (permuteCol (sanPerm gv.length perm) col2) ∧
    ((-1 : Allele) ∉ permuteCol (sanPerm gv.length perm) col2 →
      (permuteCol (sanPerm gv.length perm) col2).Perm gv) := by
  have hs : SolvedN (n + 1) gv (permuteCol (sanPerm gv.length perm) col2) := by
    simp only [SolvedN]
    exact Or.inr ⟨col0, forceCol pick col0 gv, col2, sanPerm gv.length perm, hlen, forceCol_forceOut pick col0 gv, hsub,
      sanPerm_perm _ _, rfl⟩
  exact ⟨hs, fun hdet => solved_column_obeys_genotype (n + 1) gv _ hs hdet⟩

/-- non-vacuity: a likelihood that answers nonsense, an assignment that is none -/
example : forceCol (fun _ _ _ _ => [7, 7, 7]) [0, 0, 0, 2] [0, 1, 1, 2] = [0, 1, 1, 2] ∧ sanPerm 3 [0, 0, 1] = [0, 1, 2] ∧
    forceCol (fun _ _ _ ins => ins.reverse) [0, 0, 0, 2] [0, 1, 1, 2] = [1, 1, 0, 2] := by
  refine ⟨?_, by decide, ?_⟩ <;> simp [forceCol, forceStep, affected, idxFrom, abundant, toInsert, alleles, dedup, insertFor,
    List.mergeSort, assign, List.isPerm]

end WhVerif.Props.C15

import WhVerif.Util.Proto
import WhVerif.Model.C06
import WhVerif.Model.C06Affine
import WhVerif.Model.C06Filter
namespace WhVerif.Driver.C06
open Lean WhVerif.Proto WhVerif.C06

def errJson : Err → Json
  | .index => Json.str "IndexError"
  | .assertion => Json.str "AssertionError"
  | .value => Json.str "ValueError"

def optErr : Option Err → Json
  | none => Json.null
  | some e => errJson e

def cigar? (j : Json) : Option Cigar := do
  let l ← asArr? j
  l.mapM (fun p => do
    match ← natList? p with
    | [a, b] => some (a, b)
    | _ => none)

def getCigar? (j : Json) (k : String) : Option Cigar := (getObj? j k).bind cigar?
def getSeq? (j : Json) (k : String) : Option Seq := (getStr? j k).map String.toList
def ofSeq (s : Seq) : Json := Json.str (String.ofList s)
def ofCigar (c : Cigar) : Json := ofList (fun p => ofNatList [p.1, p.2]) c

/-- `[pos, "REF", ["ALT", …]]` -/
def variant? (j : Json) : Option Variant := do
  match ← asArr? j with
  | [p, r, a] =>
    let alts ← (← asArr? a).mapM asStr?
    some ⟨← asNat? p, (← asStr? r).toList, alts.map String.toList⟩
  | _ => none

def getVariants? (j : Json) (k : String) : Option (List Variant) := (getList? j k).bind (·.mapM variant?)

def ofVariant (v : Variant) : Json := Json.arr #[ofNat v.pos, ofSeq v.ref, ofList ofSeq v.alts]

def optNatList? (j : Json) (k : String) : Option (Option (List Nat)) :=
  match j.getObjVal? k with
  | .ok Json.null => some none
  | .ok v => (natList? v).map some
  | _ => some none

def ofTriples (l : List (Nat × Nat × Nat)) : Json := ofList (fun t => ofNatList [t.1, t.2.1, t.2.2]) l

def aligned? (j : Json) : Option Aligned := do
  let vs ← (← getList? j "variants").mapM (fun t => do
    match ← natList? t with
    | [a, b, c] => some (a, b, c)
    | _ => none)
  some ⟨← getBool? j "supp", ← getBool? j "rev", ← getInt? j "start", ← getInt? j "end", vs⟩

/-- `"asis": ["F13", …]` = defects to model as the code was; default: all repaired -/
def fixes (j : Json) : Fixes :=
  let l := match getList? j "asis" with | some l => l.filterMap asStr? | none => []
  ⟨!l.contains "F12", !l.contains "F13", !l.contains "F14", !l.contains "F15", !l.contains "F16"⟩


/-- `"affine": [gap_start, gap_extend, default_mismatch]` or null/absent = default branch -/
def affine? (j : Json) : Option AffineCfg :=
  match getNatList? j "affine" with
  | some [a, b, c] => some ⟨a, b, c, false⟩
  | some [a, b, c, f] => some ⟨a, b, c, f != 0⟩
  | _ => none

def ofQTriples (l : List (Nat × Nat × Int)) : Json :=
  ofList (fun t => Json.arr #[ofNat t.1, ofNat t.2.1, ofInt t.2.2]) l

def optRestrictedList? (j : Json) (k : String) : Option (Option (List (List Nat))) :=
  match j.getObjVal? k with
  | .ok Json.null => some none
  | .ok v => (natListList? v).map some
  | _ => some none

def handleAffine (op : String) (j : Json) : Option Json :=
  let fx := fixes j
  if op == "c06.affine" then
    -- edit_distance_affine_gap(query, ref, mismatch_cost, gs, ge); "spec": also the brute-force minimum
    match getSeq? j "query", getSeq? j "ref", getNatList? j "mismatch", getNat? j "gs", getNat? j "ge" with
    | some q, some r, some mm, some gs, some ge =>
      let qs : QSeq := q.zip mm
      let base := [("dist", ofNat (editDistanceAffine gs ge qs r)), ("dp", ofNat (affineDP gs ge qs r))]
      let withSpec := match getBool? j "spec" with
        | some true => base ++ [("spec", ofNat (affineSpec gs ge qs r))]
        | _ => base
      some (Json.mkObj withSpec)
    | _, _, _, _, _ => some badInput
  else if op == "c06.realign_q" then
    match (getObj? j "variant").bind variant?, optNatList? j "restricted", getSeq? j "query", getCigar? j "cigar",
          getNat? j "i", getNat? j "consumed", getInt? j "query_pos", getSeq? j "reference", getNat? j "overhang" with
    | some v, some r, some q, some c, some i, some k, some qp, some rf, some oh =>
      some (match realignQ fx.f14 (affine? j) v r q c i k qp rf oh with
        | .ok (some a) => Json.arr #[ofNat a.1, ofInt a.2]
        | .ok none => Json.null
        | .error e => Json.mkObj [("err", errJson e)])
    | _, _, _, _, _, _, _, _, _ => some badInput
  else if op == "c06.detect_ref_q" then
    match getVariants? j "variants", optRestrictedList? j "restricted", getNat? j "j", getNat? j "ref_start",
          getCigar? j "cigar", getSeq? j "query", getSeq? j "reference", getNat? j "overhang" with
    | some vs, some rs, some jj, some st, some c, some q, some rf, some oh =>
      let r := detectRefQ fx.f14 (affine? j) vs rs jj st c q rf oh
      some (Json.mkObj [("out", ofQTriples r.1), ("err", optErr r.2)])
    | _, _, _, _, _, _, _, _ => some badInput
  else none


/-! ### `ReadSetReader.read` -/

def optStr? (j : Json) (k : String) : Option (Option String) :=
  match j.getObjVal? k with
  | .ok Json.null => some none
  | .ok (Json.str s) => some (some s)
  | .ok _ => none
  | _ => some none

def optInt? (j : Json) (k : String) : Option (Option Int) :=
  match j.getObjVal? k with
  | .ok Json.null => some none
  | .ok v => (asInt? v).map some
  | _ => some none

def optCigar? (j : Json) (k : String) : Option (Option Cigar) :=
  match j.getObjVal? k with
  | .ok Json.null => some none
  | .ok v => (cigar? v).map some
  | _ => some none

def aln? (sid : Nat) (j : Json) : Option Aln := do
  some ⟨← getStr? j "name", ← getNat? j "flag", ← getNat? j "mapq", ← optStr? j "rg", ← getNat? j "start",
        ← optCigar? j "cigar", (← optStr? j "query").map String.toList, ← optNatList? j "quals",
        (getStr? j "bx").getD "", (getInt? j "hp").getD (-1), ← optInt? j "ps", sid⟩

def source? (sid : Nat) (j : Json) : Option Source := do
  let rgs ← (← getList? j "rgs").mapM (fun g => do
    match ← asArr? g with
    | [Json.str i, Json.null] => some (i, none)
    | [Json.str i, Json.str sm] => some (i, some sm)
    | _ => none)
  let alns ← (← getList? j "alns").mapM (aln? sid)
  some ⟨rgs, alns⟩

def sources? (j : Json) : Option (List Source) := do
  let l ← getList? j "sources"
  (enumFrom 0 l).mapM (fun p => source? p.1 p.2)

def region? (j : Json) : Option Region := do
  match ← asArr? j with
  | [a, Json.null] => some (← asNat? a, none)
  | [a, b] => some (← asNat? a, some (← asNat? b))
  | _ => none

def regions? (j : Json) : Option (Option (List Region)) :=
  match j.getObjVal? "regions" with
  | .ok Json.null => some none
  | .ok v => ((asArr? v).bind (·.mapM region?)).map some
  | _ => some none

def readCfg? (j : Json) : Option ReadCfg := do
  let c ← getObj? j "cfg"
  some ⟨← getNat? c "mapq", ← getBool? c "duplicates", ← getBool? c "supplementary", ← getInt? c "threshold",
        ← getNat? c "overhang", affine? c, fixes j, (getBool? c "skip_noseq").getD false,
        (getBool? c "tolerate_norg").getD false⟩

def rerrJson : RErr → Json
  | .det e => errJson e
  | .typeError => Json.str "TypeError"
  | .keyError => Json.str "KeyError"
  | .sampleNotFound => Json.str "SampleNotFoundError"
  | .psValue => Json.str "ValueError"

def ofReadOut (r : ReadOut) : Json :=
  Json.mkObj [("name", Json.str r.name), ("source", ofNat r.sourceId), ("mapq", ofNat r.mapq), ("start", ofInt r.refStart),
              ("bx", Json.str r.bx), ("hp", ofInt r.hp), ("ps", ofInt r.ps), ("variants", ofQTriples r.variants)]

def handleRead (op : String) (j : Json) : Option Json :=
  if op == "c06.read" || op == "c06.usable" then
    match readCfg? j, sources? j, optStr? j "sample", regions? j with
    | some cfg, some srcs, some sample, some regions =>
      if op == "c06.usable" then
        let st := usableStream cfg srcs sample regions
        some (Json.mkObj [("usable", ofList (fun (a : Aln) => Json.arr #[ofNat a.sourceId, Json.str a.name, ofNat a.refStart, ofNat a.flag]) (oks st)),
                          ("err", match firstError st with | some e => rerrJson e | none => Json.null)])
      else
        match getVariants? j "variants", optStr? j "reference" with
        | some vs, some rf =>
          some (match readModel cfg srcs sample regions vs (rf.map String.toList) with
            | .ok reads => Json.mkObj [("reads", ofList ofReadOut reads), ("err", Json.null)]
            | .error e => Json.mkObj [("reads", Json.null), ("err", rerrJson e)])
        | _, _ => some badInput
    | _, _, _, _ => some badInput
  else if op == "c06.has_reference" then
    match (getList? j "references").bind (·.mapM (fun l => (asArr? l).bind (·.mapM asStr?))), getStr? j "chromosome" with
    | some refs, some c => some (Json.bool (hasReference refs c))
    | _, _ => some badInput
  else none

def handle (op : String) (j : Json) : Option Json :=
  let fx := fixes j
  match handleAffine op j with
  | some r => some r
  | none =>
  match handleRead op j with
  | some r => some r
  | none =>
  if op == "c06.iter" then
    match getNatList? j "positions", getNat? j "j", getNat? j "ref_start", getCigar? j "cigar" with
    | some ps, some jj, some st, some c =>
      let r := iterateCigar ps jj st c
      some (Json.mkObj [("yields", ofList (fun y => ofNatList [y.index, y.i, y.consumed, y.queryPos]) r.1),
                        ("err", optErr r.2)])
    | _, _, _, _ => some badInput
  else if op == "c06.locate" then
    match getNat? j "p", getNat? j "ref_start", getCigar? j "cigar" with
    | some p, some st, some c =>
      some (match locate p 0 st 0 c with
        | some (i, cons, q) => ofNatList [i, cons, q]
        | none => Json.null)
    | _, _, _ => some badInput
  else if op == "c06.prefix" then
    match getCigar? j "cigar", getNat? j "k" with
    | some c, some k =>
      some (match cigarPrefixLength fx.f14 c k with
        | .ok (a, b) => ofNatList [a, b]
        | .error e => Json.mkObj [("err", errJson e)])
    | _, _ => some badInput
  else if op == "c06.split" then
    match getCigar? j "cigar", getNat? j "i", getNat? j "consumed" with
    | some c, some i, some k =>
      let f := fun (r : Except Err Cigar) => match r with
        | .ok l => ofCigar l
        | .error e => Json.mkObj [("err", errJson e)]
      some (Json.mkObj [("left", f (splitLeft c i k)), ("right", f (splitRight c i k))])
    | _, _, _ => some badInput
  else if op == "c06.realign" then
    match (getObj? j "variant").bind variant?, optNatList? j "restricted", getSeq? j "query", getCigar? j "cigar",
          getNat? j "i", getNat? j "consumed", getInt? j "query_pos", getSeq? j "reference", getNat? j "overhang" with
    | some v, some r, some q, some c, some i, some k, some qp, some rf, some oh =>
      let w := match window fx.f14 v q c i k qp rf oh with
        | .ok w => Json.mkObj [("query", ofSeq w.query), ("padded", ofList ofSeq w.padded)]
        | .error e => Json.mkObj [("err", errJson e)]
      some (Json.mkObj [("allele", match realign fx.f14 levFast v r q c i k qp rf oh with
        | .ok a => ofOptNat a
        | .error e => Json.mkObj [("err", errJson e)]), ("window", w)])
    | _, _, _, _, _, _, _, _, _ => some badInput
  else if op == "c06.detect_ref" then
    match getVariants? j "variants", getNat? j "j", getNat? j "ref_start", getCigar? j "cigar", getSeq? j "query",
          getSeq? j "reference", getNat? j "overhang" with
    | some vs, some jj, some st, some c, some q, some rf, some oh =>
      let r := detectRef fx.f14 levFast vs none jj st c q rf oh
      some (Json.mkObj [("out", ofTriples r.1), ("err", optErr r.2)])
    | _, _, _, _, _, _, _ => some badInput
  else if op == "c06.detect_noref" then
    match getVariants? j "variants", getNat? j "first", getNat? j "ref_start", getCigar? j "cigar", getSeq? j "query",
          optNatList? j "quals" with
    | some vs, some f, some st, some c, some q, some qs =>
      let r := detectNoRef fx vs f st c q qs
      some (Json.mkObj [("out", ofTriples r.1), ("err", optErr r.2)])
    | _, _, _, _, _, _ => some badInput
  else if op == "c06.noref_singles" then
    -- the right-hand side of `noref_multi_variant_independent`: every variant walked ALONE (fresh walker, empty queue)
    match getVariants? j "variants", getNat? j "first", getNat? j "ref_start", getCigar? j "cigar", getSeq? j "query",
          optNatList? j "quals" with
    | some vs, some f, some st, some c, some q, some qs =>
      let nvs := vs.map normalize
      let vps : List VP := (((nonOverlapping nvs).filterMap (fun id => (nvs[id]?).map (fun v => (id, v)))).drop f).dropWhile
        (fun p => p.2.pos < st)
      let rs := vps.map (fun vp => noRefGo fx q qs false st 0 [vp] [] c)
      let sorted := (vps.zip vps.tail).all (fun p => p.1.2.pos < p.2.2.pos)
      some (Json.mkObj [("out", ofTriples (rs.flatMap (·.1))), ("clean", Json.bool (rs.all (·.2.isNone))),
        ("sorted", Json.bool sorted), ("k", ofNat vps.length)])
    | _, _, _, _, _, _ => some badInput
  else if op == "c06.normalize" then
    match getVariants? j "variants" with
    | some vs =>
      let nvs := vs.map normalize
      some (Json.mkObj [("normalized", ofList ofVariant nvs), ("valid", ofNatList (nonOverlapping nvs))])
    | none => some badInput
  else if op == "c06.group" then
    match (getList? j "group").bind (·.mapM aligned?), getInt? j "threshold" with
    | some g, some t =>
      some (match mergeGroup fx.f12 g t with
        | some vs => ofTriples vs
        | none => Json.null)
    | _, _ => some badInput
  else if op == "c06.lev" then
    match getSeq? j "s", getSeq? j "t" with
    | some s, some t => some (ofNat (levFast s t))
    | _, _ => some badInput
  else none
end WhVerif.Driver.C06

import WhVerif.Util.Proto
namespace WhVerif.Driver.C06
open Lean WhVerif.Proto
/-- ops of property C06 are named `c06.<name>`; return `none` for ops that are not ours -/
def handle (_op : String) (_j : Json) : Option Json := none
end WhVerif.Driver.C06

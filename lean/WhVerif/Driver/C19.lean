import WhVerif.Util.Proto
import WhVerif.Model.C19
import WhVerif.Model.C19Edit
import WhVerif.Spec.C19
namespace WhVerif.Driver.C19
open Lean WhVerif.Proto WhVerif.C19

def errJson : Err → Json
  | .ploidy => Json.mkObj [("err", Json.str "ploidy")]
  | .alleles => Json.mkObj [("err", Json.str "alleles")]
  | .unsorted => Json.mkObj [("err", Json.str "unsorted")]

/-- everything observable of one genotype: vector, index, ploidy, state, vector after restore(save) -/
def genoJson (g : Genotype) : Json :=
  let st := g.getState
  let restored : Json := match Genotype.setState st with
    | .ok r => Json.mkObj [("vector", ofNatList r.asVector), ("eq", Json.bool (r.eq g))]
    | .error e => errJson e
  Json.mkObj [("vector", ofNatList g.asVector), ("index", ofNat g.getIndex), ("ploidy", ofNat g.getPloidy),
    ("state", ofNatList [st.1, st.2]), ("restored", restored)]

def handle (op : String) (j : Json) : Option Json :=
  if op == "c19.binom" then
    match getInt? j "n", getInt? j "k" with
    | some n, some k =>
      some (Json.mkObj [("value", ofInt (binomInt n k)),
                        ("peak", ofNat (if n < 0 ∨ k < 0 then 0 else binomPeak n.toNat k.toNat))])
    | _, _ => some badInput
  else if op == "c19.geno" then
    match getNatList? j "alleles" with
    | some a => some (match Genotype.ofAlleles a with | .ok g => genoJson g | .error e => errJson e)
    | none => some badInput
  else if op == "c19.index" then
    -- list-level get_index of an ascending allele list
    match getNatList? j "alleles" with
    | some a => some (ofNat (getIndexL a))
    | none => some badInput
  else if op == "c19.alleles" then
    match getNat? j "index", getNat? j "ploidy" with
    | some i, some p =>
      let raw := indexToAlleles i p
      some (Json.mkObj [("raw", ofNatList raw),
        ("geno", match Genotype.setState (i, p) with | .ok g => genoJson g | .error e => errJson e)])
    | _, _ => some badInput
  else if op == "c19.cmp" then
    match getNatList? j "a", getNatList? j "b" with
    | some a, some b =>
      match Genotype.ofAlleles a, Genotype.ofAlleles b with
      | .ok g, .ok h => some (Json.mkObj [("eq", Json.bool (g.eq h)), ("ne", Json.bool (g.ne h)), ("lt", Json.bool (g.lt h))])
      | _, _ => some badInput
    | _, _ => some badInput
  else if op == "c19.enum" then
    -- model: alleles of every index below the count; spec: VCF order and count
    match getNat? j "ploidy", getNat? j "alleles" with
    | some p, some a =>
      let cnt := Spec.multichoose p a
      some (Json.mkObj [("count", ofNat cnt),
        ("model", ofList ofNatList ((List.range cnt).map (fun i => indexToAlleles i p))),
        ("spec", ofList ofNatList (Spec.vcfOrder p a))])
    | _, _ => some badInput
  else if op == "c19.lev" then
    match getNatList? j "s", getNatList? j "t" with
    | some s, some t => some (ofNat (Spec.lev s t))
    | _, _ => some badInput
  else if op == "c19.edit" then
    -- results of edit_distance(s, t, maxdiff) for every maxdiff in "bands"
    match getNatList? j "s", getNatList? j "t", getIntList? j "bands" with
    | some s, some t, some bs => some (ofNatList (bs.map (fun e => editDistance s t e)))
    | _, _, _ => some badInput
  else none
end WhVerif.Driver.C19

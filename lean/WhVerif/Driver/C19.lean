import WhVerif.Util.Proto
import WhVerif.Model.C19
import WhVerif.Model.C19Edit
import WhVerif.Model.C19Word
import WhVerif.Model.C19Heap
import WhVerif.Spec.C19
namespace WhVerif.Driver.C19
open Lean WhVerif.Proto WhVerif.C19

def errJson : Err → Json
  | .ploidy => Json.mkObj [("err", Json.str "ploidy")]
  | .alleles => Json.mkObj [("err", Json.str "alleles")]
  | .unsorted => Json.mkObj [("err", Json.str "unsorted")]

/-- everything observable of one genotype: vector, index, ploidy, state, vector after restore(save) -/
def genoJson (g : Genotype) : Json :=
  let st := g.getState
  let restored : Json := match Genotype.setState st with
    | .ok r => Json.mkObj [("vector", ofNatList r.asVector), ("eq", Json.bool (r.eq g))]
    | .error e => errJson e
  Json.mkObj [("vector", ofNatList g.asVector), ("index", ofNat g.getIndex), ("ploidy", ofNat g.getPloidy),
    ("state", ofNatList [st.1, st.2]), ("restored", restored)]

def cerrJson : CErr → Json
  | .ploidy => Json.mkObj [("err", Json.str "ploidy")]
  | .alleles => Json.mkObj [("err", Json.str "alleles")]
  | .unsorted => Json.mkObj [("err", Json.str "unsorted")]
  | .setPos => Json.mkObj [("err", Json.str "setpos")]
  | .setAllele => Json.mkObj [("err", Json.str "setallele")]
  | .getPos => Json.mkObj [("err", Json.str "getpos")]

/-- a natural number given as JSON number or as decimal string (for values beyond 2^53) -/
def getBig? (j : Json) (k : String) : Option Nat :=
  match getNat? j k with
  | some n => some n
  | none => match getStr? j k with | some s => s.toNat? | none => none

/-- machine-level observables of a packed genotype: the 64-bit word (decimal string), `as_vector`, `get_index`
(as executed, and on unbounded integers), ploidy, `is_none`, `is_homozygous`, `is_diploid_and_biallelic`, `toString` -/
def wordJson (g : Genotype) : Json :=
  Json.mkObj [("code", Json.str (toString g.gt)), ("vector", ofNatList g.asVector), ("index", ofNat g.getIndexW),
    ("index_ideal", ofNat g.getIndex), ("ploidy", ofNat g.getPloidy), ("none", Json.bool g.isNone),
    ("hom", Json.bool g.isHomozygous), ("dipbi", Json.bool g.isDiploidAndBiallelic),
    ("str", match g.toStringL with | some l => ofNatList l | none => Json.null)]

def fromIndexJson (i p : Nat) : Json :=
  match Genotype.ofIndex i p with | .ok g => wordJson g | .error e => cerrJson e

def handle (op : String) (j : Json) : Option Json :=
  if op == "c19.heap" then
    -- a history over several Genotype objects (alloc / deepcopy / restore / restoreFrom / deepcopy of a container, see
    -- `Heap.step`): the observables [vector, index, ploidy] of every cell after every step
    match (do natListList? (← j.getObjVal? "ops" |>.toOption) : Option (List (List Nat))) with
    | some ops =>
      some (Json.arr ((Heap.run [] ops).map (fun r => match r with
        | .ok cells => ofList (fun (c : List Nat × Nat × Nat) => Json.arr #[ofNatList c.1, ofNat c.2.1, ofNat c.2.2]) cells
        | .error e => errJson e)).toArray)
    | none => some badInput
  else if op == "c19.fromindex" then
    -- Genotype(uint64_t index, uint32_t ploidy)
    match getBig? j "index", getNat? j "ploidy" with
    | some i, some p => some (fromIndexJson (i % 18446744073709551616) p)
    | _, _ => some badInput
  else if op == "c19.enumindex" then
    -- PhredGenotypeLikelihoods.genotypes(): first `get_genotypes` builds Genotype(i, ploidy) for every i < size (the
    -- first throw ends it), then core.pyx rebuilds each one as `Genotype(genotype.as_vector())` (vector constructor)
    match getNat? j "ploidy", getNat? j "size" with
    | some p, some n =>
      let rec phase1 (fuel i : Nat) (acc : Array Genotype) : Except CErr (Array Genotype) :=
        match fuel with
        | 0 => .ok acc
        | fuel + 1 =>
          match Genotype.ofIndex i p with
          | .ok g => phase1 fuel (i + 1) (acc.push g)
          | .error e => .error e
      match phase1 n 0 #[] with
      | .error e => some (cerrJson e)
      | .ok gs =>
        let rec phase2 (l : List Genotype) (acc : Array Json) : Json :=
          match l with
          | [] => Json.mkObj [("vectors", Json.arr acc)]
          | g :: rest =>
            match Genotype.ofAlleles g.asVector with
            | .ok h => phase2 rest (acc.push (ofNatList h.asVector))
            | .error e => errJson e
        some (phase2 gs.toList #[])
    | _, _ => some badInput
  else if op == "c19.word" then
    -- Genotype(vector) with the machine-level observers
    match getNatList? j "alleles" with
    | some a => some (match Genotype.ofAlleles a with | .ok g => wordJson g | .error e => errJson e)
    | none => some badInput
  else if op == "c19.convert" then
    -- convert_index_to_alleles as executed, and __setstate__ on top of it
    match getBig? j "index", getNat? j "ploidy" with
    | some i, some p =>
      some (Json.mkObj [("raw", ofNatList (convertW (i % 18446744073709551616) p)),
        ("geno", match Genotype.setStateW (i % 18446744073709551616) p with | .ok g => wordJson g | .error e => errJson e)])
    | _, _ => some badInput
  else if op == "c19.binom32" then
    match getInt? j "n", getInt? j "k" with
    | some n, some k => some (ofInt (binom32 n k))
    | _, _ => some badInput
  else if op == "c19.cmpw" then
    -- two genotypes given as ["a", alleles] or ["i", [index, ploidy]]: ==, !=, < as executed, and the documented order
    let mk (k : String) : Option (Option Genotype) :=
      match getNatList? j k, getNatList? j (k ++ "_index") with
      | some a, _ => some (match Genotype.ofAlleles a with | .ok g => some g | .error _ => none)
      | none, some [i, p] => some (match Genotype.ofIndex i p with | .ok g => some g | .error _ => none)
      | _, _ => none
    match mk "a", mk "b" with
    | some (some g), some (some h) =>
      some (Json.mkObj [("eq", Json.bool (g.eq h)), ("ne", Json.bool (g.ne h)), ("lt", Json.bool (g.ltW h)),
        ("lex", Json.bool (Spec.lexLt g.asVector h.asVector))])
    | some _, some _ => some (Json.mkObj [("err", Json.str "ctor")])
    | _, _ => some badInput
  else if op == "c19.limits" then
    some (Json.mkObj [("max_ploidy", ofNat getMaxGenotypePloidy), ("max_ploidy_repaired", ofNat getMaxGenotypePloidyRepaired),
      ("max_alleles", ofNat getMaxGenotypeAlleles)])
  else if op == "c19.binom" then
    match getInt? j "n", getInt? j "k" with
    | some n, some k =>
      some (Json.mkObj [("value", ofInt (binomInt n k)),
                        ("peak", ofNat (if n < 0 ∨ k < 0 then 0 else binomPeak n.toNat k.toNat))])
    | _, _ => some badInput
  else if op == "c19.geno" then
    match getNatList? j "alleles" with
    | some a => some (match Genotype.ofAlleles a with | .ok g => genoJson g | .error e => errJson e)
    | none => some badInput
  else if op == "c19.index" then
    -- list-level get_index of an ascending allele list
    match getNatList? j "alleles" with
    | some a => some (ofNat (getIndexL a))
    | none => some badInput
  else if op == "c19.alleles" then
    match getNat? j "index", getNat? j "ploidy" with
    | some i, some p =>
      let raw := indexToAlleles i p
      some (Json.mkObj [("raw", ofNatList raw),
        ("geno", match Genotype.setState (i, p) with | .ok g => genoJson g | .error e => errJson e)])
    | _, _ => some badInput
  else if op == "c19.cmp" then
    match getNatList? j "a", getNatList? j "b" with
    | some a, some b =>
      match Genotype.ofAlleles a, Genotype.ofAlleles b with
      | .ok g, .ok h => some (Json.mkObj [("eq", Json.bool (g.eq h)), ("ne", Json.bool (g.ne h)), ("lt", Json.bool (g.lt h))])
      | _, _ => some badInput
    | _, _ => some badInput
  else if op == "c19.enum" then
    -- model: alleles of every index below the count; spec: VCF order and count
    match getNat? j "ploidy", getNat? j "alleles" with
    | some p, some a =>
      let cnt := Spec.multichoose p a
      some (Json.mkObj [("count", ofNat cnt),
        ("model", ofList ofNatList ((List.range cnt).map (fun i => indexToAlleles i p))),
        ("spec", ofList ofNatList (Spec.vcfOrder p a))])
    | _, _ => some badInput
  else if op == "c19.lev" then
    match getNatList? j "s", getNatList? j "t" with
    | some s, some t => some (ofNat (Spec.lev s t))
    | _, _ => some badInput
  else if op == "c19.edit" then
    -- results of edit_distance(s, t, maxdiff) for every maxdiff in "bands"
    match getNatList? j "s", getNatList? j "t", getIntList? j "bands" with
    | some s, some t, some bs => some (ofNatList (bs.map (fun e => editDistance s t e)))
    | _, _, _ => some badInput
  else none
end WhVerif.Driver.C19

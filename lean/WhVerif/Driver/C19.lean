import WhVerif.Util.Proto
namespace WhVerif.Driver.C19
open Lean WhVerif.Proto
/-- ops of property C19 are named `c19.<name>`; return `none` for ops that are not ours -/
def handle (_op : String) (_j : Json) : Option Json := none
end WhVerif.Driver.C19

import WhVerif.Util.Proto
namespace WhVerif.Driver.C12
open Lean WhVerif.Proto
/-- ops of property C12 are named `c12.<name>`; return `none` for ops that are not ours -/
def handle (_op : String) (_j : Json) : Option Json := none
end WhVerif.Driver.C12

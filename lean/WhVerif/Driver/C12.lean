import WhVerif.Util.Proto
import WhVerif.Model.C12
import WhVerif.Model.C12Run
import WhVerif.Model.C12File
import WhVerif.Model.C04Json
namespace WhVerif.Driver.C12
open Lean WhVerif.Proto WhVerif.C12

def optNat? (j : Json) : Option (Option Nat) :=
  if j.isNull then some none else (asNat? j).map some

def parseRec (j : Json) : Option Rec := do
  pure { pos := ← getNat? j "pos", ref := ← getStr? j "ref",
         alts := ← (← getList? j "alts").mapM asStr?,
         gt := ← (← getList? j "gt").mapM optNat?,
         phased := ← getBool? j "phased", psKey := ← getBool? j "psKey",
         ps := ← optNat? (← getObj? j "ps"), hp := ← optNat? (← getObj? j "hp") }

def optJson : Option Nat → Json
  | some n => ofNat n
  | none => Json.null

def rowJson (r : Row) (n50v : Option Nat) : Json :=
  Json.mkObj [("variants", ofNat r.variants), ("phased", ofNat r.phased), ("unphased", ofNat r.unphased),
    ("singletons", ofNat r.singletons), ("blocks", ofNat r.blocks), ("sizes", ofNatList r.sizes),
    ("lengths", ofNatList r.lengths), ("bpSum", ofNat r.bpSum), ("het", ofNat r.het), ("hetSnvs", ofNat r.hetSnvs),
    ("phasedSnvs", ofNat r.phasedSnvs), ("n50", optJson n50v)]

def errJson : Err → Json
  | .notSorted => Json.str "VcfNotSortedError"
  | .typeErrorBlockNone => Json.str "TypeError"
  | .noFuel => Json.str "no-fuel"

/-- `block_n50`: nan (`none`) when there is no block of size > 1, else `compute_ng50(split_blocks, chr_lengths)`;
`target` = summed length of the chromosomes that have split blocks -/
def ng50 (s : Stats) (target : Nat) : Option Nat :=
  if (s.blocks.filter (fun b => b.length > 1)).isEmpty then none
  else some (n50 (s.splitBlocks.map span) target)

structure ChromOut where
  stats : Stats
  json : Json

/-- one chromosome: `{name, length, recs}` -/
def doChrom (f : Flags) (onlySnvs wantBl : Bool) (j : Json) : Option (Except Err (Stats × Nat × Json)) := do
  let recs ← (← getList? j "recs").mapM parseRec
  let len ← getNat? j "length"
  match readChrom f onlySnvs recs with
  | .error e => pure (.error e)
  | .ok vars =>
    match chromStats f vars with
    | none => pure (.error .noFuel)
    | some s =>
      let ph := phasedOf f vars
      let bl := blockList (blocksOf ph)
      match bl, wantBl with
      | .error e, true => pure (.error e)
      | _, _ =>
        let target := if s.splitBlocks.isEmpty then 0 else len
        let blJson := match bl with
          | .ok rows => ofList (fun (r : BlockId × Nat × Nat × Nat) =>
              Json.arr #[optJson r.1, ofNat r.2.1, ofNat r.2.2.1, ofNat r.2.2.2]) rows
          | .error _ => Json.null
        let g := ofList (fun (r : Nat × Nat × Nat) => ofNatList [r.1, r.2.1, r.2.2]) (gtf ph)
        pure (.ok (s, target, Json.mkObj [("row", rowJson (detailed s) (ng50 s target)), ("blockList", blJson), ("gtf", g)]))

/-! ## `c12.run`: `run_stats` end to end -/

def runErrJson : RunErr → Json
  | .chrom e => errJson e
  | .invalidChromosome _ => Json.str "VcfInvalidChromosome"

def blJson (rows : List (BlockId × Nat × Nat × Nat)) : Json :=
  ofList (fun (r : BlockId × Nat × Nat × Nat) => Json.arr #[optJson r.1, ofNat r.2.1, ofNat r.2.2.1, ofNat r.2.2.2]) rows

def partJson (f : Flags) (lens : List (String × Nat)) (p : Part) : Json :=
  let ph := phasedOf f p.vars
  let bl := match blockList (blocksOf ph) with
    | .ok rows => blJson rows
    | .error _ => Json.null
  Json.mkObj [("name", Json.str p.name), ("row", rowJson (detailed p.stats) (partN50 lens p)), ("blockList", bl),
    ("gtf", ofList (fun (r : Nat × Nat × Nat) => ofNatList [r.1, r.2.1, r.2.2]) (gtf ph))]

def parseGroup (j : Json) : Option (String × List Rec) := do
  pure (← getStr? j "name", ← (← getList? j "recs").mapM parseRec)

def parseLen (j : Json) : Option (String × Nat) := do
  match ← asArr? j with
  | [a, b] => pure (← asStr? a, ← asNat? b)
  | _ => none

def parseRunIn (j : Json) : Option RunIn := do
  pure { flags := { fixMissing := ← getBool? j "fixMissing", fixPs := ← getBool? j "fixPs" },
         dedupGiven := ← getBool? j "dedupGiven", onlySnvs := ← getBool? j "onlySnvs", wantBl := ← getBool? j "blockList",
         indexed := ← getBool? j "indexed", contigs := ← (← getList? j "contigs").mapM asStr?,
         lens := ← (← getList? j "lens").mapM parseLen, given := ← (← getList? j "given").mapM asStr?,
         file := ← (← getList? j "file").mapM parseGroup }

def strsJson (l : List String) : Json := Json.arr (l.map Json.str).toArray

/-- `c12.run {…RunIn}` → `{chroms: [{name, row, blockList, gtf}], seen: [...], all: row | null}` or `{err}`;
`c12.n50 {lengths, target}` → `n50(lengths, target)`; `c12.unpack {args}` → `unpack_chromosomes(args)` -/
def handleRun (op : String) (j : Json) : Option Json :=
  if op == "c12.run" then
    let r : Option Json := do
      let i ← parseRunIn j
      match run i with
      | .error e => pure (Json.mkObj [("err", runErrJson e)])
      | .ok o =>
        let allJ := match o.all with
          | some s => rowJson (detailed s) (allN50 i.lens o.parts)
          | none => Json.null
        pure (Json.mkObj [("chroms", ofList (partJson i.flags i.lens) o.parts), ("seen", strsJson o.seen), ("all", allJ)])
    some (r.getD badInput)
  else if op == "c12.n50" then
    let r : Option Json := do
      pure (ofNat (n50 (← getNatList? j "lengths") (← getNat? j "target")))
    some (r.getD badInput)
  else if op == "c12.ng50" then
    -- `{lens: [[name, len]], blocks: [[chromosome, span]]}` → `compute_ng50` (null = nan)
    let r : Option Json := do
      let lens ← (← getList? j "lens").mapM parseLen
      let bs ← (← getList? j "blocks").mapM parseLen
      pure (optJson (computeNg50 lens (bs.map (·.1)) (bs.map (fun b => [(0, false), (b.2, false)]))))
    some (r.getD badInput)
  else if op == "c12.unpack" then
    let r : Option Json := do
      pure (strsJson (unpackChromosomes (← (← getList? j "args").mapM asStr?)))
    some (r.getD badInput)
  else none


/-! ## `c12.file`: `run_stats` on a multi-sample file through the whole-file reader -/

def fileErrJson : WhVerif.C12File.FileErr → Json
  | .noSample => Json.str "no-sample"
  | .sampleNotFound => Json.str "sample-not-found"
  | .reader .mixed => Json.str "MixedPhasingError"
  | .reader .ploidy => Json.str "PloidyError"
  | .reader .notSorted => Json.str "VcfNotSortedError"
  | .reader .hpFormat => Json.str "hpFormat"
  | .run e => runErrJson e

def parseFGroup (j : Json) : Option (String × List WhVerif.C04.Record) := do
  pure (← getStr? j "chrom", ← (← getList? j "records").mapM WhVerif.C04.Json.record?)

def parseFileIn (j : Json) : Option WhVerif.C12File.FileIn := do
  let sample ← match j.getObjVal? "sample" with
    | .ok Json.null => some none
    | .ok (Json.str s) => some (some s)
    | _ => none
  pure { flags := { fixMissing := ← getBool? j "fixMissing", fixPs := ← getBool? j "fixPs" },
         dedupGiven := ← getBool? j "dedupGiven", onlySnvs := ← getBool? j "onlySnvs", wantBl := ← getBool? j "blockList",
         indexed := ← getBool? j "indexed", contigs := ← (← getList? j "contigs").mapM asStr?,
         lens := ← (← getList? j "lens").mapM parseLen, given := ← (← getList? j "given").mapM asStr?,
         samples := ← (← getList? j "samples").mapM asStr?, sample := sample,
         groups := ← (← getList? j "groups").mapM parseFGroup }

/-- `c12.file {…FileIn}` → as `c12.run`, or `{err}` with the error exit / exception class -/
def handleFile (op : String) (j : Json) : Option Json :=
  if op == "c12.file" then
    let r : Option Json := do
      let i ← parseFileIn j
      match WhVerif.C12File.fileRun i with
      | .error e => pure (Json.mkObj [("err", fileErrJson e)])
      | .ok o =>
        let allJ := match o.all with
          | some s => rowJson (detailed s) (allN50 i.lens o.parts)
          | none => Json.null
        pure (Json.mkObj [("chroms", ofList (partJson i.flags i.lens) o.parts), ("seen", strsJson o.seen), ("all", allJ)])
    some (r.getD badInput)
  else none

/-- `c12.stats {fixMissing, fixPs, onlySnvs, blockList, chroms: [{length, recs}]}` (only the chromosomes that are processed,
in file order) → `{chroms: [{row, blockList, gtf}], all: row}` or `{err}` -/
def handle (op : String) (j : Json) : Option Json :=
  if op == "c12.stats" then
    let r : Option Json := do
      let f : Flags := { fixMissing := ← getBool? j "fixMissing", fixPs := ← getBool? j "fixPs" }
      let onlySnvs ← getBool? j "onlySnvs"
      let wantBl ← getBool? j "blockList"
      let chroms ← getList? j "chroms"
      let outs ← chroms.mapM (doChrom f onlySnvs wantBl)
      let rec go (acc : Stats) (target : Nat) (js : List Json) : List (Except Err (Stats × Nat × Json)) → Json
        | [] => Json.mkObj [("chroms", Json.arr js.reverse.toArray), ("all", rowJson (detailed acc) (ng50 acc target))]
        | .error e :: _ => Json.mkObj [("err", errJson e), ("chroms", Json.arr js.reverse.toArray)]
        | .ok (s, t, cj) :: rest => go (addStats acc s) (target + t) (cj :: js) rest
      pure (go {} 0 [] outs)
    some (r.getD badInput)
  else if op == "c12.file" then handleFile op j
  else handleRun op j
end WhVerif.Driver.C12

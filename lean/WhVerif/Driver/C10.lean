import WhVerif.Util.Proto
import WhVerif.Model.C10
import WhVerif.Model.C10Regions
import WhVerif.Model.C10Run
import WhVerif.Model.C10Detect
namespace WhVerif.Driver.C10
open Lean WhVerif.Proto WhVerif.C10

def rv? (j : Json) : Option RV := do
  match ← natList? j with
  | [p, a, q] => some ⟨p, a, q⟩
  | _ => none

def rvs? (j : Json) : Option (List RV) := do (← asArr? j).mapM rv?

def phaseEntry? (j : Json) : Option (Nat × (Int × List Nat)) := do
  match ← asArr? j with
  | [p, ps, ph] => some (← asNat? p, (← asInt? ps, ← natList? ph))
  | _ => none

def phase? (j : Json) : Option PhaseInfo := do (← asArr? j).mapM phaseEntry?

def optStr? (j : Json) : Option (Option String) :=
  match j with
  | Json.null => some none
  | Json.str s => some (some s)
  | _ => none

def ofRV (v : RV) : Json := ofNatList [v.pos, v.allele, v.qual]

def errName : Err → String
  | .keyError => "KeyError" | .assertAllele => "AssertionError" | .indexError => "IndexError"

def ofDecision : Decision → Json
  | .untagged => Json.str "untagged"
  | .tagged h q ps => Json.arr #[Json.str "tagged", ofNat h, ofNat q, ofInt ps]
  | .error e => Json.arr #[Json.str "error", Json.str (errName e)]

/-- decisions for every phase set whose best score equals the largest best score (what a different
iteration order of the `reads_to_consider` set could report) -/
def admissible (ploidy : Nat) (info : PhaseInfo) (rvs : List RV) : List Decision :=
  match accumulate ploidy info [] rvs with
  | .error e => [.error e]
  | .ok sc =>
    match pickSet sc with
    | none => [.untagged]
    | some b => (sc.filter fun e => listMax e.2 == listMax b.2).map fun e => decideScores e.1 e.2

/-- the read clouds formed by `prepare` (names of `reads_to_consider`) with their admissible decisions -/
def clouds (ploidy : Nat) (info : PhaseInfo) (cutoff : Int) (il : Bool) (reads : List SetRead) :
    List (List String × List Decision) :=
  (reads.foldl (fun (acc : Prepared × List (List String × List Decision)) r =>
    let st' := prepareStep ploidy info cutoff il acc.1 r reads
    let names := st'.processed.drop acc.1.processed.length
    if names.isEmpty then (st', acc.2) else
    let rvs := names.flatMap fun n => (reads.filter (·.name == n)).flatMap (·.variants)
    (st', acc.2 ++ [(names, admissible ploidy info rvs)])) (({} : Prepared), [])).2

def alnRead? (j : Json) : Option AlnRead := do
  match ← asArr? j with
  | [s, r, a, b, vs] => some ⟨← asBool? s, ← asBool? r, ← asInt? a, ← asInt? b, ← rvs? vs⟩
  | _ => none

def setRead? (j : Json) : Option SetRead := do
  match ← asArr? j with
  | [n, st, bx, vs] => some ⟨← asStr? n, ← asInt? st, ← optStr? bx, ← rvs? vs⟩
  | _ => none

structure AlnView where
  name : String
  unmapped : Bool
  secondary : Bool
  supplementary : Bool
  refStart : Int
  bx : Option String

def alnView? (j : Json) : Option AlnView := do
  match ← asArr? j with
  | [n, u, s, sp, st, bx] => some ⟨← asStr? n, ← asBool? u, ← asBool? s, ← asBool? sp, ← asInt? st, ← optStr? bx⟩
  | _ => none

def ofTags (t : Tags) : Json :=
  Json.arr #[(match t.hp with | some x => ofNat x | none => Json.null),
             (match t.pc with | some x => ofNat x | none => Json.null),
             (match t.ps with | some x => ofInt x | none => Json.null)]

def sample? (j : Json) : Option (PhaseInfo × List SetRead) := do
  let ph ← phase? (← getObj? j "phase")
  let rs ← (← getList? j "reads").mapM setRead?
  some (ph, rs)

def optInt? (j : Json) : Option (Option Int) := if j.isNull then some none else (asInt? j).map some

def userRegion? (j : Json) : Option (Nat × Region) := do
  match ← asArr? j with
  | [i, s, e] => some (← asNat? i, ← asInt? s, ← optInt? e)
  | _ => none

def span? (j : Json) : Option (Int × Int) := do
  match ← asArr? j with
  | [s, e] => some (← asInt? s, ← asInt? e)
  | _ => none

def ofRegion (r : Region) : Json :=
  Json.arr #[ofInt r.1, match r.2 with | some e => ofInt e | none => Json.null]

/-- `--regions` after F17: the normalised selection and which alignments (contig index, index in the contig)
the write loop emits, by the literal loop (`runRegionsSkip`) and by the abstract one (`runRegions`) -/
def regionsAnswer (user : List (Nat × Region)) (contigs : List (List (Int × Int))) : Json :=
  let chroms : List (Chrom (Nat × Nat)) := contigs.zipIdx.map fun (spans, i) =>
    ⟨⟨[], [], 0, true, false⟩, spans.zipIdx.map fun (se, k) => ⟨(i, k), "", false, false, false, se.1, se.2, none, {}⟩⟩
  let sel := normalizeSel chroms user
  let ofPos (a : Aln (Nat × Nat)) : Json := Json.arr #[ofNat a.rest.1, ofNat a.rest.2]
  Json.mkObj [
    ("norm", ofList (fun (cr : Chrom (Nat × Nat) × List Region) => ofList ofRegion cr.2) sel),
    ("written", ofList ofPos (runRegionsSkip sel)),
    ("once", ofList ofPos (runRegions sel))]


/-! ### `run_haplotag` end to end (Model/C10Run.lean) -/

def call? (j : Json) : Option Call := do
  match ← asArr? j with
  | [p, h, ph] =>
    let phase ← (if ph.isNull then some none else do
      match ← asArr? ph with
      | [b, al] => some (some (← optInt? b, ← natList? al))
      | _ => none)
    some ⟨← asNat? p, ← asBool? h, phase⟩
  | _ => none

/-- the dict `vpos_to_phase_info` with every key once (its final value), ordered by position -/
def resolvedInfo (info : PhaseInfo) : List (Nat × (Int × List Nat)) :=
  let keys := (info.map (·.1)).eraseDups
  let sorted := keys.foldr (fun k acc => (acc.filter (· < k)) ++ [k] ++ (acc.filter (fun x => !(x < k)))) []
  sorted.filterMap fun k => (info.lookup k).map fun v => (k, v)

def runErrName : RunErr → String
  | .noVcfSamples => "noVcfSamples" | .needSampleOption => "needSampleOption" | .sampleNotInVcf => "sampleNotInVcf"
  | .noSharedSamples => "noSharedSamples" | .contigNotInVcf _ => "contigNotInVcf" | .prepare e => errName e

def strList? (j : Json) : Option (List String) := do (← asArr? j).mapM asStr?

def alnFull? (j : Json) : Option (String × Bool × Bool × Bool × Int × Int × Option String) := do
  match ← asArr? j with
  | [n, u, s, sp, st, en, bx] =>
    some (← asStr? n, ← asBool? u, ← asBool? s, ← asBool? sp, ← asInt? st, ← asInt? en, ← optStr? bx)
  | _ => none

def contigIn? (i : Nat) (j : Json) : Option (ContigIn (Nat × Nat)) := do
  let alns ← (← getList? j "alns").mapM alnFull?
  let inVcf ← getBool? j "inVcf"
  let samples ← (← getList? j "samples").mapM sample?
  some ⟨alns.zipIdx.map fun (a, k) => ⟨(i, k), a.1, a.2.1, a.2.2.1, a.2.2.2.1, a.2.2.2.2.1, a.2.2.2.2.2.1, a.2.2.2.2.2.2, {}⟩,
    inVcf, samples⟩

def mapIdxM? {β γ} (f : Nat → β → Option γ) : Nat → List β → Option (List γ)
  | _, [] => some []
  | i, x :: xs => do
    let y ← f i x
    let ys ← mapIdxM? f (i + 1) xs
    some (y :: ys)

def optNatJ : Option Nat → Json | some n => ofNat n | none => Json.null
def optIntJ : Option Int → Json | some n => ofInt n | none => Json.null

/-- per contig: the names of the reads in clouds of several reads whose phase sets tie (the reported set then depends on
the iteration order of a Python `set` of `Read` objects) -/
def ambiguousNames (cfg : Config) (contigs : List (ContigIn (Nat × Nat))) : List (List String) :=
  contigs.map fun c => c.samples.flatMap fun s =>
    (clouds cfg.ploidy s.1 cfg.cutoff cfg.ignoreLinked s.2).flatMap fun cl =>
      if cl.1.length > 1 && cl.2.length > 1 then cl.1 else []

def runAnswer (cfg : Config) (contigs : List (ContigIn (Nat × Nat))) : Json :=
  match haplotagPlaced cfg contigs with
  | .error e => Json.mkObj [("error", Json.str (runErrName e)),
      ("contig", match e with | .contigNotInVcf i => ofNat i | _ => Json.null)]
  | .ok w => Json.mkObj [
      ("error", Json.null),
      ("written", ofList (fun (t : Written (Nat × Nat)) =>
        Json.arr #[ofNat t.2.1.rest.1, ofNat t.2.1.rest.2, optNatJ t.2.1.tags.hp, optNatJ t.2.1.tags.pc, optIntJ t.2.1.tags.ps]) w),
      ("list", ofList (fun (l : ListLine) => Json.arr #[Json.str l.name, optNatJ l.hap, optIntJ l.ps, ofNat l.contig]) (listLines w)),
      ("tail", Json.bool cfg.regions.isNone),
      ("ambiguous", ofList (ofList Json.str) (ambiguousNames cfg contigs))]

/-! ### `c10.detect`: the reads haplotag sees (Model/C10Detect.lean = C06's reader as `run_haplotag` configures it) -/

def dCigar? (j : Json) : Option C06.Cigar := do
  (← asArr? j).mapM (fun p => do
    match ← natList? p with
    | [a, b] => some (a, b)
    | _ => none)

def dOpt {α} (f : Json → Option α) (j : Json) (k : String) : Option (Option α) :=
  match j.getObjVal? k with
  | .ok Json.null => some none
  | .ok v => (f v).map some
  | _ => some none

def dAln? (sid : Nat) (j : Json) : Option C06.Aln := do
  some ⟨← getStr? j "name", ← getNat? j "flag", ← getNat? j "mapq", ← dOpt asStr? j "rg", ← getNat? j "start",
        ← dOpt dCigar? j "cigar", (← dOpt asStr? j "query").map String.toList, ← dOpt natList? j "quals",
        (getStr? j "bx").getD "", (getInt? j "hp").getD (-1), ← dOpt asInt? j "ps", sid⟩

def dSource? (sid : Nat) (j : Json) : Option C06.Source := do
  let rgs ← (← getList? j "rgs").mapM (fun g => do
    match ← asArr? g with
    | [Json.str i, Json.null] => some (i, none)
    | [Json.str i, Json.str sm] => some (i, some sm)
    | _ => none)
  let alns ← (← getList? j "alns").mapM (dAln? sid)
  some ⟨rgs, alns⟩

def dRegion? (j : Json) : Option C06.Region := do
  match ← asArr? j with
  | [a, Json.null] => some (← asNat? a, none)
  | [a, b] => some (← asNat? a, some (← asNat? b))
  | _ => none

def dVariant? (j : Json) : Option C06.Variant := do
  match ← asArr? j with
  | [p, r, a] =>
    let alts ← (← asArr? a).mapM asStr?
    some ⟨← asNat? p, (← asStr? r).toList, alts.map String.toList⟩
  | _ => none

def dFixes (j : Json) : C06.Fixes :=
  let l := match getList? j "asis" with | some l => l.filterMap asStr? | none => []
  ⟨!l.contains "F12", !l.contains "F13", !l.contains "F14", !l.contains "F15", !l.contains "F16"⟩

def rerrName : C06.RErr → String
  | .det .index => "IndexError" | .det .assertion => "AssertionError" | .det .value => "ValueError"
  | .typeError => "TypeError" | .keyError => "KeyError" | .sampleNotFound => "SampleNotFoundError" | .psValue => "ValueError"

def detectAnswer (j : Json) : Json :=
  match (getList? j "sources").bind (fun l => (C06.enumFrom 0 l).mapM (fun p => dSource? p.1 p.2)), getBool? j "ignoreRG", getStr? j "sample",
    dOpt (fun v => (asArr? v).bind (·.mapM dRegion?)) j "regions", (getList? j "variants").bind (·.mapM dVariant?), dOpt asStr? j "reference" with
  | some srcs, some irg, some sample, some regions, some vs, some rf =>
    let fx := dFixes j
    let rf := rf.map String.toList
    let errJ (e : Option C06.RErr) : Json := match e with | some e => Json.str (rerrName e) | none => Json.null
    let aligned := haplotagAligned fx srcs irg sample regions vs rf
    let reads := haplotagReads fx srcs irg sample regions vs rf
    let each := (srcs.flatMap (·.alns)).map fun a => match alnAlleles fx vs rf a with
      | .ok r => ofList ofRV r
      | .error e => Json.str (rerrName e)
    Json.mkObj [
      ("alns", match aligned with
        | .ok l => ofList (fun (a : C06.AlignedQ) => Json.arr #[Json.str a.name, Json.bool a.supplementary, Json.bool a.reverse, ofInt a.refStart,
            ofInt a.refEnd, ofList (fun t => ofRV (toRV t)) a.variants]) l
        | .error _ => Json.null),
      ("alnsErr", errJ (match aligned with | .error e => some e | .ok _ => none)),
      ("reads", match reads with
        | .ok l => ofList (fun (r : SetRead) => Json.arr #[Json.str r.name, ofInt r.refStart,
            (match r.bx with | some b => Json.str b | none => Json.null), ofList ofRV r.variants]) l
        | .error _ => Json.null),
      ("readsErr", errJ (match reads with | .error e => some e | .ok _ => none)),
      ("each", Json.arr each.toArray)]
  | _, _, _, _, _, _ => badInput

def handle (op : String) (j : Json) : Option Json :=
  if op == "c10.detect" then some (detectAnswer j) else
  if op == "c10.varinfo" then
    match (getList? j "calls").bind (·.mapM call?) with
    | some calls =>
      let r := variantInfo calls
      some (Json.mkObj [
        ("info", ofList (fun (e : Nat × (Int × List Nat)) => Json.arr #[ofNat e.1, ofInt e.2.1, ofNatList e.2.2]) (resolvedInfo r.1)),
        ("variants", ofNatList r.2)])
    | none => some badInput
  else
  if op == "c10.samples" then
    match (getObj? j "vcf").bind strList?, getBool? j "ignoreRG", (getObj? j "bam").bind strList?, getObj? j "given" with
    | some vcf, some irg, some bam, some g =>
      match (if g.isNull then some none else (strList? g).map some) with
      | none => some badInput
      | some given =>
        let use := samplesToUse vcf given irg
        let shared := match use with
          | .error e => Except.error e
          | .ok u => sharedSamples bam irg u
        let show_ (r : Except RunErr (List String)) : Json := match r with
          | .ok l => ofList Json.str l
          | .error e => Json.mkObj [("error", Json.str (runErrName e))]
        some (Json.mkObj [("use", show_ use), ("shared", show_ shared)])
    | _, _, _, _ => some badInput
  else
  if op == "c10.run" then
    match getNat? j "ploidy", getInt? j "cutoff", getBool? j "ignoreLinked", getBool? j "tagSupp", getBool? j "skipMissing",
      getBool? j "writeMissing", getObj? j "regions", (getList? j "contigs").bind (mapIdxM? contigIn? 0) with
    | some pl, some cutoff, some il, some ts, some sk, some wm, some rg, some contigs =>
      match (if rg.isNull then some none else ((asArr? rg).bind (·.mapM userRegion?)).map some) with
      | none => some badInput
      | some regions => some (runAnswer ⟨pl, cutoff, il, ts, sk, regions, wm⟩ contigs)
    | _, _, _, _, _, _, _, _ => some badInput
  else
  if op == "c10.regions" then
    match (getList? j "user").bind (·.mapM userRegion?),
      (getList? j "contigs").bind (·.mapM fun c => (asArr? c).bind (·.mapM span?)) with
    | some user, some contigs => some (regionsAnswer user contigs)
    | _, _ => some badInput
  else
  if op == "c10.decide" then
    match getNat? j "ploidy", (getObj? j "phase").bind phase?, (getList? j "reads").bind (·.mapM rvs?) with
    | some pl, some info, some reads =>
      some (Json.arr (reads.map fun r => Json.mkObj [
        ("d", ofDecision (tagDecision pl info r)),
        ("adm", ofList ofDecision (admissible pl info r))]).toArray)
    | _, _, _ => some badInput
  else if op == "c10.group" then
    match getInt? j "threshold", getBool? j "repaired", (getList? j "groups").bind (·.mapM fun g => (asArr? g).bind (·.mapM alnRead?)) with
    | some th, some rep, some groups =>
      some (Json.arr (groups.map fun g => match groupRead rep th g with
        | none => Json.null
        | some (st, vs) => Json.arr #[ofInt st, ofList ofRV vs]).toArray)
    | _, _, _ => some badInput
  else if op == "c10.chrom" then
    match getNat? j "ploidy", getInt? j "cutoff", getBool? j "ignoreLinked", getBool? j "tagSupp",
      (getList? j "samples").bind (·.mapM sample?), (getList? j "alns").bind (·.mapM alnView?) with
    | some pl, some cutoff, some il, some ts, some samples, some alns =>
      let st := samples.foldl (fun (st : Prepared) (s : PhaseInfo × List SetRead) =>
        prepare pl s.1 cutoff il { st with processed := [] } s.2) {}
      let cl := samples.flatMap fun s => clouds pl s.1 cutoff il s.2
      let ctx : ChromCtx := ⟨st.readToHap, st.bxToHap, cutoff, il, ts⟩
      let tags := alns.map fun a =>
        (tagAln ctx (⟨(), a.name, a.unmapped, a.secondary, a.supplementary, a.refStart, a.refStart, a.bx, {}⟩ : Aln Unit)).tags
      some (Json.mkObj [
        ("tags", ofList ofTags tags),
        ("nMultiple", ofNat st.nMultiple),
        ("clouds", ofList (fun (c : List String × List Decision) =>
            Json.arr #[ofList Json.str c.1, ofList ofDecision c.2]) cl),
        ("error", match st.error with | some e => Json.str (errName e) | none => Json.null),
        ("readToHap", ofList (fun (e : String × (Nat × Nat × Int)) =>
            Json.arr #[Json.str e.1, ofNat e.2.1, ofNat e.2.2.1, ofInt e.2.2.2]) st.readToHap)])
    | _, _, _, _, _, _ => some badInput
  else none
end WhVerif.Driver.C10

import WhVerif.Util.Proto
import WhVerif.Model.C10
import WhVerif.Model.C10Regions
namespace WhVerif.Driver.C10
open Lean WhVerif.Proto WhVerif.C10

def rv? (j : Json) : Option RV := do
  match ← natList? j with
  | [p, a, q] => some ⟨p, a, q⟩
  | _ => none

def rvs? (j : Json) : Option (List RV) := do (← asArr? j).mapM rv?

def phaseEntry? (j : Json) : Option (Nat × (Int × List Nat)) := do
  match ← asArr? j with
  | [p, ps, ph] => some (← asNat? p, (← asInt? ps, ← natList? ph))
  | _ => none

def phase? (j : Json) : Option PhaseInfo := do (← asArr? j).mapM phaseEntry?

def optStr? (j : Json) : Option (Option String) :=
  match j with
  | Json.null => some none
  | Json.str s => some (some s)
  | _ => none

def ofRV (v : RV) : Json := ofNatList [v.pos, v.allele, v.qual]

def errName : Err → String
  | .keyError => "KeyError" | .assertAllele => "AssertionError" | .indexError => "IndexError"

def ofDecision : Decision → Json
  | .untagged => Json.str "untagged"
  | .tagged h q ps => Json.arr #[Json.str "tagged", ofNat h, ofNat q, ofInt ps]
  | .error e => Json.arr #[Json.str "error", Json.str (errName e)]

/-- decisions for every phase set whose best score equals the largest best score (what a different
iteration order of the `reads_to_consider` set could report) -/
def admissible (ploidy : Nat) (info : PhaseInfo) (rvs : List RV) : List Decision :=
  match accumulate ploidy info [] rvs with
  | .error e => [.error e]
  | .ok sc =>
    match pickSet sc with
    | none => [.untagged]
    | some b => (sc.filter fun e => listMax e.2 == listMax b.2).map fun e => decideScores e.1 e.2

/-- the read clouds formed by `prepare` (names of `reads_to_consider`) with their admissible decisions -/
def clouds (ploidy : Nat) (info : PhaseInfo) (cutoff : Int) (il : Bool) (reads : List SetRead) :
    List (List String × List Decision) :=
  (reads.foldl (fun (acc : Prepared × List (List String × List Decision)) r =>
    let st' := prepareStep ploidy info cutoff il acc.1 r reads
    let names := st'.processed.drop acc.1.processed.length
    if names.isEmpty then (st', acc.2) else
    let rvs := names.flatMap fun n => (reads.filter (·.name == n)).flatMap (·.variants)
    (st', acc.2 ++ [(names, admissible ploidy info rvs)])) (({} : Prepared), [])).2

def alnRead? (j : Json) : Option AlnRead := do
  match ← asArr? j with
  | [s, r, a, b, vs] => some ⟨← asBool? s, ← asBool? r, ← asInt? a, ← asInt? b, ← rvs? vs⟩
  | _ => none

def setRead? (j : Json) : Option SetRead := do
  match ← asArr? j with
  | [n, st, bx, vs] => some ⟨← asStr? n, ← asInt? st, ← optStr? bx, ← rvs? vs⟩
  | _ => none

structure AlnView where
  name : String
  unmapped : Bool
  secondary : Bool
  supplementary : Bool
  refStart : Int
  bx : Option String

def alnView? (j : Json) : Option AlnView := do
  match ← asArr? j with
  | [n, u, s, sp, st, bx] => some ⟨← asStr? n, ← asBool? u, ← asBool? s, ← asBool? sp, ← asInt? st, ← optStr? bx⟩
  | _ => none

def ofTags (t : Tags) : Json :=
  Json.arr #[(match t.hp with | some x => ofNat x | none => Json.null),
             (match t.pc with | some x => ofNat x | none => Json.null),
             (match t.ps with | some x => ofInt x | none => Json.null)]

def sample? (j : Json) : Option (PhaseInfo × List SetRead) := do
  let ph ← phase? (← getObj? j "phase")
  let rs ← (← getList? j "reads").mapM setRead?
  some (ph, rs)

def optInt? (j : Json) : Option (Option Int) := if j.isNull then some none else (asInt? j).map some

def userRegion? (j : Json) : Option (Nat × Region) := do
  match ← asArr? j with
  | [i, s, e] => some (← asNat? i, ← asInt? s, ← optInt? e)
  | _ => none

def span? (j : Json) : Option (Int × Int) := do
  match ← asArr? j with
  | [s, e] => some (← asInt? s, ← asInt? e)
  | _ => none

def ofRegion (r : Region) : Json :=
  Json.arr #[ofInt r.1, match r.2 with | some e => ofInt e | none => Json.null]

/-- `--regions` after F17: the normalised selection and which alignments (contig index, index in the contig)
the write loop emits, by the literal loop (`runRegionsSkip`) and by the abstract one (`runRegions`) -/
def regionsAnswer (user : List (Nat × Region)) (contigs : List (List (Int × Int))) : Json :=
  let chroms : List (Chrom (Nat × Nat)) := contigs.zipIdx.map fun (spans, i) =>
    ⟨⟨[], [], 0, true, false⟩, spans.zipIdx.map fun (se, k) => ⟨(i, k), "", false, false, false, se.1, se.2, none, {}⟩⟩
  let sel := normalizeSel chroms user
  let ofPos (a : Aln (Nat × Nat)) : Json := Json.arr #[ofNat a.rest.1, ofNat a.rest.2]
  Json.mkObj [
    ("norm", ofList (fun (cr : Chrom (Nat × Nat) × List Region) => ofList ofRegion cr.2) sel),
    ("written", ofList ofPos (runRegionsSkip sel)),
    ("once", ofList ofPos (runRegions sel))]

def handle (op : String) (j : Json) : Option Json :=
  if op == "c10.regions" then
    match (getList? j "user").bind (·.mapM userRegion?),
      (getList? j "contigs").bind (·.mapM fun c => (asArr? c).bind (·.mapM span?)) with
    | some user, some contigs => some (regionsAnswer user contigs)
    | _, _ => some badInput
  else
  if op == "c10.decide" then
    match getNat? j "ploidy", (getObj? j "phase").bind phase?, (getList? j "reads").bind (·.mapM rvs?) with
    | some pl, some info, some reads =>
      some (Json.arr (reads.map fun r => Json.mkObj [
        ("d", ofDecision (tagDecision pl info r)),
        ("adm", ofList ofDecision (admissible pl info r))]).toArray)
    | _, _, _ => some badInput
  else if op == "c10.group" then
    match getInt? j "threshold", getBool? j "repaired", (getList? j "groups").bind (·.mapM fun g => (asArr? g).bind (·.mapM alnRead?)) with
    | some th, some rep, some groups =>
      some (Json.arr (groups.map fun g => match groupRead rep th g with
        | none => Json.null
        | some (st, vs) => Json.arr #[ofInt st, ofList ofRV vs]).toArray)
    | _, _, _ => some badInput
  else if op == "c10.chrom" then
    match getNat? j "ploidy", getInt? j "cutoff", getBool? j "ignoreLinked", getBool? j "tagSupp",
      (getList? j "samples").bind (·.mapM sample?), (getList? j "alns").bind (·.mapM alnView?) with
    | some pl, some cutoff, some il, some ts, some samples, some alns =>
      let st := samples.foldl (fun (st : Prepared) (s : PhaseInfo × List SetRead) =>
        prepare pl s.1 cutoff il { st with processed := [] } s.2) {}
      let cl := samples.flatMap fun s => clouds pl s.1 cutoff il s.2
      let ctx : ChromCtx := ⟨st.readToHap, st.bxToHap, cutoff, il, ts⟩
      let tags := alns.map fun a =>
        (tagAln ctx (⟨(), a.name, a.unmapped, a.secondary, a.supplementary, a.refStart, a.refStart, a.bx, {}⟩ : Aln Unit)).tags
      some (Json.mkObj [
        ("tags", ofList ofTags tags),
        ("nMultiple", ofNat st.nMultiple),
        ("clouds", ofList (fun (c : List String × List Decision) =>
            Json.arr #[ofList Json.str c.1, ofList ofDecision c.2]) cl),
        ("error", match st.error with | some e => Json.str (errName e) | none => Json.null),
        ("readToHap", ofList (fun (e : String × (Nat × Nat × Int)) =>
            Json.arr #[Json.str e.1, ofNat e.2.1, ofNat e.2.2.1, ofInt e.2.2.2]) st.readToHap)])
    | _, _, _, _, _, _ => some badInput
  else none
end WhVerif.Driver.C10

import WhVerif.Util.Proto
namespace WhVerif.Driver.C10
open Lean WhVerif.Proto
/-- ops of property C10 are named `c10.<name>`; return `none` for ops that are not ours -/
def handle (_op : String) (_j : Json) : Option Json := none
end WhVerif.Driver.C10

import WhVerif.Util.Proto
import WhVerif.Model.C15
import WhVerif.Model.C15Glue
import WhVerif.Model.C15Solve
import WhVerif.Model.C15Deep
namespace WhVerif.Driver.C15
open Lean WhVerif.Proto WhVerif.C15

/-- IEEE double instance of the cut arithmetic (what CPython's `float`, `math.log`, `<=` do) -/
def floatArith : ConfArith Float Float where
  isZero c := c == 0.0
  log := Float.log
  zero := 0.0
  add := (· + ·)
  le a b := decide (a ≤ b)
  threshold B :=
    match B with
    | 0 => -(1.0 / 0.0)
    | 1 => -(1.0 / 0.0)
    | 2 => Float.log 0.5
    | 3 => Float.log 0.5
    | 4 => Float.log 0.99
    | _ => 0.0

def ofIntListList (l : List (List Int)) : Json := ofList ofIntList l
def ofNatListList (l : List (List Nat)) : Json := ofList ofNatList l

def stepJson : ForceStep → Json
  | .skipUndetermined => Json.mkObj [("step", Json.str "skip")]
  | .nothingAbundant => Json.mkObj [("step", Json.str "none")]
  | .choose aff ins => Json.mkObj [("step", Json.str "choose"), ("affected", ofNatList aff), ("insert", ofIntList ins)]

def verdictStr : Verdict → String
  | .unchangedUndetermined => "unchanged-undetermined"
  | .unchangedNothingAbundant => "unchanged-nothing-abundant"
  | .perm => "perm"
  | .fallback => "fallback"
  | .inadmissible => "inadmissible"

/-- a breakpoint `[position, [haplotypes], bits of the double]` -/
def parseBp (j : Json) : Option (Breakpoint Float) := do
  match ← asArr? j with
  | [p, hs, c] =>
    let bits ← asNat? c
    some ⟨← asNat? p, ← natList? hs, Float.ofBits (UInt64.ofNat bits)⟩
  | _ => none


/-! ### glue / solver-structure ops -/

def parseRec (j : Json) : Option VRec := do
  match ← asArr? j with
  | [p, na, sa, sf, gt, ph] =>
    some ⟨← asNat? p, ← asNat? na, ← asBool? sa, ← asBool? sf, ← intList? gt, ← asBool? ph⟩
  | _ => none

def parseCfg (j : Json) : Option Cfg := do
  let c ← getObj? j "cfg"
  some ⟨← getNat? c "ploidy", ← getBool? c "mav", ← getBool? c "only_snvs", ← getNat? c "max_alleles",
        ← getNat? c "max_ploidy", ← getNat? c "min_overlap"⟩

def parseRead (j : Json) : Option PRead := do
  (← asArr? j).mapM (fun v => do
    match ← asArr? v with
    | [p, a] => some (← asNat? p, ← asInt? a)
    | _ => none)

def recJson (r : VRec) : Json := Json.arr #[ofNat r.pos, ofIntList r.gt]
def dictJson (d : List (Allele × Nat)) : Json := ofList (fun e => Json.arr #[ofInt e.1, ofNat e.2]) d
def callJson (o : OutCall) : Json := Json.arr #[ofIntList o.gt, Json.bool o.phased, ofOptNat o.ps]

def bpJson (b : Breakpoint Float) : Json :=
  Json.arr #[ofNat b.position, ofNatList b.haplotypes, ofNat b.confidence.toBits.toNat]

/-- `k * pow((k - 2) / k, i) < 0.02` in IEEE doubles -/
def smallF (k i : Nat) : Bool :=
  decide (k.toFloat * Float.pow ((k.toFloat - 2.0) / k.toFloat) i.toFloat < 0.02)

def parseSub (j : Json) : Option (List Nat × List Nat × List (Breakpoint Float)) := do
  match ← asArr? j with
  | [snps, ts, bps] => some (← natList? snps, ← natList? ts, ← (← asArr? bps).mapM parseBp)
  | _ => none

def parseBlock (j : Json) : Option (BlockBps Float) := do
  match ← asArr? j with
  | [n, bps] => some ⟨← asNat? n, ← (← asArr? bps).mapM parseBp⟩
  | _ => none

def parseStep (j : Json) : Option (List Nat × List Int) := do
  match ← asArr? j with
  | [ts, sub] => some (← natList? ts, ← intList? sub)
  | _ => none

def parseScored (j : Json) : Option (List Nat × Float) := do
  match ← asArr? j with
  | [k, v] => some (← natList? k, Float.ofBits (UInt64.ofNat (← asNat? v)))
  | _ => none

def handleGlue (op : String) (j : Json) : Option Json :=
  if op == "c15.readtable" then
    match parseCfg j, (getList? j "recs").bind (·.mapM parseRec) with
    | some c, some recs =>
      match readTable c recs with
      | .ok t => some (Json.mkObj [("ok", ofList recJson t)])
      | .error .notSorted => some (Json.mkObj [("error", Json.str "not-sorted")])
      | .error .ploidy => some (Json.mkObj [("error", Json.str "ploidy")])
    | _, _ => some badInput
  else if op == "c15.glue" then
    -- table: rows of the variant table of the chromosome (for the sample); reads: what the BAM reader returned
    match parseCfg j, (getList? j "table").bind (·.mapM parseRec), (getList? j "reads").bind (·.mapM parseRead) with
    | some c, some table, some reads =>
      let het := ofList recJson (phasable table)
      match glue c table reads with
      | .fewVariants => some (Json.mkObj [("kind", Json.str "few-variants"), ("het", het)])
      | .noReads => some (Json.mkObj [("kind", Json.str "no-reads"), ("het", het)])
      | .solve cols rows gl kept =>
        some (Json.mkObj [("kind", Json.str "solve"), ("het", het), ("cols", ofNatList cols), ("rows", ofList recJson rows),
          ("genotypes", ofList dictJson gl), ("nkept", ofNat kept.length),
          ("expanded", ofList (fun d => ofIntList (dictExpand d)) gl)])
    | _, _, _ => some badInput
  else if op == "c15.write" then
    -- recs of the chromosome, cols + haps (result columns), comps: [[key, value]…] of the component dict
    match parseCfg j, getBool? j "repaired", (getList? j "recs").bind (·.mapM parseRec), getNatList? j "cols",
          (getObj? j "haps").bind intListList?, (getObj? j "comps").bind natListList? with
    | some c, some rep, some recs, some cols, some haps, some comps =>
      let lookup := fun p => (comps.find? (fun e => e.head? == some p)).bind (fun e => e.getD 1 0 |> some)
      let ph := phasesOf c.mav cols haps
      some (Json.mkObj [("calls", ofList callJson (writeLoop rep c ph lookup none recs)),
                        ("phases", ofList (fun e => Json.arr #[ofNat e.1, ofIntList e.2]) ph)])
    | _, _, _, _, _, _ => some badInput
  else if op == "c15.cutthreshold" then
    some (ofList (fun k => Json.arr #[ofNat (cutThreshold smallF k false), ofNat (cutThreshold smallF k true)])
      (List.range' 2 14))
  else if op == "c15.blockstarts" then
    match (getObj? j "reads").bind natListList?, getNat? j "num_vars", getNat? j "ploidy", getBool? j "single_linkage",
          (getObj? j "genotypes").bind natListList? with
    | some reads, some n, some k, some sl, some gl =>
      let starts := computeBlockStarts smallF reads n k sl
      some (Json.mkObj [("starts", ofNatList starts), ("blocks", ofList (fun se => ofNatList [se.1, se.2]) (blocks starts n)),
                        ("slices", ofList ofNatListList ((blocks starts n).map (slice gl)))])
    | _, _, _, _, _ => some badInput
  else if op == "c15.singleton" then
    match getIntList? j "gv" with
    | some gv => some (ofIntList (singletonCol gv))
    | _ => some badInput
  else if op == "c15.writeback" then
    -- col: column after threading; steps: [[thread_set, sub-result column]…] in the order of the sub-instances
    match getIntList? j "col", (getList? j "steps").bind (·.mapM parseStep) with
    | some col, some steps =>
      let out := steps.foldl (fun c s => assign c s.1 s.2) col
      let used := steps.flatMap (·.1)
      some (Json.mkObj [("out", ofIntList out), ("subgenotypes", ofList (fun s => ofIntList (extractPerm s.1 col)) steps),
                        ("disjoint", Json.bool ((used.eraseDups.length == used.length) && used.all (fun t => decide (t < col.length))))])
    | _, _ => some badInput
  else if op == "c15.integrate" then
    match (getObj? j "threads").bind natListList?, (getList? j "subs").bind (·.mapM parseSub) with
    | some threads, some subs =>
      some (Json.mkObj [("find", ofList bpJson (findBreakpoints (0.0 : Float) threads)),
                        ("out", ofList bpJson (integrateBreakpoints (0.0 : Float) (· * ·) threads subs))])
    | _, _ => some badInput
  else if op == "c15.aggregate" then
    match getNat? j "ploidy", getNatList? j "borders", (getList? j "blocks").bind (·.mapM parseBlock) with
    | some k, some borders, some bl =>
      some (Json.mkObj [("bps", ofList bpJson (aggregateBps (0.0 : Float) k borders 0 bl)), ("total", ofNat (totalCols bl))])
    | _, _, _ => some badInput
  else if op == "c15.assignments" then
    -- lllh: per breakpoint the dict items in iteration order [[key, score bits]…]
    match getNat? j "ploidy", (getList? j "lllh").bind (·.mapM (fun b => (asArr? b).bind (·.mapM parseScored))) with
    | some k, some lllh =>
      let choices := lllh.map (fun d => (firstMax (fun (a b : Float) => decide (a < b)) none d).getD [])
      some (Json.mkObj [("choices", ofNatListList choices), ("assignments", ofNatListList (optimalAssignments k choices))])
    | _, _ => some badInput
  else none

/-! ### round 10: sub-instances, haploid sets, stage order -/

def subJson (s : SubInst) : Json := Json.arr #[ofNat s.cid, ofNatList s.ts, ofNatList s.snps]

/-- `[cid, [[local positions of a read]…]]` -/
def parseCReads (j : Json) : Option (Nat × List (List Nat)) := do
  match ← asArr? j with
  | [c, rs] => some (← asNat? c, ← natListList? rs)
  | _ => none

def hasReadsOf (creads : List (Nat × List (List Nat))) (s : SubInst) : Bool :=
  subHasReads ((creads.find? (fun e => e.1 == s.cid)).map (·.2) |>.getD []) s.snps

/-- `[ts, snps, result columns]` -/
def parsePair (j : Json) : Option (SubInst × List (List Int)) := do
  match ← asArr? j with
  | [ts, snps, res] => some (⟨0, ← natList? ts, ← natList? snps⟩, ← intListList? res)
  | _ => none

def parseHsCall (j : Json) : Option (Bool × Bool × Option (List Nat)) := do
  match ← asArr? j with
  | [a, b, c] => some (← asBool? a, ← asBool? b, if c.isNull then none else natList? c)
  | _ => none

def hsJson : HsOut → Json
  | .absent => Json.str "absent"
  | .missing => Json.str "."
  | .empty => Json.str ""
  | .values l => ofNatList l

/-- `[col, gv, out]` of a recorded `force_genotypes` column -/
def parseForced (j : Json) : Option (List Int × List Int × List Int) := do
  match ← asArr? j with
  | [a, b, c] => some (← intList? a, ← intList? b, ← intList? c)
  | _ => none

/-- `[ploidy, [sub-genotypes], [result columns]]` of a recorded recursive solve -/
def parseSubSolve (j : Json) : Option (Nat × List (List Int) × List (List Int)) := do
  match ← asArr? j with
  | [k, g, r] => some (← asNat? k, ← intListList? g, ← intListList? r)
  | _ => none

def handleDeep (op : String) (j : Json) : Option Json :=
  if op == "c15.subinstances" then
    match (getObj? j "threads").bind natListList?, (getObj? j "cols").bind intListList?, getNat? j "ploidy",
          (getList? j "creads").bind (·.mapM parseCReads) with
    | some threads, some cols, some k, some creads =>
      let subs := findSubinstances (hasReadsOf creads) k threads cols
      some (Json.mkObj [("collapsed", ofList subJson (findCollapsed threads cols)), ("subs", ofList subJson subs),
                        ("subgenotypes", ofList (fun s => ofIntListList (subGenotypes cols s)) subs)])
    | _, _, _, _ => some badInput
  else if op == "c15.integratehaps" then
    match (getObj? j "cols").bind intListList?, (getList? j "pairs").bind (·.mapM parsePair) with
    | some cols, some pairs => some (ofIntListList (integrateHaps cols pairs))
    | _, _ => some badInput
  else if op == "c15.haploid" then
    match getNatList? j "acc", getNatList? j "cuts", (getObj? j "hap_cuts").bind natListList?, getNat? j "num_vars" with
    | some acc, some cuts, some hc, some n =>
      let keys := ((componentWrites acc n cuts).map (·.1)).eraseDups
      some (ofList (fun k => Json.arr #[ofNat k, ofNatList ((haploidDict acc n cuts hc k).getD [])]) keys)
    | _, _, _, _ => some badInput
  else if op == "c15.hs" then
    match getBool? j "repaired", getNat? j "ploidy", (getList? j "calls").bind (·.mapM parseHsCall) with
    | some rep, some k, some calls => some (ofList (fun c => hsJson (hsOfCall rep k c.1 c.2.1 c.2.2)) calls)
    | _, _, _ => some badInput
  else if op == "c15.block" then
    -- replay of one `phase_single_block` call: every heuristic is the table of what the real run did
    match getNat? j "ploidy", (getObj? j "gts").bind intListList?, (getObj? j "threads").bind natListList?,
          (getObj? j "cols0").bind intListList?, (getList? j "forced").bind (·.mapM parseForced),
          (getList? j "creads").bind (·.mapM parseCReads), (getList? j "subsolves").bind (·.mapM parseSubSolve),
          getNatList? j "bps", (getObj? j "perms").bind natListList? with
    | some k, some gts, some threads, some cols0, some forced, some creads, some subsolves, some bps, some perms =>
      let H : Heur := {
        thread := fun _ _ => (threads, cols0)
        pick := fun col gv aff _ =>
          match forced.find? (fun e => e.1 == col && e.2.1 == gv) with
          | some e => extractPerm aff e.2.2
          | none => []
        hasReads := hasReadsOf creads
        reorder := fun _ _ => (bps, perms)
        labels := fun _ gl => List.replicate gl.length 0 }
      let solveSub := fun (k' : Nat) (g : List (List Int)) =>
        match subsolves.find? (fun e => e.1 == k' && e.2.1 == g) with
        | some e => e.2.2
        | none => []
      some (ofIntListList (phaseBlock H solveSub k gts))
    | _, _, _, _, _, _, _, _, _ => some badInput
  else none

def handle (op : String) (j : Json) : Option Json :=
  if let some r := handleGlue op j then some r
  else if let some r := handleDeep op j then some r
  else if op == "c15.force" then
    -- one column: col, gv (genotype expanded to a list of alleles), out (column returned by the real code)
    match getIntList? j "col", getIntList? j "gv", getIntList? j "out" with
    | some col, some gv, some out =>
      some ((stepJson (forceStep col gv)).setObjVal! "verdict" (Json.str (verdictStr (classify col gv out))))
    | _, _, _ => some badInput
  else if op == "c15.permute" then
    match (getObj? j "cols").bind intListList?, getNatList? j "bps", (getObj? j "perms").bind natListList? with
    | some cols, some bps, some perms => some (ofIntListList (permuteBlocks cols bps perms))
    | _, _, _ => some badInput
  else if op == "c15.cuts" then
    match (getList? j "bps").bind (·.mapM parseBp), getNat? j "ploidy", getNat? j "B" with
    | some bps, some ploidy, some B =>
      let r := computeCutPositions floatArith bps ploidy B
      some (Json.mkObj [("cuts", ofNatList r.1), ("hap_cuts", ofNatListList r.2)])
    | _, _, _ => some badInput
  else if op == "c15.thresholds" then
    some (ofNatList ((List.range 6).map (fun B => (floatArith.threshold B).toBits.toNat)))
  else if op == "c15.components" then
    -- acc: accessible positions, cuts, cols: haplotype columns (for phased_pos)
    match getNatList? j "acc", getNatList? j "cuts", (getObj? j "cols").bind intListList? with
    | some acc, some cuts, some cols =>
      let w := componentWrites acc acc.length cuts
      let keys := (w.map (·.1)).eraseDups
      let dict := keys.map (fun k => ofNatList [k, (dictGet w k).getD 0])
      some (Json.mkObj [("dict", Json.arr dict.toArray), ("phased", ofNatList (phasedPos cols))])
    | _, _, _ => some badInput
  else none
end WhVerif.Driver.C15

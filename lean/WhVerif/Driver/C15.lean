import WhVerif.Util.Proto
namespace WhVerif.Driver.C15
open Lean WhVerif.Proto
/-- ops of property C15 are named `c15.<name>`; return `none` for ops that are not ours -/
def handle (_op : String) (_j : Json) : Option Json := none
end WhVerif.Driver.C15

import WhVerif.Util.Proto
import WhVerif.Model.C15
namespace WhVerif.Driver.C15
open Lean WhVerif.Proto WhVerif.C15

/-- IEEE double instance of the cut arithmetic (what CPython's `float`, `math.log`, `<=` do) -/
def floatArith : ConfArith Float Float where
  isZero c := c == 0.0
  log := Float.log
  zero := 0.0
  add := (· + ·)
  le a b := decide (a ≤ b)
  threshold B :=
    match B with
    | 0 => -(1.0 / 0.0)
    | 1 => -(1.0 / 0.0)
    | 2 => Float.log 0.5
    | 3 => Float.log 0.5
    | 4 => Float.log 0.99
    | _ => 0.0

def ofIntListList (l : List (List Int)) : Json := ofList ofIntList l
def ofNatListList (l : List (List Nat)) : Json := ofList ofNatList l

def stepJson : ForceStep → Json
  | .skipUndetermined => Json.mkObj [("step", Json.str "skip")]
  | .nothingAbundant => Json.mkObj [("step", Json.str "none")]
  | .choose aff ins => Json.mkObj [("step", Json.str "choose"), ("affected", ofNatList aff), ("insert", ofIntList ins)]

def verdictStr : Verdict → String
  | .unchangedUndetermined => "unchanged-undetermined"
  | .unchangedNothingAbundant => "unchanged-nothing-abundant"
  | .perm => "perm"
  | .fallback => "fallback"
  | .inadmissible => "inadmissible"

/-- a breakpoint `[position, [haplotypes], bits of the double]` -/
def parseBp (j : Json) : Option (Breakpoint Float) := do
  match ← asArr? j with
  | [p, hs, c] =>
    let bits ← asNat? c
    some ⟨← asNat? p, ← natList? hs, Float.ofBits (UInt64.ofNat bits)⟩
  | _ => none

def handle (op : String) (j : Json) : Option Json :=
  if op == "c15.force" then
    -- one column: col, gv (genotype expanded to a list of alleles), out (column returned by the real code)
    match getIntList? j "col", getIntList? j "gv", getIntList? j "out" with
    | some col, some gv, some out =>
      some ((stepJson (forceStep col gv)).setObjVal! "verdict" (Json.str (verdictStr (classify col gv out))))
    | _, _, _ => some badInput
  else if op == "c15.permute" then
    match (getObj? j "cols").bind intListList?, getNatList? j "bps", (getObj? j "perms").bind natListList? with
    | some cols, some bps, some perms => some (ofIntListList (permuteBlocks cols bps perms))
    | _, _, _ => some badInput
  else if op == "c15.cuts" then
    match (getList? j "bps").bind (·.mapM parseBp), getNat? j "ploidy", getNat? j "B" with
    | some bps, some ploidy, some B =>
      let r := computeCutPositions floatArith bps ploidy B
      some (Json.mkObj [("cuts", ofNatList r.1), ("hap_cuts", ofNatListList r.2)])
    | _, _, _ => some badInput
  else if op == "c15.thresholds" then
    some (ofNatList ((List.range 6).map (fun B => (floatArith.threshold B).toBits.toNat)))
  else if op == "c15.components" then
    -- acc: accessible positions, cuts, cols: haplotype columns (for phased_pos)
    match getNatList? j "acc", getNatList? j "cuts", (getObj? j "cols").bind intListList? with
    | some acc, some cuts, some cols =>
      let w := componentWrites acc acc.length cuts
      let keys := (w.map (·.1)).eraseDups
      let dict := keys.map (fun k => ofNatList [k, (dictGet w k).getD 0])
      some (Json.mkObj [("dict", Json.arr dict.toArray), ("phased", ofNatList (phasedPos cols))])
    | _, _, _ => some badInput
  else none
end WhVerif.Driver.C15

import WhVerif.Util.Proto
namespace WhVerif.Driver.C02
open Lean WhVerif.Proto
/-- ops of property C02 are named `c02.<name>`; return `none` for ops that are not ours -/
def handle (_op : String) (_j : Json) : Option Json := none
end WhVerif.Driver.C02

import WhVerif.Util.Proto
import WhVerif.Spec.C02Raw
import WhVerif.Model.C02Bam
import WhVerif.Driver.C01
import WhVerif.Driver.C06
import WhVerif.Model.C02Stage
namespace WhVerif.Driver.C02
open Lean WhVerif.Proto WhVerif.C01 WhVerif.C02

def pair? (j : Json) : Option (Nat × Nat) := do
  match ← asArr? j with
  | [a, b] => some (← asNat? a, ← asNat? b)
  | _ => none

def rg? (j : Json) : Option WhVerif.C02Bam.RG := do
  match ← asArr? j with
  | [i, Json.null] => some ⟨← asStr? i, none⟩
  | [i, sm] => some ⟨← asStr? i, some (← asStr? sm)⟩
  | _ => none

def aln? (j : Json) : Option WhVerif.C02Bam.Aln := do
  match ← asArr? j with
  | [n, g] => some ⟨← asStr? n, ← asStr? g⟩
  | _ => none

def bamFile? (j : Json) : Option WhVerif.C02Bam.BamFile := do
  some ⟨← (← getList? j "rgs").mapM rg?, ← (← getList? j "alns").mapM aln?⟩

def bool? : Json → Option Bool
  | Json.bool b => some b
  | _ => none

def ofPRead (r : WhVerif.C06.ReadOut) : Json :=
  Json.arr #[ofNat r.sourceId, Json.str r.name, ofList (fun (v : Nat × Nat × Int) => Json.arr #[ofNat v.1, ofNat v.2.1, ofInt v.2.2]) r.variants]

def rankKey? (j : Json) : Option (Nat × String) := do
  match ← asArr? j with
  | [a, b] => some (← asNat? a, ← asStr? b)
  | _ => none

/-- `c02.pipeline {"cfg", "sources", "sample", "variants", "reference", "asis"` as for `c06.read`, `"cap": n, "order": [[source id, name]…],
    "sel": [indices]|null}`: the composed stage model `C02S.samplePipeline` (C06 reader → `ReadSet::sort` with the hash order taken
    from "order" → `len >= 2` filter → C07 selection with the first tie choices → `accessible_positions`); with "sel" also the solver
    input for THAT selection of the model's candidates (`selectReads`, `defaultPositions`) -/
def handlePipeline (j : Json) : Json :=
  match WhVerif.Driver.C06.readCfg? j, WhVerif.Driver.C06.sources? j, WhVerif.Driver.C06.optStr? j "sample",
        WhVerif.Driver.C06.getVariants? j "variants", WhVerif.Driver.C06.optStr? j "reference", getNat? j "cap",
        (getList? j "order").bind (·.mapM rankKey?) with
  | some cfg, some srcs, some sample, some vs, some rf, some cap, some order =>
    let rank : WhVerif.C06.ReadOut → Nat := fun r => (order.findIdx? (fun k => k.1 == r.sourceId && k.2 == r.name)).getD order.length
    match WhVerif.C02S.samplePipeline cfg srcs sample vs (rf.map String.toList) rank cap [] [] with
    | .error (.read e) => Json.mkObj [("err", WhVerif.Driver.C06.rerrJson e)]
    | .error (.stage _) => Json.mkObj [("err", Json.str "stage")]
    | .ok out =>
      let base := [("err", Json.null), ("reads", ofList ofPRead out.reads), ("cands", ofList ofPRead out.stage.cands),
                   ("sel", ofNatList out.stage.selIdx), ("positions", ofNatList out.positions)]
      let withSel := match getNatList? j "sel" with
        | some sel =>
          let raws := selectReads (out.stage.cands.map WhVerif.C02S.toRaw) sel
          base ++ [("sel_reads", ofList (fun (r : RawRead) => ofList (fun v => ofNatList [v.1, v.2.1, v.2.2]) r.variants) raws),
                   ("sel_positions", ofNatList (defaultPositions raws))]
        | none => base
      Json.mkObj withSel
  | _, _, _, _, _, _, _ => badInput

/-- ops of property C02 are named `c02.<name>`; return `none` for ops that are not ours.
    `c02.errfree {"raw": R, "truth": [[pos, allele on haplotype 0]…], "src": [true = haplotype 1, …]}`: the precondition of the
    solver theorems (`rawPreconditionB`, sound by `Props.C02.checked_precondition_sound`) on a traced solver input, with its
    parts for diagnosis; `c02.select {"cands": [reads], "sel": [indices]}`: the kept reads (`selectReads`) -/
def handle (op : String) (j : Json) : Option Json :=
  if op == "c02.errfree" then
    match (getObj? j "raw").bind WhVerif.Driver.C01.parseRaw, (getList? j "truth").bind (·.mapM pair?),
          (getList? j "src").bind (·.mapM bool?) with
    | some R, some truth, some src =>
      let positions := R.positions.getD (defaultPositions R.reads)
      let hapAt := hapAtOf truth
      let srcF : Nat → Bool := fun k => src.getD k false
      some (Json.mkObj [
        ("ok", Json.bool (rawPreconditionB positions R.reads R.nind R.trios R.geno R.recomb hapAt srcF)),
        ("mkinst", Json.bool (mkInst positions R.reads R.nind R.trios R.geno R.recomb).isSome),
        ("geno", Json.bool (R.geno == hetGeno positions.length)),
        ("truth01", Json.bool (positions.all fun p => decide (hapAt p ≤ 1))),
        ("errfree", Json.bool (rawErrFreeB R.reads hapAt srcF))])
    | _, _, _ => some badInput
  else if op == "c02.select" then
    match (getObj? j "cands").bind (fun c => (getObj? (Json.mkObj [("reads", c), ("nind", ofNat 1), ("trios", Json.arr #[]),
              ("geno", Json.arr #[]), ("recomb", Json.arr #[])]) "reads")), getNatList? j "sel" with
    | some _, some sel =>
      match (getObj? j "cands").bind (fun c => WhVerif.Driver.C01.parseRaw (Json.mkObj [("reads", c), ("nind", ofNat 1),
              ("trios", Json.arr #[]), ("geno", Json.arr #[]), ("recomb", Json.arr #[])])) with
      | some R =>
        some (ofList (fun (r : RawRead) => Json.mkObj [("ind", ofNat r.ind),
          ("variants", ofList (fun v => ofNatList [v.1, v.2.1, v.2.2]) r.variants)]) (selectReads R.reads sel))
      | none => some badInput
    | _, _ => some badInput
  else if op == "c02.pipeline" then some (handlePipeline j)
  else if op == "c02.fetch" then
    -- {"files": [{"rgs": [[id, SM|null]…], "alns": [[name, RG tag]…]}…], "sample": s}: the reads taken for the sample as
    -- {"reads": [[source_id, name]…]} (`Model/C02Bam.fetch`), {"reads": null} = SampleNotFoundError
    match (getList? j "files").bind (·.mapM bamFile?), getStr? j "sample" with
    | some files, some s =>
      match WhVerif.C02Bam.fetch files s with
      | some rs => some (Json.mkObj [("reads", ofList (fun (x : Nat × WhVerif.C02Bam.Aln) => Json.arr #[ofNat x.1, Json.str x.2.name]) rs)])
      | none => some (Json.mkObj [("reads", Json.null)])
    | _, _ => some badInput
  else none
end WhVerif.Driver.C02

import WhVerif.Util.Proto
namespace WhVerif.Driver.C16
open Lean WhVerif.Proto
/-- ops of property C16 are named `c16.<name>`; return `none` for ops that are not ours -/
def handle (_op : String) (_j : Json) : Option Json := none
end WhVerif.Driver.C16

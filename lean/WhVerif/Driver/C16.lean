import WhVerif.Util.Proto
import WhVerif.Model.C16
namespace WhVerif.Driver.C16
open Lean WhVerif.Proto WhVerif.C16

/-- a read `[hasVariants(0/1), firstPos, nameHash, [name code units], sourceId]` -/
def parseRead (j : Json) : Option ReadKey := do
  match ← asArr? j with
  | [hv, fp, h, nm, sid] =>
    some ⟨(← asNat? hv) != 0, ← asNat? fp, ← asNat? h, ← natList? nm, ← asInt? sid⟩
  | _ => none

/-- ops of property C16 are named `c16.<name>` -/
def handle (op : String) (j : Json) : Option Json :=
  if op == "c16.sort" then
    match (getList? j "reads").bind (·.mapM parseRead) with
    | some rs =>
      let sorted := sortReads (rs.map (fun r => (r, ())))
      some (Json.arr (sorted.map (fun r => Json.arr #[ofNatList r.1.name, ofInt r.1.sourceId])).toArray)
    | none => some badInput
  else none
end WhVerif.Driver.C16

import WhVerif.Util.Proto
import WhVerif.Model.C16
import WhVerif.Model.C16Select
import WhVerif.Model.C16Largest
namespace WhVerif.Driver.C16
open Lean WhVerif.Proto WhVerif.C16

/-- a read `[hasVariants(0/1), firstPos, nameHash, [name code units], sourceId]` -/
def parseRead (j : Json) : Option ReadKey := do
  match ← asArr? j with
  | [hv, fp, h, nm, sid] =>
    some ⟨(← asNat? hv) != 0, ← asNat? fp, ← asNat? h, ← natList? nm, ← asInt? sid⟩
  | _ => none

/-- a read with its selection payload `[hasVariants, firstPos, nameHash, name, sourceId, [positions], [qualities], preferred]` -/
def parseSelRead (j : Json) : Option SelRead := do
  match ← asArr? j with
  | [hv, fp, h, nm, sid, ps, qs, pf] =>
    some (⟨(← asNat? hv) != 0, ← asNat? fp, ← asNat? h, ← natList? nm, ← asInt? sid⟩,
          { pos := ← natList? ps, qual := ← intList? qs, pref := (← asNat? pf) != 0 })
  | _ => none

def outJson : WhVerif.C07.Outcome → Json
  | .valueError => Json.str "ValueError"
  | .misuse => Json.str "misuse"
  | .outOfFuel => Json.str "outOfFuel"
  | .ok sel => ofNatList (WhVerif.C07.sortNat sel)

/-- ops of property C16 are named `c16.<name>` -/
def handle (op : String) (j : Json) : Option Json :=
  if op == "c16.sort" then
    match (getList? j "reads").bind (·.mapM parseRead) with
    | some rs =>
      let sorted := sortReads (rs.map (fun r => (r, ())))
      some (Json.arr (sorted.map (fun r => Json.arr #[ofNatList r.1.name, ofInt r.1.sourceId])).toArray)
    | none => some badInput
  else if op == "c16.select" then
    match (getList? j "reads").bind (·.mapM parseSelRead), getNat? j "k", getBool? j "bridging" with
    | some rs, some k, some br =>
      let sorted := sortReads rs
      some (Json.mkObj [("sorted", Json.arr (sorted.map (fun r => Json.arr #[ofNatList r.1.name, ofInt r.1.sourceId])).toArray),
                        ("outcomes", ofList outJson (selectOutcomes true rs k br)),
                        ("first", outJson (selectAfterSort true rs k br []))])
    | _, _, _ => some badInput
  else if op == "c16.largest" then
    -- rows `[read, haplotype (0 = none), phase set, chromosome]` of a haplotag list; `enum` (optional): an enumeration of
    -- phase set names for `maxOverEnum` on the tagged phase sets of chromosome `chrom`
    let parseRow (r : Json) : Option TagRow := do
      match ← natList? r with
      | [a, b, c, d] => some ⟨a, b, c, d⟩
      | _ => none
    match (getList? j "rows").bind (·.mapM parseRow) with
    | some rows =>
      let blocks := largestBlocks rows
      let base := [("blocks", ofList (fun (b : Nat × Nat × Nat) => ofNatList [b.1, b.2.1, b.2.2]) blocks),
                   ("selected", ofNatList (WhVerif.C07.sortNat (selectedReads rows)))]
      match getNatList? j "enum", getNat? j "chrom" with
      | some e, some c => some (Json.mkObj (base ++ [("maxOverEnum", ofOptNat (maxOverEnum e (taggedPs rows c)))]))
      | _, _ => some (Json.mkObj base)
    | none => some badInput
  else none
end WhVerif.Driver.C16

import WhVerif.Util.Proto
import WhVerif.Model.C07
import WhVerif.Spec.C07
import WhVerif.Model.C07Pipe
import WhVerif.Model.C07Opts
import WhVerif.Model.C07Cov
namespace WhVerif.Driver.C07
open Lean WhVerif.Proto WhVerif.C07

/-- a read is `[[positions], [qualities], preferred(0/1)]` -/
def parseRead (j : Json) : Option Read := do
  match (← asArr? j) with
  | [p, q, f] => some { pos := (← natList? p), qual := (← intList? q), pref := (← asNat? f) != 0 }
  | _ => none

def parseReads (j : Json) (k : String) : Option (List Read) := do (← getList? j k).mapM parseRead

def outJson : Outcome → Json
  | .valueError => Json.str "ValueError"
  | .misuse => Json.str "misuse"
  | .outOfFuel => Json.str "outOfFuel"
  | .ok sel => ofNatList (sortNat sel)

/-- a read of a sample's read set: `[source_id, [positions], [qualities]]` -/
def parseSRead (j : Json) : Option SRead := do
  match (← asArr? j) with
  | [s, p, q] => some ⟨← asNat? s, ← natList? p, ← intList? q⟩
  | _ => none

def stageErrJson : StageErr → Json
  | .valueError => Json.str "ValueError"
  | .misuse => Json.str "misuse"
  | .outOfFuel => Json.str "outOfFuel"

def dedupJson (l : List Json) : List Json :=
  l.foldr (fun o acc => if acc.any (fun x => x.compress == o.compress) then acc else o :: acc) []

def handlePipe (op : String) (j : Json) : Option Json :=
  if op == "c07.stage" then
    -- the per-sample stage of `whatshap phase`: which reads are candidates, and every selection the stage can return
    -- (all tie choices of the abstract queue; `enumerate` = false: only the first one)
    match (getList? j "reads").bind (·.mapM parseSRead), getNat? j "cap", getNatList? j "pref_ids", getBool? j "enumerate" with
    | some rs, some cap, some prefIds, some enumerate =>
      let cands := candidates rs
      let keep := (List.range rs.length).filter (fun i => longEnough (rs.getD i default))
      let css := if enumerate then explore true (cands.map (SRead.toRead prefIds)) cap true else [[]]
      let outs := css.map (fun cs => match sampleStage rs cap prefIds cs with
        | .ok o => Json.mkObj [("sel", ofNatList o.selIdx), ("n_selected", ofNat o.selected.length)]
        | .error e => stageErrJson e)
      some (Json.mkObj [("candidates", ofNatList keep), ("outcomes", Json.arr (dedupJson outs).toArray)])
    | _, _, _, _ => some badInput
  else if op == "c07.share" then
    match getInt? j "k", getNat? j "m" with
    | some k, some m => some (Json.mkObj [("cap", ofNat (perSampleCapInt k m)), ("accepted", Json.bool (capAccepted k))])
    | _, _ => some badInput
  else if op == "c07.merged" then
    -- span counts of the merged family read set at the given positions
    match (getList? j "selected").bind (·.mapM (fun m => (asArr? m).bind (·.mapM parseSRead))), getNatList? j "positions" with
    | some sels, some qs =>
      let os : List SampleOut := sels.map (fun sel => ⟨[], [], sel⟩)
      some (ofNatList (qs.map (mergedCount os)))
    | _, _ => some badInput
  else if op == "c07.validate" then
    -- the option glue of `whatshap phase`: the cap `run_whatshap` gets, or the first `parser.error` of `validate`
    let b := fun k => (getBool? j k).getD false
    match getIntList? j "internal_downsampling", getIntList? j "legacy_max_coverage" with
    | some ks, some hs =>
      let a : PhaseArgs := {
        internalDownsampling := ks, legacyMaxCoverage := hs, reference := b "reference", noReference := b "no_reference",
        ignoreReadGroups := b "ignore_read_groups", ped := b "ped", genmap := b "genmap",
        chromosomes := (getNat? j "n_chromosomes").getD 0, samples := (getNat? j "n_samples").getD 0,
        includeHomozygous := b "include_homozygous", distrustGenotypes := b "distrust_genotypes",
        usePedSamples := b "use_ped_samples", phaseInputs := (getNat? j "n_phase_inputs").getD 1,
        fullGenotyping := b "full_genotyping", indels := b "indels", rowLimit := getInt? j "row_limit",
        heuristic := b "heuristic" }
      match validateCap a with
      | .ok k => some (Json.mkObj [("accepted", Json.bool true), ("cap", Json.num (JsonNumber.fromInt k))])
      | .error e => some (Json.mkObj [("accepted", Json.bool false), ("error", Json.str e.text)])
    | _, _ => some badInput
  else none

/-- an operation on the coverage monitor: `["add", b, e, times]` or `["max", b, e]` -/
def parseMonOp (j : Json) : Option (Bool × Nat × Nat × Nat) := do
  match (← asArr? j) with
  | [o, b, e, t] => if (← asStr? o) == "add" then some (true, ← asNat? b, ← asNat? e, ← asNat? t) else none
  | [o, b, e] => if (← asStr? o) == "max" then some (false, ← asNat? b, ← asNat? e, 0) else none
  | _ => none

def monAnsJson : Mon.Ans → Json
  | .val m => ofNat m
  | .valueError => Json.str "ValueError"
  | .indexError => Json.str "IndexError"

def handle (op : String) (j : Json) : Option Json :=
  if op == "c07.covmon" then
    -- `CovMonitor` as coded (array of counters): the answers of the `max_coverage_in_range` queries of an operation
    -- sequence; `width` absent = Python ints (the code), `width` = b: b-bit counters that wrap
    match getNat? j "length", (getList? j "ops").bind (·.mapM parseMonOp) with
    | some n, some ops => some (ofList monAnsJson (Mon.runOps (getNat? j "width") (Mon.init n) ops))
    | _, _ => some badInput
  else if op == "c07.guarded" then
    -- the guarded use of the monitor (`max >= k` test, then `add_read`) on a list of ranges: which calls are admitted
    match getNat? j "length", getNat? j "k", (getList? j "calls").bind (·.mapM natList?) with
    | some n, some k, some cs =>
      let calls := cs.map (fun c => (c.getD 0 0, c.getD 1 0))
      let st := Mon.guardedRun (getNat? j "width") k n calls
      some (Json.mkObj [("admitted", ofNat st.admitted.length), ("coverage", ofNatList st.cov)])
    | _, _, _ => some badInput
  else if op == "c07.outcomes" then
    match parseReads j "reads", getNat? j "k", getBool? j "bridging", getBool? j "fixed" with
    | some reads, some k, some br, some fixed =>
      let paths := explore fixed reads k br
      some (Json.mkObj [("outcomes", ofList outJson (allOutcomes fixed reads k br)), ("paths", ofNat paths.length)])
    | _, _, _, _ => some badInput
  else if op == "c07.run" then
    match parseReads j "reads", getNat? j "k", getBool? j "bridging", getBool? j "fixed", getNatList? j "choices" with
    | some reads, some k, some br, some fixed, some cs => some (outJson (readselection fixed reads k br cs))
    | _, _, _, _, _ => some badInput
  else if op == "c07.spec" then
    -- the property predicates on an arbitrary index set (the implementation's output)
    match parseReads j "reads", getNat? j "k", getNatList? j "selected" with
    | some reads, some k, some sel =>
      some (Json.mkObj [("subset", Json.bool (subsetOK reads sel)), ("cap", Json.bool (capOK reads k sel)),
                        ("maximal", Json.bool (maximalOK reads k sel))])
    | _, _, _ => some badInput
  else if op == "c07.score" then
    match parseReads j "reads" with
    | some reads =>
      let P := positions reads
      some (ofList (fun r => let s := initScore P r; ofIntList [s.a, s.b, s.q]) reads)
    | none => some badInput
  else handlePipe op j
end WhVerif.Driver.C07

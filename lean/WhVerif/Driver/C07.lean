import WhVerif.Util.Proto
namespace WhVerif.Driver.C07
open Lean WhVerif.Proto
/-- ops of property C07 are named `c07.<name>`; return `none` for ops that are not ours -/
def handle (_op : String) (_j : Json) : Option Json := none
end WhVerif.Driver.C07

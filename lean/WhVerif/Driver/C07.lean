import WhVerif.Util.Proto
import WhVerif.Model.C07
import WhVerif.Spec.C07
namespace WhVerif.Driver.C07
open Lean WhVerif.Proto WhVerif.C07

/-- a read is `[[positions], [qualities], preferred(0/1)]` -/
def parseRead (j : Json) : Option Read := do
  match (← asArr? j) with
  | [p, q, f] => some { pos := (← natList? p), qual := (← intList? q), pref := (← asNat? f) != 0 }
  | _ => none

def parseReads (j : Json) (k : String) : Option (List Read) := do (← getList? j k).mapM parseRead

def outJson : Outcome → Json
  | .valueError => Json.str "ValueError"
  | .misuse => Json.str "misuse"
  | .outOfFuel => Json.str "outOfFuel"
  | .ok sel => ofNatList (sortNat sel)

def handle (op : String) (j : Json) : Option Json :=
  if op == "c07.outcomes" then
    match parseReads j "reads", getNat? j "k", getBool? j "bridging", getBool? j "fixed" with
    | some reads, some k, some br, some fixed =>
      let paths := explore fixed reads k br
      some (Json.mkObj [("outcomes", ofList outJson (allOutcomes fixed reads k br)), ("paths", ofNat paths.length)])
    | _, _, _, _ => some badInput
  else if op == "c07.run" then
    match parseReads j "reads", getNat? j "k", getBool? j "bridging", getBool? j "fixed", getNatList? j "choices" with
    | some reads, some k, some br, some fixed, some cs => some (outJson (readselection fixed reads k br cs))
    | _, _, _, _, _ => some badInput
  else if op == "c07.spec" then
    -- the property predicates on an arbitrary index set (the implementation's output)
    match parseReads j "reads", getNat? j "k", getNatList? j "selected" with
    | some reads, some k, some sel =>
      some (Json.mkObj [("subset", Json.bool (subsetOK reads sel)), ("cap", Json.bool (capOK reads k sel)),
                        ("maximal", Json.bool (maximalOK reads k sel))])
    | _, _, _ => some badInput
  else if op == "c07.score" then
    match parseReads j "reads" with
    | some reads =>
      let P := positions reads
      some (ofList (fun r => let s := initScore P r; ofIntList [s.a, s.b, s.q]) reads)
    | none => some badInput
  else none
end WhVerif.Driver.C07

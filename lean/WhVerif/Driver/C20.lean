import WhVerif.Util.Proto
namespace WhVerif.Driver.C20
open Lean WhVerif.Proto
/-- ops of property C20 are named `c20.<name>`; return `none` for ops that are not ours -/
def handle (_op : String) (_j : Json) : Option Json := none
end WhVerif.Driver.C20

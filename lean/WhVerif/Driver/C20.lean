import WhVerif.Util.Proto
import WhVerif.Model.C04Json
import WhVerif.Model.C20
namespace WhVerif.Driver.C20
open Lean WhVerif.Proto WhVerif.C04 WhVerif.C04.Json WhVerif.C20

def read? (j : Json) : Option Read := do
  some ⟨← getStr? j "name", ← getInt? j "source_id", ← getStr? j "sample", ← getNatList? j "positions"⟩

def inst? (j : Json) : Option Inst := do
  some ⟨← getStr? j "chrom", ← (← getList? j "reads").mapM read?, ← getNatList? j "partition",
        ← (← getList? j "comps").mapM pairNat?, ← getNatList? j "positions", ← getNatList? j "recomb",
        ← getNatList? j "tv", ← strList? (← getObj? j "children")⟩

def ofReadRow (r : ReadRow) : Json :=
  Json.arr #[Json.str r.name, ofInt r.sourceId, Json.str r.sample, ofNat r.phaseSet, ofNat r.hap, ofNat r.nVariants,
    ofNat r.first, ofNat r.last]

def ofRecRow (r : RecRow) : Json :=
  Json.arr #[Json.str r.child, Json.str r.chrom, ofNat r.pos1, ofNat r.pos2, ofNat r.f1, ofNat r.f2, ofNat r.m1,
    ofNat r.m2, ofNat r.cost]

def chrom? (j : Json) : Option ChromRun := do
  some ⟨← getBool? j "selected", ← (← getList? j "families").mapM inst?, ← (← getList? j "gtChanges").mapM change?⟩

def opts? (j : Json) : Option Opts := do
  some ⟨← getBool? j "readList", ← getBool? j "gtList", ← getBool? j "recList", ← getBool? j "repaired"⟩

def ofOptList {α} (f : α → Json) : Option (List α) → Json
  | none => Json.null
  | some l => ofList f l

/-- ops of property C20 are named `c20.<name>`; return `none` for ops that are not ours -/
def handle (op : String) (j : Json) : Option Json :=
  if op == "c20.rows" then
    match (getObj? j "inst").bind inst? with
    | some i => some (Json.mkObj [("read", ofList ofReadRow (readListRows i)), ("rec", ofList ofRecRow (recombRows i)),
                                  ("readErrors", ofNat (i.reads.length - (readListRows i).length))])
    | none => some badInput
  else if op == "c20.run" then
    match (getObj? j "opts").bind opts?, (getList? j "chroms").bind (·.mapM chrom?) with
    | some o, some cs =>
      let fs := run o cs
      some (Json.mkObj [("readList", ofOptList ofReadRow fs.readList), ("gtList", ofOptList ofChange fs.gtList),
                        ("recList", ofOptList ofRecRow fs.recList)])
    | _, _ => some badInput
  else none
end WhVerif.Driver.C20

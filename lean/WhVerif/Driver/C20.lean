import WhVerif.Util.Proto
import WhVerif.Model.C04Json
import WhVerif.Model.C20
import WhVerif.Model.C20Files
import WhVerif.Model.C20Deep
namespace WhVerif.Driver.C20
open Lean WhVerif.Proto WhVerif.C04 WhVerif.C04.Json WhVerif.C20

def read? (j : Json) : Option Read := do
  some ⟨← getStr? j "name", ← getInt? j "source_id", ← getStr? j "sample", ← getNatList? j "positions"⟩

def inst? (j : Json) : Option Inst := do
  some ⟨← getStr? j "chrom", ← (← getList? j "reads").mapM read?, ← getNatList? j "partition",
        ← (← getList? j "comps").mapM pairNat?, ← getNatList? j "positions", ← getNatList? j "recomb",
        ← getNatList? j "tv", ← strList? (← getObj? j "children")⟩

def ofReadRow (r : ReadRow) : Json :=
  Json.arr #[Json.str r.name, ofInt r.sourceId, Json.str r.sample, ofNat r.phaseSet, ofNat r.hap, ofNat r.nVariants,
    ofNat r.first, ofNat r.last]

def ofRecRow (r : RecRow) : Json :=
  Json.arr #[Json.str r.child, Json.str r.chrom, ofNat r.pos1, ofNat r.pos2, ofNat r.f1, ofNat r.f2, ofNat r.m1,
    ofNat r.m2, ofNat r.cost]

def chrom? (j : Json) : Option ChromRun := do
  some ⟨← getBool? j "selected", ← (← getList? j "families").mapM inst?, ← (← getList? j "gtChanges").mapM change?⟩

def opts? (j : Json) : Option Opts := do
  some ⟨← getBool? j "readList", ← getBool? j "gtList", ← getBool? j "recList", ← getBool? j "repaired"⟩

def ofOptList {α} (f : α → Json) : Option (List α) → Json
  | none => Json.null
  | some l => ofList f l


def optStr? (j : Json) : Option (Option String) :=
  match j with
  | Json.null => some none
  | _ => (asStr? j).map some

def fileC? (j : Json) (k : String) : Option FileC :=
  match j.getObjVal? k with
  | .ok Json.null => some none
  | .ok v => (strList? v).map some
  | _ => some none

def famRun? (j : Json) : Option FamRun := do
  some ⟨← inst? (← getObj? j "inst"), ← strList? (← getObj? j "members")⟩

def chromF? (j : Json) : Option ChromF := do
  some ⟨← getStr? j "name", ← getBool? j "selected", ← (← getList? j "families").mapM famRun?,
        ← (← getList? j "gtChanges").mapM change?⟩

def ofFileC : FileC → Json
  | none => Json.null
  | some l => ofList Json.str l

def pedLine? (j : Json) : Option PedLine := do
  match ← asArr? j with
  | [c, f, m] => some ⟨← asStr? c, ← optStr? f, ← optStr? m⟩
  | _ => none

def ofFamily (f : Family) : Json :=
  Json.mkObj [("rep", Json.str f.rep), ("members", ofList Json.str f.members),
              ("trios", ofList (fun t => Json.arr #[Json.str t.father, Json.str t.mother, Json.str t.child]) f.trios)]

/-- `c20.files`, `c20.families`, `c20.order` -/
def handleFiles (op : String) (j : Json) : Option Json :=
  if op == "c20.files" then
    let parsed : Option (Opts × Fix × Pre × List ChromF) := do
      let oj ← getObj? j "opts"
      let o : Opts := ⟨← getBool? oj "readList", ← getBool? oj "gtList", ← getBool? oj "recList", true⟩
      let pj ← getObj? j "pre"
      let pre : Pre := ⟨← fileC? pj "read", ← fileC? pj "gt", ← fileC? pj "rec"⟩
      pure (o, ⟨← getBool? j "createAtStart"⟩, pre, ← (← getList? j "chroms").mapM chromF?)
    match parsed with
    | none => some badInput
    | some (o, fx, pre, chroms) =>
      let r := runF o fx pre chroms
      some (Json.mkObj [("read", ofFileC r.read), ("gt", ofFileC r.gt), ("rec", ofFileC r.reco)])
  else if op == "c20.families" || op == "c20.order" then
    let parsed : Option (List String × List PedLine) := do
      pure (← strList? (← getObj? j "samples"), ← (← getList? j "ped").mapM pedLine?)
    match parsed with
    | none => some badInput
    | some (samples, ped) =>
      if op == "c20.families" then
        some (Json.mkObj [("kept", ofList (fun t => Json.arr #[Json.str t.father, Json.str t.mother, Json.str t.child])
                              (keptTrios samples ped)),
                          ("families", ofList ofFamily (setupFamilies samples (keptTrios samples ped)))])
      else
        match (getList? j "chroms").bind (·.mapM (fun e => do
            match ← asArr? e with
            | [n, b] => pure (← asStr? n, ← asBool? b)
            | _ => none)) with
        | none => some badInput
        | some chroms =>
          some (ofList (fun (x : String × List String × List String) =>
            Json.arr #[Json.str x.1, ofList Json.str x.2.1, ofList Json.str x.2.2]) (processingOrder chroms samples ped))
  else none


/-! round 10: `c20.ped`, `c20.samples`, `c20.findrec`, `c20.recrows` -/

def ofPedLine (l : PedLine) : Json :=
  Json.arr #[Json.str l.child, (match l.father with | some f => Json.str f | none => Json.null),
    (match l.mother with | some m => Json.str m | none => Json.null)]

def ofRecEvent (e : RecEvent) : Json := ofNatList [e.p1, e.p2, e.f1, e.f2, e.m1, e.m2, e.cost]

def handleDeep (op : String) (j : Json) : Option Json :=
  if op == "c20.ped" then
    match getStr? j "text", getBool? j "viaPath" with
    | some text, some viaPath =>
      match parsePed viaPath text with
      | .error .fewFields => some (Json.mkObj [("error", Json.str "fields")])
      | .error (.duplicate id) => some (Json.mkObj [("error", Json.str "duplicate"), ("id", Json.str id)])
      | .ok trios =>
        let samples := (getObj? j "samples").bind strList?
        some (Json.mkObj [("trios", ofList ofPedLine trios), ("samples", ofList Json.str (pedSamples trios)),
          ("kept", match samples with
            | some ss => ofList (fun t => Json.arr #[Json.str t.father, Json.str t.mother, Json.str t.child]) (keptTrios ss trios)
            | none => Json.null)])
    | _, _ => some badInput
  else if op == "c20.samples" then
    let parsed : Option (List String × List String × Option (List PedLine) × Bool) := do
      let ped ← match j.getObjVal? "ped" with
        | .ok Json.null => some none
        | .ok v => ((← asArr? v).mapM pedLine?).map some
        | _ => some none
      pure (← strList? (← getObj? j "vcf"), ← strList? (← getObj? j "cli"), ped, ← getBool? j "usePed")
    match parsed with
    | none => some badInput
    | some (vcf, cli, ped, usePed) =>
      match selectSamples vcf cli ped usePed with
      | .error s => some (Json.mkObj [("error", Json.str s)])
      | .ok l => some (Json.mkObj [("samples", ofList Json.str l)])
  else if op == "c20.findrec" then
    let parsed : Option (Bool × List Nat × List (Nat × Nat) × List Nat × List Nat) := do
      pure (← getBool? j "f22", ← getNatList? j "tv", ← (← getList? j "comps").mapM pairNat?, ← getNatList? j "positions",
        ← getNatList? j "recomb")
    match parsed with
    | none => some badInput
    | some (f22, tv, comps, positions, recomb) =>
      match findRecombinationA f22 tv comps positions recomb with
      | none => some (Json.mkObj [("assert", Json.bool true)])
      | some evs => some (Json.mkObj [("events", ofList ofRecEvent evs)])
  else if op == "c20.recrows" then
    match (getObj? j "inst").bind inst? with
    | none => some badInput
    | some i =>
      match recombRowsA true i with
      | none => some (Json.mkObj [("assert", Json.bool true)])
      | some rows => some (Json.mkObj [("rows", ofList ofRecRow rows)])
  else none

/-- ops of property C20 are named `c20.<name>`; return `none` for ops that are not ours -/
def handle (op : String) (j : Json) : Option Json :=
  if op == "c20.files" || op == "c20.families" || op == "c20.order" then handleFiles op j
  else if op == "c20.ped" || op == "c20.samples" || op == "c20.findrec" || op == "c20.recrows" then handleDeep op j
  else if op == "c20.rows" then
    match (getObj? j "inst").bind inst? with
    | some i => some (Json.mkObj [("read", ofList ofReadRow (readListRows i)), ("rec", ofList ofRecRow (recombRows i)),
                                  ("readErrors", ofNat (i.reads.length - (readListRows i).length))])
    | none => some badInput
  else if op == "c20.run" then
    match (getObj? j "opts").bind opts?, (getList? j "chroms").bind (·.mapM chrom?) with
    | some o, some cs =>
      let fs := run o cs
      some (Json.mkObj [("readList", ofOptList ofReadRow fs.readList), ("gtList", ofOptList ofChange fs.gtList),
                        ("recList", ofOptList ofRecRow fs.recList)])
    | _, _ => some badInput
  else none
end WhVerif.Driver.C20

import WhVerif.Util.Proto
import WhVerif.Spec.C01
import WhVerif.Model.C01Gray
import WhVerif.Model.C01Witness
import WhVerif.Model.C01Ckpt
import WhVerif.Model.C01Query
import WhVerif.Model.C01U32
import WhVerif.Model.C01Input
import WhVerif.Model.C01Pedigree
namespace WhVerif.Driver.C01
open Lean WhVerif.Proto WhVerif.C01

def optNat? (j : Json) : Option (Option Nat) :=
  match j with
  | Json.null => some none
  | _ => (asNat? j).map some

def parseRead (j : Json) : Option Read := do
  let ind ← getNat? j "ind"
  let first ← getNat? j "first"
  let last ← getNat? j "last"
  let es ← getList? j "entries"
  let entries ← es.mapM (fun e => do
    match ← natList? e with
    | [c, a, w] => some (c, a, w)
    | _ => none)
  some { ind, first, last, entries }

def parseInst (j : Json) : Option Inst := do
  let ncols ← getNat? j "ncols"
  let reads ← (← getList? j "reads").mapM parseRead
  let nind ← getNat? j "nind"
  let trios ← (← getList? j "trios").mapM (fun e => do
    match ← natList? e with
    | [f, m, c] => some (f, m, c)
    | _ => none)
  let geno ← (← getList? j "geno").mapM (fun perInd => do
    (← asArr? perInd).mapM (fun perCol => do (← asArr? perCol).mapM optNat?))
  let recomb ← getNatList? j "recomb"
  some { ncols, reads, nind, trios, geno, recomb }

def boolList? (j : Json) : Option (List Bool) := do
  (← asArr? j).mapM (fun b => match b with
    | Json.bool x => some x
    | _ => (asNat? b).map (· != 0))

def ofBoolList (l : List Bool) : Json := Json.arr (l.map Json.bool).toArray

def superReads (I : Inst) (β : List Bool) (τ : List Nat) : Json :=
  ofList (fun c =>
    match getAlleles I c (restrict β (I.activeAt c)) (τ.getD c 0) with
    | none => Json.null
    | some l => ofList (fun p => ofNatList [p.1, p.2]) l) (List.range I.ncols)

/-! ### raw (position-based) input: what `PedigreeDPTable` is really constructed from

`{"positions": [p…] | null, "reads": [{"ind": i, "variants": [[pos, allele, weight]…]}…], "nind", "trios", "geno",
"recomb"}` — reads in ReadSet order; `positions: null` = the `positions == nullptr` default. -/

structure Raw where
  positions : Option (List Nat)
  reads : List RawRead
  nind : Nat
  trios : List (Nat × Nat × Nat)
  geno : List (List (List (Option Nat)))
  recomb : List Nat

def parseRaw (j : Json) : Option Raw := do
  let positions ← match getObj? j "positions" with
    | none => some none
    | some Json.null => some none
    | some v => (natList? v).map some
  let reads ← (← getList? j "reads").mapM (fun r => do
    let ind ← getNat? r "ind"
    let variants ← (← getList? r "variants").mapM (fun e => do
      match ← natList? e with
      | [p, a, w] => some (p, a, w)
      | _ => none)
    some ({ ind, variants } : RawRead))
  let nind ← getNat? j "nind"
  let trios ← (← getList? j "trios").mapM (fun e => do
    match ← natList? e with
    | [f, m, c] => some (f, m, c)
    | _ => none)
  let geno ← (← getList? j "geno").mapM (fun perInd => do
    (← asArr? perInd).mapM (fun perCol => do (← asArr? perCol).mapM optNat?))
  let recomb ← getNatList? j "recomb"
  some { positions, reads, nind, trios, geno, recomb }

def Raw.mk? (R : Raw) : Except Reject Inst :=
  mkInstE (R.positions.getD (defaultPositions R.reads)) R.reads R.nind R.trios R.geno R.recomb

def instJson (I : Inst) : Json :=
  Json.mkObj [
    ("ncols", ofNat I.ncols),
    ("reads", ofList (fun (r : Read) => Json.mkObj [("ind", ofNat r.ind), ("first", ofNat r.first),
        ("last", ofNat r.last), ("entries", ofList (fun e => ofNatList [e.1, e.2.1, e.2.2]) r.entries)]) I.reads),
    ("nind", ofNat I.nind),
    ("trios", ofList (fun t => ofNatList [t.1, t.2.1, t.2.2]) I.trios),
    ("geno", ofList (ofList (ofList ofOptNat)) I.geno),
    ("recomb", ofNatList I.recomb)]

inductive Got where
  | bad
  | rejected (why : String)
  | ok (I : Inst)

/-- the instance of a request: `"inst"` (column form) or `"raw"` (position form, converted by `mkInst`) -/
def getInst (j : Json) : Got :=
  match getObj? j "inst" with
  | some ji => match parseInst ji with
    | some I => .ok I
    | none => .bad
  | none => match (getObj? j "raw").bind parseRaw with
    | none => .bad
    | some R => match R.mk? with
      | .ok I => .ok I
      | .error e => .rejected e.name

def rejected (why : String) : Json := Json.mkObj [("rejected", Json.str why)]

def srJson (sr : List (Option (List (Nat × Nat)))) : Json :=
  ofList (fun (o : Option (List (Nat × Nat))) => match o with
    | none => Json.null
    | some l => ofList (fun p => ofNatList [p.1, p.2]) l) sr

def parseQuery (j : Json) : Option Query :=
  match j with
  | Json.str "sr" => some .superReads
  | Json.str "cost" => some .cost
  | Json.str "part" => some .partitioning
  | _ => none

def answerJson : Answer → Json
  | .superReads sr tau => Json.mkObj [("q", Json.str "sr"), ("superreads", srJson sr), ("tau", ofNatList tau)]
  | .cost c => Json.mkObj [("q", Json.str "cost"), ("cost", ofNat c)]
  | .partitioning β => Json.mkObj [("q", Json.str "part"), ("beta", ofBoolList β)]


/-! ### the API level: `Pedigree` calls, reads with sample ids (`c01.pedigree`) -/

def parsePedOp (j : Json) : Option PedOp := do
  match ← asArr? j with
  | [Json.str "ind", id, g, l] =>
    let ls ← (← asArr? l).mapM (fun x => match x with
      | Json.null => some none
      | _ => (natList? x).map some)
    some (.addInd (← asNat? id) (← natList? g) ls)
  | [Json.str "rel", f, m, c] => some (.addRel (← asNat? f) (← asNat? m) (← asNat? c))
  | _ => none

def parseApi (j : Json) : Option Api := do
  let ops ← (← getList? j "ops").mapM parsePedOp
  let den ← getNat? j "den"
  let reads ← (← getList? j "reads").mapM (fun r => do
    let sample ← getNat? r "sample"
    let variants ← (← getList? r "variants").mapM (fun e => do
      match ← natList? e with
      | [p, a, w] => some (p, a, w)
      | _ => none)
    some ({ sample, variants } : ApiRead))
  let positions ← match getObj? j "positions" with
    | none => some none
    | some Json.null => some none
    | some v => (natList? v).map some
  let recomb ← getNatList? j "recomb"
  let distrust := (getBool? j "distrust").getD false
  some { ops, den, reads, positions, recomb, distrust }

def pmapJson (m : PMap) : Json :=
  ofList (fun (o : Option (Nat × Nat)) => match o with
    | none => Json.null
    | some p => ofNatList [p.1, p.2]) m

def optOptJson : Option (Option (List Nat)) → Json
  | none => Json.str "out-of-range"
  | some none => Json.null
  | some (some l) => ofNatList l

/-- the state of the `Pedigree` object after a prefix of the calls, as the accessors show it -/
def pedJson (P : Ped) (askIds : List Nat) (nvar : Nat) : Json :=
  Json.mkObj [
    ("ids", ofNatList P.ids),
    ("triples", ofList (fun t => ofNatList [t.1, t.2.1, t.2.2]) P.triples),
    ("variant_count", ofOptNat P.vc),
    ("index_of", ofList (fun id => ofOptNat (P.idToIndex id)) askIds),
    ("genotype_by_id", ofList (fun id => ofList (fun v => ofOptNat (P.genotypeById id v)) (List.range nvar)) askIds),
    ("gl_by_id", ofList (fun id => ofList (fun v => optOptJson (P.glById id v)) (List.range nvar)) askIds)]

def handle (op : String) (j : Json) : Option Json :=
  if op == "c01.mkinst" then
    match (getObj? j "raw").bind parseRaw with
    | none => some badInput
    | some R => match R.mk? with
      | .ok I => some (Json.mkObj [("inst", instJson I), ("why", Json.null)])
      | .error e => some (Json.mkObj [("inst", Json.null), ("why", Json.str e.name)])
  else if op == "c01.solve" then
    match getInst j with
    | .bad => some badInput
    | .rejected w => some (rejected w)
    | .ok I =>
      let w := match witness I with
        | none => Json.null
        | some (β, τ) => Json.mkObj [("beta", ofBoolList β), ("tau", ofNatList τ)]
      some (Json.mkObj [("cost", ofOptNat (dpCost I)), ("witness", w)])
  else if op == "c01.cost" then
    match getInst j with
    | .bad => some badInput
    | .rejected w => some (rejected w)
    | .ok I => some (Json.mkObj [("cost", ofOptNat (dpCost I))])
  else if op == "c01.eval" then
    match getInst j, (getObj? j "beta").bind boolList?, getNatList? j "tau" with
    | .ok I, some β, some τ =>
      some (Json.mkObj [("cost", ofOptNat (totalCost I β τ)), ("superreads", superReads I β τ)])
    | .rejected w, _, _ => some (rejected w)
    | _, _, _ => some badInput
  else if op == "c01.brute" then
    match getInst j with
    | .bad => some badInput
    | .rejected w => some (rejected w)
    | .ok I => some (Json.mkObj [("cost", ofOptNat (optCost I))])
  else if op == "c01.colcost" then
    match (getObj? j "inst").bind parseInst, getNat? j "c", (getObj? j "bits").bind boolList?, getNat? j "t" with
    | some I, some c, some bs, some t =>
      some (Json.mkObj [("direct", ofOptNat (colCost I c bs t)), ("table", ofOptNat (colCostTab I c bs t))])
    | _, _, _, _ => some badInput
  else if op == "c01.gray" then
    match getNat? j "n" with
    | some n => some (ofList (fun p => Json.arr #[ofNat p.1, ofInt p.2]) (WhVerif.C01.grayList n))
    | none => some badInput
  else if op == "c01.ckpt" then
    -- `compute_table` as coded (stored backtrace tables, check-pointing every k-th column, Gray-code order)
    match getInst j with
    | .bad => some badInput
    | .rejected w => some (rejected w)
    | .ok I =>
      let k := (getNat? j "k").getD (isqrt I.ncols)
      let ord : Ord := if getStr? j "ord" == some "index" then idxOrd else grayOrd
      -- optional `"queries": ["sr" | "cost" | "part", …]`: the accessor calls a client issues on the constructed
      -- object, in its order, with repetitions; `"answers"` = what `Table.run` answers call by call.  `"queriesB"`:
      -- the calls on a second object constructed from the same input (`"answersB"`).  With `"queries"` the DP value
      -- (`optimal_score`, = the answer of `c01.cost`) is reported as `"cost"` as well.
      let qs := (getList? j "queries").bind (fun l => l.mapM parseQuery)
      let qsB := (getList? j "queriesB").bind (fun l => l.mapM parseQuery)
      let score : Option Nat := if qs.isSome then dpCost I else none
      let costField : List (String × Json) := if qs.isSome then [("cost", ofOptNat score)] else []
      match ckptPathK I ord k with
      | none => some (Json.mkObj ([("k", ofNat k), ("path", Json.null)] ++ costField))
      | some path =>
        let run (qs : Option (List Query)) : Json := match qs, score with
          | some qs, some c => ofList answerJson (({ score := c, path := path, iter := 0 } : Table).run I qs).2
          | _, _ => Json.null
        some (Json.mkObj ([("k", ofNat k), ("path", ofList (fun p => ofNatList [p.1, p.2]) path),
          ("beta", ofBoolList (partOf I path)), ("tau", ofNatList (path.map (·.2))),
          ("superreads", srJson (superReadsOf I path)), ("answers", run qs), ("answersB", run qsB)] ++ costField))
  else if op == "c01.pedigree" then
    -- `ops` = the calls on a fresh `Pedigree`; answer: the object's state after ALL calls (or which call failed),
    -- the partitions per transmission value, and the resolved instance of the solver
    match parseApi j with
    | none => some badInput
    | some A =>
      let askIds := (getNatList? j "ask").getD []
      let nvar := (getNat? j "nvar").getD 0
      -- run the calls one by one to report the index of the first failing call
      let rec go (k : Nat) (ops : List PedOp) (P : Ped) : Except Nat Ped :=
        match ops with
        | [] => .ok P
        | o :: rest => match P.step o with
          | none => .error k
          | some P' => go (k + 1) rest P'
      match go 0 A.ops {} with
      | .error k => some (Json.mkObj [("failed_call", ofNat k)])
      | .ok P =>
        let nt := 4 ^ P.triples.length
        let parts := if nt ≤ 256 then ofList (fun t => match P.ppMap t with
            | none => Json.null
            | some m => pmapJson m) (List.range nt) else Json.null
        let probes := ((getList? j "probe").getD []).filterMap (fun pj => do
          let c ← getNat? pj "c"
          let p ← getNat? pj "p"
          let bs ← (getObj? pj "bits").bind boolList?
          let t ← getNat? pj "t"
          some (c, p, bs, t))
        let res := A.resolve
        let instJ := match res with
          | none => Json.null
          | some (_, I) => instJson I
        let probeJ := ofList (fun (q : Nat × Nat × List Bool × Nat) =>
            Json.mkObj [("glue", ofOptNat (glueColCost A P q.1 q.2.1 q.2.2.1 q.2.2.2)),
                        ("inst", match res with
                          | none => Json.null
                          | some (_, I) => ofOptNat (colCost I q.1 q.2.2.1 q.2.2.2))]) probes
        some (Json.mkObj [("ped", pedJson P askIds nvar), ("partition_count", ofNat P.partitionCount),
          ("partitions", parts), ("inst", instJ), ("probes", probeJ)])
  else if op == "c01.cost32" then
    -- the DP in the code's 32-bit arithmetic with UINT_MAX as infinity, and the no-overflow bound
    match getInst j with
    | .bad => some badInput
    | .rejected w => some (rejected w)
    | .ok I =>
      some (Json.mkObj [("cost32", ofNat (dpCost32 I)), ("throws", Json.bool (throws32 I)), ("ub", ofNat (ubAll I))])
  else none
end WhVerif.Driver.C01

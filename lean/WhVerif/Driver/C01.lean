import WhVerif.Util.Proto
namespace WhVerif.Driver.C01
open Lean WhVerif.Proto
/-- ops of property C01 are named `c01.<name>`; return `none` for ops that are not ours -/
def handle (_op : String) (_j : Json) : Option Json := none
end WhVerif.Driver.C01

import WhVerif.Util.Proto
import WhVerif.Spec.C01
import WhVerif.Model.C01Gray
import WhVerif.Model.C01Witness
namespace WhVerif.Driver.C01
open Lean WhVerif.Proto WhVerif.C01

def optNat? (j : Json) : Option (Option Nat) :=
  match j with
  | Json.null => some none
  | _ => (asNat? j).map some

def parseRead (j : Json) : Option Read := do
  let ind ← getNat? j "ind"
  let first ← getNat? j "first"
  let last ← getNat? j "last"
  let es ← getList? j "entries"
  let entries ← es.mapM (fun e => do
    match ← natList? e with
    | [c, a, w] => some (c, a, w)
    | _ => none)
  some { ind, first, last, entries }

def parseInst (j : Json) : Option Inst := do
  let ncols ← getNat? j "ncols"
  let reads ← (← getList? j "reads").mapM parseRead
  let nind ← getNat? j "nind"
  let trios ← (← getList? j "trios").mapM (fun e => do
    match ← natList? e with
    | [f, m, c] => some (f, m, c)
    | _ => none)
  let geno ← (← getList? j "geno").mapM (fun perInd => do
    (← asArr? perInd).mapM (fun perCol => do (← asArr? perCol).mapM optNat?))
  let recomb ← getNatList? j "recomb"
  some { ncols, reads, nind, trios, geno, recomb }

def boolList? (j : Json) : Option (List Bool) := do
  (← asArr? j).mapM (fun b => match b with
    | Json.bool x => some x
    | _ => (asNat? b).map (· != 0))

def ofBoolList (l : List Bool) : Json := Json.arr (l.map Json.bool).toArray

def superReads (I : Inst) (β : List Bool) (τ : List Nat) : Json :=
  ofList (fun c =>
    match getAlleles I c (restrict β (I.activeAt c)) (τ.getD c 0) with
    | none => Json.null
    | some l => ofList (fun p => ofNatList [p.1, p.2]) l) (List.range I.ncols)

def handle (op : String) (j : Json) : Option Json :=
  if op == "c01.solve" then
    match (getObj? j "inst").bind parseInst with
    | none => some badInput
    | some I =>
      let w := match witness I with
        | none => Json.null
        | some (β, τ) => Json.mkObj [("beta", ofBoolList β), ("tau", ofNatList τ)]
      some (Json.mkObj [("cost", ofOptNat (dpCost I)), ("witness", w)])
  else if op == "c01.cost" then
    match (getObj? j "inst").bind parseInst with
    | none => some badInput
    | some I => some (Json.mkObj [("cost", ofOptNat (dpCost I))])
  else if op == "c01.eval" then
    match (getObj? j "inst").bind parseInst, (getObj? j "beta").bind boolList?, getNatList? j "tau" with
    | some I, some β, some τ =>
      some (Json.mkObj [("cost", ofOptNat (totalCost I β τ)), ("superreads", superReads I β τ)])
    | _, _, _ => some badInput
  else if op == "c01.brute" then
    match (getObj? j "inst").bind parseInst with
    | none => some badInput
    | some I => some (Json.mkObj [("cost", ofOptNat (optCost I))])
  else if op == "c01.colcost" then
    match (getObj? j "inst").bind parseInst, getNat? j "c", (getObj? j "bits").bind boolList?, getNat? j "t" with
    | some I, some c, some bs, some t =>
      some (Json.mkObj [("direct", ofOptNat (colCost I c bs t)), ("table", ofOptNat (colCostTab I c bs t))])
    | _, _, _, _ => some badInput
  else if op == "c01.gray" then
    match getNat? j "n" with
    | some n => some (ofList (fun p => Json.arr #[ofNat p.1, ofInt p.2]) (WhVerif.C01.grayList n))
    | none => some badInput
  else none
end WhVerif.Driver.C01

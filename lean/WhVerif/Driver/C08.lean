import WhVerif.Util.Proto
namespace WhVerif.Driver.C08
open Lean WhVerif.Proto
/-- ops of property C08 are named `c08.<name>`; return `none` for ops that are not ours -/
def handle (_op : String) (_j : Json) : Option Json := none
end WhVerif.Driver.C08

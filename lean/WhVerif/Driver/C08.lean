import WhVerif.Util.Proto
import WhVerif.Model.C08
import WhVerif.Model.C08Conv
import WhVerif.Model.C08Impl
import WhVerif.Model.C08Glue
import WhVerif.Spec.C08
namespace WhVerif.Driver.C08
open Lean WhVerif.Proto WhVerif.C08

/-! ops of property C08 (`c08.<name>`).  Floats travel as their IEEE-754 bit patterns (JSON naturals) so that
nothing is lost in printing/parsing; the phred table is the code's (`0.9999` for 0, `10^(-q/10)` else). -/

instance : NatCast Float := ⟨Nat.toFloat⟩

def fbits (x : Float) : Json := ofNat x.toBits.toNat
def ofBits? (j : Json) : Option Float := (asNat? j).map (fun n => Float.ofBits n.toUInt64)
def floatList? (j : Json) : Option (List Float) := do (← asArr? j).mapM ofBits?

def phred (q : Nat) : Float := if q = 0 then 0.9999 else Float.pow 10.0 (-(q.toFloat) / 10.0)
def recombProb (q : Nat) : Float := Float.pow 10.0 (-(q.toFloat) / 10.0)

def parseRead (j : Json) : Option Read := do
  let ind ← getNat? j "ind"
  let es ← (← getList? j "entries").mapM natList?
  let es ← es.mapM (fun e => match e with | [c, a, q] => some (c, a, q) | _ => none)
  some { ind := ind, entries := es }

def parseInst (j : Json) : Option Inst := do
  let nCols ← getNat? j "n_cols"
  let nInd ← getNat? j "n_ind"
  let tr ← (← getList? j "triples").mapM natList?
  let tr ← tr.mapM (fun e => match e with | [f, m, c] => some (f, m, c) | _ => none)
  let reads ← (← getList? j "reads").mapM parseRead
  some { nCols := nCols, nInd := nInd, triples := tr, reads := reads }

def parseParams (j : Json) : Option (Params Float) := do
  let recomb ← getNatList? j "recomb"
  let pri ← (← getList? j "priors").mapM (fun ind => do (← asArr? ind).mapM floatList?)
  let priA : Array (Array (Array Float)) := (pri.map (fun ind => (ind.map List.toArray).toArray)).toArray
  let recA := (recomb.map recombProb).toArray
  let emA : Array Float := Array.ofFn (n := 256) (fun q => phred q.val)
  some { em := fun q => if q < 256 then emA.getD q 0 else phred q
         rho := fun c => recA.getD c 1
         prior := fun i c g => ((priA.getD i #[]).getD c #[]).getD g 0 }

def parseScal (j : Json) : Option (Scal Float) :=
  match getObj? j "scal" with
  | none => some Scal.one
  | some s => do
    let fw ← (← getObj? s "fw") |> floatList?
    let bw ← (← getObj? s "bw") |> floatList?
    let bw2 ← (← getObj? s "bw2") |> floatList?
    let (fw, bw, bw2) := (fw.toArray, bw.toArray, bw2.toArray)
    some { fw := fun c => fw.getD c 1, bw := fun c => bw.getD c 1, bw2 := fun c => bw2.getD c 1 }

/-- `[individual][column][genotype]`; `col c` yields (selection ↦ numerator, total) of column `c`, computed once per column -/
def table (inst : Inst) (col : Nat → ((Nat → Nat → Bool) → Float) × Float) : Json :=
  let cols := (List.range inst.nCols).map col
  ofList (fun i => ofList (fun (nt : ((Nat → Nat → Bool) → Float) × Float) =>
      ofList (fun g => fbits (nt.1 (fun t a => genoOf inst.parts i t a == g) / nt.2)) [0, 1, 2])
    cols) (List.range inst.nInd)

/-! ### exact rational evaluation (`c08.fbrat`): no floating point anywhere on the model side -/

/-- `"num/den"`, `"num"` or a JSON integer -/
def ratOf? (j : Json) : Option Rat :=
  match j.getInt? with
  | .ok n => some (n : Rat)
  | _ =>
    match j.getStr? with
    | .ok s =>
      match s.splitOn "/" with
      | [a] => a.toInt?.map (fun n => (n : Rat))
      | [a, b] => do
        let n ← a.toInt?
        let d ← b.toNat?
        if d = 0 then none else some ((n : Rat) / (d : Rat))
      | _ => none
    | _ => none

def ratStr (q : Rat) : Json := Json.str (toString q.num ++ "/" ++ toString q.den)

/-- `10^(-q/10)` is rational only for `q ≡ 0 (mod 10)`; `get_phred_probability(0)` = the double `0.9999` (`em0`) -/
def phredRat? (em0 : Rat) (q : Nat) : Option Rat :=
  if q = 0 then some em0 else if q % 10 = 0 then some (1 / ((10 : Rat) ^ (q / 10))) else none
def recombRat? (q : Nat) : Option Rat := if q % 10 = 0 then some (1 / ((10 : Rat) ^ (q / 10))) else none

def parseParamsRat (inst : Inst) (j : Json) : Option (Params Rat) := do
  let recomb ← getNatList? j "recomb"
  let recA ← recomb.mapM recombRat?
  let pri ← (← getList? j "priors").mapM (fun ind => do (← asArr? ind).mapM (fun col => do (← asArr? col).mapM ratOf?))
  let priA : Array (Array (Array Rat)) := (pri.map (fun ind => (ind.map List.toArray).toArray)).toArray
  let recA := recA.toArray
  -- every quality that occurs must be exactly representable
  -- `result[0] = 0.9999;` stores the *double* nearest to 0.9999 in the long double table: the caller passes its exact value
  let em0 : Rat := match getObj? j "em0" with | some v => (ratOf? v).getD ((9999 : Rat) / 10000) | none => (9999 : Rat) / 10000
  let quals := inst.reads.flatMap (fun r => r.entries.map (·.2.2))
  let _ ← quals.mapM (phredRat? em0)
  some { em := fun q => (phredRat? em0 q).getD 0
         rho := fun c => recA.getD c 1
         prior := fun i c g => ((priA.getD i #[]).getD c #[]).getD g 0 }

def tableRat (inst : Inst) (col : Nat → ((Nat → Nat → Bool) → Rat) × Rat) : Json :=
  let cols := (List.range inst.nCols).map col
  ofList (fun i => ofList (fun (nt : ((Nat → Nat → Bool) → Rat) × Rat) =>
      ofList (fun g => ratStr (nt.1 (fun t a => genoOf inst.parts i t a == g) / nt.2)) [0, 1, 2])
    cols) (List.range inst.nInd)

/-- exact rational value of a finite double (sign, exponent, mantissa) as (numerator, denominator) -/
def floatRat (x : Float) : Int × Nat :=
  let b := x.toBits.toNat
  let sign : Int := if b / 2 ^ 63 = 1 then -1 else 1
  let e := (b / 2 ^ 52) % 2048
  let m := b % 2 ^ 52
  -- value = mant · 2^(ex - 1075) with mant = m (+ 2^52 if normal), ex = max e 1
  let mant := if e = 0 then m else m + 2 ^ 52
  let ex := if e = 0 then 1 else e
  if ex ≥ 1075 then (sign * (mant * 2 ^ (ex - 1075) : Nat), 1) else (sign * (mant : Nat), 2 ^ (1075 - ex))

def handle (op : String) (j : Json) : Option Json :=
  if op == "c08.conv" then
    -- what write_genotypes derives from one likelihood triple and the called genotype (null = ./.):
    -- GL = [max(log10 j, -1000) if j > 0 else -1000], geno_q = sum of the others (Python `sum`: 0 + x + y),
    -- GQ = min(round(-10 log10 geno_q), 10000) if geno_q > 0 else 10000 – evaluated EXACTLY on the rational value of geno_q
    match (getObj? j "gl").bind floatList? with
    | some [l0, l1, l2] =>
      let ls := [l0, l1, l2]
      let gl := ls.map (fun l => fbits (glOf Float.log10 (-1000.0) l))
      let g? : Option Nat := getNat? j "g"
      match g? with
      | none => some (Json.mkObj [("GL", Json.arr gl.toArray), ("GQ", Json.null)])
      | some g =>
        let q : Float := (List.range 3).foldl (fun acc i => if i = g then acc else acc + ls.getD i 0) 0.0
        let (n, d) := floatRat q
        some (Json.mkObj [("GL", Json.arr gl.toArray), ("q", fbits q), ("GQ", ofInt (gqOf n d)),
          ("mass_model", fbits (gqMass (fun i => ls.getD i 0) g))])
    | _ => some badInput
  else if op == "c08.gq" then
    -- GQ of an exact rational mass "num/den"; and the exact threshold test for likelihood a/b and integer phred threshold
    match getObj? j "q" with
    | some v =>
      match ratOf? v with
      | some q => some (Json.mkObj [("GQ", ofInt (gqOf q.num q.den))])
      | none => some badInput
    | none =>
      match getNat? j "a", getNat? j "b", getNat? j "thr" with
      | some a, some b, some thr => some (Json.mkObj [("above", Json.bool (aboveThr a b thr))])
      | _, _, _ => some badInput
  else if op == "c08.fbrat" then
    -- the posterior over exact rationals: the model at `K = ℚ` with scaling 1 (= the brute-force posterior by
    -- `forward_backward_posterior`; with "brute": true the plain enumeration is evaluated as well and must be identical)
    match parseInst j with
    | none => some badInput
    | some inst =>
      if !inst.WF then some (Json.mkObj [("error", Json.str "not-WF")]) else
      match parseParamsRat inst j with
      | none => some (Json.mkObj [("error", Json.str "not-exactly-representable")])
      | some p =>
        let F := inst.frame
        let W := inst.weights p
        let S : Scal Rat := Scal.one
        let lik := tableRat inst (fun c =>
          let cells := fbCells F W S c
          let nAct := (F.col c).nAct
          (fun sel => numerOf W nAct cells sel, numerOf W nAct cells (fun _ _ => true)))
        let zero := (List.range inst.nCols).any (fun c => total F W S c == 0)
        let base := [("lik", lik), ("zero_total", Json.bool zero)]
        if (getBool? j "brute").getD false then
          some (Json.mkObj (base ++ [("post", tableRat inst (fun c =>
            (fun sel => specNumer F W c sel, specNumer F W c (fun _ _ => true))))]))
        else some (Json.mkObj base)
  else if op == "c08.fb" then
    match parseInst j, parseParams j, parseScal j with
    | some inst, some p, some S =>
      if !inst.WF then some (Json.mkObj [("error", Json.str "not-WF")]) else
      let F := inst.frame
      let W := inst.weights p
      -- likelihoodSel F W S c sel = numerOf W nAct (fbCells F W S c) sel / numerOf … (fun _ _ => true), cells shared
      some (Json.mkObj [("lik", table inst (fun c =>
        let cells := fbCells F W S c
        let nAct := (F.col c).nAct
        (fun sel => numerOf W nAct cells sel, numerOf W nAct cells (fun _ _ => true))))])
    | _, _, _ => some badInput
  else if op == "c08.brute" then
    match parseInst j, parseParams j with
    | some inst, some p =>
      if !inst.WF then some (Json.mkObj [("error", Json.str "not-WF")]) else
      let F := inst.frame
      let W := inst.weights p
      -- posteriorSel F W c sel = specNumer F W c sel / specNumer F W c (fun _ _ => true)
      some (Json.mkObj [("post", table inst (fun c =>
        (fun sel => specNumer F W c sel, specNumer F W c (fun _ _ => true))))])
    | _, _ => some badInput
  else if op == "c08.impl" then
    -- the implementation-structured model (Gray walk, incremental cost computers, scatter-adds, scaling sums,
    -- check-pointing with spacing "k" (default ⌊√n⌋ as coded)) in Float: likelihoods [ind][col][g], the
    -- scaling_parameters the forward pass used, which columns were re-computed
    match parseInst j, parseParams j with
    | some inst, some p =>
      if !inst.WF then some (Json.mkObj [("error", Json.str "not-WF")]) else
      let k := (getNat? j "k").getD (Nat.sqrt inst.nCols)
      let out := Impl.run inst p k
      some (Json.mkObj [
        ("lik", ofList (fun i => ofList (fun c => ofList (fun g => fbits (tblAt (out.lik.getD c #[]) (i * 3 + g))) [0, 1, 2])
          (List.range inst.nCols)) (List.range inst.nInd)),
        ("fwS", Json.arr (out.fwS.map fbits)),
        ("recomputed", Json.arr (out.recomputed.map Json.bool))])
    | _, _ => some badInput
  else if op == "c08.implrat" then
    -- the same over exact rationals; must be IDENTICAL to c08.fbrat (impl_posterior_eq_model), for every spacing k
    match parseInst j with
    | none => some badInput
    | some inst =>
      if !inst.WF then some (Json.mkObj [("error", Json.str "not-WF")]) else
      match parseParamsRat inst j with
      | none => some (Json.mkObj [("error", Json.str "not-exactly-representable")])
      | some p =>
        let k := (getNat? j "k").getD (Nat.sqrt inst.nCols)
        let out := Impl.run inst p k
        some (Json.mkObj [
          ("lik", ofList (fun i => ofList (fun c => ofList (fun g => ratStr (tblAt (out.lik.getD c #[]) (i * 3 + g))) [0, 1, 2])
            (List.range inst.nCols)) (List.range inst.nInd)),
          ("zero_scaling", Json.bool (out.fwS.any (· == 0))),
          ("recomputed", Json.arr (out.recomputed.map Json.bool))])
  else if op == "c08.trans" then
    -- `TransitionProbabilityComputer::get_prob_transmission` table as coded (Float) next to the high-level model's
    match getNat? j "recomb", getNat? j "ntr" with
    | some q, some nTr =>
      let t := Impl.transTable (recombProb q) nTr
      some (Json.mkObj [("trans", Json.arr (t.map fbits))])
    | _, _ => some badInput
  else if op == "c08.glue" then
    -- run_genotype's prior subsetting: record positions, one opaque prior (list of naturals) per record, accessible positions
    match getNatList? j "positions", (getList? j "priors").bind (fun l => l.mapM natList?), getNatList? j "acc" with
    | some pos, some pri, some acc =>
      match Glue.priorColumns pos pri acc with
      | some cols => some (Json.mkObj [("cols", ofList (fun c => ofList ofNat c) cols)])
      | none => some (Json.mkObj [("error", Json.str "KeyError")])
    | _, _, _ => some badInput
  else if op == "c08.call" then
    match (getObj? j "gl").bind floatList?, (getObj? j "thr").bind ofBits? with
    | some [l0, l1, l2], some thr =>
      let g := determineGenotype l0 l1 l2 thr
      let l := fun i => [l0, l1, l2].getD i 0
      some (Json.mkObj [("gt", ofOptNat g),
        ("mass", match g with | some g => fbits (gqMass l g) | none => Json.null)])
    | _, _ => some badInput
  else none
end WhVerif.Driver.C08

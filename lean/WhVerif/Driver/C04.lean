import WhVerif.Util.Proto
import WhVerif.Model.C04Json
import WhVerif.Model.C04File
namespace WhVerif.Driver.C04
open Lean WhVerif.Proto WhVerif.C04 WhVerif.C04.Json

def hline? (j : Json) : Option HLine := do
  let id := match j.getObjVal? "id" with
    | .ok (Json.str s) => some s
    | _ => none
  some ⟨← getStr? j "key", id, (getStr? j "number").getD "", (getStr? j "type").getD "", (getStr? j "text").getD ""⟩

def ofHLine (l : HLine) : Json :=
  Json.mkObj [("key", Json.str l.key), ("id", match l.id with | some s => Json.str s | none => Json.null),
    ("number", Json.str l.number), ("type", Json.str l.typ), ("text", Json.str l.text)]

def frec? (j : Json) : Option FRec := do
  some ⟨← getStr? j "chrom", ((getObj? j "infoKeys").bind strList?).getD [], ← record? (← getObj? j "record")⟩

/-- a record of which only CHROM matters (streaming ops) -/
def chromOnly (c : String) : FRec := ⟨c, [], ⟨"", 0, "", [], [], []⟩⟩

def samplePhasing? (j : Json) : Option (String × SamplePhasing) := do
  some (← getStr? j "name", ⟨← (← getList? j "sr0").mapM pairNatInt?, ← (← getList? j "sr1").mapM pairNatInt?,
        ← (← getList? j "comps").mapM pairNat?⟩)

/-- `Phasing` from the per-table lists of the trace -/
def phasingOf (blocks : List (List (String × SamplePhasing))) : Phasing := fun k s =>
  match (blocks.getD k []).find? (fun p => p.1 == s) with
  | some p => p.2
  | none => ⟨[], [], []⟩

def fileCfg? (j : Json) : Option FileCfg := do
  some ⟨← tag? (← getStr? j "tag"), ← getBool? j "onlySnvs", ← strList? (← getObj? j "samples"),
        ← strList? (← getObj? j "order"), ← strList? (← getObj? j "chromosomes")⟩

def ofIterRes : IterRes → Json
  | .ok => Json.str "ok"
  | .assertChrom => Json.str "assert-chrom"
  | .assertFirst => Json.str "assert-first"

def ofReadErr : ReadErr → Json
  | .notSorted => Json.str "VcfNotSortedError"
  | .ploidy => Json.str "PloidyError"
  | .runtime => Json.str "RuntimeError"

def ofOut (o : Out) : Json :=
  Json.mkObj [("columns", ofList Json.str (renderColumns o.record)), ("record", ofRecord o.record),
              ("changes", ofList ofChange o.changes), ("err", Json.bool o.err)]

def ofReader : Except ReadErr (List (List Bool)) → Json
  | .ok fs => Json.mkObj [("rows", ofList (ofList Json.bool) fs)]
  | .error e => Json.mkObj [("error", ofReadErr e)]

/-- ops of property C04 are named `c04.<name>`; return `none` for ops that are not ours -/
def handle (op : String) (j : Json) : Option Json :=
  if op == "c04.write" then
    -- one chromosome block: {cfg, records} -> {records, changes, err, reached}
    match (getObj? j "cfg").bind cfg?, (getList? j "records").bind (·.mapM record?) with
    | some cfg, some rs =>
      let os := writeChrom cfg none rs
      some (Json.mkObj [("records", ofList ofRecord (outRecords os)), ("changes", ofList ofChange (outChanges os)),
                        ("err", Json.bool (os.any (·.err))),
                        ("reached", ofList Json.bool (reachFlags cfg none rs))])
    | _, _ => some badInput
  else if op == "c04.header" then
    match (getStr? j "tag").bind tag?, getBool? j "commandLine", (getList? j "header").bind (·.mapM hline?),
          (getObj? j "contigs").bind strList?, (getObj? j "formats").bind strList?, (getObj? j "infos").bind strList? with
    | some tag, some cl, some h, some cs, some fs, some is =>
      match outputHeader tag cl h cs fs is with
      | some h' => some (Json.mkObj [("header", ofList ofHLine h')])
      | none => some (Json.mkObj [("error", Json.str "VcfError")])
    | _, _, _, _, _, _ => some badInput
  else if op == "c04.file" then
    -- the whole file: {fc, phasing (per table), records, header, commandLine}
    --   -> {blocks | error, reached (writer flags per table), reader (rows per table | error), header | headerError}
    match (getObj? j "fc").bind fileCfg?, (getList? j "phasing").bind (·.mapM fun b => (asArr? b).bind (·.mapM samplePhasing?)),
          (getList? j "records").bind (·.mapM frec?), (getList? j "header").bind (·.mapM hline?), getBool? j "commandLine" with
    | some fc, some pb, some recs, some h, some cl =>
      let ph := phasingOf pb
      let groups := groupChrom recs
      let reached := (List.range groups.length).zip groups |>.map fun (k, cg) =>
        reachFlags (blockCfg fc ph k cg.1) none (cg.2.map (·.record))
      let hdr := match fileHeader fc.tag cl h recs with
        | some h' => ("header", ofList ofHLine h')
        | none => ("headerError", Json.str "VcfError")
      some (Json.mkObj [
        (match phaseFile fc ph recs with
         | some blocks => ("blocks", ofList (ofList ofOut) blocks)
         | none => ("error", Json.str "AssertionError")),
        ("tables", ofList (fun cg => Json.mkObj [("chrom", Json.str cg.1), ("n", ofNat cg.2.length)]) groups),
        ("reached", ofList (ofList Json.bool) reached),
        ("reader", ofReader (readFile fc.onlySnvs recs)), hdr])
    | _, _, _, _, _ => some badInput
  else if op == "c04.reader" then
    match getBool? j "onlySnvs", (getList? j "records").bind (·.mapM frec?) with
    | some os, some recs =>
      some (Json.mkObj [("reader", ofReader (readFile os recs)),
        ("tables", ofList (fun cg => Json.mkObj [("chrom", Json.str cg.1), ("n", ofNat cg.2.length)]) (groupChrom recs))])
    | _, _ => some badInput
  else if op == "c04.stream" then
    -- arbitrary sequence of write(chrom, {}, {}) calls on a file with the given CHROM column
    match (getObj? j "chroms").bind strList?, (getObj? j "calls").bind strList? with
    | some cs, some calls =>
      let cfg : Cfg := ⟨.PS, false, false, true, [], []⟩
      some (ofList (fun (p : IterRes × Nat) => Json.arr #[ofIterRes p.1, ofNat p.2]) (streamCalls cfg calls ⟨none, cs.map chromOnly⟩))
    | _, _ => some badInput
  else if op == "c04.select" then
    match (getObj? j "header").bind strList?, (getObj? j "sampleOpt").bind strList? with
    | some hs, some so =>
      let ped := match j.getObjVal? "ped" with
        | .ok Json.null => none
        | .ok v => strList? v
        | _ => none
      match selectSamples hs so ped with
      | .ok l => some (Json.mkObj [("samples", ofList Json.str l)])
      | .error (.unknownSample x) => some (Json.mkObj [("error", Json.str x)])
    | _, _ => some badInput
  else none
end WhVerif.Driver.C04

import WhVerif.Util.Proto
import WhVerif.Model.C04Json
namespace WhVerif.Driver.C04
open Lean WhVerif.Proto WhVerif.C04 WhVerif.C04.Json

def hline? (j : Json) : Option HLine := do
  let id := match j.getObjVal? "id" with
    | .ok (Json.str s) => some s
    | _ => none
  some ⟨← getStr? j "key", id, (getStr? j "number").getD "", (getStr? j "type").getD "", (getStr? j "text").getD ""⟩

def ofHLine (l : HLine) : Json :=
  Json.mkObj [("key", Json.str l.key), ("id", match l.id with | some s => Json.str s | none => Json.null),
    ("number", Json.str l.number), ("type", Json.str l.typ), ("text", Json.str l.text)]

def reachFlags (cfg : Cfg) : Option Nat → List Record → List Bool
  | _, [] => []
  | prev, r :: rs => reaches cfg prev r :: reachFlags cfg (writeRecord cfg prev r).prev rs

/-- ops of property C04 are named `c04.<name>`; return `none` for ops that are not ours -/
def handle (op : String) (j : Json) : Option Json :=
  if op == "c04.write" then
    -- one chromosome block: {cfg, records} -> {records, changes, err, reached}
    match (getObj? j "cfg").bind cfg?, (getList? j "records").bind (·.mapM record?) with
    | some cfg, some rs =>
      let os := writeChrom cfg none rs
      some (Json.mkObj [("records", ofList ofRecord (outRecords os)), ("changes", ofList ofChange (outChanges os)),
                        ("err", Json.bool (os.any (·.err))),
                        ("reached", ofList Json.bool (reachFlags cfg none rs))])
    | _, _ => some badInput
  else if op == "c04.header" then
    match (getStr? j "tag").bind tag?, getBool? j "commandLine", (getList? j "header").bind (·.mapM hline?),
          (getObj? j "contigs").bind strList?, (getObj? j "formats").bind strList?, (getObj? j "infos").bind strList? with
    | some tag, some cl, some h, some cs, some fs, some is =>
      match outputHeader tag cl h cs fs is with
      | some h' => some (Json.mkObj [("header", ofList ofHLine h')])
      | none => some (Json.mkObj [("error", Json.str "VcfError")])
    | _, _, _, _, _, _ => some badInput
  else none
end WhVerif.Driver.C04

import WhVerif.Util.Proto
namespace WhVerif.Driver.C04
open Lean WhVerif.Proto
/-- ops of property C04 are named `c04.<name>`; return `none` for ops that are not ours -/
def handle (_op : String) (_j : Json) : Option Json := none
end WhVerif.Driver.C04

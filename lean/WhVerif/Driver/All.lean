import WhVerif.Driver.Echo
namespace WhVerif.Driver
open Lean
/-- handlers tried in order; the first that recognises the op answers -/
def handlers : List (String → Json → Option Json) := [Echo.handle]
def dispatch (line : String) : String :=
  match Json.parse line with
  | .error _ => "{\"error\":\"bad-json\"}"
  | .ok j =>
    match j.getObjVal? "op" with
    | .ok (Json.str op) =>
      match handlers.findSome? (fun h => h op j) with
      | some out => out.compress
      | none => "{\"error\":\"unknown-op\"}"
    | _ => "{\"error\":\"no-op\"}"
end WhVerif.Driver

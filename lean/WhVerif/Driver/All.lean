import WhVerif.Driver.Echo
import WhVerif.Driver.C01
import WhVerif.Driver.C02
import WhVerif.Driver.C03
import WhVerif.Driver.C04
import WhVerif.Driver.C05
import WhVerif.Driver.C06
import WhVerif.Driver.C07
import WhVerif.Driver.C08
import WhVerif.Driver.C09
import WhVerif.Driver.C10
import WhVerif.Driver.C11
import WhVerif.Driver.C12
import WhVerif.Driver.C13
import WhVerif.Driver.C14
import WhVerif.Driver.C15
import WhVerif.Driver.C16
import WhVerif.Driver.C17
import WhVerif.Driver.C18
import WhVerif.Driver.C19
import WhVerif.Driver.C20
namespace WhVerif.Driver
open Lean
/-- handlers tried in order; the first that recognises the op answers -/
def handlers : List (String → Json → Option Json) :=
  [Echo.handle, C01.handle, C02.handle, C03.handle, C04.handle, C05.handle, C06.handle, C07.handle, C08.handle, C09.handle, C10.handle, C11.handle, C12.handle, C13.handle, C14.handle, C15.handle, C16.handle, C17.handle, C18.handle, C19.handle, C20.handle]
def dispatch (line : String) : String :=
  match Json.parse line with
  | .error _ => "{\"error\":\"bad-json\"}"
  | .ok j =>
    match j.getObjVal? "op" with
    | .ok (Json.str op) =>
      match handlers.findSome? (fun h => h op j) with
      | some out => out.compress
      | none => "{\"error\":\"unknown-op\"}"
    | _ => "{\"error\":\"no-op\"}"
end WhVerif.Driver

import WhVerif.Util.Proto
import WhVerif.Model.C17
import WhVerif.Model.C17Run
namespace WhVerif.Driver.C17
open Lean WhVerif.Proto WhVerif.C17
open WhVerif.C10 (RV)

def rv? (j : Json) : Option RV := do
  match ← natList? j with
  | [p, a, q] => some ⟨p, a, q⟩
  | _ => none

def read? (j : Json) : Option TRead := do
  match ← asArr? j with
  | [ps, hp, vs] => some ⟨← asInt? ps, ← asInt? hp, ← (← asArr? vs).mapM rv?⟩
  | _ => none

def phase? (j : Json) : Option (Option (Int × List Nat)) :=
  match j with
  | Json.null => some none
  | _ => do
    match ← asArr? j with
    | [b, al] => some (some (← asInt? b, ← natList? al))
    | _ => none

def var? (j : Json) : Option VarInfo := do
  match ← asArr? j with
  | [p, gt, ph, snv] => some ⟨← asNat? p, ← natList? gt, ← phase? ph, ← asBool? snv⟩
  | _ => none

def errName : Err → String
  | .keyError => "KeyError" | .zeroDivision => "ZeroDivisionError"

def ofCons (c : Cons) : Json :=
  Json.arr #[ofNat c.pos, ofInt c.component, match c.alleles with | some (a, b) => ofNatList [a, b] | none => Json.null]


/-! ### round 10: the whole run, the composition with haplotag, the reader's pairing -/

def strs? (j : Json) (k : String) : Option (List String) := (getList? j k).bind (·.mapM asStr?)

/-- a read of the tagged BAM: [sample of its read group, PS (−1 absent), HP (−1 absent), [[pos, allele, qual]…]] -/
def aln? (j : Json) : Option (C10.Aln Payload) := do
  match ← asArr? j with
  | [sm, ps, hp, vs] =>
    let ps ← asInt? ps
    let hp ← asInt? hp
    some { rest := ⟨← asStr? sm, ← (← asArr? vs).mapM rv?⟩, name := "", unmapped := false, secondary := false,
           supplementary := false, refStart := 0, refEnd := 0, bx := none,
           tags := { hp := if hp < 0 then none else some hp.toNat, pc := none, ps := if ps < 0 then none else some ps } }
  | _ => none

def table? (j : Json) : Option SampleTab := do
  some ⟨← getStr? j "name", ← (← getList? j "vars").mapM var?⟩

def chrom? (j : Json) : Option ChromIn := do
  let ref := match getStr? j "ref" with | some r => some r.toList.toArray | none => none
  some ⟨← getStr? j "name", ref, ← getBool? j "inBam", ← (← getList? j "tables").mapM table?,
        ← (← getList? j "reads").mapM aln?, []⟩

def runErrName : RunErr → String
  | .referenceMissing => "reference-missing" | .needSampleOption => "need-sample-option"
  | .chromNotInFasta c => "chrom-not-in-fasta:" ++ c | .chromNotInBam c => "chrom-not-in-bam:" ++ c
  | .sample c s e => "sample:" ++ c ++ ":" ++ s ++ ":" ++ errName e

def ofPhaseOut (cs : List Cons) (vars : List VarInfo) : Json :=
  ofList (fun (v : VarInfo) => Json.arr #[ofNat v.pos,
    match phaseOut cs v.pos with
    | some (ps, a, b) => Json.arr #[ofInt ps, ofNat a, ofNat b]
    | none => Json.null]) vars

def phaseInfo? (j : Json) : Option C10.PhaseInfo := do
  (← asArr? j).mapM fun e => do
    match ← asArr? e with
    | [p, ps, al] => some (← asNat? p, (← asInt? ps, ← natList? al))
    | _ => none

def handle2 (op : String) (j : Json) : Option Json :=
  if op == "c17.runfile" then
    match getBool? j "reference", getBool? j "ignoreRG", strs? j "chromosomes", getBool? j "onlyIndels", getNat? j "gap",
      getNat? j "cut", strs? j "samples", strs? j "bamSamples", (getList? j "chroms").bind (·.mapM chrom?) with
    | some rf, some ig, some chs, some oi, some gap, some cut, some samples, some bam, some chroms =>
      let opts : Opts := { reference := rf, ignoreRG := ig, chromosomes := chs, par := ⟨oi, gap, cut⟩ }
      match runFile opts samples bam chroms with
      | .error e => some (Json.mkObj [("error", Json.str (runErrName e))])
      | .ok outs =>
        some (Json.mkObj [("chroms", ofList (fun (oc : ChromOut × ChromIn) =>
          Json.mkObj [("name", Json.str oc.1.name), ("requested", Json.bool (!oc.1.cons.isEmpty || oc.2.tables.isEmpty)),
            ("samples", ofList (fun (sc : String × List Cons) =>
              Json.mkObj [("name", Json.str sc.1),
                ("out", ofPhaseOut sc.2 (((oc.2.tables.find? (·.name == sc.1)).map (·.vars)).getD []))]) oc.1.cons)])
          (outs.zip chroms))])
    | _, _, _, _, _, _, _, _, _ => some badInput
  else if op == "c17.compose" then
    -- the tags the C10 model writes on reads with alleles `full` against the phased VCF `info`, as haplotagphase reads them
    match (getObj? j "info").bind phaseInfo?, (getList? j "reads").bind (·.mapM fun r => (asArr? r).bind (·.mapM rv?)) with
    | some info, some reads =>
      some (ofList (fun (full : List RV) =>
        let t := treadOf (tagRead info "" full)
        Json.arr #[ofInt t.ps, ofInt t.hp]) reads)
    | _, _ => some badInput
  else if op == "c17.pairs" then
    match (getList? j "variants").bind (·.mapM fun v => do
        match ← asArr? v with
        | [p, s] => some (⟨← asNat? p, ← asBool? s⟩ : TabVar)
        | _ => none),
      (getList? j "genotypes").bind (·.mapM natList?) with
    | some vs, some gs =>
      let enc := ofList (fun (p : TabVar × List Nat) => Json.arr #[ofNat p.1.pos, ofNatList p.2])
      some (Json.mkObj [("pairs", enc (realignPairs vs gs)), ("shifted", enc (realignPairsShifted vs gs))])
    | _, _ => some badInput
  else none

def handle (op : String) (j : Json) : Option Json :=
  match handle2 op j with
  | some r => some r
  | none =>
  if op == "c17.run" then
    match getBool? j "repaired", getBool? j "onlyIndels", getNat? j "gap", getNat? j "cut", getStr? j "ref",
      (getList? j "vars").bind (·.mapM var?), (getList? j "reads").bind (·.mapM read?) with
    | some rep, some oi, some gap, some cut, some ref, some vars, some reads =>
      let votes := computeVotes vars [] reads
      match C17.run rep ⟨oi, gap, cut⟩ ref.toList.toArray vars reads with
      | .error e => some (Json.mkObj [("error", Json.str (errName e))])
      | .ok cs =>
        some (Json.mkObj [
          ("cons", ofList ofCons cs),
          ("votes", match votes with
            | .ok vs => ofList (fun (e : Nat × Inner) => Json.arr #[ofNat e.1,
                ofList (fun (x : (Int × Nat) × Nat) => Json.arr #[ofInt x.1.1, ofNat x.1.2, ofNat x.2]) e.2]) vs
            | .error _ => Json.null),
          ("out", ofList (fun (v : VarInfo) => Json.arr #[ofNat v.pos,
            match phaseOut cs v.pos with
            | some (ps, a, b) => Json.arr #[ofInt ps, ofNat a, ofNat b]
            | none => Json.null]) vars)])
    | _, _, _, _, _, _, _ => some badInput
  else none
end WhVerif.Driver.C17

import WhVerif.Util.Proto
import WhVerif.Model.C17
namespace WhVerif.Driver.C17
open Lean WhVerif.Proto WhVerif.C17
open WhVerif.C10 (RV)

def rv? (j : Json) : Option RV := do
  match ← natList? j with
  | [p, a, q] => some ⟨p, a, q⟩
  | _ => none

def read? (j : Json) : Option TRead := do
  match ← asArr? j with
  | [ps, hp, vs] => some ⟨← asInt? ps, ← asInt? hp, ← (← asArr? vs).mapM rv?⟩
  | _ => none

def phase? (j : Json) : Option (Option (Int × List Nat)) :=
  match j with
  | Json.null => some none
  | _ => do
    match ← asArr? j with
    | [b, al] => some (some (← asInt? b, ← natList? al))
    | _ => none

def var? (j : Json) : Option VarInfo := do
  match ← asArr? j with
  | [p, gt, ph, snv] => some ⟨← asNat? p, ← natList? gt, ← phase? ph, ← asBool? snv⟩
  | _ => none

def errName : Err → String
  | .keyError => "KeyError" | .zeroDivision => "ZeroDivisionError"

def ofCons (c : Cons) : Json :=
  Json.arr #[ofNat c.pos, ofInt c.component, match c.alleles with | some (a, b) => ofNatList [a, b] | none => Json.null]

def handle (op : String) (j : Json) : Option Json :=
  if op == "c17.run" then
    match getBool? j "repaired", getBool? j "onlyIndels", getNat? j "gap", getNat? j "cut", getStr? j "ref",
      (getList? j "vars").bind (·.mapM var?), (getList? j "reads").bind (·.mapM read?) with
    | some rep, some oi, some gap, some cut, some ref, some vars, some reads =>
      let votes := computeVotes vars [] reads
      match C17.run rep ⟨oi, gap, cut⟩ ref.toList.toArray vars reads with
      | .error e => some (Json.mkObj [("error", Json.str (errName e))])
      | .ok cs =>
        some (Json.mkObj [
          ("cons", ofList ofCons cs),
          ("votes", match votes with
            | .ok vs => ofList (fun (e : Nat × Inner) => Json.arr #[ofNat e.1,
                ofList (fun (x : (Int × Nat) × Nat) => Json.arr #[ofInt x.1.1, ofNat x.1.2, ofNat x.2]) e.2]) vs
            | .error _ => Json.null),
          ("out", ofList (fun (v : VarInfo) => Json.arr #[ofNat v.pos,
            match phaseOut cs v.pos with
            | some (ps, a, b) => Json.arr #[ofInt ps, ofNat a, ofNat b]
            | none => Json.null]) vars)])
    | _, _, _, _, _, _, _ => some badInput
  else none
end WhVerif.Driver.C17

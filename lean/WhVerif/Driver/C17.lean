import WhVerif.Util.Proto
namespace WhVerif.Driver.C17
open Lean WhVerif.Proto
/-- ops of property C17 are named `c17.<name>`; return `none` for ops that are not ours -/
def handle (_op : String) (_j : Json) : Option Json := none
end WhVerif.Driver.C17

import WhVerif.Util.Proto
import WhVerif.Model.C03
import WhVerif.Spec.C03
namespace WhVerif.Driver.C03
open Lean WhVerif.Proto WhVerif.C03

def parseRead (j : Json) : Option Read := do
  match ← asArr? j with
  | [s, ps] => some ⟨← asNat? s, ← natList? ps⟩
  | _ => none

def parseReads (j : Json) (k : String) : Option (List Read) := do (← getList? j k).mapM parseRead

def optField (j : Json) (k : String) : Option Json :=
  match j.getObjVal? k with
  | .ok Json.null => none
  | .ok v => some v
  | _ => none

def parseHet (j : Json) : Option HetMap := do
  (← asArr? j).mapM (fun e => do
    match ← asArr? e with
    | [s, ps] => some (← asNat? s, ← natList? ps)
    | _ => none)

def parseSuper (j : Json) : Option SuperReads := do
  match ← asArr? j with
  | [s, vs] =>
    let vars ← (← asArr? vs).mapM (fun v => do
      match ← natList? v with
      | [p, a, b] => some (p, a, b)
      | _ => none)
    some ⟨← asNat? s, vars⟩
  | _ => none

def errJson : Err → Json
  | .assertion => Json.mkObj [("err", Json.str "AssertionError")]
  | .keyError => Json.mkObj [("err", Json.str "KeyError")]

def insertPair (e : Nat × Nat) : List (Nat × Nat) → List (Nat × Nat)
  | [] => [e]
  | b :: t => if e.1 ≤ b.1 then e :: b :: t else b :: insertPair e t

def compsJson (r : Except Err (List (Nat × Nat))) : Json :=
  match r with
  | .error e => errJson e
  | .ok comps =>
    let sorted := comps.foldr insertPair []
    Json.mkObj [("ok", ofList (fun (pc : Nat × Nat) => Json.arr #[ofNat pc.1, ofNat pc.2]) sorted),
                ("ps", ofList (fun (pc : Nat × Nat) => Json.arr #[ofNat pc.1, ofNat (psName pc.2)]) sorted)]

/-- `linkedB` tabulated over the node list (extensionally the same function on nodes; only faster) -/
def tabulate (link : Nat → Nat → Bool) (nodes : List Nat) : Nat → Nat → Bool :=
  let arr := nodes.toArray
  let tab : Array (Array Bool) := arr.map (fun a => arr.map (fun b => link a b))
  fun a b =>
    match nodes.idxOf? a, nodes.idxOf? b with
    | some i, some k => (tab[i]?.bind (·[k]?)).getD false
    | _, _ => false

def handle (op : String) (j : Json) : Option Json :=
  if op == "c03.find_components" then
    match getNatList? j "phased", parseReads j "reads" with
    | some phased, some reads =>
      let master := (optField j "master").bind natList?
      let het := (optField j "het").bind parseHet
      -- a present but unparsable optional field is bad input
      if ((optField j "master").isSome && master.isNone) || ((optField j "het").isSome && het.isNone) then some badInput
      else some (compsJson (findComponents phased reads master het))
    | _, _ => some badInput
  else if op == "c03.overall" then
    match getNatList? j "accessible", parseReads j "reads", getBool? j "distrust", getNat? j "fam_size",
          getBool? j "genetic", getNatList? j "homozygous", (getList? j "superreads").bind (·.mapM parseSuper) with
    | some acc, some reads, some distrust, some fam, some genetic, some hom, some srs =>
      let pr := overallParams acc distrust fam genetic hom srs
      let out := compsJson (computeOverallComponents acc reads distrust fam genetic hom srs)
      some (out.setObjVal! "master" (match pr.1 with | none => Json.null | some m => ofNatList m))
    | _, _, _, _, _, _, _ => some badInput
  else if op == "c03.spec" then
    -- the union-find-free oracle: for every phased position the smallest position connected to it,
    -- and for the listed pairs whether they are connected
    match getNatList? j "phased", parseReads j "reads" with
    | some phased, some reads =>
      let master := (optField j "master").bind natList?
      let het := (optField j "het").bind parseHet
      let nodes := allNodes phased reads master
      let link := tabulate (linkedB phased reads master het) nodes
      let left := phased.eraseDups.map (fun p => (p, leftmostWith link nodes p))
      let pairs := ((getList? j "pairs").bind (·.mapM natList?)).getD []
      let conn := pairs.map (fun pr => match pr with
        | [a, b] => Json.bool (connectedWith link nodes a b)
        | _ => Json.null)
      some (Json.mkObj [("leftmost", ofList (fun (pc : Nat × Nat) => Json.arr #[ofNat pc.1, ofNat pc.2]) (left.foldr insertPair [])),
                        ("connected", Json.arr conn.toArray)])
    | _, _ => some badInput
  else none
end WhVerif.Driver.C03

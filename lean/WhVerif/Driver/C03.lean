import WhVerif.Util.Proto
import WhVerif.Model.C03
import WhVerif.Model.C03Pipe
import WhVerif.Model.C03Header
import WhVerif.Model.C04Json
import WhVerif.Spec.C03
namespace WhVerif.Driver.C03
open Lean WhVerif.Proto WhVerif.C03

def parseRead (j : Json) : Option Read := do
  match ← asArr? j with
  | [s, ps] => some ⟨← asNat? s, ← natList? ps⟩
  | _ => none

def parseReads (j : Json) (k : String) : Option (List Read) := do (← getList? j k).mapM parseRead

def optField (j : Json) (k : String) : Option Json :=
  match j.getObjVal? k with
  | .ok Json.null => none
  | .ok v => some v
  | _ => none

def parseHet (j : Json) : Option HetMap := do
  (← asArr? j).mapM (fun e => do
    match ← asArr? e with
    | [s, ps] => some (← asNat? s, ← natList? ps)
    | _ => none)

def parseSuper (j : Json) : Option SuperReads := do
  match ← asArr? j with
  | [s, vs] =>
    let vars ← (← asArr? vs).mapM (fun v => do
      match ← natList? v with
      | [p, a, b] => some (p, a, b)
      | _ => none)
    some ⟨← asNat? s, vars⟩
  | _ => none

def errJson : Err → Json
  | .assertion => Json.mkObj [("err", Json.str "AssertionError")]
  | .keyError => Json.mkObj [("err", Json.str "KeyError")]

def insertPair (e : Nat × Nat) : List (Nat × Nat) → List (Nat × Nat)
  | [] => [e]
  | b :: t => if e.1 ≤ b.1 then e :: b :: t else b :: insertPair e t

def compsJson (r : Except Err (List (Nat × Nat))) : Json :=
  match r with
  | .error e => errJson e
  | .ok comps =>
    let sorted := comps.foldr insertPair []
    Json.mkObj [("ok", ofList (fun (pc : Nat × Nat) => Json.arr #[ofNat pc.1, ofNat pc.2]) sorted),
                ("ps", ofList (fun (pc : Nat × Nat) => Json.arr #[ofNat pc.1, ofNat (psName pc.2)]) sorted)]

/-- `linkedB` tabulated over the node list (extensionally the same function on nodes; only faster) -/
def tabulate (link : Nat → Nat → Bool) (nodes : List Nat) : Nat → Nat → Bool :=
  let arr := nodes.toArray
  let tab : Array (Array Bool) := arr.map (fun a => arr.map (fun b => link a b))
  fun a b =>
    match nodes.idxOf? a, nodes.idxOf? b with
    | some i, some k => (tab[i]?.bind (·[k]?)).getD false
    | _, _ => false

/-! ### pipeline ops (Model/C03Pipe.lean) -/

/-- a read in the format of the trace hook (`_verif_trace.dump_read`) -/
def parseSelRead (j : Json) : Option SelRead := do
  let vars ← (← getList? j "variants").mapM (fun v => do
    match ← natList? v with
    | [p, a, q] => some (p, a, q)
    | _ => none)
  some ⟨← getStr? j "name", ← getNat? j "source_id", ← getNat? j "sample_id", vars⟩

def ofSelRead (r : SelRead) : Json :=
  Json.mkObj [("name", Json.str r.name), ("source_id", ofNat r.sourceId), ("sample_id", ofNat r.sample),
    ("variants", ofList (fun (v : Nat × Nat × Nat) => ofNatList [v.1, v.2.1, v.2.2]) r.vars)]

def parseReadsets (j : Json) (k : String) : Option (List (List SelRead)) := do
  (← getList? j k).mapM (fun rs => do (← asArr? rs).mapM parseSelRead)

def parseMember (j : Json) : Option Member := do
  match ← asArr? j with
  | [n, i] => some ⟨← asStr? n, ← asNat? i⟩
  | _ => none

def parseFamily (j : Json) : Option FamilyIn := do
  some ⟨← (← getList? j "members").mapM parseMember, ← parseReadsets j "selected", ← getNatList? j "homozygous",
        ← (← getList? j "superreads").mapM parseSuper⟩

def perrJson : PErr → Json
  | .fc e => errJson e
  | .notSorted => Json.mkObj [("err", Json.str "AssertionError")]
  | .duplicateRead => Json.mkObj [("err", Json.str "RuntimeError")]
  | .lengthMismatch => Json.mkObj [("err", Json.str "AssertionError")]
  | .keyError => Json.mkObj [("err", Json.str "KeyError")]
  | .indexError => Json.mkObj [("err", Json.str "IndexError")]

def pairsJson (l : List (Nat × Nat)) : Json :=
  ofList (fun (pc : Nat × Nat) => Json.arr #[ofNat pc.1, ofNat pc.2]) (l.foldr insertPair [])

def familyOutJson (distrust genetic : Bool) (f : FamilyIn) (o : FamilyOut) : Json :=
  let pr := familyParams distrust genetic f o.allReads
  Json.mkObj [("all_reads", ofList ofSelRead o.allReads), ("accessible", ofNatList o.accessible),
    ("comps", pairsJson o.comps), ("largest", ofNat (largestSize o.comps)),
    ("master", match pr.1 with | none => Json.null | some m => ofNatList m),
    ("het", match pr.2 with
      | none => Json.null
      | some h => ofList (fun (e : Nat × List Nat) => Json.arr #[ofNat e.1, ofNatList e.2]) h)]

def parseRunCfg (j : Json) : Option RunCfg := do
  some ⟨← WhVerif.C04.Json.tag? (← getStr? j "tag"), ← getBool? j "onlySnvs", ← getBool? j "distrust", ← getBool? j "genetic",
        ← WhVerif.C04.Json.strList? (← getObj? j "header"), ← WhVerif.C04.Json.strList? (← getObj? j "chromosomes")⟩

def parseChrom (j : Json) : Option ChromIn := do
  some ⟨← getStr? j "name", ← (← getList? j "families").mapM parseFamily,
        ← (← getList? j "records").mapM WhVerif.C04.Json.record?⟩

def phaseJson (p : Option WhVerif.C09.Phase) : Json :=
  match p with
  | none => Json.null
  | some ph => Json.mkObj [("block", match ph.block with | some b => ofInt b | none => Json.null),
                           ("alleles", ofList ofOptNat ph.alleles)]

def rowJson (r : ReadListRow) : Json :=
  Json.arr #[Json.str r.name, ofNat r.sourceId, Json.str r.sample, ofNat r.phaseset, ofNat r.haplotype, ofNat r.nvars,
    ofNat r.first, ofNat r.last]

def parseSampleComps (j : Json) : Option (List (String × List (Nat × Nat))) := do
  (← asArr? j).mapM (fun e => do
    match ← asArr? e with
    | [n, cs] => some (← asStr? n, ← (← asArr? cs).mapM WhVerif.C04.Json.pairNat?)
    | _ => none)

def handlePipe (op : String) (j : Json) : Option Json :=
  if op == "c03.merge" then
    match parseReadsets j "readsets" with
    | some rss =>
      match mergeReadsets rss with
      | .ok l => some (Json.mkObj [("ok", ofList ofSelRead l)])
      | .error e => some (perrJson e)
    | none => some badInput
  else if op == "c03.family" then
    match getBool? j "distrust", getBool? j "genetic", (getObj? j "family").bind parseFamily with
    | some d, some g, some f =>
      match familyStage d g f with
      | .ok o =>
        some (familyOutJson d g f o)
      | .error e => some (perrJson e)
    | _, _, _ => some badInput
  else if op == "c03.readlist" then
    match (getList? j "members").bind (·.mapM parseMember), (getObj? j "sample_comps").bind parseSampleComps,
          (getList? j "reads").bind (·.mapM parseSelRead), getNatList? j "bipartition" with
    | some ms, some sc, some rs, some bp =>
      match readList ms sc rs bp with
      | .ok rows => some (Json.mkObj [("ok", ofList rowJson rows)])
      | .error e => some (perrJson e)
    | _, _, _, _ => some badInput
  else if op == "c03.largest" then
    match (getList? j "comps").bind (·.mapM WhVerif.C04.Json.pairNat?) with
    | some cs => some (Json.mkObj [("size", ofNat (largestSize cs))])
    | none => some badInput
  else if op == "c03.pipeline" then
    -- the whole run: {cfg, chroms} -> per chromosome, per record, per header sample the decoded phase statement
    match (getObj? j "cfg").bind parseRunCfg, (getList? j "chroms").bind (·.mapM parseChrom) with
    | some rc, some cs =>
      match phaseFile rc cs with
      | .error e => some (perrJson e)
      | .ok outs =>
        some (Json.mkObj [("chroms", ofList (fun (os : List WhVerif.C04.Out) =>
          ofList (fun (o : WhVerif.C04.Out) =>
            Json.mkObj [("pos", ofNat o.record.pos),
                        ("format", ofList Json.str o.record.format),
                        ("phases", ofList (fun (nc : String × WhVerif.C04.Call) => phaseJson (decodeCall o.record.format nc.2))
                          o.record.calls)]) os) outs)])
    | _, _ => some badInput
  else none

/-- `c03.pstype`: {decls: [[key, number, type], ...], ints: [n, ...]} -> the decision of `missing_headers` per declaration as coded
and as repaired (number: a JSON number, or "." / "A" / "G" / "R"), the PS type of the output header for every PS declaration, and
the text of every integer under `Type=Integer` / `Type=Float` with what the decimal reader makes of the latter -/
def parseNum (j : Json) : Option Header.Num :=
  match asNat? j with
  | some k => some (.n k)
  | none => match asStr? j with
    | some "." => some .dot
    | some "A" => some .A
    | some "G" => some .G
    | some "R" => some .R
    | _ => none

def parseTyp (s : String) : Option Header.Typ :=
  if s == "Integer" then some .integer else if s == "Float" then some .float
  else if s == "String" then some .string else if s == "Character" then some .character else none

def decisionStr : Header.Decision → String
  | .accept => "accept" | .rewrite => "rewrite" | .refuse => "refuse" | .notPredefined => "not-predefined"

def typJson : Option Header.Typ → Json
  | none => Json.null
  | some .integer => Json.str "Integer" | some .float => Json.str "Float"
  | some .string => Json.str "String" | some .character => Json.str "Character"

def handlePsType (j : Json) : Option Json :=
  let decls := (getList? j "decls").bind (·.mapM (fun e => do
    match ← asArr? e with
    | [k, n, t] => some (← asStr? k, (⟨← parseNum n, ← parseTyp (← asStr? t)⟩ : Header.Decl))
    | _ => none))
  match decls, getNatList? j "ints" with
  | some ds, some ns =>
    some (Json.mkObj [
      ("coded", ofList (fun (kd : String × Header.Decl) => Json.str (decisionStr (Header.formatRule kd.1 kd.2))) ds),
      ("fixed", ofList (fun (kd : String × Header.Decl) => Json.str (decisionStr (Header.formatRuleFixed kd.1 kd.2))) ds),
      ("ps_out_coded", ofList (fun (kd : String × Header.Decl) =>
          if kd.1 == "PS" then typJson (Header.psOutputType Header.formatRule (some kd.2)) else Json.str "-") ds),
      ("ps_out_fixed", ofList (fun (kd : String × Header.Decl) =>
          if kd.1 == "PS" then typJson (Header.psOutputType Header.formatRuleFixed (some kd.2)) else Json.str "-") ds),
      ("ps_out_absent", typJson (Header.psOutputType Header.formatRule none)),
      ("as_integer", ofList (fun n => Json.str (String.ofList (Header.renderToken .integer n))) ns),
      ("as_float", ofList (fun n => Json.str (String.ofList (Header.renderToken .float n))) ns),
      ("float_reads_back", ofList (fun n => ofOptNat (Header.parseDec (Header.renderToken .float n))) ns)])
  | _, _ => some badInput

def handle (op : String) (j : Json) : Option Json :=
  if op == "c03.pstype" then handlePsType j
  else if op == "c03.find_components" then
    match getNatList? j "phased", parseReads j "reads" with
    | some phased, some reads =>
      let master := (optField j "master").bind natList?
      let het := (optField j "het").bind parseHet
      -- a present but unparsable optional field is bad input
      if ((optField j "master").isSome && master.isNone) || ((optField j "het").isSome && het.isNone) then some badInput
      else some (compsJson (findComponents phased reads master het))
    | _, _ => some badInput
  else if op == "c03.overall" then
    match getNatList? j "accessible", parseReads j "reads", getBool? j "distrust", getNat? j "fam_size",
          getBool? j "genetic", getNatList? j "homozygous", (getList? j "superreads").bind (·.mapM parseSuper) with
    | some acc, some reads, some distrust, some fam, some genetic, some hom, some srs =>
      let pr := overallParams acc distrust fam genetic hom srs
      let out := compsJson (computeOverallComponents acc reads distrust fam genetic hom srs)
      some (out.setObjVal! "master" (match pr.1 with | none => Json.null | some m => ofNatList m))
    | _, _, _, _, _, _, _ => some badInput
  else if op == "c03.spec" then
    -- the union-find-free oracle: for every phased position the smallest position connected to it,
    -- and for the listed pairs whether they are connected
    match getNatList? j "phased", parseReads j "reads" with
    | some phased, some reads =>
      let master := (optField j "master").bind natList?
      let het := (optField j "het").bind parseHet
      let nodes := allNodes phased reads master
      let link := tabulate (linkedB phased reads master het) nodes
      let left := phased.eraseDups.map (fun p => (p, leftmostWith link nodes p))
      let pairs := ((getList? j "pairs").bind (·.mapM natList?)).getD []
      let conn := pairs.map (fun pr => match pr with
        | [a, b] => Json.bool (connectedWith link nodes a b)
        | _ => Json.null)
      some (Json.mkObj [("leftmost", ofList (fun (pc : Nat × Nat) => Json.arr #[ofNat pc.1, ofNat pc.2]) (left.foldr insertPair [])),
                        ("connected", Json.arr conn.toArray)])
    | _, _ => some badInput
  else handlePipe op j
end WhVerif.Driver.C03

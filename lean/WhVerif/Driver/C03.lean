import WhVerif.Util.Proto
namespace WhVerif.Driver.C03
open Lean WhVerif.Proto
/-- ops of property C03 are named `c03.<name>`; return `none` for ops that are not ours -/
def handle (_op : String) (_j : Json) : Option Json := none
end WhVerif.Driver.C03

import WhVerif.Util.Proto
import WhVerif.Model.C18
namespace WhVerif.Driver.C18
open Lean WhVerif.Proto WhVerif.C18

def parseOp (j : Json) : Option Op := do
  let l ← asArr? j
  match l with
  | [Json.str "push", s, it] => some (.push (← intList? s) (← asNat? it))
  | [Json.str "pop"] => some .pop
  | [Json.str "change", it, s] => some (.change (← asNat? it) (← intList? s))
  | [Json.str "get", it] => some (.get (← asNat? it))
  | [Json.str "len"] => some .len
  | [Json.str "empty"] => some .isEmpty
  | _ => none

def outJson : Out → Json
  | .unit => Json.str "ok"
  | .popped s it => Json.arr #[ofIntList s, ofNat it]
  | .empty => Json.str "IndexError"
  | .misuse => Json.str "misuse"
  | .score none => Json.null
  | .score (some s) => ofIntList s
  | .len n => ofNat n
  | .isEmpty b => Json.bool b

def ufRun (u : UF) : List Json → List Json
  | [] => []
  | j :: rest =>
    match asArr? j with
    | some [Json.str "merge", x, y] =>
      match asNat? x, asNat? y with
      | some x, some y =>
        match u.merge x y with
        | some u' => Json.str "ok" :: ufRun u' rest
        | none => Json.str "err" :: ufRun u rest
      | _, _ => [badInput]
    | some [Json.str "find", x] =>
      match asNat? x with
      | some x =>
        match u.find x with
        | some (u', r) => ofNat r :: ufRun u' rest
        | none => Json.str "err" :: ufRun u rest
      | none => [badInput]
    | _ => [badInput]

def handle (op : String) (j : Json) : Option Json :=
  if op == "c18.pq" then
    match (getList? j "ops").bind (·.mapM parseOp) with
    | some ops => some (ofList outJson (run {} ops))
    | none => some badInput
  else if op == "c18.lower" then
    match getIntList? j "a", getIntList? j "b" with
    | some a, some b => some (Json.bool (scoreLower a b))
    | _, _ => some badInput
  else if op == "c18.uf" then
    match getNatList? j "values", getList? j "ops" with
    | some vs, some ops => some (Json.arr (ufRun (UF.init vs) ops).toArray)
    | _, _ => some badInput
  else none
end WhVerif.Driver.C18

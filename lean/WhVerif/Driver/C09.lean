import WhVerif.Util.Proto
import WhVerif.Model.C04Json
import WhVerif.Model.C09
import WhVerif.Model.C09File
import WhVerif.Spec.C09Cap
namespace WhVerif.Driver.C09
open Lean WhVerif.Proto WhVerif.C04 WhVerif.C04.Json WhVerif.C09

def ofPhase : Option Phase → Json
  | none => Json.null
  | some p => Json.mkObj [("block", match p.block with | some b => ofInt b | none => Json.null),
                          ("alleles", ofList ofOptNat p.alleles)]

def phase? : Json → Option (Option Phase)
  | Json.null => some none
  | j => do
    let block ← match j.getObjVal? "block" with
      | .ok Json.null => some none
      | .ok b => (asInt? b).map some
      | _ => none
    let alleles ← (← getList? j "alleles").mapM allele?
    some (some ⟨block, alleles⟩)

def ofErr : Err → Json
  | .hpFormat => Json.mkObj [("error", Json.str "hpFormat")]
  | .mixed => Json.mkObj [("error", Json.str "mixed")]
  | .notSorted => Json.mkObj [("error", Json.str "notSorted")]
  | .ploidy => Json.mkObj [("error", Json.str "ploidy")]

def varPhase? (j : Json) : Option VarPhase := do
  some ⟨← getNat? j "pos", ← getBool? j "wanted", ← getNatList? j "gcode", ← phase? (← getObj? j "phase")⟩

def ofRow (r : Row) : Json :=
  Json.mkObj [("pos", ofNat r.pos), ("ref", Json.str r.ref), ("alt", Json.str r.alt),
    ("calls", ofList (fun gp => Json.arr #[ofNatList gp.1, ofPhase gp.2]) r.calls)]


def optNat? : Json → Option (Option Nat)
  | Json.null => some none
  | j => (asNat? j).map some

def optInt? : Json → Option (Option Int)
  | Json.null => some none
  | j => (asInt? j).map some

def group? (j : Json) : Option (String × List Record) := do
  some (← getStr? j "chrom", ← (← getList? j "records").mapM record?)

def rowCall? (j : Json) : Option (List Nat × Option Phase) := do
  match ← asArr? j with
  | [g, p] => some (← (← asArr? g).mapM asNat?, ← phase? p)
  | _ => none

def row? (j : Json) : Option Row := do
  some ⟨← getNat? j "pos", ← getStr? j "ref", ← getStr? j "alt", ← (← getList? j "calls").mapM rowCall?⟩

def ptable? (j : Json) : Option PTable := do
  some ⟨← getStr? j "chrom", ← strList? (← getObj? j "samples"), ← (← getList? j "rows").mapM row?,
        ← (← getList? j "quals").mapM fun q => do (← asArr? q).mapM optInt?⟩

def vkey? (j : Json) : Option VKey := do
  match ← asArr? j with
  | [p, r, a] => some (← asNat? p, ← asStr? r, ← asStr? a)
  | _ => none

def ofPseudoRead (r : PseudoRead) : Json :=
  Json.mkObj [("name", Json.str r.name), ("source_id", ofNat r.sourceId), ("sample_id", ofNat r.sampleId),
    ("variants", ofList (fun v => Json.arr #[ofNat v.1, ofOptNat v.2.1, ofInt v.2.2]) r.variants)]

def ofOut (o : Out) : Json :=
  Json.mkObj [("record", ofRecord o.record), ("changes", ofList ofChange o.changes), ("err", Json.bool o.err)]

def wgroup? (base : Cfg) (j : Json) : Option (String × Cfg × List Record) := do
  some (← getStr? j "chrom", { base with targets := ← (← getList? j "targets").mapM target? },
        ← (← getList? j "records").mapM record?)

/-- ops of property C09 are named `c09.<name>`; return `none` for ops that are not ours -/
def handle (op : String) (j : Json) : Option Json :=
  if op == "c09.decode" then
    match (getObj? j "format").bind strList?, (getObj? j "call").bind call? with
    | some fmt, some (_, c) =>
      match callPhases fmt c with
      | .ok (hp, gp) => some (Json.mkObj [("hp", ofPhase hp), ("gtps", ofPhase gp)])
      | .error e => some (ofErr e)
    | _, _ => some badInput
  else if op == "c09.read" then
    match getBool? j "onlySnvs", (getList? j "records").bind (·.mapM record?) with
    | some os, some rs =>
      match readChrom os none none rs with
      | .ok (_, rows) => some (Json.mkObj [("rows", ofList ofRow rows)])
      | .error e => some (ofErr e)
    | _, _ => some badInput
  else if op == "c09.reads" then
    match (getList? j "rows").bind (·.mapM varPhase?) with
    | some rows =>
      some (ofList (fun x => Json.arr #[match x.1 with | some b => ofInt b | none => Json.null, ofNat x.2.1,
                                         ofList (fun pa => Json.arr #[ofNat pa.1, ofOptNat pa.2]) x.2.2])
              (blocksAsReads 2 rows))
    | none => some badInput
  else if op == "c09.readfile" then
    match getBool? j "onlySnvs", (getObj? j "ploidy").bind optNat?, (getList? j "groups").bind (·.mapM group?) with
    | some os, some pl, some gs =>
      match readFile os pl gs with
      | .ok (pl', tables) =>
        some (Json.mkObj [("ploidy", ofOptNat pl'),
          ("tables", ofList (fun t => Json.mkObj [("chrom", Json.str t.1), ("rows", ofList ofRow t.2)]) tables)])
      | .error e => some (ofErr e)
    | _, _, _ => some badInput
  else if op == "c09.phaseinput" then
    match (getList? j "files").bind (·.mapM fun f => do (← asArr? f).mapM ptable?), getNat? j "nPaths",
          getStr? j "chrom", getStr? j "sample", getNat? j "sampleId", (getList? j "inputVariants").bind (·.mapM vkey?) with
    | some files, some np, some chrom, some sample, some sid, some iv =>
      let (reads, ids) := phaseInputReads files np chrom sample sid iv
      some (Json.mkObj [("reads", ofList ofPseudoRead reads), ("source_ids", ofNatList ids)])
    | _, _, _, _, _, _ => some badInput
  else if op == "c09.writex" then
    match getBool? j "rm", (getObj? j "cfg").bind cfg?, (getList? j "records").bind (·.mapM record?) with
    | some rm, some cfg, some rs =>
      -- "f65": the working tree has fixes/F65.patch (keep mode: a call phased anew loses its old phase information first)
      if !rm && (getBool? j "f65").getD false then some (ofList ofOut (writeChromXF cfg none rs))
      else some (ofList ofOut (writeChromX rm cfg none rs))
    | _, _, _ => some badInput
  else if op == "c09.writefile" then
    match (getObj? j "cfg").bind cfg? with
    | some base =>
      match (getList? j "groups").bind (·.mapM (wgroup? base)) with
      | some gs =>
        some (ofList (fun g => Json.mkObj [("chrom", Json.str g.1), ("records", ofList ofRecord g.2)]) (writeFile gs))
      | none => some badInput
    | none => some badInput
  else if op == "c09.fits" then
    -- spans: [[lo, hi], ...] of the multi-variant sets of one sample on one chromosome; ps: their member positions
    match getNat? j "cap", getNatList? j "ps", (getList? j "spans").bind (·.mapM fun x => do
        match ← asArr? x with
        | [a, b] => some (Cap.Span.mk (← asNat? a) (← asNat? b))
        | _ => none) with
    | some cap, some ps, some spans =>
      some (ofList (fun i => Json.mkObj [("depth", ofNat (Cap.depth ps spans i)), ("fits", Json.bool (Cap.fits cap ps spans i))])
              (List.range spans.length))
    | _, _, _ => some badInput
  else none
end WhVerif.Driver.C09

import WhVerif.Util.Proto
namespace WhVerif.Driver.C09
open Lean WhVerif.Proto
/-- ops of property C09 are named `c09.<name>`; return `none` for ops that are not ours -/
def handle (_op : String) (_j : Json) : Option Json := none
end WhVerif.Driver.C09

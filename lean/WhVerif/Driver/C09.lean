import WhVerif.Util.Proto
import WhVerif.Model.C04Json
import WhVerif.Model.C09
import WhVerif.Model.C09File
import WhVerif.Spec.C09Cap
import WhVerif.Model.C09Text
namespace WhVerif.Driver.C09
open Lean WhVerif.Proto WhVerif.C04 WhVerif.C04.Json WhVerif.C09

def ofPhase : Option Phase → Json
  | none => Json.null
  | some p => Json.mkObj [("block", match p.block with | some b => ofInt b | none => Json.null),
                          ("alleles", ofList ofOptNat p.alleles)]

def phase? : Json → Option (Option Phase)
  | Json.null => some none
  | j => do
    let block ← match j.getObjVal? "block" with
      | .ok Json.null => some none
      | .ok b => (asInt? b).map some
      | _ => none
    let alleles ← (← getList? j "alleles").mapM allele?
    some (some ⟨block, alleles⟩)

def ofErr : Err → Json
  | .hpFormat => Json.mkObj [("error", Json.str "hpFormat")]
  | .mixed => Json.mkObj [("error", Json.str "mixed")]
  | .notSorted => Json.mkObj [("error", Json.str "notSorted")]
  | .ploidy => Json.mkObj [("error", Json.str "ploidy")]

def varPhase? (j : Json) : Option VarPhase := do
  some ⟨← getNat? j "pos", ← getBool? j "wanted", ← getNatList? j "gcode", ← phase? (← getObj? j "phase")⟩

def ofRow (r : Row) : Json :=
  Json.mkObj [("pos", ofNat r.pos), ("ref", Json.str r.ref), ("alt", Json.str r.alt),
    ("calls", ofList (fun gp => Json.arr #[ofNatList gp.1, ofPhase gp.2]) r.calls)]


def optNat? : Json → Option (Option Nat)
  | Json.null => some none
  | j => (asNat? j).map some

def optInt? : Json → Option (Option Int)
  | Json.null => some none
  | j => (asInt? j).map some

def group? (j : Json) : Option (String × List Record) := do
  some (← getStr? j "chrom", ← (← getList? j "records").mapM record?)

def rowCall? (j : Json) : Option (List Nat × Option Phase) := do
  match ← asArr? j with
  | [g, p] => some (← (← asArr? g).mapM asNat?, ← phase? p)
  | _ => none

def row? (j : Json) : Option Row := do
  some ⟨← getNat? j "pos", ← getStr? j "ref", ← getStr? j "alt", ← (← getList? j "calls").mapM rowCall?⟩

def ptable? (j : Json) : Option PTable := do
  some ⟨← getStr? j "chrom", ← strList? (← getObj? j "samples"), ← (← getList? j "rows").mapM row?,
        ← (← getList? j "quals").mapM fun q => do (← asArr? q).mapM optInt?⟩

def vkey? (j : Json) : Option VKey := do
  match ← asArr? j with
  | [p, r, a] => some (← asNat? p, ← asStr? r, ← asStr? a)
  | _ => none

def ofPseudoRead (r : PseudoRead) : Json :=
  Json.mkObj [("name", Json.str r.name), ("source_id", ofNat r.sourceId), ("sample_id", ofNat r.sampleId),
    ("variants", ofList (fun v => Json.arr #[ofNat v.1, ofOptNat v.2.1, ofInt v.2.2]) r.variants)]

def ofOut (o : Out) : Json :=
  Json.mkObj [("record", ofRecord o.record), ("changes", ofList ofChange o.changes), ("err", Json.bool o.err)]

def wgroup? (base : Cfg) (j : Json) : Option (String × Cfg × List Record) := do
  some (← getStr? j "chrom", { base with targets := ← (← getList? j "targets").mapM target? },
        ← (← getList? j "records").mapM record?)

/-! text level (Model/C09Text.lean) -/
open WhVerif.C09.Text in
def ofHpErr : HpErr → String
  | .attribute => "AttributeError" | .value => "ValueError" | .assertion => "AssertionError"
  | .index => "IndexError" | .key => "KeyError"

def optChars? (j : Json) (k : String) : Option (Option (List Char)) :=
  match j.getObjVal? k with
  | .ok Json.null => some none
  | .ok (Json.str s) => some (some s.toList)
  | _ => none

open WhVerif.C09.Text in
def hpCol? (j : Json) : Option HpCol :=
  match j.getObjVal? "hp" with
  | .ok (Json.str "absent") => some .absent
  | .ok (Json.str "dropped") => some .dropped
  | .ok o => (getStr? o "t").map fun s => .text s.toList
  | _ => none

def pair? (j : Json) : Option (Nat × Nat) := do
  match ← asArr? j with
  | [a, b] => some (← asNat? a, ← asNat? b)
  | _ => none

def region? (j : Json) : Option (Nat × Option Nat) := do
  match ← asArr? j with
  | [a, b] => some (← asNat? a, ← optNat? b)
  | _ => none

open WhVerif.C09.Text in
def site? (j : Json) : Option Site := do
  match ← asArr? j with
  | [c, s, l] => some ⟨← asStr? c, ← asNat? s, ← asNat? l⟩
  | _ => none

def planItem? (j : Json) : Option (String × Option (Nat → Nat)) := do
  match ← asArr? j with
  | [c, w] => some (← asStr? c, if (← asBool? w) then some (· + 1000000) else none)
  | _ => none

open WhVerif.C09.Text in
def textHandle (op : String) (j : Json) : Option Json :=
  if op == "c09.text" then
    match getNat? j "nal", optChars? j "gt", optChars? j "ps", hpCol? j with
    | some nal, some gt, some ps, some hp =>
      let gtv := match gt with | some t => (match parseGT nal t with
          | some (g, ph) => Json.mkObj [("gt", ofList ofOptNat g), ("phased", Json.bool ph)]
          | none => Json.str "reject") | none => Json.null
      let psv := match ps with | some t => (match parsePS t with
          | some (some n) => ofInt n | some none => Json.str "missing" | none => Json.str "reject") | none => Json.null
      let hpv := match hp with
        | .text t => (match hpValOfText t with
          | .ok (some l) => ofList (fun bh => Json.arr #[ofNat bh.1, ofNat bh.2]) l
          | .ok none => Json.str "none"
          | .error e => Json.str (ofHpErr e))
        | _ => Json.null
      let res := match callPhasesText ⟨nal, gt, ps, hp⟩ with
        | .ok (hpp, gp) => Json.mkObj [("hp", ofPhase hpp), ("gtps", ofPhase gp)]
        | .error (.hp e) => Json.mkObj [("error", Json.str (ofHpErr e))]
        | .error .record => Json.mkObj [("error", Json.str "record")]
      some (Json.mkObj [("gtv", gtv), ("psv", psv), ("hpv", hpv), ("res", res)])
    | _, _, _, _ => some badInput
  else if op == "c09.render" then
    match (getList? j "pairs").bind (·.mapM pair?), (getObj? j "ps").bind optInt?, (getList? j "gt").bind (·.mapM allele?),
          getBool? j "phased" with
    | some pairs, some ps, some gt, some ph =>
      some (Json.mkObj [("hp", Json.str (String.ofList (renderHP pairs))), ("ps", Json.str (String.ofList (renderPS ps))),
                        ("gt", Json.str (String.ofList (renderGT gt ph)))])
    | _, _, _, _ => some badInput
  else if op == "c09.passthrough" then
    match (getObj? j "file").bind strList?, (getList? j "plan").bind (·.mapM planItem?) with
    | some file, some plan =>
      let recs : List (String × Nat) := file.zip (List.range file.length)
      match runAug ⟨none, recs⟩ plan with
      | .ok outs => some (Json.mkObj [("outs", ofList ofNatList outs)])
      | .error _ => some (Json.mkObj [("error", Json.str "AssertionError")])
    | _, _ => some badInput
  else if op == "c09.fetch" then
    match (getList? j "sites").bind (·.mapM site?), getStr? j "chrom", (getList? j "regions").bind (·.mapM region?) with
    | some sites, some chrom, some regions =>
      let file : List (Site × Nat) := sites.zip (List.range sites.length)
      some (Json.mkObj [("fetch", ofNatList ((fetchChrom (·.1) file chrom).map (·.2))),
                        ("regions", ofNatList ((fetchRegions (·.1) file chrom regions).map (·.2))),
                        ("runs", ofList (fun g => Json.arr #[Json.str g.1, ofNatList (g.2.map (·.2))]) (runsOf (·.1.chrom) file))])
    | _, _, _ => some badInput
  else none

/-- ops of property C09 are named `c09.<name>`; return `none` for ops that are not ours -/
def handle (op : String) (j : Json) : Option Json :=
  if op == "c09.decode" then
    match (getObj? j "format").bind strList?, (getObj? j "call").bind call? with
    | some fmt, some (_, c) =>
      match callPhases fmt c with
      | .ok (hp, gp) => some (Json.mkObj [("hp", ofPhase hp), ("gtps", ofPhase gp)])
      | .error e => some (ofErr e)
    | _, _ => some badInput
  else if op == "c09.read" then
    match getBool? j "onlySnvs", (getList? j "records").bind (·.mapM record?) with
    | some os, some rs =>
      match readChrom os none none rs with
      | .ok (_, rows) => some (Json.mkObj [("rows", ofList ofRow rows)])
      | .error e => some (ofErr e)
    | _, _ => some badInput
  else if op == "c09.reads" then
    match (getList? j "rows").bind (·.mapM varPhase?) with
    | some rows =>
      some (ofList (fun x => Json.arr #[match x.1 with | some b => ofInt b | none => Json.null, ofNat x.2.1,
                                         ofList (fun pa => Json.arr #[ofNat pa.1, ofOptNat pa.2]) x.2.2])
              (blocksAsReads 2 rows))
    | none => some badInput
  else if op == "c09.readfile" then
    match getBool? j "onlySnvs", (getObj? j "ploidy").bind optNat?, (getList? j "groups").bind (·.mapM group?) with
    | some os, some pl, some gs =>
      match readFile os pl gs with
      | .ok (pl', tables) =>
        some (Json.mkObj [("ploidy", ofOptNat pl'),
          ("tables", ofList (fun t => Json.mkObj [("chrom", Json.str t.1), ("rows", ofList ofRow t.2)]) tables)])
      | .error e => some (ofErr e)
    | _, _, _ => some badInput
  else if op == "c09.phaseinput" then
    match (getList? j "files").bind (·.mapM fun f => do (← asArr? f).mapM ptable?), getNat? j "nPaths",
          getStr? j "chrom", getStr? j "sample", getNat? j "sampleId", (getList? j "inputVariants").bind (·.mapM vkey?) with
    | some files, some np, some chrom, some sample, some sid, some iv =>
      let (reads, ids) := phaseInputReads files np chrom sample sid iv
      some (Json.mkObj [("reads", ofList ofPseudoRead reads), ("source_ids", ofNatList ids)])
    | _, _, _, _, _, _ => some badInput
  else if op == "c09.writex" then
    match getBool? j "rm", (getObj? j "cfg").bind cfg?, (getList? j "records").bind (·.mapM record?) with
    | some rm, some cfg, some rs =>
      -- "f65": the working tree has fixes/F65.patch (keep mode: a call phased anew loses its old phase information first)
      if !rm && (getBool? j "f65").getD false then some (ofList ofOut (writeChromXF cfg none rs))
      else some (ofList ofOut (writeChromX rm cfg none rs))
    | _, _, _ => some badInput
  else if op == "c09.writefile" then
    match (getObj? j "cfg").bind cfg? with
    | some base =>
      match (getList? j "groups").bind (·.mapM (wgroup? base)) with
      | some gs =>
        some (ofList (fun g => Json.mkObj [("chrom", Json.str g.1), ("records", ofList ofRecord g.2)]) (writeFile gs))
      | none => some badInput
    | none => some badInput
  else if op == "c09.fits" then
    -- spans: [[lo, hi], ...] of the multi-variant sets of one sample on one chromosome; ps: their member positions
    match getNat? j "cap", getNatList? j "ps", (getList? j "spans").bind (·.mapM fun x => do
        match ← asArr? x with
        | [a, b] => some (Cap.Span.mk (← asNat? a) (← asNat? b))
        | _ => none) with
    | some cap, some ps, some spans =>
      some (ofList (fun i => Json.mkObj [("depth", ofNat (Cap.depth ps spans i)), ("fits", Json.bool (Cap.fits cap ps spans i))])
              (List.range spans.length))
    | _, _, _ => some badInput
  else textHandle op j
end WhVerif.Driver.C09

import WhVerif.Util.Proto
import WhVerif.Model.C04Json
import WhVerif.Model.C09
namespace WhVerif.Driver.C09
open Lean WhVerif.Proto WhVerif.C04 WhVerif.C04.Json WhVerif.C09

def ofPhase : Option Phase → Json
  | none => Json.null
  | some p => Json.mkObj [("block", match p.block with | some b => ofInt b | none => Json.null),
                          ("alleles", ofList ofOptNat p.alleles)]

def phase? : Json → Option (Option Phase)
  | Json.null => some none
  | j => do
    let block ← match j.getObjVal? "block" with
      | .ok Json.null => some none
      | .ok b => (asInt? b).map some
      | _ => none
    let alleles ← (← getList? j "alleles").mapM allele?
    some (some ⟨block, alleles⟩)

def ofErr : Err → Json
  | .hpFormat => Json.mkObj [("error", Json.str "hpFormat")]
  | .mixed => Json.mkObj [("error", Json.str "mixed")]
  | .notSorted => Json.mkObj [("error", Json.str "notSorted")]

def varPhase? (j : Json) : Option VarPhase := do
  some ⟨← getNat? j "pos", ← getBool? j "wanted", ← getNatList? j "gcode", ← phase? (← getObj? j "phase")⟩

def ofRow (r : Row) : Json :=
  Json.mkObj [("pos", ofNat r.pos), ("ref", Json.str r.ref), ("alt", Json.str r.alt),
    ("calls", ofList (fun gp => Json.arr #[ofNatList gp.1, ofPhase gp.2]) r.calls)]

/-- ops of property C09 are named `c09.<name>`; return `none` for ops that are not ours -/
def handle (op : String) (j : Json) : Option Json :=
  if op == "c09.decode" then
    match (getObj? j "format").bind strList?, (getObj? j "call").bind call? with
    | some fmt, some (_, c) =>
      match callPhases fmt c with
      | .ok (hp, gp) => some (Json.mkObj [("hp", ofPhase hp), ("gtps", ofPhase gp)])
      | .error e => some (ofErr e)
    | _, _ => some badInput
  else if op == "c09.read" then
    match getBool? j "onlySnvs", (getList? j "records").bind (·.mapM record?) with
    | some os, some rs =>
      match readChrom os none none rs with
      | .ok (_, rows) => some (Json.mkObj [("rows", ofList ofRow rows)])
      | .error e => some (ofErr e)
    | _, _ => some badInput
  else if op == "c09.reads" then
    match (getList? j "rows").bind (·.mapM varPhase?) with
    | some rows =>
      some (ofList (fun x => Json.arr #[match x.1 with | some b => ofInt b | none => Json.null, ofNat x.2.1,
                                         ofList (fun pa => Json.arr #[ofNat pa.1, ofOptNat pa.2]) x.2.2])
              (blocksAsReads 2 rows))
    | none => some badInput
  else none
end WhVerif.Driver.C09

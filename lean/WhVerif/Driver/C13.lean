import WhVerif.Util.Proto
namespace WhVerif.Driver.C13
open Lean WhVerif.Proto
/-- ops of property C13 are named `c13.<name>`; return `none` for ops that are not ours -/
def handle (_op : String) (_j : Json) : Option Json := none
end WhVerif.Driver.C13

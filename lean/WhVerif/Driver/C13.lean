import WhVerif.Util.Proto
import WhVerif.Model.C13
import WhVerif.Model.C13Bridge
import WhVerif.Model.C13Text
import WhVerif.Spec.C13Edit
import WhVerif.Model.C04Json
namespace WhVerif.Driver.C13
open Lean WhVerif.Proto WhVerif.C13

def optNat? (j : Json) : Option (Option Nat) :=
  if j.isNull then some none else (asNat? j).map some

def parseGT (j : Json) : Option (Option GT) :=
  if j.isNull then some none else do
    let a ← (← getList? j "a").mapM optNat?
    let p ← getBool? j "p"
    pure (some { alleles := a, phased := p })

def parseKV (j : Json) : Option (String × String) := do
  match ← asArr? j with
  | [k, v] => pure (← asStr? k, ← asStr? v)
  | _ => none

def parseCall (j : Json) : Option Call := do
  let g ← parseGT (← getObj? j "gt")
  let f ← (← getList? j "f").mapM parseKV
  pure { gt := g, fields := f }

def parseRecord (j : Json) : Option Record := do
  let fx ← (← getList? j "fixed").mapM asStr?
  let cs ← (← getList? j "calls").mapM parseCall
  pure { fixed := fx, calls := cs }

def gtJson : Option GT → Json
  | none => Json.null
  | some g => Json.mkObj [("a", ofList (fun a => match a with | some n => ofNat n | none => Json.null) g.alleles),
                          ("p", Json.bool g.phased)]

def callJson (c : Call) : Json :=
  Json.mkObj [("gt", gtJson c.gt),
              ("f", ofList (fun kv => Json.arr #[Json.str kv.1, Json.str kv.2]) c.fields)]

def recordJson (r : Record) : Json :=
  Json.mkObj [("fixed", ofList Json.str r.fixed), ("calls", ofList callJson r.calls)]

def errJson : Err → Json
  | .indexError => Json.str "IndexError"
  | .typeError => Json.str "TypeError"
  | .keyError => Json.str "KeyError"

def exceptJson : Except Err (List Record) → Json
  | .ok v => Json.mkObj [("ok", ofList recordJson v)]
  | .error e => Json.mkObj [("err", errJson e)]

def hline? (j : Json) : Option C04.HLine := do
  let id := match j.getObjVal? "id" with
    | .ok (Json.str s) => some s
    | _ => none
  some ⟨← getStr? j "key", id, (getStr? j "number").getD "", (getStr? j "type").getD "", (getStr? j "text").getD ""⟩

def ofHLine (l : C04.HLine) : Json :=
  Json.mkObj [("key", Json.str l.key), ("id", match l.id with | some s => Json.str s | none => Json.null),
    ("text", Json.str l.text)]

/-- `c13.unphase {records}` → `{spec: [...], fix: {ok|err}, cur: {ok|err}}` -/
def handle (op : String) (j : Json) : Option Json :=
  if op == "c13.unphase" then
    match (getList? j "records").bind (·.mapM parseRecord) with
    | some v => some (Json.mkObj [("spec", ofList recordJson (unphase v)),
                                  ("fix", exceptJson (unphaseFix v)),
                                  ("cur", exceptJson (unphaseCur v))])
    | none => some badInput
  else if op == "c13.header" then
    -- {header} -> the header after one and after two applications, as coded and after fixes/F61.patch
    match (getList? j "header").bind (·.mapM hline?) with
    | some h => some (Json.mkObj [("cur", ofList ofHLine (unphaseHeader h)),
                                  ("cur2", ofList ofHLine (unphaseHeader (unphaseHeader h))),
                                  ("fix", ofList ofHLine (unphaseHeaderFix h))])
    | none => some badInput
  else if op == "c13.of_c04" then
    -- records in the JSON of the C04 model -> the same records in this model, and unphased
    match (getList? j "records").bind (·.mapM fun r => (getObj? r "record").bind C04.Json.record?) with
    | some rs => some (Json.mkObj [("plain", ofList recordJson (rs.map ofC04)),
                                   ("unphased", ofList recordJson (unphase (rs.map ofC04)))])
    | none => some badInput
  else if op == "c13.isedit" then
    -- `{a: records, b: records}` → `{edit: editB a b, same: unphase a = unphase b}`
    match (getList? j "a").bind (·.mapM parseRecord), (getList? j "b").bind (·.mapM parseRecord) with
    | some a, some b => some (Json.mkObj [("edit", Json.bool (editB a b)), ("same", Json.bool (decide (unphase b = unphase a)))])
    | _, _ => some badInput
  else if op == "c13.line" then
    -- `{lines: [data line text]}` → per line the text after unphase, the record it parses to (null: a GT token outside the
    -- grammar) and the record the OUTPUT text parses to
    match (getList? j "lines").bind (·.mapM asStr?) with
    | some ls =>
      let recJ := fun (l : List Char) => match Text.parseLine l with | some r => recordJson r | none => Json.null
      some (Json.mkObj [("out", ofList (fun l => Json.str (Text.unphaseLine l)) ls),
                        ("rec", ofList (fun l => recJ l.toList) ls),
                        ("rec_out", ofList (fun l => recJ (Text.unphaseLineText l.toList)) ls)])
    | none => some badInput
  else none
end WhVerif.Driver.C13

import WhVerif.Util.Proto
namespace WhVerif.Driver.C11
open Lean WhVerif.Proto
/-- ops of property C11 are named `c11.<name>`; return `none` for ops that are not ours -/
def handle (_op : String) (_j : Json) : Option Json := none
end WhVerif.Driver.C11

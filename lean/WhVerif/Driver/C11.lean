import WhVerif.Util.Proto
import WhVerif.Model.C11
import WhVerif.Model.C11Run
import WhVerif.Spec.C11
import WhVerif.Spec.C11Run
namespace WhVerif.Driver.C11
open Lean WhVerif.Proto WhVerif.C11

def ofPairs (l : List (Nat × Nat)) : Json := ofList (fun p => Json.arr #[ofNat p.1, ofNat p.2]) l

def errJson (e : PhasingErrors) : Json :=
  Json.mkObj [("switches", ofNat e.switches), ("hamming", ofNat e.hamming),
              ("sf", Json.arr #[ofNat e.sf.switches, ofNat e.sf.flips]),
              ("diff", ofNat e.diffGenotypes), ("den", ofNat e.den)]

def parseCall (j : Json) : Option Call := do
  match ← asArr? j with
  | [p, gt, ph, ps] => some ⟨← asNat? p, ← natList? gt, ← asBool? ph, ← asNat? ps⟩
  | _ => none

def parseTable (j : Json) : Option (List Call) := do (← asArr? j).mapM parseCall

def getHaps? (j : Json) (k : String) : Option (List Hap) :=
  match j.getObjVal? k with | .ok v => natListList? v | _ => none

def pairJson (r : PairResult) : Json :=
  Json.mkObj [("intersection_blocks", ofNat r.intersectionBlocks), ("covered_variants", ofNat r.coveredVariants),
              ("assessed_pairs", ofNat r.assessedPairs), ("total", errJson r.total),
              ("largest_len", ofNat r.largestLen), ("largest", errJson r.largest),
              ("bed", ofPairs r.bed), ("longest_positions", ofNatList r.longestPositions),
              ("longest_agreement", ofNatList r.longestAgreement),
              ("per_block", ofList (fun b => Json.arr #[ofNatList b.1, errJson b.2.1, ofNatList b.2.2]) r.perBlock)]

def strList? (j : Json) : Option (List String) := do (← asArr? j).mapM asStr?

/-- `[gt (list of nat|null), phased, ps (nat|null)]` -/
def parseRawCall (j : Json) : Option RawCall := do
  match ← asArr? j with
  | [gt, ph, ps] =>
    let g ← (← asArr? gt).mapM fun a => if a.isNull then some none else (asNat? a).map some
    let p ← if ps.isNull then some none else (asNat? ps).map some
    some ⟨g, ← asBool? ph, p⟩
  | _ => none

/-- `[chrom, pos, ref, alts, calls]` -/
def parseRec (j : Json) : Option Rec := do
  match ← asArr? j with
  | [c, p, r, a, cs] => some ⟨← asStr? c, ← asNat? p, ← asStr? r, ← strList? a, ← (← asArr? cs).mapM parseRawCall⟩
  | _ => none

def parseFile (j : Json) : Option VFile := do
  let s ← (getObj? j "samples").bind strList?
  let r ← (getList? j "records").bind (·.mapM parseRec)
  some ⟨s, r⟩

def runErrorName : RunError → String
  | .multiSampleIgnore => "multi-sample-ignore" | .sampleNotFound => "sample-not-found"
  | .noCommonSample => "no-common-sample" | .ambiguousSample => "ambiguous-sample" | .noSample => "no-sample"
  | .ploidy => "ploidy" | .notSorted => "not-sorted" | .noCommonChromosome => "no-common-chromosome"

def chromJson (c : ChromOut) : Json :=
  Json.mkObj [("chrom", Json.str c.chrom), ("died", Json.bool c.died),
    ("pairs", ofList (fun (p : PairOut) => Json.mkObj [("i", ofNat p.i), ("j", ofNat p.j), ("sample", Json.str p.sampleName),
        ("het0", ofNat p.hetVariants0), ("result", match p.result with | some r => pairJson r | none => Json.null)]) c.pairs),
    ("bed", ofList (fun (b : Nat × Nat × Nat × Nat) => ofNatList [b.1, b.2.1, b.2.2.1, b.2.2.2]) c.bed),
    ("multiway", match c.multiway with
      | some (names, total, hist) => Json.mkObj [("names", ofList Json.str names), ("total", ofNat total),
          ("hist", ofList (fun (kc : Hap × Nat) => Json.arr #[ofNatList kc.1, ofNat kc.2]) hist)]
      | none => Json.null)]

def blockSpecJson (b : Spec.BlockSpec) : Json :=
  Json.mkObj [("positions", ofNatList b.positions), ("switches", ofNat b.switches),
              ("sf", Json.arr #[ofNat b.sfSwitches, ofNat b.sfFlips]), ("hamming", ofNat b.hamming),
              ("diff", ofNat b.diffGenotypes), ("bed", ofPairs b.bed)]

def pairSpecJson (r : Spec.PairSpec) : Json :=
  Json.mkObj [("common_het", ofNat r.commonHet), ("intersection_blocks", ofNat r.intersectionBlocks),
              ("covered_variants", ofNat r.coveredVariants), ("assessed_pairs", ofNat r.assessedPairs),
              ("switches", ofNat r.switches), ("sf", Json.arr #[ofNat r.sfSwitches, ofNat r.sfFlips]),
              ("hamming", ofNat r.hamming), ("diff", ofNat r.diffGenotypes), ("largest_len", ofNat r.largestLen),
              ("largest", match r.largest with | some b => blockSpecJson b | none => Json.null),
              ("bed", ofPairs r.bed), ("blocks", ofList blockSpecJson r.blocks)]

def chromSpecJson (c : Spec.ChromSpec) : Json :=
  Json.mkObj [("chrom", Json.str c.chrom),
    ("pairs", ofList (fun (p : Nat × Nat × Nat × Spec.PairSpec) =>
        Json.mkObj [("i", ofNat p.1), ("j", ofNat p.2.1), ("het0", ofNat p.2.2.1), ("spec", pairSpecJson p.2.2.2)]) c.pairs),
    ("bed", ofList (fun (b : Nat × Nat × Nat × Nat) => ofNatList [b.1, b.2.1, b.2.2.1, b.2.2.2]) c.bed)]

def flag (j : Json) (k : String) : Bool := (getBool? j k).getD false

def handle (op : String) (j : Json) : Option Json :=
  if op == "c11.hamming" then
    match getNatList? j "a", getNatList? j "b" with
    | some a, some b => some (if a.length = b.length then ofNat (hamming a b) else Json.str "error")
    | _, _ => some badInput
  else if op == "c11.switchenc" then
    match getNatList? j "a" with
    | some a => some (ofNatList (switchEncoding a))
    | _ => some badInput
  else if op == "c11.complement" then
    match getNatList? j "a" with
    | some a => some (match complement a with | some c => ofNatList c | none => Json.str "error")
    | _ => some badInput
  else if op == "c11.sf" then
    match getNatList? j "a", getNatList? j "b" with
    | some a, some b =>
      some (if a.length = b.length then
              let r := computeSwitchFlips a b; Json.arr #[ofNat r.switches, ofNat r.flips]
            else Json.str "error")
    | _, _ => some badInput
  else if op == "c11.block" then
    match getHaps? j "ph0", getHaps? j "ph1" with
    | some ph0, some ph1 =>
      let fixA := flag j "fixA"
      let fixB := flag j "fixB"
      match compareBlock fixA fixB ph0 ph1 with
      | none => some (Json.str "error")
      | some e =>
        let p := ph0.length
        let n := (ph0.headD []).length
        if p = 2 then some (errJson e) else
          let mp := matchingPos ph0 ph1 n
          let sw := polyCompare fixA p 1 (2 * n * p + 1) (polyCols (ph0.map (restrictTo · mp)) (ph1.map (restrictTo · mp)) mp.length)
          let sf := polySwitchFlips fixA fixB ph0 ph1 p n
          some ((errJson e).mergeObj (Json.mkObj [("swAdm", ofPairs sw.admissible), ("sfAdm", ofPairs sf.admissible)]))
    | _, _ => some badInput
  else if op == "c11.blockspec" then
    -- brute-force definitions (exponential: small inputs only); well-formed input expected
    match getHaps? j "ph0", getHaps? j "ph1" with
    | some ph0, some ph1 =>
      let p := ph0.length
      let n := (ph0.headD []).length
      let mp := matchingPos ph0 ph1 n
      let sw := Spec.polyBrute p 1 (2 * n * p + 1) (polyCols (ph0.map (restrictTo · mp)) (ph1.map (restrictTo · mp)) mp.length)
      let sf := Spec.polyBrute p 1 1 (polyCols ph0 ph1 n)
      some (Json.mkObj [("hammingNum", ofNat (Spec.minHammingNum ph0 ph1)),
                        ("diff", ofNat (Spec.diffGenotypes ph0 ph1 n)),
                        ("swCost", ofNat sw.1), ("swPairs", ofPairs sw.2),
                        ("sfCost", ofNat sf.1), ("sfPairs", ofPairs sf.2)])
    | _, _ => some badInput
  else if op == "c11.poly" then
    match getNat? j "sc", getNat? j "fc", getHaps? j "ph0", getHaps? j "ph1" with
    | some sc, some fc, some ph0, some ph1 =>
      let p := ph0.length
      let cols := polyCols ph0 ph1 (ph0.headD []).length
      let r := polyCompare (flag j "fixA") p sc fc cols
      let f := polyCompareFull p sc fc cols
      some (Json.mkObj [("cost", ofNat r.cost), ("rep", Json.arr #[ofNat r.rep.1, ofNat r.rep.2]),
                        ("adm", ofPairs r.admissible), ("fullCost", ofNat f.1), ("fullPairs", ofPairs f.2)])
    | _, _, _, _ => some badInput
  else if op == "c11.polybrute" then
    match getNat? j "sc", getNat? j "fc", getHaps? j "ph0", getHaps? j "ph1" with
    | some sc, some fc, some ph0, some ph1 =>
      let r := Spec.polyBrute ph0.length sc fc (polyCols ph0 ph1 (ph0.headD []).length)
      some (Json.mkObj [("cost", ofNat r.1), ("pairs", ofPairs r.2)])
    | _, _, _, _ => some badInput
  else if op == "c11.agree" then
    match getHaps? j "ph0", getHaps? j "ph1" with
    | some ph0, some ph1 =>
      let o := fun (x : Option (List Nat)) => match x with | some v => ofNatList v | none => Json.str "error"
      some (Json.mkObj [("faithful", o (agreementFaithful ph0 ph1)), ("fixed", o (agreementFixed ph0 ph1))])
    | _, _ => some badInput
  else if op == "c11.pair" then
    match getNat? j "ploidy", (getObj? j "t0").bind parseTable, (getObj? j "t1").bind parseTable with
    | some p, some t0, some t1 =>
      match comparePair (flag j "fixA") (flag j "fixB") (flag j "fix3") (flag j "fix45") (flag j "fix46") p t0 t1 with
      | none => some (Json.str "error")
      | some r =>
        some (pairJson r)
    | _, _, _ => some badInput
  else if op == "c11.multiway" then
    match (getList? j "tables").bind (·.mapM parseTable) with
    | some tables =>
      match compareMultiway (flag j "fixC") (flag j "fix46") tables with
      | none => some (Json.str "error")
      | some (total, hist) =>
        some (Json.mkObj [("total", ofNat total),
                          ("hist", ofList (fun kc => Json.arr #[ofNatList kc.1, ofNat kc.2]) hist)])
    | none => some badInput
  else if op == "c11.relabel" then
    -- the current code on the block whose haplotypes are listed in the orders `tau` / `ups` (Props.C11.poly_perm_invariant)
    match getHaps? j "ph0", getHaps? j "ph1", getNatList? j "tau", getNatList? j "ups" with
    | some ph0, some ph1, some tau, some ups =>
      let q0 := relabelHaps tau ph0
      let q1 := relabelHaps ups ph1
      some (Json.mkObj [("ph0", ofList ofNatList q0), ("ph1", ofList ofNatList q1),
                        ("block", match compareBlock true true q0 q1 with | some e => errJson e | none => Json.str "error"),
                        ("orig", match compareBlock true true ph0 ph1 with | some e => errJson e | none => Json.str "error")])
    | _, _, _, _ => some badInput
  else if op == "c11.run" then
    match getNat? j "ploidy", getBool? j "ignore", getBool? j "only_snvs", (getList? j "files").bind (·.mapM parseFile) with
    | some p, some ig, some os, some files =>
      let o : Opts := ⟨p, getStr? j "sample", ig, os⟩
      match runCompare (flag j "fix3") (flag j "fix45") (flag j "fix46") o files with
      | .error e => some (Json.mkObj [("error", Json.str (runErrorName e))])
      | .ok cs => some (Json.mkObj [("chroms", ofList chromJson cs)])
    | _, _, _, _ => some badInput
  else if op == "c11.runspec" then
    -- the DEFINITION of the pairwise report (Spec/C11Run.lean), diploid; same request as `c11.run`
    match getNat? j "ploidy", getBool? j "ignore", getBool? j "only_snvs", (getList? j "files").bind (·.mapM parseFile) with
    | some p, some ig, some os, some files =>
      let o : Opts := ⟨p, getStr? j "sample", ig, os⟩
      match Spec.runSpec o files with
      | .error e => some (Json.mkObj [("error", Json.str (runErrorName e))])
      | .ok cs => some (Json.mkObj [("chroms", ofList chromSpecJson cs)])
    | _, _, _, _ => some badInput
  else if op == "c11.pairspec" then
    match (getObj? j "t0").bind parseTable, (getObj? j "t1").bind parseTable with
    | some t0, some t1 => some (pairSpecJson (Spec.pairSpec t0 t1))
    | _, _ => some badInput
  else none
end WhVerif.Driver.C11

import WhVerif.Util.Proto
namespace WhVerif.Driver.C05
open Lean WhVerif.Proto
/-- ops of property C05 are named `c05.<name>`; return `none` for ops that are not ours -/
def handle (_op : String) (_j : Json) : Option Json := none
end WhVerif.Driver.C05

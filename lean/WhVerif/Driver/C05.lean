import WhVerif.Util.Proto
import WhVerif.Model.C05
import WhVerif.Model.C05Lik
import WhVerif.Model.C05Recomb
import WhVerif.Model.C05Table
namespace WhVerif.Driver.C05
open Lean WhVerif.Proto WhVerif.C05

def parseTriples (j : Json) (k : String) : Option (List (Nat × Nat × Nat)) := do
  (← getList? j k).mapM (fun e => do
    match ← natList? e with
    | [f, m, c] => some (f, m, c)
    | _ => none)

def parsePed (j : Json) : Option Ped := do
  some ⟨← getNat? j "size", ← parseTriples j "triples"⟩

def parseCosts (j : Json) : Option PartCosts := do
  (← asArr? j).mapM (fun e => do
    match ← natList? e with
    | [a, b] => some (a, b)
    | _ => none)

def pairJson (p : Nat × Nat) : Json := Json.arr #[ofNat p.1, ofNat p.2]

/-- one column: `{t, gts, cp}` -> per individual `[a0, a1]`, or the string "MendelianConflict" -/
def parseEntries (j : Json) : Option (List (Nat × Nat × Nat × Nat)) := do
  (← asArr? j).mapM (fun e => do
    match ← natList? e with
    | [i, h, a, q] => some (i, h, a, q)
    | _ => none)

def columnJson (ped : Ped) (c : Json) : Json :=
  let cp? : Option PartCosts :=
    match (getObj? c "cp").bind parseCosts with
    | some cp => some cp
    | none => match getNat? c "t", (getObj? c "entries").bind parseEntries with
      | some t, some es => some (costsFromEntries ped t es)
      | _, _ => none
  match getNat? c "t", (getObj? c "gts").bind natListList?, cp? with
  | some t, some gts, some cp =>
    match getAlleles ped t gts cp with
    | none => Json.str "MendelianConflict"
    | some res => ofList pairJson res
  | _, _, _ => badInput

/-- likelihood column: `{t, gls, entries | cp}` -> `{alleles: [[a0, a1]…], cost}` or "NoAssignment" -/
def likColumnJson (ped : Ped) (c : Json) : Json :=
  let cp? : Option PartCosts :=
    match (getObj? c "cp").bind parseCosts with
    | some cp => some cp
    | none => match getNat? c "t", (getObj? c "entries").bind parseEntries with
      | some t, some es => some (costsFromEntries ped t es)
      | _, _ => none
  match getNat? c "t", (getObj? c "gls").bind natListList?, cp? with
  | some t, some gls, some cp =>
    match getAllelesLik ped t gls cp with
    | none => Json.str "NoAssignment"
    | some res => Json.mkObj [("alleles", ofList pairJson res), ("cost", ofOptNat (getCostLik ped t gls cp))]
  | _, _, _ => badInput

/-- a double as the exact pair `[m, e]`, value `m · 2^e` (`|m| < 2^53`) -/
def parseFloat (j : Json) : Option Float := do
  match ← intList? j with
  | [m, e] => some ((Float.ofInt m).scaleB e)
  | _ => none

def floatJson (x : Float) : Json :=
  if x.isNaN || x.isInf then Json.str (toString x)
  else
    let (f, e) := x.frExp
    let m := f.scaleB 53
    let mi : Int := if m < 0 then -((-m).toUInt64.toNat : Int) else (m.toUInt64.toNat : Int)
    Json.arr #[ofInt mi, ofInt (e - 53)]

def exceptJson {α} (f : α → Json) : Except String α → Json
  | .ok v => Json.mkObj [("ok", f v)]
  | .error e => Json.mkObj [("err", Json.str e)]

open WhVerif.C05.Recomb in
def recombJson (j : Json) : Json :=
  match getIntList? j "positions" with
  | none => badInput
  | some positions =>
    match (getObj? j "rate").bind parseFloat with
    | some rate => exceptJson ofIntList (uniformRecombinationMap floatOps rate positions)
    | none =>
      match (getList? j "map").bind (·.mapM (fun e => do
          match ← asArr? e with
          | [p, d] => some (⟨← asInt? p, ← parseFloat d⟩ : MapEntry Float)
          | _ => none)) with
      | some gm =>
        if (getBool? j "cum").getD false then
          exceptJson (ofList floatJson) (cumulativeDistances floatOps gm.toArray positions)
        else exceptJson ofIntList (recombinationCostMap floatOps gm.toArray positions)
      | none => badInput

def handle (op : String) (j : Json) : Option Json :=
  if op == "c05.lik_columns" then
    match parsePed j, getList? j "cols" with
    | some ped, some cols => some (Json.arr (cols.map (likColumnJson ped)).toArray)
    | _, _ => some badInput
  else if op == "c05.costs" then
    -- trusted `get_cost()` per column: `{t, gts, entries}` -> cost or null
    match parsePed j, getList? j "cols" with
    | some ped, some cols => some (Json.arr (cols.map (fun c =>
        match getNat? c "t", (getObj? c "gts").bind natListList?, (getObj? c "entries").bind parseEntries with
        | some t, some gts, some es => ofOptNat (getCostTrusted ped t gts (costsFromEntries ped t es))
        | _, _, _ => badInput)).toArray)
    | _, _ => some badInput
  else if op == "c05.constraint_table" then
    -- `{tab, trios, include_hom, var_pos, acc}` -> `{rows, genotypes: [member][column] Gt, geno: constraint rows}` / "AssertionError"
    match (getList? j "tab").bind (·.mapM natListList?), parseTriples j "trios", getBool? j "include_hom",
        getNatList? j "var_pos", getNatList? j "acc" with
    | some tab, some trios, some incl, some vp, some acc =>
      some (match constraintTable tab trios incl vp acc with
        | none => Json.str "AssertionError"
        | some (rows, geno) => Json.mkObj [("rows", ofNatList rows),
            ("genotypes", ofList (ofList ofNatList) (famGenotypes tab rows)),
            ("geno", ofList (ofList (ofList ofOptNat)) geno)])
    | _, _, _, _, _ => some badInput
  else if op == "c05.recomb" then some (recombJson j)
  else if op == "c05.as_phred" then
    -- `{calls: [[[m, e]…]…] (log10 likelihoods) | pls: [[int…]…], reg: [m, e] | null}` -> per call list of ints / null
    let reg := (getObj? j "reg").bind parseFloat
    let calls? : Option (List (List Float)) :=
      match (getList? j "calls").bind (·.mapM (fun c => (asArr? c).bind (·.mapM parseFloat))) with
      | some cs => some cs
      | none => ((getObj? j "pls").bind intListList?).map (·.map (·.map plToLog))
    match calls? with
    | some cs => some (ofList (fun c => match asPhredFloat c reg with | some r => ofIntList r | none => Json.null) cs)
    | none => some badInput
  else if op == "c05.gl_int" then
    -- integer stage: `{pls: [[nat…]…]}` -> `plToPhred`; `{default_gq, gts}` -> `defaultGl`
    match (getObj? j "pls").bind natListList?, getNat? j "default_gq", (getObj? j "gts").bind natListList? with
    | some pls, _, _ => some (ofList ofNatList (pls.map plToPhred))
    | none, some gq, some gts => some (ofList ofNatList (gts.map (defaultGl gq)))
    | _, _, _ => some badInput
  else if op == "c05.output_gt" then
    -- `{calls: [[inputGt, [a0, a1]]…]}` -> output genotype per call
    match getList? j "calls" with
    | some cs => some (ofList (fun c =>
        match (asArr? c) with
        | some [g, sr] =>
          (match natList? g, natList? sr with
           | some g, some [a0, a1] => ofNatList (outputGt g (a0, a1))
           | _, _ => badInput)
        | _ => badInput) cs)
    | none => some badInput
  else if op == "c05.phred" then
    -- list of distances `[m, e]` -> per distance `{ok: round(centimorgen_to_phred(d))}` / `{err}`
    match (getList? j "d").bind (·.mapM parseFloat) with
    | some ds => some (ofList (fun d => exceptJson ofInt (WhVerif.C05.Recomb.floatPhredRound d)) ds)
    | none => some badInput
  else if op == "c05.transition_cost" then
    match getNatList? j "recomb", getNatList? j "tv" with
    | some r, some tv => some (ofNat (WhVerif.C05.Recomb.transitionCost r tv))
    | _, _ => some badInput
  else if op == "c05.consts" then
    some (Json.mkObj [("minDist", floatJson WhVerif.C05.Recomb.floatOps.minDist),
      ("micro", floatJson WhVerif.C05.Recomb.floatOps.micro)])
  else if op == "c05.partitions" then
    match parsePed j, getNat? j "t" with
    | some ped, some t =>
      some (ofList (fun i => match hapToPartition ped t i with | some p => pairJson p | none => Json.null) (List.range ped.size))
    | _, _ => some badInput
  else if op == "c05.columns" then
    match parsePed j, getList? j "cols" with
    | some ped, some cols => some (Json.arr (cols.map (columnJson ped)).toArray)
    | _, _ => some badInput
  else if op == "c05.admissible" then
    match parsePed j, getNat? j "t", (getObj? j "gts").bind natListList? with
    | some ped, some t, some gts => some (ofNatList (admissible ped t gts))
    | _, _, _ => some badInput
  else if op == "c05.conflict" then
    -- list of [gm, gf, gc] triples -> list of true/false/null(IndexError)
    match getList? j "triples" with
    | some l => some (Json.arr (l.map (fun e =>
        match natListList? e with
        | some [gm, gf, gc] => (match mendelianConflict gm gf gc with | some b => Json.bool b | none => Json.null)
        | _ => badInput)).toArray)
    | none => some badInput
  else if op == "c05.phaseable" then
    match (getList? j "tab").bind (·.mapM natListList?), parseTriples j "trios", getBool? j "include_hom" with
    | some tab, some trios, some incl =>
      let r := findPhaseableVariants tab trios incl
      some (Json.mkObj [("hom", ofNatList r.1), ("keep", ofNatList r.2),
        ("conflicts", ofNatList ((List.range (nVariants tab)).filter (conflictAt tab trios))),
        ("missing", ofNatList ((List.range (nVariants tab)).filter (missingAt tab)))])
    | _, _, _ => some badInput
  else if op == "c05.accessible" then
    match getNatList? j "retained", getNatList? j "read_pos", getNatList? j "hom_pos", getNat? j "fam_size", getBool? j "genetic" with
    | some r, some rp, some hp, some fam, some g =>
      some (match accessiblePositions r rp hp fam g with
        | some acc => ofNatList acc
        | none => Json.str "AssertionError")
    | _, _, _, _, _ => some badInput
  else none
end WhVerif.Driver.C05

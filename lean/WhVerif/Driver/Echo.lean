import WhVerif.Util.Proto
namespace WhVerif.Driver.Echo
open Lean WhVerif.Proto
def handle (op : String) (j : Json) : Option Json :=
  if op == "echo.sum" then
    match getIntList? j "xs" with
    | some xs => some (ofInt (xs.foldl (· + ·) 0))
    | none => some badInput
  else none
end WhVerif.Driver.Echo

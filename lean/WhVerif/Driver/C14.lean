import WhVerif.Util.Proto
import WhVerif.Model.C14
import WhVerif.Spec.C14
namespace WhVerif.Driver.C14
open Lean WhVerif.Proto WhVerif.C14

def strList? (j : Json) : Option (List String) := do (← asArr? j).mapM asStr?
def boolList? (j : Json) : Option (List Bool) := do (← asArr? j).mapM asBool?

def parseRead (j : Json) : Option Read := do
  match ← asArr? j with
  | [n, l] => pure ⟨← asStr? n, ← asNat? l⟩
  | _ => none

def errJson : Err → Json
  | .valueError => Json.str "ValueError"
  | .indexError => Json.str "IndexError"
  | .keyError => Json.str "KeyError"
  | .assertDuplicate => Json.str "AssertionError:duplicate"
  | .assertNoKnown => Json.str "AssertionError:no-known"

def passJson (o : Opts) (rows : List (List Nat)) (p : Pass) : Json :=
  Json.mkObj [("written", ofList (fun k => ofNatList (written p k)) (List.range (o.ploidy + 1))),
              ("hist", ofList ofNatList rows)]

/-- `c14.split {ploidy, requested, add, discard, largest, rows, reads}` →
`{cur: {written, hist} | {err}, fix: …, prescribed: [[outputs] per read]}` -/
def handle (op : String) (j : Json) : Option Json :=
  if op == "c14.split" then
    let parsed : Option (Opts × List (List String) × List Read) := do
      let o : Opts := { ploidy := ← getNat? j "ploidy", requested := ← boolList? (← getObj? j "requested"),
                        addUntagged := ← getBool? j "add", discardUnknown := ← getBool? j "discard",
                        onlyLargest := ← getBool? j "largest" }
      let rows ← (← getList? j "rows").mapM strList?
      let reads ← (← getList? j "reads").mapM parseRead
      pure (o, rows, reads)
    match parsed with
    | none => some badInput
    | some (o, rows, reads) =>
      let cur := match splitCur o rows reads with
        | .ok p => passJson o (histRowsCur o p) p
        | .error e => Json.mkObj [("err", errJson e)]
      let fix := match splitFix o rows reads with
        | .ok p => passJson o (histRowsFix o p) p
        | .error e => Json.mkObj [("err", errJson e)]
      let pres := match processList o rows with
        | .ok t => ofList (fun r => ofNatList (prescribed o t r)) reads
        | .error _ => Json.null
      some (Json.mkObj [("cur", cur), ("fix", fix), ("prescribed", pres)])
  else none
end WhVerif.Driver.C14

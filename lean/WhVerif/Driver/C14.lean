import WhVerif.Util.Proto
import WhVerif.Model.C14
import WhVerif.Model.C14Text
import WhVerif.Spec.C14
import WhVerif.Model.C14Iter
import WhVerif.Spec.C14Dup
namespace WhVerif.Driver.C14
open Lean WhVerif.Proto WhVerif.C14

def strList? (j : Json) : Option (List String) := do (← asArr? j).mapM asStr?
def boolList? (j : Json) : Option (List Bool) := do (← asArr? j).mapM asBool?

def parseRead (j : Json) : Option Read := do
  match ← asArr? j with
  | [n, l] => pure ⟨← asStr? n, ← asNat? l⟩
  | _ => none

def errJson : Err → Json
  | .valueError => Json.str "ValueError"
  | .indexError => Json.str "IndexError"
  | .keyError => Json.str "KeyError"
  | .assertDuplicate => Json.str "AssertionError:duplicate"
  | .assertNoKnown => Json.str "AssertionError:no-known"

def passJson (o : Opts) (rows : List (List Nat)) (p : Pass) : Json :=
  Json.mkObj [("written", ofList (fun k => ofNatList (written p k)) (List.range (o.ploidy + 1))),
              ("hist", ofList ofNatList rows)]


def argErrJson : ArgErr → Json
  | .usage => Json.str "usage"
  | .typeError => Json.str "TypeError"

def parseOutArgs (j : Json) : Option OutArgs := do
  let outs : Option Nat := match j.getObjVal? "outs" with
    | .ok v => asNat? v
    | _ => none
  pure ⟨← getBool? j "h1", ← getBool? j "h2", outs, ← getBool? j "untagged"⟩

def parseMagic : String → Option Magic
  | "cram" => some .cram | "vcf" => some .vcf | "bam" => some .bam | "gzvcf" => some .gzVcf | "other" => some .other
  | _ => none

def pairList? (j : Json) : Option (List (Nat × Nat)) := do
  (← asArr? j).mapM (fun e => do
    match ← asArr? e with
    | [a, b] => pure (← asNat? a, ← asNat? b)
    | _ => none)

/-- distinct names of the assignment list with the haplotype the table answers, sorted by name -/
def tableJson (t : Table) : Json :=
  let names := (dedup (t.assign.map (·.1))).toArray.qsort (· < ·) |>.toList
  Json.mkObj [("hap", ofList (fun n => Json.arr #[Json.str n, ofNat (t.hapOf n)]) names),
              ("known", ofList Json.str ((dedup t.known).toArray.qsort (· < ·) |>.toList))]

/-- `c14.run {args:{h1,h2,outs?,untagged}, add, discard, largest, text, reads}` →
`{argerr} | {err} | {ploidy, requested, written, hist, histText, byList: [[outputs] per read] | null}` -/
def handleRun (j : Json) : Option Json :=
  let parsed : Option (OutArgs × Flags × String × List Read) := do
    let a ← parseOutArgs (← getObj? j "args")
    let f : Flags := ⟨← getBool? j "add", ← getBool? j "discard", ← getBool? j "largest"⟩
    let text ← getStr? j "text"
    let reads ← (← getList? j "reads").mapM parseRead
    pure (a, f, text, reads)
  match parsed with
  | none => some badInput
  | some (a, f, text, reads) =>
    match runSplit a f text.toList reads with
    | .error (.inl e) => some (Json.mkObj [("argerr", argErrJson e)])
    | .error (.inr e) => some (Json.mkObj [("err", errJson e)])
    | .ok (o, p) =>
      let byList := match parseText o text.toList with
        | .ok lines =>
          if (lines.map (·.name)).length == (dedup (lines.map (·.name))).length then
            ofList (fun r => ofNatList (prescribedByList o lines r)) reads
          else Json.null
        | .error _ => Json.null
      some (Json.mkObj [("ploidy", ofNat o.ploidy), ("requested", ofList Json.bool o.requested),
        ("written", ofList (fun k => ofNatList (written p k)) (List.range (o.ploidy + 1))),
        ("hist", ofList ofNatList (histRowsFix o p)), ("histText", Json.str (histText o p)),
        ("colSums", ofNatList ((List.range (o.ploidy + 1)).map (colSum (histRowsFix o p)))),
        ("byList", byList),
        ("byListGen", match parseText o text.toList with
          | .ok lines => ofList (fun r => ofNatList (prescribedByListGen o lines r)) reads
          | .error _ => Json.null)])

/-- `c14.list {ploidy, discard, largest, text}` → `{four, hap, known} | {err}`: `check_haplotag_list_information` +
`process_haplotag_list_file` (+ the two checks `run_split` makes around them) -/
def handleList (j : Json) : Option Json :=
  let parsed : Option (Opts × String) := do
    let o : Opts := { ploidy := ← getNat? j "ploidy", requested := [], addUntagged := false,
                      discardUnknown := ← getBool? j "discard", onlyLargest := ← getBool? j "largest" }
    pure (o, ← getStr? j "text")
  match parsed with
  | none => some badInput
  | some (o, text) =>
    match processListText o text.toList with
    | .error e => some (Json.mkObj [("err", errJson e)])
    | .ok t =>
      let four := match splitLines text.toList with
        | first :: _ => fourColOf (colsOf first)
        | [] => false
      some ((tableJson t).setObjVal! "four" (Json.bool four))

/-- `c14.bamlen {recs: [[seqlen, [[op, n]…]]…]}` → lengths; `c14.detect {magic, path}` → "BAM" | "FASTQ" | "ValueError" -/
def handleSmall (op : String) (j : Json) : Option Json :=
  if op == "c14.bamlen" then
    let parsed : Option (List (Nat × List (Nat × Nat))) := do
      (← getList? j "recs").mapM (fun e => do
        match ← asArr? e with
        | [a, b] => pure (← asNat? a, ← pairList? b)
        | _ => none)
    match parsed with
    | none => some badInput
    | some recs => some (ofNatList (recs.map (fun r => bamLen r.1 r.2)))
  else if op == "c14.detect" then
    match (do pure (← parseMagic (← getStr? j "magic"), ← getStr? j "path") : Option (Magic × String)) with
    | none => some badInput
    | some (m, path) =>
      some (Json.str (match detectInput m path with
        | some .bam => "BAM" | some .fastq => "FASTQ" | none => "ValueError"))
  else none


def itemJson (it : Item) : Json := Json.arr #[Json.str it.1, ofNat it.2.1, ofNat it.2.2]

/-- round 10:
`c14.iter {fmt: "bam", recs: [[name, seqlen, [[op, n]…]]…]}` → `_bam_iterator`'s items `[[name, length, index]…]`;
`c14.iter {fmt: "fastq", recs: [[title, [seq lines]]…]}` → `{items, titles}` (`titles` = what `str(record)` prints);
`c14.magic {head: [bytes], inner: [bytes] | null, path}` → `{magic, fmt}` | `{raise: true}`;
`c14.largest {ploidy, text}` → `{blocks: [[chrom, ps, lines, firstIdx]…], yard: [[chrom, ps]…]}` | `{err}` -/
def handleDeep (op : String) (j : Json) : Option Json :=
  if op == "c14.iter" then
    match getStr? j "fmt" with
    | some "bam" =>
      let parsed : Option (List BamRec) := do
        (← getList? j "recs").mapM (fun e => do
          match ← asArr? e with
          | [a, b, c] => pure ⟨← asStr? a, ← asNat? b, ← pairList? c⟩
          | _ => none)
      match parsed with
      | none => some badInput
      | some recs => some (ofList itemJson (bamIter 0 recs))
    | some "fastq" =>
      let parsed : Option (List FqRec) := do
        (← getList? j "recs").mapM (fun e => do
          match ← asArr? e with
          | [a, b] => pure ⟨(← asStr? a).toList, (← strList? b).map String.toList⟩
          | _ => none)
      match parsed with
      | none => some badInput
      | some recs => some (Json.mkObj [("items", ofList itemJson (fastqIter 0 recs)),
          ("titles", ofList (fun r => Json.str (fastqTitleOut r.title)) recs)])
    | _ => some badInput
  else if op == "c14.magic" then
    let parsed : Option (List Nat × Option (List Nat) × String) := do
      let head ← getNatList? j "head"
      let inner : Option (List Nat) := match j.getObjVal? "inner" with
        | .ok v => natList? v
        | _ => none
      pure (head, inner, ← getStr? j "path")
    match parsed with
    | none => some badInput
    | some (head, inner, path) =>
      match magicOfBytes head inner with
      | none => some (Json.mkObj [("raise", Json.bool true)])
      | some m =>
        let ms := match m with
          | .cram => "cram" | .vcf => "vcf" | .bam => "bam" | .gzVcf => "gzvcf" | .other => "other"
        some (Json.mkObj [("magic", Json.str ms), ("fmt", Json.str (match detectInput m path with
          | some .bam => "BAM" | some .fastq => "FASTQ" | none => "ValueError"))])
  else if op == "c14.largest" then
    match (do pure (← getNat? j "ploidy", ← getStr? j "text") : Option (Nat × String)) with
    | none => some badInput
    | some (ploidy, text) =>
      let o : Opts := ⟨ploidy, [], false, false, true⟩
      match parseText o text.toList with
      | .error e => some (Json.mkObj [("err", errJson e)])
      | .ok lines =>
        let tagged := taggedOf lines
        let sel := selectedBlocks tagged
        some (Json.mkObj [
          ("blocks", ofList (fun b => Json.arr #[Json.str b.1, Json.str b.2, ofNat (blockSize tagged b),
              ofNat (firstIdx tagged b)]) sel),
          ("yard", ofList (fun b : String × String => Json.arr #[Json.str b.1, Json.str b.2])
              ((dedup (tagged.map (·.chrom))).filterMap (firstLargestOf tagged)))])
  else none

/-- `c14.split {ploidy, requested, add, discard, largest, rows, reads}` →
`{cur: {written, hist} | {err}, fix: …, prescribed: [[outputs] per read]}` -/
def handle (op : String) (j : Json) : Option Json :=
  if op == "c14.run" then handleRun j
  else if op == "c14.list" then handleList j
  else if op == "c14.bamlen" || op == "c14.detect" then handleSmall op j
  else if op == "c14.iter" || op == "c14.magic" || op == "c14.largest" then handleDeep op j
  else if op == "c14.split" then
    let parsed : Option (Opts × List (List String) × List Read) := do
      let o : Opts := { ploidy := ← getNat? j "ploidy", requested := ← boolList? (← getObj? j "requested"),
                        addUntagged := ← getBool? j "add", discardUnknown := ← getBool? j "discard",
                        onlyLargest := ← getBool? j "largest" }
      let rows ← (← getList? j "rows").mapM strList?
      let reads ← (← getList? j "reads").mapM parseRead
      pure (o, rows, reads)
    match parsed with
    | none => some badInput
    | some (o, rows, reads) =>
      let cur := match splitCur o rows reads with
        | .ok p => passJson o (histRowsCur o p) p
        | .error e => Json.mkObj [("err", errJson e)]
      let fix := match splitFix o rows reads with
        | .ok p => passJson o (histRowsFix o p) p
        | .error e => Json.mkObj [("err", errJson e)]
      let pres := match processList o rows with
        | .ok t => ofList (fun r => ofNatList (prescribed o t r)) reads
        | .error _ => Json.null
      some (Json.mkObj [("cur", cur), ("fix", fix), ("prescribed", pres)])
  else none
end WhVerif.Driver.C14

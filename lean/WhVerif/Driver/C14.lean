import WhVerif.Util.Proto
namespace WhVerif.Driver.C14
open Lean WhVerif.Proto
/-- ops of property C14 are named `c14.<name>`; return `none` for ops that are not ours -/
def handle (_op : String) (_j : Json) : Option Json := none
end WhVerif.Driver.C14

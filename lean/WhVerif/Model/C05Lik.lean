import WhVerif.Model.C05
import WhVerif.Model.C05Recomb
/-!
# C05 model, likelihood variant of the column cost computer (`--distrust-genotypes`)

Core Lean only.  `src/pedigreecolumncostcomputer.cpp`, constructor with `distrust_genotypes == true`: EVERY bit
vector over the partitions is kept as an allele assignment; its cost is the sum over the individuals of
`PhredGenotypeLikelihoods::get(Genotype{allele0, allele1})` (index of a diploid biallelic genotype = number of ALT
alleles).  `get_cost` / `get_alleles` then add `cost_partition[p][allele]` exactly as in the trusted variant, so the
model re-uses `asgCost`, `lastBest`, `bestCostFor`, `allelesFor` of `Model/C05.lean` with another candidate list and
another cost function.

`whatshap/cli/phase.py:create_pedigree`: a call without PL/GL gets `[default_gq]*3` with 0 at the called genotype;
a call with likelihoods gets `GenotypeLikelihoods.as_phred(regularizer)`; without regulariser that is
`round((x - max) * -10)` per genotype (integer stage: for PL input `pl - min(pl)`, see `plToPhred`).

`whatshap/vcf.py:PhasedVcfWriter.write`: a call whose two super-read alleles are both 0/1 gets the genotype
`{a0, a1}` (changed if it differs from the input genotype); a call with a tie flag keeps its input genotype.

Not modelled: 32-bit overflow of the costs; `double` arithmetic of `cost += gls->get()` (the values are integers).
-/
namespace WhVerif.C05

/-- phred genotype likelihoods of one individual in one column: `[cost of 0/0, cost of 0/1, cost of 1/1]` -/
abbrev Gl := List Nat

/-- `a.cost` of the constructor: sum of the genotype costs of all individuals under assignment `asg`;
`none` = a `nullptr`/out-of-range access (`assert(gls != nullptr)`, `assert(index < gl.size())`) or a
non-terminating partition recursion -/
def glCost (ped : Ped) (t : Nat) (gls : List Gl) (asg : Nat) : Option Nat :=
  (List.range ped.size).foldl (fun acc i =>
    match acc, indivAlleles ped t asg i, gls[i]? with
    | some a, some (a0, a1), some gl =>
      match gl[a0 + a1]? with
      | some g => some (a + g)
      | none => none
    | _, _, _ => none) (some 0)

/-- `allele_assignments` with `distrust_genotypes`: all `2^partition_count` bit vectors, enumeration order -/
def assignmentsLik (ped : Ped) (t : Nat) (gls : List Gl) : List Nat :=
  (List.range (2 ^ partitionCount ped)).filter (fun asg => (glCost ped t gls asg).isSome)

/-- `a.cost + Σ_p cost_partition[p][allele]` -/
def totalCostLik (ped : Ped) (t : Nat) (gls : List Gl) (cp : PartCosts) (asg : Nat) : Nat :=
  (glCost ped t gls asg).getD 0 + asgCost ped cp asg

/-- `get_cost()` with likelihoods (`none` = `UINT_MAX`) -/
def getCostLik (ped : Ped) (t : Nat) (gls : List Gl) (cp : PartCosts) : Option Nat :=
  minCostWith (totalCostLik ped t gls cp) (fun _ => true) (assignmentsLik ped t gls)

/-- `get_cost()` with trusted genotypes (`none` = `UINT_MAX`: no admissible assignment) -/
def getCostTrusted (ped : Ped) (t : Nat) (gts : List Gt) (cp : PartCosts) : Option Nat :=
  minCostWith (asgCost ped cp) (fun _ => true) (admissible ped t gts)

/-- `get_alleles()` with likelihoods: per individual `(allele0, allele1)`, `EQUAL_SCORES` (3) where the best cost
with allele 0 on that haplotype equals the best cost with allele 1; `none` = no assignment at all -/
def getAllelesLik (ped : Ped) (t : Nat) (gls : List Gl) (cp : PartCosts) : Option (List (Nat × Nat)) :=
  let adm := assignmentsLik ped t gls
  let cost := totalCostLik ped t gls cp
  match lastBest cost adm with
  | none => none
  | some best => some ((List.range ped.size).map (allelesFor ped t cost adm best))

/-! ## where the likelihoods come from (`create_pedigree`), integer stage -/

/-- no PL/GL at the call: `[default_gq]*3` with 0 at the called genotype (`gt.get_index()` = number of ALT alleles) -/
def defaultGl (defaultGq : Nat) (gt : Gt) : Gl :=
  (List.range 3).map (fun k => if k = gt.sum then 0 else defaultGq)

/-- `GenotypeLikelihoods([pl / (-10)]).as_phred(regularizer=None)` = `round((pl / (-10) - max) * (-10))`; on integers that is
`pl - min(pl)` (the float stage is compared by the harness) -/
def plToPhred (pl : List Nat) : Gl :=
  match pl.min? with
  | none => []
  | some m => pl.map (· - m)

/-! ### float stage of `GenotypeLikelihoods.as_phred` (executable, compared with the code; nothing is proved about it) -/

/-- Python's `max` of a non-empty list of floats (first maximal element) -/
def floatMax : List Float → Option Float
  | [] => none
  | x :: xs => some (xs.foldl (fun m y => if y > m then y else m) x)

/-- `sum(list of floats)` of CPython ≥ 3.12: the start value is the int 0, the first item is added to it, the remaining
items are accumulated with Neumaier's compensated summation (`cs_add`), the compensation is added at the end -/
def pySum : List Float → Float
  | [] => 0.0
  | x :: rest =>
    let r := rest.foldl (fun (acc : Float × Float) y =>
      let t := acc.1 + y
      if acc.1.abs >= y.abs then (t, acc.2 + ((acc.1 - t) + y)) else (t, acc.2 + ((y - t) + acc.1))) (0.0 + x, 0.0)
    if r.2 != 0 && r.2.isFinite then r.1 + r.2 else r.1

/-- `GenotypeLikelihoods(log10 probabilities).as_phred(regularizer)`; `none` = an exception (empty list, `round` of
NaN/inf, `log10` of a non-positive number) -/
def asPhredFloat (logp : List Float) (regularizer : Option Float) : Option (List Int) :=
  match regularizer with
  | none => do
    let m ← floatMax logp
    logp.mapM (fun x => Recomb.pyRound ((x - m) * (-10.0)))
  | some reg => do
    let p := logp.map (fun x => Float.pow 10.0 x)
    let s := pySum p
    let p := p.map (fun x => x / s + reg)
    let m ← floatMax p
    p.mapM (fun x => if x / m > 0 then Recomb.pyRound (-10.0 * Float.log10 (x / m)) else none)

/-- `VcfReader`: a PL value becomes the log10 likelihood `pl / -10` -/
def plToLog (pl : Int) : Float := Float.ofInt pl / (-10.0)

/-! ## the writer's genotype (`PhasedVcfWriter.write`, "is genotype to be changed?") -/

/-- output genotype of a call: both super-read alleles 0/1 ⇒ `Genotype([a0, a1])`, otherwise the input genotype -/
def outputGt (inputGt : Gt) (sr : Nat × Nat) : Gt :=
  if sr.1 ≤ 1 && sr.2 ≤ 1 then mkGt2 sr.1 sr.2 else inputGt

end WhVerif.C05

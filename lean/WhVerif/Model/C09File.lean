import WhVerif.Model.C09
/-!
# C09 model, file level: what `Model/C09.lean` left to the harness

* `readChromP` / `readFile` = `VcfReader._process_single_chromosome` / `VcfReader.__iter__` with `phases=True`, now with
  the ploidy bookkeeping (`self.ploidy`, carried from chromosome to chromosome, `PloidyError`) next to the
  `phase_detected` state (reset for every chromosome), on multi-sample records.
* `PhasedInputReader` for phase-input VCFs: `read_vcfs` (`tableOf`: per file a dict chromosome → table, a later group of
  the same chromosome replaces an earlier one), `read(chromosome, variants, sample)` restricted to the VCF part
  (`phaseInputReads`): for every file that has the chromosome, `phased_blocks_as_reads` of the sample (nothing if the
  file does not have the sample) with source id `n_paths + i`, the read names, and the per-variant quality
  (`PQ`, else `default_quality = 20`).
* `PhasedVcfWriter.write` as it is now, with the `remove_existing_phasing` switch (`writeRecordX`; `whatshap phase`
  passes `True`, `haplotagphase` `False`), and the loop of `run_whatshap` over the chromosomes of the variant file
  (`writeFile`: chromosomes not requested by `--chromosome` are written with empty `sample_superreads`).
Core Lean only.
-/
namespace WhVerif.C09
open WhVerif.C04

/-! ## reader with ploidy -/

/-- `get_max_genotype_ploidy()` (`src/genotype.h`: `MAX_PLOIDY`) -/
def maxPloidy : Nat := 15

/-- the ploidy block after `phase = p` in `_process_single_chromosome` -/
def ploidyPhase (pl : Option Nat) (p : Option Phase) : Except Err (Option Nat) :=
  match p with
  | none => .ok pl
  | some ph =>
    if ph.alleles.length > maxPloidy then .error .ploidy
    else if ph.block.isNone then .ok pl
    else match pl with
      | none => .ok (some ph.alleles.length)
      | some q => if ph.alleles.length = q then .ok pl else .error .ploidy

/-- the ploidy check of one genotype (`geno is None or None in geno` is skipped) -/
def ploidyGeno (pl : Option Nat) (g : Option Gt) : Except Err (Option Nat) :=
  match g with
  | none => .ok pl
  | some g =>
    if !(g.all Option.isSome) then .ok pl
    else if g.length > maxPloidy then .error .ploidy
    else match pl with
      | none => .ok (some g.length)
      | some q => if g.length = q then .ok pl else .error .ploidy

/-- one call: HP extractor (may raise), `phase_detected`, ploidy; then the GT/PS extractor likewise -/
def readCallP (st : Option Enc) (pl : Option Nat) (fmt : List String) (c : Call) :
    Except Err (Option Enc × Option Nat × Option Phase) := do
  let hp ← extractHP c
  let st1 ← detect st .HP hp
  let pl1 ← ploidyPhase pl hp
  let gp := extractGTPS fmt c
  let st2 ← detect st1 .GTPS gp
  let pl2 ← ploidyPhase pl1 gp
  pure (st2, pl2, match gp with | some p => some p | none => hp)

def readCallsP (st : Option Enc) (pl : Option Nat) (fmt : List String) :
    List (String × Call) → Except Err (Option Enc × Option Nat × List (Option Phase))
  | [] => .ok (st, pl, [])
  | (_, c) :: r => do
    let (st1, pl1, p) ← readCallP st pl fmt c
    let (st2, pl2, ps) ← readCallsP st1 pl1 fmt r
    pure (st2, pl2, p :: ps)

/-- the genotype ploidy loop of one record (after all phases of the record) -/
def ploidyGenos (pl : Option Nat) : List (String × Call) → Except Err (Option Nat)
  | [] => .ok pl
  | (_, c) :: r => do
    let pl1 ← ploidyGeno pl c.gt
    ploidyGenos pl1 r

/-- `_process_single_chromosome` (phases=True, mav=False, genotypes used) with both states -/
def readChromP (onlySnvs : Bool) :
    Option Enc → Option Nat → Option Nat → List Record → Except Err (Option Enc × Option Nat × List Row)
  | st, pl, _, [] => .ok (st, pl, [])
  | st, pl, prev, r :: rs =>
    if r.alts.isEmpty || decide (r.alts.length > 1) then readChromP onlySnvs st pl prev rs
    else if onlySnvs && !(r.ref.length == 1 && r.alts.all (·.length == 1)) then readChromP onlySnvs st pl prev rs
    else if (match prev with | some p => decide (p > r.pos) | none => false) then .error .notSorted
    else if prev == some r.pos then readChromP onlySnvs st pl prev rs
    else do
      let (st1, pl1, ps) ← readCallsP st pl r.format r.calls
      let pl2 ← ploidyGenos pl1 r.calls
      let (st2, pl3, rows) ← readChromP onlySnvs st1 pl2 (some r.pos) rs
      pure (st2, pl3, ⟨r.pos, r.ref, r.alts.headD "", (r.calls.map (fun nc => gcode nc.2.gt)).zip ps⟩ :: rows)

/-- the records of a chromosome that the reader turns into rows (skipping: no / several ALT alleles, non-SNVs under
    `--only-snvs`, every further record of a position that already has a row); unsorted input is not judged here -/
def accepted (onlySnvs : Bool) : Option Nat → List Record → List Record
  | _, [] => []
  | prev, r :: rs =>
    if r.alts.isEmpty || decide (r.alts.length > 1) then accepted onlySnvs prev rs
    else if onlySnvs && !(r.ref.length == 1 && r.alts.all (·.length == 1)) then accepted onlySnvs prev rs
    else if prev == some r.pos then accepted onlySnvs prev rs
    else r :: accepted onlySnvs (some r.pos) rs

/-- `VcfReader.__iter__`: one table per run of records with the same chromosome (`itertools.groupby`);
    `phase_detected` starts at `None` for every table, `self.ploidy` is carried -/
def readFile (onlySnvs : Bool) : Option Nat → List (String × List Record) →
    Except Err (Option Nat × List (String × List Row))
  | pl, [] => .ok (pl, [])
  | pl, (chrom, rs) :: rest => do
    let (_, pl1, rows) ← readChromP onlySnvs none pl none rs
    let (pl2, tables) ← readFile onlySnvs pl1 rest
    pure (pl2, (chrom, rows) :: tables)

/-! ## `PhasedInputReader`: phase-input VCFs as reads -/

/-- a table of a phase-input file as `read_vcfs` keeps it; `quals` = `phase.quality` per row and sample
    (`call.get("PQ")`, already an integer as `Read.add_variant` receives it; `none` = no PQ) -/
structure PTable where
  chrom : String
  samples : List String
  rows : List Row
  quals : List (List (Option Int))
deriving Repr

/-- `m[variant_table.chromosome] = variant_table` over the tables of one file: the last one wins -/
def tableOf (tables : List PTable) (chrom : String) : Option PTable :=
  tables.reverse.find? (fun t => t.chrom = chrom)

/-- a variant of the variant file as `input_variants` identifies it (`BiallelicVcfVariant.__eq__/__hash__`) -/
abbrev VKey := Nat × String × String

/-- the rows of sample number `si` with the `wanted` flag and the quality of the pseudo-read entries -/
def sampleRows (t : PTable) (si : Nat) (inputVariants : List VKey) : List (VarPhase × Int) :=
  t.rows.zipIdx.map fun (row, k) =>
    let gp := row.calls.getD si ([], none)
    (⟨row.pos, inputVariants.contains (row.pos, row.ref, row.alt), gp.1, gp.2⟩,
     match ((t.quals.getD k []).getD si none) with | some q => q | none => 20)

structure PseudoRead where
  name : String
  sourceId : Nat
  sampleId : Nat
  /-- `(position, allele, quality)` -/
  variants : List (Nat × Option Nat × Int)
deriving DecidableEq, Repr

def blockName : Option Int → String
  | none => "None"
  | some b => toString b

/-- `phased_blocks_as_reads(sample, input_variants, source_id, numeric_sample_id)` -/
def pseudoReadsOf (t : PTable) (sample : String) (inputVariants : List VKey) (sourceId sampleId : Nat) :
    List PseudoRead :=
  let si := t.samples.findIdx (· == sample)
  if si ≥ t.samples.length then [] else
  let rq := sampleRows t si inputVariants
  let qOf : Nat → Int := fun p => match rq.find? (fun x => x.1.pos == p && eligible 2 x.1) with
    | some x => x.2 | none => 20
  (blocksAsReads 2 (rq.map (·.1))).map fun (b, i, rd) =>
    ⟨s!"{sample}_phase_{i}_block_{blockName b}", sourceId, sampleId, rd.map fun pa => (pa.1, pa.2, qOf pa.1)⟩

/-- the VCF part of `PhasedInputReader.read(chromosome, variants, sample)`: file `i` contributes (if it has the
    chromosome) its pseudo reads with source id `nPaths + i`; also returns `vcf_source_ids` -/
def phaseInputReads (files : List (List PTable)) (nPaths : Nat) (chrom sample : String) (sampleId : Nat)
    (inputVariants : List VKey) : List PseudoRead × List Nat :=
  let per := (files.zipIdx).filterMap fun (tables, i) =>
    (tableOf tables chrom).map fun t => (pseudoReadsOf t sample inputVariants (nPaths + i) sampleId, nPaths + i)
  (per.flatMap (·.1), per.map (·.2))

/-! ## the writer as it is now: `remove_existing_phasing` switch, all chromosomes of the file -/

/-- body of `for sample in sample_superreads:`; `rm = self._remove_existing`.  The call is tagged when the position
    is phased and heterozygous in this run; otherwise the tag is cleared — unless existing phasing is to be kept and
    the call is (still) phased -/
def updateCallX (rm : Bool) (cfg : Cfg) (t : Target) (r : Record) (c : Call) : Call × Option GtChange :=
  let (c1, chg, isHet) := changeStep { cfg with repaired := true } t r c
  match alookup t.comps r.pos, lookupPhase cfg.mav t r.pos with
  | some comp, some p =>
    if isHet then (setTag cfg.tag c1 comp p, chg)
    else if rm || !c1.phased then (c1.set cfg.tag.key .missing, chg) else (c1, chg)
  | _, _ => if rm || !c1.phased then (c1.set cfg.tag.key .missing, chg) else (c1, chg)

/-- whether the body of `for sample in sample_superreads:` assigns `call[tag]` at all (it does not when existing phasing is
    kept and the call is phased but not phased anew) -/
def touchesTag (rm : Bool) (cfg : Cfg) (t : Target) (r : Record) (c : Call) : Bool :=
  let (c1, _, isHet) := changeStep { cfg with repaired := true } t r c
  match alookup t.comps r.pos, lookupPhase cfg.mav t r.pos with
  | some _, some _ => isHet || rm || !c1.phased
  | _, _ => rm || !c1.phased

/-- one record of `PhasedVcfWriter.write` (the code after the F4 repair, so `cfg.repaired` is not consulted).
    Without removal the tag key only enters the record's FORMAT when some target call is assigned a value; if it does not
    and the tag is HP, the loop over the non-target samples (`value = call["HP"]`) raises `KeyError` (flag `err`, as for a
    target call without GT). -/
def writeRecordX (rm : Bool) (cfg : Cfg) (prev : Option Nat) (r : Record) : Out :=
  let calls1 := if rm then mapTargets cfg (fun _ c => clearPhasing { cfg with repaired := true } r.format c) r.calls
                else r.calls
  if reaches cfg prev r then
    let calls2 := mapTargets cfg (fun t c => (updateCallX rm cfg t r c).1) calls1
    let changes := cfg.targets.filterMap fun t =>
      match clookup calls1 t.name with
      | some c => (updateCallX rm cfg t r c).2
      | none => none
    let touched := rm || cfg.targets.any fun t =>
      match clookup calls1 t.name with
      | some c => touchesTag rm cfg t r c
      | none => false
    let fmt := if touched then addKey r.format cfg.tag.key else r.format
    let err := (calls1.any fun nc => isTargetName cfg nc.1 && nc.2.gt.isNone) ||
      (cfg.tag == .HP && !touched && !("HP" ∈ r.format) && cfg.samples.any fun s => !isTargetName cfg s)
    ⟨{ r with format := fmt, calls := calls2 }, some r.pos, changes, err⟩
  else ⟨{ r with calls := calls1 }, prev, [], false⟩

def writeChromX (rm : Bool) (cfg : Cfg) : Option Nat → List Record → List Out
  | _, [] => []
  | prev, r :: rs => let o := writeRecordX rm cfg prev r; o :: writeChromX rm cfg o.prev rs


/-! ### F65: `remove_existing_phasing=False` after `fixes/F65.patch`

As coded, a call that is phased anew in keep mode is tagged on top of whatever it carried: an HP-phased call gets a phased GT
and PS next to its HP (haplotagphase on the output of `phase --tag HP`), which `VcfReader` rejects as mixed phasing.  The
repair removes the call's existing phase information right before it is tagged. -/

def updateCallXF (cfg : Cfg) (t : Target) (r : Record) (c : Call) : Call × Option GtChange :=
  let (c1, chg, isHet) := changeStep { cfg with repaired := true } t r c
  match alookup t.comps r.pos, lookupPhase cfg.mav t r.pos with
  | some comp, some p =>
    if isHet then (setTag cfg.tag (clearPhasing { cfg with repaired := true } r.format c1) comp p, chg)
    else if !c1.phased then (c1.set cfg.tag.key .missing, chg) else (c1, chg)
  | _, _ => if !c1.phased then (c1.set cfg.tag.key .missing, chg) else (c1, chg)

def writeRecordXF (cfg : Cfg) (prev : Option Nat) (r : Record) : Out :=
  if reaches cfg prev r then
    let calls2 := mapTargets cfg (fun t c => (updateCallXF cfg t r c).1) r.calls
    let changes := cfg.targets.filterMap fun t =>
      match clookup r.calls t.name with
      | some c => (updateCallXF cfg t r c).2
      | none => none
    let touched := cfg.targets.any fun t =>
      match clookup r.calls t.name with
      | some c => touchesTag false cfg t r c
      | none => false
    let fmt := if touched then addKey r.format cfg.tag.key else r.format
    let err := (r.calls.any fun nc => isTargetName cfg nc.1 && nc.2.gt.isNone) ||
      (cfg.tag == .HP && !touched && !("HP" ∈ r.format) && cfg.samples.any fun s => !isTargetName cfg s)
    ⟨{ r with format := fmt, calls := calls2 }, some r.pos, changes, err⟩
  else ⟨r, prev, [], false⟩

def writeChromXF (cfg : Cfg) : Option Nat → List Record → List Out
  | _, [] => []
  | prev, r :: rs => let o := writeRecordXF cfg prev r; o :: writeChromXF cfg o.prev rs

/-- the chromosome loop of `run_whatshap`: one `write` call per table of the variant file (= per run of records with the
    same chromosome); the `Cfg` of a run carries its targets (none at all for a chromosome that `--chromosome` did not
    request: `vcf_writer.write(chromosome, {}, {})`) -/
def writeFile (groups : List (String × Cfg × List Record)) : List (String × List Record) :=
  groups.map fun (chrom, cfg, rs) => (chrom, outRecords (writeChromX true cfg none rs))

/-- the value `prev_pos` has when `write` returns -/
def lastPrev : Option Nat → List Out → Option Nat
  | prev, [] => prev
  | _, o :: os => lastPrev o.prev os

/-- NOT the code — a yard-stick: a chromosome loop in which the duplicate-position state of `write` (`prev_pos`, a local
    variable of `write` in the code) survives the end of the call, e.g. as an attribute of the writer object.  The first
    record to be phased on a chromosome is then taken for a duplicate when the record phased last on the chromosome
    before has the same POS (`carried_prev_pos_witness`); `writeFile` is what the code does. -/
def writeFileCarry : Option Nat → List (String × Cfg × List Record) → List (String × List Record)
  | _, [] => []
  | prev, (chrom, cfg, rs) :: gs =>
    (chrom, outRecords (writeChromX true cfg prev rs)) :: writeFileCarry (lastPrev prev (writeChromX true cfg prev rs)) gs

end WhVerif.C09

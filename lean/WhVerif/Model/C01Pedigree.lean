import WhVerif.Model.C01Input
/-!
# C01 glue model: `Pedigree`, `PedigreePartitions` and what `PedigreeDPTable` / `PedigreeColumnCostComputer` make of them

Core Lean only.  What mirrors what:

* `Ped`                 the `Pedigree` object (src/pedigree.cpp): `individual_ids` (insertion order), `id_to_index_map`
                        (an association list with overwrite = `operator[]=` of the `unordered_map`), `triples` (INDEX
                        triples, resolved when the relationship is added), `genotypes[i][j]`, `genotype_likelihoods[i][j]`
                        (`none` = `nullptr`), `variant_count` (`none` = -1).
* `Ped.addIndividual`   `addIndividual`: the first call fixes `variant_count`; the two asserts on the vector sizes abort
                        (`none`); a second individual with an id already present is NOT rejected: it gets a new index and
                        the map entry of the id is overwritten (the older individual is reachable by index only).
* `Ped.idToIndex`       `id_to_index`: `none` = `runtime_error("Individual with ID … not present in pedigree.")`.
* `Ped.addRelationship` resolves father, mother, child (in this order) through `id_to_index` at the time of the call: all
                        three must have been added BEFORE the relationship; relationships may come in any order.
* `Ped.genotypeById`, `Ped.glById`, `Ped.genotype`, `Ped.gl`, `Ped.indexToId`     the accessors.
* `tripleIndices`, `ppRoots`, `ppRec`, `ppMap`   the constructor of `PedigreePartitions` and
                        `compute_haplotype_to_partition_rec` as coded (recursion over the parents; fuel = recursion depth;
                        running out of fuel stands for the unbounded recursion of the code on a cyclic pedigree).
* `addTrunc`            `cost += gls->get(genotype)` with `unsigned int cost` and a `double` likelihood: the sum is formed
                        in `double` and truncated toward zero when it is stored back.  Likelihood values are non-negative
                        rationals `n / den` (exact in binary floating point for `den` a power of two and sums < 2^53).
* `glueGenoCost`        the loop over the individuals in the constructor of `PedigreeColumnCostComputer`.
* `Api`, `resolve`      what the Python API passes to `PedigreeDPTable(readset, recombcost, pedigree, distrust_genotypes,
                        positions)` and the `Inst` the solver works on: `read_sources[r] = id_to_index(sample id of r)`.
* `glueColCost`         `get_cost()` read off the objects: partition of a read = `haplotype_to_partition(read_sources[r], h)`.
-/
namespace WhVerif.C01

/-! ## `Pedigree` -/

structure Ped where
  ids : List Nat := []
  map : List (Nat × Nat) := []
  triples : List (Nat × Nat × Nat) := []
  /-- genotype index (diploid, biallelic: number of ALT alleles) -/
  gts : List (List Nat) := []
  /-- likelihood numerators per genotype index; `none` = `nullptr` -/
  gls : List (List (Option (List Nat))) := []
  vc : Option Nat := none
deriving Repr, Inhabited

def mapInsert (m : List (Nat × Nat)) (k v : Nat) : List (Nat × Nat) := (k, v) :: m.filter (fun e => e.1 != k)
def mapFind (m : List (Nat × Nat)) (k : Nat) : Option Nat := (m.find? (fun e => e.1 == k)).map (·.2)

def Ped.size (P : Ped) : Nat := P.ids.length

def Ped.addIndividual (P : Ped) (id : Nat) (g : List Nat) (l : List (Option (List Nat))) : Option Ped :=
  let vc := P.vc.getD g.length
  if g.length ≠ vc ∨ l.length ≠ vc then none        -- the two asserts
  else some { P with ids := P.ids ++ [id], map := mapInsert P.map id P.ids.length, gts := P.gts ++ [g],
                     gls := P.gls ++ [l], vc := some vc }

def Ped.idToIndex (P : Ped) (id : Nat) : Option Nat := mapFind P.map id
def Ped.indexToId (P : Ped) (i : Nat) : Option Nat := P.ids[i]?

def Ped.addRelationship (P : Ped) (f m c : Nat) : Option Ped :=
  match P.idToIndex f, P.idToIndex m, P.idToIndex c with
  | some fi, some mi, some ci => some { P with triples := P.triples ++ [(fi, mi, ci)] }
  | _, _, _ => none

def Ped.genotype (P : Ped) (i v : Nat) : Option Nat := (P.gts.getD i [])[v]?
def Ped.gl (P : Ped) (i v : Nat) : Option (Option (List Nat)) := (P.gls.getD i [])[v]?
def Ped.genotypeById (P : Ped) (id v : Nat) : Option Nat := (P.idToIndex id).bind (fun i => P.genotype i v)
def Ped.glById (P : Ped) (id v : Nat) : Option (Option (List Nat)) := (P.idToIndex id).bind (fun i => P.gl i v)

/-- the calls of a client -/
inductive PedOp where
  | addInd (id : Nat) (g : List Nat) (l : List (Option (List Nat)))
  | addRel (f m c : Nat)
deriving Repr, Inhabited

def Ped.step (P : Ped) : PedOp → Option Ped
  | .addInd id g l => P.addIndividual id g l
  | .addRel f m c => P.addRelationship f m c

def Ped.run : List PedOp → Ped → Option Ped
  | [], P => some P
  | op :: ops, P => (P.step op).bind (Ped.run ops)

/-! ## `PedigreePartitions` -/

abbrev PMap := List (Option (Nat × Nat))

/-- `triple_indices`: for each individual the index of the LAST triple in which it is the child -/
def tripleIndices (n : Nat) (triples : List (Nat × Nat × Nat)) : List (Option Nat) :=
  (triples.zipIdx).foldl (fun ti x => ti.set x.1.2.2 (some x.2)) (List.replicate n none)

/-- the roots loop: individuals without a triple get `{p, p+1}`, `p += 2`, in index order -/
def ppRoots (n : Nat) (ti : List (Option Nat)) : PMap :=
  ((List.range n).foldl (fun (acc : PMap × Nat) i =>
      if (ti.getD i none).isSome then (acc.1 ++ [none], acc.2) else (acc.1 ++ [some (acc.2, acc.2 + 1)], acc.2 + 2))
    ([], 0)).1

/-- `compute_haplotype_to_partition_rec(i, triple_indices)`; `none` = recursion deeper than `fuel` (or the assert) -/
def ppRec (triples : List (Nat × Nat × Nat)) (ti : List (Option Nat)) (t : Nat) : Nat → Nat → PMap → Option PMap
  | 0, _, _ => none
  | fuel + 1, i, m =>
    match m.getD i none with
    | some _ => some m
    | none =>
      match ti.getD i none with
      | none => none                       -- assert(triple_index >= 0)
      | some k =>
        let tr := triples.getD k default
        match ppRec triples ti t fuel tr.1 m with
        | none => none
        | some m1 =>
          match ppRec triples ti t fuel tr.2.1 m1 with
          | none => none
          | some m2 =>
            match m2.getD tr.1 none, m2.getD tr.2.1 none with
            | some pf, some pm => some (m2.set i (some (sel pf (bitOf t (2 * k)), sel pm (bitOf t (2 * k + 1)))))
            | _, _ => none

def ppLoop (triples : List (Nat × Nat × Nat)) (ti : List (Option Nat)) (t fuel : Nat) : List Nat → PMap → Option PMap
  | [], m => some m
  | i :: is, m => (ppRec triples ti t fuel i m).bind (ppLoop triples ti t fuel is)

/-- the constructor `PedigreePartitions(pedigree, t)`; recursion depth bound `n + 1` -/
def ppMapOf (n : Nat) (triples : List (Nat × Nat × Nat)) (t : Nat) : Option PMap :=
  let ti := tripleIndices n triples
  ppLoop triples ti t (n + 1) (List.range n) (ppRoots n ti)

def Ped.ppMap (P : Ped) (t : Nat) : Option PMap := ppMapOf P.size P.triples t

/-- `partition_count` -/
def Ped.partitionCount (P : Ped) : Nat := 2 * (P.size - P.triples.length)

/-! ## genotype cost: `cost += gls->get(genotype)` -/

/-- `unsigned += double(n/den)`: the sum is truncated toward zero -/
def addTrunc (den c n : Nat) : Nat := (c * den + n) / den

/-- the per-individual genotype constraint of column `c` as the cost computer's constructor sees it:
`inl` = trusted genotype index, `inr` = likelihood numerators (`none` = nullptr: assert) -/
def Ped.glNum (P : Ped) (i c k : Nat) : Option Nat :=
  match P.gl i c with
  | some (some l) => l[k]?
  | _ => none

/-- the loop over the individuals for one allele assignment `α` (distrusted genotypes): running `unsigned` cost with
truncation after every addition; `none` = a missing likelihood (assert) -/
def glueGenoCostD (P : Ped) (den : Nat) (pm : PMap) (c α : Nat) : Option Nat :=
  (List.range P.size).foldl (fun acc i =>
    match acc, P.glNum i c (bitOf α (h2pOf pm i 0) + bitOf α (h2pOf pm i 1)) with
    | some cost, some n => some (addTrunc den cost n)
    | _, _ => none) (some 0)

/-- trusted genotypes: compatible iff every individual's alleles form its genotype (`break` at the first mismatch) -/
def glueGenoCostT (P : Ped) (pm : PMap) (c α : Nat) : Option Nat :=
  if (List.range P.size).all (fun i =>
      P.genotype i c == some (bitOf α (h2pOf pm i 0) + bitOf α (h2pOf pm i 1))) then some 0 else none

/-! ## the API input and its resolution -/

structure ApiRead where
  sample : Nat
  variants : List (Nat × Nat × Nat)
deriving Repr, Inhabited

structure Api where
  ops : List PedOp
  /-- likelihood values are `n / den` -/
  den : Nat
  reads : List ApiRead
  positions : Option (List Nat)
  recomb : List Nat
  distrust : Bool
deriving Repr, Inhabited

/-- genotype constraint table of the resolved instance: cost per number of ALT alleles -/
def Ped.genoTable (P : Ped) (den : Nat) (distrust : Bool) (ncols : Nat) : List (List (List (Option Nat))) :=
  (List.range P.size).map (fun i => (List.range ncols).map (fun c => (List.range 3).map (fun k =>
    if distrust then (P.glNum i c k).map (· / den)
    else if P.genotype i c = some k then some 0 else none)))

def resolveReads (P : Ped) : List ApiRead → Option (List RawRead)
  | [] => some []
  | r :: rs =>
    match P.idToIndex r.sample, resolveReads P rs with
    | some i, some rest => some ({ ind := i, variants := r.variants } :: rest)
    | _, _ => none

/-- likelihoods present (distrust) for every individual and column: the `assert(gls != nullptr)` -/
def Ped.glsPresent (P : Ped) (ncols : Nat) : Bool :=
  (List.range P.size).all (fun i => (List.range ncols).all (fun c => (List.range 3).all (fun k =>
    (P.glNum i c k).isSome)))

/-- the instance `PedigreeDPTable` works on; `none` = the constructor does not return an object (exception, assert,
unbounded recursion) or leaves the modelled domain (`variant_count < #columns`: out-of-bounds vector access) -/
def Api.resolve (A : Api) : Option (Ped × Inst) :=
  match Ped.run A.ops {} with
  | none => none
  | some P =>
    match resolveReads P A.reads with
    | none => none
    | some raws =>
      let positions := A.positions.getD (defaultPositions raws)
      if P.vc.getD 0 < positions.length then none
      else if A.den = 0 then none
      else if A.distrust && !P.glsPresent positions.length then none
      else if ((List.range (4 ^ P.triples.length)).all (fun t => (P.ppMap t).isSome)) = false then none
      else
        (mkInst positions raws P.size P.triples (P.genoTable A.den A.distrust positions.length) A.recomb).map
          (fun I => (P, I))

/-! ## the column cost read off the objects -/

/-- allele assignments of `PedigreeColumnCostComputer`'s constructor, by the partitions object `pm` -/
def glueAssignments (P : Ped) (den : Nat) (distrust : Bool) (pm : PMap) (c : Nat) : List (Nat × Nat) :=
  (List.range (2 ^ P.partitionCount)).filterMap (fun α =>
    (if distrust then glueGenoCostD P den pm c α else glueGenoCostT P pm c α).map (fun g => (α, g)))

/-- the column at genomic position `p` as `ColumnIterator::get_next` forms it (the sample ids play no role):
(read id, variant at `p` or BLANK) in ReadSet order -/
def glueColumn (reads : List ApiRead) (p : Nat) : List (Nat × Option (Nat × Nat)) :=
  rawColumn (reads.map (fun r => ({ ind := 0, variants := r.variants } : RawRead))) p

/-- cost of one entry: `read_marks[entry.get_read_id()]` = `id_to_index` of the read's OWN sample id -/
def glueEntryCost (P : Ped) (pm : PMap) (reads : List ApiRead) (α : Nat) (ke : Nat × Option (Nat × Nat))
    (b : Bool) : Nat :=
  match ke.2 with
  | none => 0
  | some (al, w) =>
    match P.idToIndex (reads.getD ke.1 default).sample with
    | none => 0
    | some i => if bitOf α (h2pOf pm i (if b then 1 else 0)) = al then 0 else w

/-- `get_cost()` of the column at position `p` (column index `c`) for the bipartition `bs` (one bit per active
read) under transmission value `t`, read off the `Pedigree`, the `PedigreePartitions` and the ReadSet -/
def glueColCost (A : Api) (P : Ped) (c p : Nat) (bs : List Bool) (t : Nat) : Option Nat :=
  match P.ppMap t with
  | none => none
  | some pm =>
    WhVerif.Cost.minOver (glueAssignments P A.den A.distrust pm c) (fun ag =>
      some (ag.2 + (((glueColumn A.reads p).zip bs).map
        (fun kb => glueEntryCost P pm A.reads ag.1 kb.1 kb.2)).sum))

end WhVerif.C01

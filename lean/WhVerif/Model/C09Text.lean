import WhVerif.Model.C09File
/-!
# C09 model, text level: the sample column of one call as characters; passthrough; indexed fetch

Text is `List Char` (the driver converts from / to `String`).

## (1) tokens of the sample column
* `renderNat` / `renderInt`: what an f-string `f"{n}"` and htslib's integer printer emit (decimal, no leading zeros, `-`).
* `pyNat` = Python `int(s)` on a piece that cannot contain `-` (pieces come out of `s.split("-")`), transcribed subset:
  surrounding ASCII whitespace (space, \t \n \v \f \r, \x1c-\x1f) is stripped, one optional `+`, ASCII digits with single
  `_` between digits, leading zeros accepted.  NOT transcribed: non-ASCII digits / whitespace (Unicode `Nd`, `\x85`, `\xa0` …).
* `pyTuple` = what pysam hands to `_extract_HP_phase` for a `Number=.,Type=String` FORMAT value: the text split on `,`, an
  empty piece is `None`, an empty text is `('.',)`.  A column whose trailing `:HP` was dropped gives `()` (`HpCol.dropped`).
* `extractHPText` = `VcfReader._extract_HP_phase` from the tuple on, with the KIND of exception (`HpErr`): `None.split`
  → AttributeError; `int()` → ValueError; `assert` on the block ids; `field[1]` / `fields[0]` / `phase[j]` → IndexError;
  `order.index(i)` → ValueError; `call["GT"]` without GT → KeyError.  A field with more than two pieces (`1-2-3`) is
  accepted and the extra pieces are ignored, as coded.
* `renderHP` = `_set_HP`: `",".join(f"{component + 1}-{allele + 1}" …)` on the pairs.
* `parsePS` = htslib on a `Type=Integer` value, transcribed subset: `.` / empty → missing; `[+-]?digits` → the integer when
  it lies in `[-2147483640, 2147483647]`, missing otherwise (htslib warns and stores missing); everything else (`none`) makes
  htslib reject the record (`OSError`) or is a vector (`5,6`) — outside the grammar.
* `parseGT` = htslib + pysam (`call["GT"]`, `call.phased`), transcribed subset: pieces separated by `/` or `|`, each `.` or
  digits (leading zeros accepted); an allele index ≥ the number of alleles of the record reads as `None`; `phased` = every
  separator is `|` (so a haploid call is "phased").  Not transcribed: a leading `+` (htslib accepts it).
  `renderGT` = htslib's writer.

## (2) `VcfAugmenter._iterrecords` / `write_unchanged` / `_record_modifier` (`AugState`, `iterRecords`, `runAug`)
## (3) `VcfReader.fetch` vs `__iter__` at record level (`fetchRecs`, `runsOf`)
-/
namespace WhVerif.C09.Text
open WhVerif.C04 WhVerif.C09

/-! ### splitting and joining -/

/-- `s.split(sep)` for a one-character separator class: `"".split(",") == [""]` -/
def splitP (p : Char → Bool) : List Char → List (List Char)
  | [] => [[]]
  | c :: r =>
    if p c then [] :: splitP p r
    else match splitP p r with
      | h :: t => (c :: h) :: t
      | [] => [[c]]

/-- `sep.join(pieces)` -/
def joinSep (sep : Char) : List (List Char) → List Char
  | [] => []
  | [a] => a
  | a :: b :: r => a ++ sep :: joinSep sep (b :: r)

/-! ### integers -/

def digitChar (d : Nat) : Char := Char.ofNat (48 + d)

def isDigit (c : Char) : Bool := 48 ≤ c.toNat && c.toNat ≤ 57

/-- `f"{n}"` for `n ≥ 0` -/
def renderNat (n : Nat) : List Char :=
  if _h : n < 10 then [digitChar n] else renderNat (n / 10) ++ [digitChar (n % 10)]
decreasing_by omega

def renderInt : Int → List Char
  | .ofNat n => renderNat n
  | .negSucc n => '-' :: renderNat (n + 1)

/-- Python `str.isspace` restricted to ASCII -/
def isWs (c : Char) : Bool :=
  c == ' ' || (9 ≤ c.toNat && c.toNat ≤ 13) || (28 ≤ c.toNat && c.toNat ≤ 31)

def strip (l : List Char) : List Char := ((l.dropWhile isWs).reverse.dropWhile isWs).reverse

/-- digits with single underscores between digits; `pd` = the previous character was a digit -/
def digitsVal : Bool → Nat → List Char → Option Nat
  | pd, acc, [] => if pd then some acc else none
  | pd, acc, c :: r =>
    if isDigit c then digitsVal true (acc * 10 + (c.toNat - 48)) r
    else if c == '_' && pd then digitsVal false acc r
    else none

/-- Python `int(s)` for a piece without `-` (see the header for the transcribed subset); `none` = ValueError -/
def pyNat (l : List Char) : Option Nat :=
  let s := strip l
  if s.head? == some '+' then digitsVal false 0 s.tail else digitsVal false 0 s

/-- plain digits (no sign, no whitespace, no underscore): the integers of htslib's tokens -/
def plainNat (l : List Char) : Option Nat :=
  if l.isEmpty || !(l.all isDigit) then none else digitsVal false 0 l

/-! ### HP -/

inductive HpErr where
  | attribute   -- `None.split`
  | value       -- `int()` or `order.index(i)`
  | assertion   -- block ids differ
  | index       -- `fields[0]`, `field[1]`, `phase[j]`
  | key         -- `call["GT"]` on a record without GT
deriving DecidableEq, Repr

/-- the HP value of a call as the reader meets it -/
inductive HpCol where
  | absent                   -- no HP key in FORMAT: `call.get("HP")` is `None`
  | dropped                  -- HP in FORMAT, trailing value dropped from the sample column: `()`
  | text (t : List Char)
deriving DecidableEq, Repr

def pyTuple (t : List Char) : List (Option (List Char)) :=
  if t.isEmpty then [some ['.']]
  else (splitP (· == ',') t).map fun s => if s.isEmpty then none else some s

/-- `[int(x) for x in s.split("-")]` -/
def intPieces : List (List Char) → Except HpErr (List Nat)
  | [] => .ok []
  | x :: r =>
    match pyNat x with
    | none => .error .value
    | some n => match intPieces r with
      | .ok l => .ok (n :: l)
      | .error e => .error e

/-- `[[int(x) for x in s.split("-")] for s in hp]` -/
def hpFields : List (Option (List Char)) → Except HpErr (List (List Nat))
  | [] => .ok []
  | none :: _ => .error .attribute
  | some s :: r =>
    match intPieces (splitP (· == '-') s) with
    | .error e => .error e
    | .ok f => match hpFields r with
      | .ok l => .ok (f :: l)
      | .error e => .error e

/-- `tuple(phase[order.index(i)] for i in …)` with `order = [h - 1 …]`: the first failing `i` decides the exception -/
def pickAll (hs : List Nat) (g : Gt) : List Nat → Except HpErr Gt
  | [] => .ok []
  | i :: r =>
    match idxOf1 hs (i + 1) with
    | none => .error .value
    | some j =>
      match g[j]? with
      | none => .error .index
      | some a => match pickAll hs g r with
        | .ok l => .ok (a :: l)
        | .error e => .error e

/-- `(field[0], field[1])`; `none` = IndexError -/
def pairOfField (f : List Nat) : Option (Nat × Nat) :=
  match f.head?, f[1]? with
  | some b, some h => some (b, h)
  | _, _ => none

/-- the assert loop, `block_id`, `order`: the pairs `(fields[i][0], fields[i][1])` -/
def hpPairs (fields : List (List Nat)) : Except HpErr (List (Nat × Nat)) :=
  match fields with
  | [] => .error .index
  | f0 :: _ =>
    if !(fields.all fun f => f.head? == f0.head?) then .error .assertion
    else match fields.mapM pairOfField with
      | some l => .ok l
      | none => .error .index

/-- the typed HP value that the text stands for (`none` = `.`: no statement) -/
def hpValOfText (t : List Char) : Except HpErr (Option (List (Nat × Nat))) :=
  let tup := pyTuple t
  if tup == [some ['.']] then .ok none
  else match hpFields tup with
    | .error e => .error e
    | .ok fields => match hpPairs fields with
      | .error e => .error e
      | .ok l => .ok (some l)

def phaseOfPairs (l : List (Nat × Nat)) (gt : Option Gt) : Except HpErr (Option Phase) :=
  match gt with
  | none => .error .key
  | some g =>
    match pickAll (l.map (·.2)) g (List.range l.length) with
    | .error e => .error e
    | .ok ph => .ok (some ⟨some (Int.ofNat (l.headD (0, 0)).1), ph⟩)

/-- `_extract_HP_phase` on the text of the column -/
def extractHPText (col : HpCol) (gt : Option Gt) : Except HpErr (Option Phase) :=
  match col with
  | .absent => .ok none
  | .dropped => .error .index
  | .text t =>
    match hpValOfText t with
    | .error e => .error e
    | .ok none => .ok none
    | .ok (some l) => phaseOfPairs l gt

/-- `_set_HP`: `",".join(f"{component + 1}-{allele + 1}" for allele in phase)` on the pairs already incremented -/
def renderHP (l : List (Nat × Nat)) : List Char :=
  joinSep ',' (l.map fun bh => renderNat bh.1 ++ '-' :: renderNat bh.2)

/-! ### PS / PQ (htslib integer value) -/

def int32Lo : Int := -2147483640
def int32Hi : Int := 2147483647

def inRange (n : Int) : Option Int := if int32Lo ≤ n ∧ n ≤ int32Hi then some n else none

/-- `some none` = missing, `some (some n)`, `none` = outside the transcribed grammar / record rejected -/
def parsePS (t : List Char) : Option (Option Int) :=
  if t.isEmpty || t == ['.'] then some none
  else if t.head? == some '-' then (plainNat t.tail).map fun n => inRange (-(n : Int))
  else if t.head? == some '+' then (plainNat t.tail).map fun n => inRange (n : Int)
  else (plainNat t).map fun n => inRange (n : Int)

def renderPS : Option Int → List Char
  | none => ['.']
  | some n => renderInt n

/-! ### GT -/

def isSep (c : Char) : Bool := c == '/' || c == '|'

def alleleOfPiece (nal : Nat) (s : List Char) : Option (Option Nat) :=
  if s == ['.'] then some none
  else (plainNat s).map fun a => if a < nal then some a else none

/-- `(call["GT"], call.phased)`; `nal` = number of alleles of the record (REF + ALTs); `none` = htslib rejects the record -/
def parseGT (nal : Nat) (t : List Char) : Option (Gt × Bool) :=
  match (splitP isSep t).mapM (alleleOfPiece nal) with
  | none => none
  | some g => some (g, (t.filter isSep).all (· == '|'))

def renderAllele : Option Nat → List Char
  | none => ['.']
  | some a => renderNat a

def renderGT (g : Gt) (phased : Bool) : List Char :=
  joinSep (if phased then '|' else '/') (g.map renderAllele)

/-! ### the sample column of one call, restricted to what the two decoders look at -/

structure Col where
  /-- number of alleles of the record -/
  nal : Nat
  /-- GT token; `none`: the record has no GT key -/
  gt : Option (List Char)
  /-- PS token; `none`: the record has no PS key -/
  ps : Option (List Char)
  hp : HpCol
deriving DecidableEq, Repr

inductive TErr where
  | hp (e : HpErr)
  | record        -- htslib rejects the record / token outside the transcribed grammar
deriving DecidableEq, Repr

/-- both extractors on the text of one call, HP first (the typed `callPhases`) -/
def callPhasesText (c : Col) : Except TErr (Option Phase × Option Phase) :=
  match (match c.gt with | none => some none | some t => (parseGT c.nal t).map some),
        (match c.ps with | none => some none | some t => (parsePS t).map some) with
  | some gtv, some psv =>
    let gt : Option Gt := gtv.map (·.1)
    let phased : Bool := match gtv with | some x => x.2 | none => false
    match extractHPText c.hp gt with
    | .error e => .error (.hp e)
    | .ok hp =>
      let call : Call := ⟨gt, phased, match psv with | some (some n) => [("PS", .int n)] | _ => []⟩
      .ok (hp, extractGTPS (match psv with | some _ => ["PS"] | none => []) call)
  | _, _ => .error .record

/-- what htslib writes for the three keys of a typed call (`none`: a value the writer never produces — `Val.raw`, an
    empty HP list, an `hp` value under PS …) -/
def colOf (nal : Nat) (fmt : List String) (c : Call) : Option Col :=
  let ps : Option (Option (List Char)) :=
    if "PS" ∈ fmt then (match c.get "PS" with
      | .missing => some (some ['.'])
      | .int n => some (some (renderInt n))
      | _ => none)
    else some none
  let hp : Option HpCol :=
    match c.get "HP" with
    | .missing => some (if "HP" ∈ fmt then .text ['.'] else .absent)
    | .hp (x :: r) => some (.text (renderHP (x :: r)))
    | _ => none
  match ps, hp with
  | some ps, some hp => some ⟨nal, c.gt.map (fun g => renderGT g c.phased), ps, hp⟩
  | _, _ => none

/-! ## (2) passthrough: `VcfAugmenter._iterrecords`, `write_unchanged`, `_record_modifier` -/

structure AugState (α : Type) where
  /-- `self._unprocessed_record` (never reset to `None` by the code) -/
  unprocessed : Option (String × α)
  /-- what `self._reader_iter` still has -/
  rest : List (String × α)
deriving Repr

/-- the `for record in self._reader_iter` loop: `(yielded, new unprocessed, rest, assert n != 1 failed)`; `n` = records
    counted before the loop -/
def iterLoop {α} (chrom : String) : Nat → List (String × α) → List α × Option (String × α) × List (String × α) × Bool
  | _, [] => ([], none, [], false)
  | n, (c, x) :: r =>
    if c != chrom then ([], some (c, x), r, n + 1 == 1)
    else
      let (ys, u, r', bad) := iterLoop chrom (n + 1) r
      (x :: ys, u, r', bad)

/-- `_iterrecords(chromosome)` run to its end: the records yielded and the state afterwards; `.error ys` = an `assert`
    failed after `ys` had been yielded (and, for `write_unchanged`, written) -/
def iterRecords {α} (chrom : String) (st : AugState α) : Except (List α) (List α × AugState α) :=
  match st.unprocessed with
  | some (c, x) =>
    if c != chrom then .error []
    else
      let (ys, u, r, _) := iterLoop chrom 1 st.rest
      .ok (x :: ys, ⟨match u with | some v => some v | none => st.unprocessed, r⟩)
  | none =>
    let (ys, u, r, bad) := iterLoop chrom 0 st.rest
    if bad then .error ys else .ok (ys, ⟨u, r⟩)

/-- a sequence of `write_unchanged(chrom)` (`f = none`) / `write(chrom, …)` (`f = some g`, `g` = what `write` does to each
    record it is handed) calls on one augmenter: the records written, per call; `Except`: an `assert` of `_iterrecords` -/
def runAug {α} : AugState α → List (String × Option (α → α)) → Except Unit (List (List α))
  | _, [] => .ok []
  | st, (chrom, f) :: plan =>
    match iterRecords chrom st with
    | .error _ => .error ()
    | .ok (ys, st') =>
      match runAug st' plan with
      | .error e => .error e
      | .ok outs => .ok ((match f with | none => ys | some g => ys.map g) :: outs)

/-- the records of the file as `(chromosome, record)` from groups -/
def flatten {α} (groups : List (String × List α)) : List (String × α) :=
  groups.flatMap fun g => g.2.map fun x => (g.1, x)

/-! ## (3) indexed `fetch` vs iteration, record level -/

structure Site where
  chrom : String
  /-- `record.start` (0-based) -/
  start : Nat
  /-- `record.rlen` = `len(REF)`; `record.stop = start + rlen` -/
  rlen : Nat
deriving DecidableEq, Repr

/-- htslib's region query `fetch(chrom, start, stop)`: records of the contig overlapping the half-open 0-based interval
    `[start, stop)`; `stop = None` = to the end (htslib's maximal position) -/
def overlaps (start : Nat) (stop : Option Nat) (s : Site) : Bool :=
  decide (start < s.start + s.rlen) && (match stop with | none => true | some e => decide (s.start < e))

def fetchRecs {α} (site : α → Site) (file : List α) (chrom : String) (start : Nat) (stop : Option Nat) : List α :=
  file.filter fun x => (site x).chrom == chrom && overlaps start stop (site x)

/-- `VcfReader.fetch(chromosome)`: `start: int = 0, end = None` -/
def fetchChrom {α} (site : α → Site) (file : List α) (chrom : String) : List α := fetchRecs site file chrom 0 none

/-- `fetch_regions`: the concatenation over the regions (a record overlapping two regions comes twice) -/
def fetchRegions {α} (site : α → Site) (file : List α) (chrom : String) (regions : List (Nat × Option Nat)) : List α :=
  regions.flatMap fun r => fetchRecs site file chrom r.1 r.2

/-- `itertools.groupby(reader, key=chrom)` -/
def runsOf {α} (key : α → String) : List α → List (String × List α)
  | [] => []
  | x :: r =>
    match runsOf key r with
    | (c, ys) :: t => if key x == c then (c, x :: ys) :: t else (key x, [x]) :: (c, ys) :: t
    | [] => [(key x, [x])]

end WhVerif.C09.Text

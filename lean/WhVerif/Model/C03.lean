import WhVerif.Model.C18
/-!
# C03 model: `whatshap/cli/phase.py:find_components`, `compute_overall_components`, and the phase-set
name written by `whatshap/vcf.py:_set_PS/_set_HP` (`component + 1`).

Core Lean only.  Built on the union-find model `WhVerif.C18.UF` (= `graph.py:ComponentFinder`).
Faithful to the code as it is:
* `assert phased_positions == sorted(phased_positions)` (non-decreasing; duplicates pass and collapse
  in the `ComponentFinder` dict / `set`) -> `Err.assertion`;
* per read, the positions kept are those in the phased set (and, if a het map is given, in the het set
  of the read's numeric sample id; `heterozygous_positions[read.sample_id]` is only evaluated when the
  first conjunct is true, so a missing sample raises `KeyError` only then);
* `merge(positions[0], p)` for every later `p` (assertion `x != y` if a read carries a position twice);
* the master block is merged exactly like one more read (`master_block[0]` with every later entry;
  a master position that is not a phased position raises `KeyError`);
* the result maps every phased position to `find(position)`; the state after path compression is
  threaded through (iteration order of the Python `set` is arbitrary; `Lemmas/C03` proves the result
  does not depend on it).
-/
namespace WhVerif.C03
open WhVerif.C18

inductive Err where
  | assertion   -- AssertionError
  | keyError    -- KeyError
deriving Repr, DecidableEq

structure Read where
  /-- numeric sample id (`read.sample_id`) -/
  sample : Nat
  /-- variant positions in read order -/
  positions : List Nat
deriving Repr

/-- `heterozygous_positions`: numeric sample id ↦ positions (a Python dict; keys distinct) -/
abbrev HetMap := List (Nat × List Nat)

/-- `l == sorted(l)` -/
def isSortedB : List Nat → Bool
  | a :: b :: t => a ≤ b && isSortedB (b :: t)
  | _ => true

/-- the list `positions` computed in the loop body of `find_components` for one read -/
def readBlock (phased : List Nat) (het : Option HetMap) (r : Read) : Except Err (List Nat) :=
  match het with
  | none => .ok (r.positions.filter (fun p => phased.contains p))
  | some h =>
    match h.lookup r.sample with
    | some hs => .ok (r.positions.filter (fun p => phased.contains p && hs.contains p))
    | none => if r.positions.any (fun p => phased.contains p) then .error .keyError else .ok []

/-- `component_finder.merge(x, y)` with its two error outcomes told apart -/
def mergeOne (u : UF) (x y : Nat) : Except Err UF :=
  if x = y then .error .assertion
  else match u.merge x y with
    | some u' => .ok u'
    | none => .error .keyError

/-- `for position in positions[1:]: component_finder.merge(positions[0], position)` (tail part) -/
def mergeRest (u : UF) (first : Nat) : List Nat → Except Err UF
  | [] => .ok u
  | p :: ps =>
    match mergeOne u first p with
    | .ok u' => mergeRest u' first ps
    | .error e => .error e

def mergeBlock (u : UF) : List Nat → Except Err UF
  | [] => .ok u
  | first :: rest => mergeRest u first rest

/-- the loop over the reads -/
def mergeReads (phased : List Nat) (het : Option HetMap) (u : UF) : List Read → Except Err UF
  | [] => .ok u
  | r :: rs =>
    match readBlock phased het r with
    | .error e => .error e
    | .ok b =>
      match mergeBlock u b with
      | .error e => .error e
      | .ok u' => mergeReads phased het u' rs

/-- `{position: component_finder.find(position) for position in ...}` -/
def findAll (u : UF) : List Nat → Except Err (List (Nat × Nat))
  | [] => .ok []
  | p :: ps =>
    match u.find p with
    | none => .error .keyError
    | some (u', r) =>
      match findAll u' ps with
      | .ok rest => .ok ((p, r) :: rest)
      | .error e => .error e

/-- `find_components(phased_positions, reads, master_block, heterozygous_positions)`;
the result lists `(position, component)` for the distinct phased positions in input order -/
def findComponents (phased : List Nat) (reads : List Read) (master : Option (List Nat))
    (het : Option HetMap) : Except Err (List (Nat × Nat)) :=
  if !isSortedB phased then .error .assertion
  else
    match mergeReads phased het (UF.init phased) reads with
    | .error e => .error e
    | .ok u1 =>
      match (match master with | none => Except.ok u1 | some m => mergeBlock u1 m) with
      | .error e => .error e
      | .ok u2 => findAll u2 phased.eraseDups

/-- component of a position in a result of `findComponents` (`components[pos]`) -/
def compOf (comps : List (Nat × Nat)) (p : Nat) : Option Nat := comps.lookup p

/-- `_set_PS` / `_set_HP`: the phase-set name written for a variant in component `c` -/
def psName (c : Nat) : Nat := c + 1

/-- what the writer puts into PS (or the prefix of each HP entry) of a phased call at 0-based position `p` -/
def psOf (comps : List (Nat × Nat)) (p : Nat) : Option Nat := (compOf comps p).map psName

/-! ## `compute_overall_components` -/

/-- one family member's pair of super-reads, zipped: `(position, allele on super-read 0, allele on super-read 1)` -/
structure SuperReads where
  sampleId : Nat
  vars : List (Nat × Nat × Nat)
deriving Repr

/-- `sorted(set(l))` -/
def insertSorted (a : Nat) : List Nat → List Nat
  | [] => [a]
  | b :: t => if a ≤ b then a :: b :: t else b :: insertSorted a t

def sortDedup (l : List Nat) : List Nat := l.eraseDups.foldr insertSorted []

def isHetGt (a b : Nat) : Bool := (a == 0 && b == 1) || (a == 1 && b == 0)
def isHomGt (a b : Nat) : Bool := (a == 0 && b == 0) || (a == 1 && b == 1)

/-- the master block and the het map chosen by `compute_overall_components` -/
def overallParams (accessible : List Nat) (distrust : Bool) (famSize : Nat) (genetic : Bool)
    (homozygous : List Nat) (superreads : List SuperReads) : Option (List Nat) × Option HetMap :=
  if distrust then
    let srs := superreads.take famSize     -- zip(family, superreads_list)
    let acc := fun (v : Nat × Nat × Nat) => accessible.contains v.1
    let hetMap : HetMap := srs.map (fun s =>
      (s.sampleId, (s.vars.filter (fun v => acc v && isHetGt v.2.1 v.2.2)).map (·.1)))
    let homAny : List Nat := srs.flatMap (fun s =>
      (s.vars.filter (fun v => acc v && isHomGt v.2.1 v.2.2)).map (·.1))
    (if famSize > 1 && genetic then some (sortDedup homAny) else none, some hetMap)
  else
    (if famSize > 1 && genetic then
        some (sortDedup (homozygous.filter (fun p => accessible.contains p)))
      else none, none)

def computeOverallComponents (accessible : List Nat) (reads : List Read) (distrust : Bool)
    (famSize : Nat) (genetic : Bool) (homozygous : List Nat) (superreads : List SuperReads) :
    Except Err (List (Nat × Nat)) :=
  let pr := overallParams accessible distrust famSize genetic homozygous superreads
  findComponents accessible reads pr.1 pr.2

end WhVerif.C03

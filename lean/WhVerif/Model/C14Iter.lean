import WhVerif.Model.C14Text
/-!
# C14 model, round 10: the input iterators and the format decision from bytes, as coded

* `_bam_iterator`: the nested `if qlen > 0 … else (inferred is not None … else …)` with one `yield` per branch —
  `bamYield` keeps the three branches apart (a lost branch loses records: seed C14-h), `bamIter` is the generator;
  a yielded item is `(query_name, length, index of the record in the file)`.
  pysam's (0.24) `infer_query_length()`: `None` without CIGAR, else the sum of the query-consuming operations (0 for
  a CIGAR like `5H`; observed, not `None`).
* `_fastq_string_iterator`: `record.name` = the title line up to the first white-space character (kseq:
  `ks_getuntil(ks, 0, …)` = C `isspace`), `len(record.sequence)` = the sequence lines concatenated (multi-line FASTQ);
  a record here is (title line without `@`, sequence lines) — kseq's byte-level record splitting is outside.
* `detect_file_format` on BYTES: the first 16 bytes of the file and, behind a gzip magic, the first 16 bytes of the
  decompressed stream (the gunzip itself is Python's; `none` = it raised).
-/
namespace WhVerif.C14

structure BamRec where
  name : String
  /-- `record.query_length` (`l_qseq`; 0 for SEQ `*`) -/
  seqLen : Nat
  /-- CIGAR as (BAM op code, length); `[]` for CIGAR `*` -/
  cigar : List (Nat × Nat)
deriving Repr, DecidableEq

/-- what an input iterator yields: read name, read length, index of the record in the input -/
abbrev Item := String × Nat × Nat

/-- pysam `AlignedSegment.infer_query_length()` -/
def inferQlen (cigar : List (Nat × Nat)) : Option Nat :=
  if cigar.isEmpty then none else some ((cigar.filter (fun e => consumesQuery e.1)).map (·.2)).sum

/-- the body of `_bam_iterator`'s loop for the record with index `i`: the items it yields -/
def bamYield (r : BamRec) (i : Nat) : List Item :=
  if r.seqLen > 0 then [(r.name, r.seqLen, i)]
  else
    match inferQlen r.cigar with
    | some l => [(r.name, l, i)]
    | none => [(r.name, 0, i)]

/-- `_bam_iterator` -/
def bamIter : Nat → List BamRec → List Item
  | _, [] => []
  | i, r :: rs => bamYield r i ++ bamIter (i + 1) rs

/-- C `isspace` (kseq's `KS_SEP_SPACE`) -/
def isCSpace (c : Char) : Bool := c == ' ' || (9 ≤ c.toNat && c.toNat ≤ 13)

structure FqRec where
  /-- the title line without the leading `@` and without the line terminator -/
  title : List Char
  /-- the sequence lines (one for 4-line FASTQ) -/
  seqLines : List (List Char)
deriving Repr, DecidableEq

/-- `record.name` -/
def fastqName (title : List Char) : String := String.ofList (title.takeWhile (fun c => !isCSpace c))

/-- `record.comment`: the rest of the title line after the ONE separating white-space character (`None` if there is
no separator or nothing after it) -/
def fastqComment (title : List Char) : Option String :=
  match title.dropWhile (fun c => !isCSpace c) with
  | [] => none
  | [_] => none
  | _ :: rest => some (String.ofList rest)

/-- the title line `str(record)` prints (after `@`): name, and — separated by ONE SPACE whatever the input had — the comment -/
def fastqTitleOut (title : List Char) : String :=
  match fastqComment title with
  | none => fastqName title
  | some c => fastqName title ++ " " ++ c

/-- `_fastq_string_iterator` -/
def fastqIter : Nat → List FqRec → List Item
  | _, [] => []
  | i, r :: rs => (fastqName r.title, fastqLen r.seqLines.flatten, i) :: fastqIter (i + 1) rs

/-! ### `detect_file_format` from bytes -/

def bCRAM : List Nat := [67, 82, 65, 77]
/-- `##fileformat=VCF` -/
def bVCF : List Nat := [35, 35, 102, 105, 108, 101, 102, 111, 114, 109, 97, 116, 61, 86, 67, 70]
def bGZ : List Nat := [31, 139]
def bBAM : List Nat := [66, 65, 77, 1]

/-- `detect_file_format(path)`: `head` = `f.read(16)`, `inner` = `gzip.GzipFile(path).read(16)` (only looked at behind
a gzip magic; `none` = gzip raised). Outer `none` = the exception propagates. -/
def magicOfBytes (head : List Nat) (inner : Option (List Nat)) : Option Magic :=
  if bCRAM.isPrefixOf head then some .cram
  else if bVCF.isPrefixOf head then some .vcf
  else if bGZ.isPrefixOf head then
    match inner with
    | none => none
    | some b => if bBAM.isPrefixOf b then some .bam else if bVCF.isPrefixOf b then some .gzVcf else some .other
  else some .other

/-- `initialize_io_files`' decision from bytes + file name: outer `none` = gzip's exception, inner `none` = `ValueError` -/
def detectFromBytes (head : List Nat) (inner : Option (List Nat)) (path : String) : Option (Option InFmt) :=
  (magicOfBytes head inner).map (fun m => detectInput m path)

end WhVerif.C14

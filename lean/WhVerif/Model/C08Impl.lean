import WhVerif.Model.C08
import WhVerif.Model.C01Gray
/-!
# C08, implementation-structured model of `src/genotypedptable.cpp`

A second, lower-level model next to `Model/C08.lean`: the same numbers, computed *the way the code computes
them*.  Core Lean only; polymorphic in the number type `K` (driver: `Float` and core `Rat`).

* `CostComputer` = `GenotypeColumnCostComputer`: `cost_partition[p] = (cost of allele 0, cost of allele 1)`,
  `setPartitioning` (p is shifted only on non-blank entries, as coded), `updatePartitioning bit` (BLANK: nothing, not
  even `partitioning`; else flip the bit, multiply the two factors into the new partition and **divide** them out of the
  old one), `getCost a = Π_p cost_partition[p][(a >> p) & 1]`.
* `Iter` = `ColumnIndexingIterator` over `GrayCodes` (`WhVerif.C01.grayList`, the `(c, s, i, changed)` machine as
  coded): `forward_projection` maintained incrementally by xor with `1 << forward_projection_mask[bit]`
  (`maskAt fwdPos bit`; mask `-1` = `none`), `get_backward_projection = index & ((1 << w) - 1)`.
* `bwdColumn` / `fwdColumn` = the loops of `compute_backward_column` / `compute_forward_column`: Gray order,
  scatter-adds `col->at(projection, ·) += …`, `scaling_sum`, `normalization`, likelihood accumulators, in the
  code's order of operations.
* `Table` = `backward_projection_column_table` + `scaling_parameters`; `backwardPass k` keeps the columns whose index
  is a multiple of `k` (`k = ⌊√n⌋` in the code, any `k` here), `fetchBackward` re-computes a missing column from the
  next stored one (`compute_backward_column(i)` for `i = next … c+1`, early return if the target exists, the stored
  column is divided once more, `scaling_parameters[i]` overwritten, the final extra division by the *old*
  `scaling_parameters[c]`), `forwardPass` consumes and deletes.
* `transTable` / bernoulli vector as in `TransitionProbabilityComputer`.
-/
namespace WhVerif.C08.Impl
open WhVerif.C08

abbrev Ent := Option (Nat × Bool × Nat)

/-! ## `GenotypeColumnCostComputer` -/
section CC
variable {K : Type}

/-- `cost_partition` -/
abbrev CP (K : Type) := Array (K × K)

def cpAt [One K] (cp : CP K) (p : Nat) (al : Bool) : K :=
  let c := cp.getD p (1, 1); if al then c.2 else c.1

/-- `cost_partition[p][alt] *= x; cost_partition[p][!alt] *= y` -/
def cpMul [Mul K] (cp : CP K) (p : Nat) (alt : Bool) (x y : K) : CP K :=
  cp.modify p (fun c => if alt then (c.1 * y, c.2 * x) else (c.1 * x, c.2 * y))

/-- `cost_partition[p][alt] /= x; cost_partition[p][!alt] /= y` -/
def cpDiv [Div K] (cp : CP K) (p : Nat) (alt : Bool) (x y : K) : CP K :=
  cp.modify p (fun c => if alt then (c.1 / y, c.2 / x) else (c.1 / x, c.2 / y))

structure CostComputer (K : Type) where
  partitioning : Nat
  cp : CP K

variable [One K] [Mul K] [Div K] [Sub K]

/-- `haplotype_to_partition(ind, entry_in_partition1)` -/
@[inline] def h2p (parts : Nat → Nat × Nat) (ind : Nat) (in1 : Bool) : Nat :=
  if in1 then (parts ind).2 else (parts ind).1

/-- the loop of `set_partitioning(p)` -/
def setLoop (em : Nat → K) (parts : Nat → Nat × Nat) : List Ent → Nat → CP K → CP K
  | [], _, cp => cp
  | none :: es, p, cp => setLoop em parts es p cp
  | some (ind, alt, q) :: es, p, cp =>
    let in1 := p % 2 == 0
    setLoop em parts es (p / 2) (cpMul cp (h2p parts ind in1) alt (1 - em q) (em q))

def setPartitioning (em : Nat → K) (parts : Nat → Nat × Nat) (nP : Nat) (col : List Ent) (p : Nat) : CostComputer K :=
  ⟨p, setLoop em parts col p (Array.replicate nP (1, 1))⟩

def updatePartitioning (em : Nat → K) (parts : Nat → Nat × Nat) (col : List Ent) (cc : CostComputer K) (bit : Nat) :
    CostComputer K :=
  match col[bit]? with
  | some (some (ind, alt, q)) =>
    let part := cc.partitioning ^^^ (1 <<< bit)
    let in1 := !(part.testBit bit)
    let cp1 := cpMul cc.cp (h2p parts ind in1) alt (1 - em q) (em q)
    ⟨part, cpDiv cp1 (h2p parts ind (!in1)) alt (1 - em q) (em q)⟩
  | _ => cc

def getCost (nP : Nat) (cc : CostComputer K) (a : Nat) : K :=
  Nat.fold nP (fun p _ acc => acc * cpAt cc.cp p (a.testBit p)) 1

/-- one cost computer along the Gray walk: the state after the `k+1` first codes have been taken -/
def ccStep (em : Nat → K) (parts : Nat → Nat × Nat) (nP : Nat) (col : List Ent) (cc : CostComputer K) (g : Nat × Int) :
    CostComputer K :=
  if g.2 < 0 then setPartitioning em parts nP col g.1 else updatePartitioning em parts col cc g.2.toNat

def ccWalk (em : Nat → K) (parts : Nat → Nat × Nat) (nP : Nat) (col : List Ent) (k : Nat) : CostComputer K :=
  ((WhVerif.C01.grayList col.length).take (k + 1)).foldl (ccStep em parts nP col) ⟨0, #[]⟩

end CC

/-! ## `ColumnIndexingIterator` -/

/-- `forward_projection_mask->at(j)`: `some n` if position `j` is the `n`-th shared one, `none` for `-1` -/
def maskAt : List Nat → Nat → Option Nat
  | [], _ => none
  | r :: rest, j => if r = j then some 0 else (maskAt rest j).map (· + 1)

/-- `advance`: the new `forward_projection` -/
def fpStep (fwdPos : List Nat) (fp : Nat) (g : Nat × Int) : Nat :=
  if g.2 < 0 then 0
  else match maskAt fwdPos g.2.toNat with
    | some m => fp ^^^ (1 <<< m)
    | none => fp

def fpWalk (n : Nat) (fwdPos : List Nat) (k : Nat) : Nat :=
  ((WhVerif.C01.grayList n).take (k + 1)).foldl (fpStep fwdPos) 0

/-- `get_backward_projection` / `index_backward_projection` -/
def bwdProj (w idx : Nat) : Nat := idx &&& ((1 <<< w) - 1)

/-! ## the column loops -/
section Cols
variable {K : Type} [Zero K] [One K] [Add K] [Mul K] [Div K] [Sub K]

def addAt (t : Array K) (i : Nat) (x : K) : Array K := t.modify i (· + x)

def divAll (t : Array K) (x : K) : Array K := t.map (· / x)

/-- what a column loop needs to know -/
structure ColCtx (K : Type) where
  c : Nat
  nCols : Nat
  co : Col
  col : List Ent
  nT : Nat
  nP : Nat
  em : Nat → K
  parts : Nat → Nat → Nat × Nat
  asg : Nat → Nat → K
  trans : Nat → Nat → K

/-- iterator + cost computers -/
structure Walk (K : Type) where
  ccs : Array (CostComputer K)
  fp : Nat

def Walk.init (nT : Nat) : Walk K := ⟨Array.replicate nT ⟨0, #[]⟩, 0⟩

def Walk.step (X : ColCtx K) (w : Walk K) (g : Nat × Int) : Walk K :=
  ⟨w.ccs.mapIdx (fun t cc => ccStep X.em (X.parts t) X.nP X.col cc g), fpStep X.co.fwdPos w.fp g⟩

def Walk.cost (X : ColCtx K) (w : Walk K) (t a : Nat) : K :=
  getCost X.nP (w.ccs.getD t ⟨0, #[]⟩) a

structure BAcc (K : Type) where
  cur : Array K
  ssum : K

/-- body of the `while (iterator->has_next())` loop of `compute_backward_column` -/
def bwdBody (X : ColCtx K) (prev : Array K) (w : Walk K) (idx : Nat) (acc : BAcc K) : BAcc K :=
  let bp := bwdProj X.co.bwdW idx
  Nat.fold X.nT (fun i _ acc =>
    let bprob := if X.c + 1 < X.nCols then tblAt prev (w.fp * X.nT + i) else 1
    Nat.fold (2 ^ X.nP) (fun a _ acc =>
      let cur :=
        if X.c > 0 then
          let lc := Walk.cost X w i a
          Nat.fold X.nT (fun j _ cur => addAt cur (bp * X.nT + j) (bprob * lc * (X.trans j i * X.asg i a))) acc.cur
        else acc.cur
      ⟨cur, acc.ssum + bprob⟩) acc) acc

/-- `compute_backward_column(c)` past the early return: (new column of boundary `c-1|c`, `scaling_sum`) -/
def bwdColumn (X : ColCtx K) (prev : Array K) (prevW : Nat) : Array K × K :=
  let init : BAcc K := ⟨Array.replicate (if X.c > 0 then 2 ^ prevW * X.nT else 0) 0, 0⟩
  let r := (WhVerif.C01.grayList X.co.nAct).foldl
    (fun (s : Walk K × BAcc K) g => let w := Walk.step X s.1 g; (w, bwdBody X prev w g.1 s.2)) (Walk.init X.nT, init)
  (divAll r.2.cur r.2.ssum, r.2.ssum)

structure FAcc (K : Type) where
  cur : Array K
  norm : K
  lik : Array K

def fwdBody (X : ColCtx K) (nInd : Nat) (prev : Array K) (bw : Option (Array K)) (fwS : K) (w : Walk K) (idx : Nat)
    (acc : FAcc K) : FAcc K :=
  let bp := if X.c > 0 then bwdProj X.co.bwdW idx else 0
  Nat.fold X.nT (fun i _ acc =>
    let sumPrev : K :=
      if X.c > 0 then Nat.fold X.nT (fun j _ s => s + tblAt prev (bp * X.nT + j) * X.trans j i) 0 else 1
    Nat.fold (2 ^ X.nP) (fun a _ acc =>
      let bprob : K := match bw with
        | some b => tblAt b (w.fp * X.nT + i)
        | none => 1
      let fprob := (sumPrev * Walk.cost X w i a * X.asg i a) / fwS
      let fb := fprob * bprob
      let lik := Nat.fold nInd (fun ind _ lik => addAt lik (ind * 3 + genoOf X.parts ind i a) fb) acc.lik
      let cur := if X.c + 1 < X.nCols then addAt acc.cur (w.fp * X.nT + i) fprob else acc.cur
      ⟨cur, acc.norm + fb, lik⟩) acc) acc

/-- `compute_forward_column(c)`: (new forward projection column, likelihoods `[ind*3+g]` after
`divide_likelihoods_by(normalization)`) -/
def fwdColumn (X : ColCtx K) (nInd : Nat) (prev : Array K) (bw : Option (Array K)) (fwS : K) : Array K × Array K :=
  let init : FAcc K :=
    ⟨Array.replicate (if X.c + 1 < X.nCols then 2 ^ X.co.fwdPos.length * X.nT else 0) 0, 0, Array.replicate (nInd * 3) 0⟩
  let r := (WhVerif.C01.grayList X.co.nAct).foldl
    (fun (s : Walk K × FAcc K) g => let w := Walk.step X s.1 g; (w, fwdBody X nInd prev bw fwS w g.1 s.2)) (Walk.init X.nT, init)
  (r.2.cur, divAll r.2.lik r.2.norm)

end Cols

/-! ## `TransitionProbabilityComputer` (transmission part) -/
section Trans
variable {K : Type} [Zero K] [One K] [Add K] [Mul K] [Div K] [Sub K]

/-- `popcount(size_t& x)`: `for (;x; x >>= 1) count += x & 1` -/
def popcountLoop : Nat → Nat → Nat → Nat
  | 0, _, cnt => cnt
  | fuel + 1, x, cnt => if x = 0 then cnt else popcountLoop fuel (x / 2) (cnt + x % 2)

/-- the `bernoulli` vector and the row-normalised `transitions_transmissions`, entry `(i, j)` at `i * nT + j` -/
def transTable (rho : K) (nTr : Nat) : Array K :=
  let nT := 4 ^ nTr
  let bern : Array K := Array.ofFn (n := 2 * nTr + 1) (fun i => powNat rho i.val * powNat (1 - rho) (2 * nTr - i.val))
  let raw : Array K := Array.ofFn (n := nT * nT) (fun k => bern.getD (popcountLoop 64 ((k.val / nT) ^^^ (k.val % nT)) 0) 0)
  let sums : Array K := Array.ofFn (n := nT) (fun i => Nat.fold nT (fun j _ s => s + raw.getD (i.val * nT + j) 0) 0)
  Array.ofFn (n := nT * nT) (fun k => raw.getD k.val 0 / sums.getD (k.val / nT) 0)

end Trans

/-! ## the table: check-pointing -/
section Table
variable {K : Type} [Zero K] [One K] [Add K] [Mul K] [Div K] [Sub K] [NatCast K]

/-- `backward_projection_column_table`, `scaling_parameters` -/
structure Table (K : Type) where
  bwd : Array (Option (Array K))
  sp : Array K

/-- the per-instance data shared by all columns -/
structure Env (K : Type) where
  inst : Inst
  W : Weights K
  em : Nat → K
  parts : Nat → Nat → Nat × Nat
  ents : Array (List Ent)
  /-- `get_prob_transmission` of column `c`; `none` = take `W.trans` -/
  trT : Array (Array K)

def Env.mk' (inst : Inst) (p : Params K) : Env K :=
  let W := inst.weights p
  let partsT : Array (Array (Nat × Nat)) :=
    Array.ofFn (n := inst.nTrans) (fun t => Array.ofFn (n := inst.nInd) (fun i => inst.hapPart t.val inst.nInd i.val))
  { inst, W, em := p.em
    parts := fun t i => (partsT.getD t #[]).getD i (0, 0)
    ents := Array.ofFn (n := inst.nCols) (fun c => inst.colEntries c.val)
    trT := Array.ofFn (n := inst.nCols) (fun c => transTable (p.rho c.val) inst.triples.length) }

def Env.ctx (E : Env K) (c : Nat) : ColCtx K :=
  { c, nCols := E.inst.nCols, co := E.inst.frame.col c, col := E.ents.getD c [], nT := E.W.nT, nP := E.inst.nPart
    em := E.em, parts := E.parts, asg := fun t a => E.W.asg c t a
    trans := fun j t => tblAt (E.trT.getD c #[]) (j * E.W.nT + t) }

def Table.get (T : Table K) (c : Nat) : Option (Array K) := (T.bwd.getD c none)

/-- `compute_backward_column(c)` -/
def computeBackwardColumn (E : Env K) (T : Table K) (c : Nat) : Table K :=
  if c > 0 && (T.get (c - 1)).isSome then T
  else
    let prev : Option (Array K) := if c + 1 < E.inst.nCols then T.get c else none
    let X := E.ctx c
    let prevW := (E.inst.frame.col (c - 1)).fwdPos.length
    let (cur, ssum) := bwdColumn X (prev.getD #[]) prevW
    let bwd := match prev with
      | some pcol => T.bwd.setIfInBounds c (some (divAll pcol ssum))
      | none => T.bwd
    let bwd := if c > 0 then bwd.setIfInBounds (c - 1) (some cur) else bwd
    ⟨bwd, T.sp.setIfInBounds c ssum⟩

/-- `compute_backward_prob` with check-point spacing `k` -/
def backwardPass (E : Env K) (k : Nat) : Table K :=
  let n := E.inst.nCols
  Nat.fold n (fun d _ T =>
    let c := n - 1 - d
    let T := computeBackwardColumn E T c
    if k > 1 && c + 1 < n && (c + 1) % k != 0 then ⟨T.bwd.setIfInBounds (c + 1) none, T.sp⟩ else T)
    ⟨Array.replicate n none, Array.replicate n 0⟩

/-- the `if (backward_probabilities == nullptr)` block of `compute_forward_column` -/
def fetchBackward (E : Env K) (k : Nat) (T : Table K) (c : Nat) : Table K :=
  if (T.get c).isSome then T
  else
    let next := min (((c + k) / k) * k) (E.inst.nCols - 1)
    let T := Nat.fold (next - c) (fun d _ T => computeBackwardColumn E T (next - d)) T
    match T.get c with
    | some col => ⟨T.bwd.setIfInBounds c (some (divAll col (T.sp.getD c 0))), T.sp⟩
    | none => T

structure Out (K : Type) where
  /-- `genotype_likelihood_table`, column `c` ↦ `[ind*3+g]` -/
  lik : Array (Array K)
  /-- `scaling_parameters[c]` as used by the forward pass -/
  fwS : Array K
  /-- which columns had to be re-computed -/
  recomputed : Array Bool

/-- `compute_forward_prob` -/
def forwardPass (E : Env K) (k : Nat) (T0 : Table K) : Out K :=
  let n := E.inst.nCols
  let r := Nat.fold n (fun c _ (s : Table K × Array K × Out K) =>
    let (T, prev, out) := s
    let missing := c + 1 < n && (T.get c).isNone
    let T := if c + 1 < n then fetchBackward E k T c else T
    let bw := if c + 1 < n then T.get c else none
    let fwS := T.sp.getD c 0
    let (cur, lik) := fwdColumn (E.ctx c) E.inst.nInd prev bw fwS
    let T : Table K := ⟨T.bwd.setIfInBounds c none, T.sp⟩
    (T, if c + 1 < n then cur else prev, ⟨out.lik.push lik, out.fwS.push fwS, out.recomputed.push missing⟩))
    (T0, #[], ⟨#[], #[], #[]⟩)
  r.2.2

/-- the constructor of `GenotypeDPTable` with check-point spacing `k` -/
def run (inst : Inst) (p : Params K) (k : Nat) : Out K :=
  let E := Env.mk' inst p
  forwardPass E k (backwardPass E k)

/-- `get_genotype_likelihoods(i, c).likelihoods[g]`, `k = ⌊√nCols⌋` as coded -/
def likelihood (inst : Inst) (p : Params K) (c i g : Nat) : K :=
  tblAt ((run inst p (Nat.sqrt inst.nCols)).lik.getD c #[]) (i * 3 + g)

end Table

end WhVerif.C08.Impl

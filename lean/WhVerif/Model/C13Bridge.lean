import WhVerif.Model.C13
import WhVerif.Model.C04File
/-!
# C13 model, part 2: the header, and the bridge from C04's record model

Core Lean only.
* `unphaseHeader` = `cli/unphase.py:unphase_header` on a list of header lines (`C04.HLine`): the FIRST `phasing` line is
  removed (loop with `break`), then the FORMAT definitions of HP, PQ and PS.  `unphaseHeaderFix` = after `fixes/F61.patch`
  (every `phasing` line is removed).
* `ofC04` turns a record of the C04 model (`C04.Record`: what `PhasedVcfWriter.write` reads and writes) into a record of
  the C13 model, so that "unphase after phase" can be stated across the two models: the eight fixed columns are the
  tab-separated `site`, a call has GT iff the C04 call has, and the other fields are the rendered values of the FORMAT
  keys other than GT, in FORMAT order (keys a call has no value for are `.`, as htslib prints them).
-/
namespace WhVerif.C13
open WhVerif

/-! ## header -/

def isPhaseFormat (l : C04.HLine) : Bool :=
  l.key = "FORMAT" && (match l.id with | some i => isPhaseTag i | none => false)

/-- `for tag in TAGS_TO_REMOVE: if tag in header.formats: header.formats.remove_header(tag)` -/
def removePhaseFormats (h : List C04.HLine) : List C04.HLine := h.filter (fun l => !isPhaseFormat l)

/-- `unphase_header` as coded -/
def unphaseHeader (h : List C04.HLine) : List C04.HLine := removePhaseFormats (C04.removeFirstPhasing h)

/-- `unphase_header` after fixes/F61.patch -/
def unphaseHeaderFix (h : List C04.HLine) : List C04.HLine := removePhaseFormats (h.filter (fun l => !(l.key = "phasing")))

/-! ## records of the C04 model as records of this model -/

def ofC04Call (fmt : List String) (c : C04.Call) : Call :=
  { gt := c.gt.map (fun g => { alleles := g, phased := c.phased }),
    fields := (fmt.filter (fun k => !(k = "GT"))).map (fun k => (k, C04.renderVal (c.get k))) }

def ofC04 (r : C04.Record) : Record :=
  { fixed := r.site.splitOn "\t", calls := r.calls.map (fun nc => ofC04Call r.format nc.2) }

end WhVerif.C13

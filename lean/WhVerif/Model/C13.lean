/-!
# C13 model: `whatshap/cli/unphase.py:run_unphase` (record loop)

Core Lean only.  A VCF data line is seen the way pysam presents it to the code:

* eight fixed columns (opaque strings),
* per sample a *call*: the genotype (`none` iff the record's FORMAT has no `GT` key; otherwise the
  allele list with `none` for `.` and the flag "some separator is `|`") and the remaining FORMAT
  fields as `(key, value)` pairs in FORMAT order.

`run_unphase` does, per record: `del record.format[tag]` for HP, PQ, PS; then per call
`if GT is not None and GT[0] is not None and GT[1] is not None: GT = sorted(GT)`; `phased = False`.

Two variants are modelled with the *same* Python primitives (`pyIndex`, `pySorted`, `pyGetGT`),
each of which can raise exactly where CPython/pysam raise:

* `unphaseCur`  – the loop body as it is in /repo HEAD (defect F2: `GT[1]` on a haploid call raises
  `IndexError`; `sorted` of a call whose first two alleles are present but a later one is missing raises
  `TypeError`; `call["GT"]` on a record without GT raises `KeyError`);
* `unphaseFix`  – the loop body after `fixes/F2.patch` (sort iff every allele is present, any ploidy;
  skip calls of records without GT);

and the specification-level total function `unphase` that the theorems are about
(`Props/C13.lean` proves `unphaseFix v = .ok (unphase v)` for every `v`).
-/
namespace WhVerif.C13

structure GT where
  /-- `none` = `.` -/
  alleles : List (Option Nat)
  /-- some separator of the GT string is `|` (pysam: `call.phased`, set for all by the setter) -/
  phased : Bool
deriving DecidableEq, Repr

structure Call where
  /-- `none` iff FORMAT has no GT key -/
  gt : Option GT
  /-- the other FORMAT fields of this call, FORMAT order, raw value strings -/
  fields : List (String × String)
deriving DecidableEq, Repr

structure Record where
  /-- CHROM POS ID REF ALT QUAL FILTER INFO -/
  fixed : List String
  calls : List Call
deriving DecidableEq, Repr

inductive Err | indexError | typeError | keyError
deriving DecidableEq, Repr

/-- `TAGS_TO_REMOVE` -/
def phaseTags : List String := ["HP", "PQ", "PS"]
def isPhaseTag (k : String) : Bool := phaseTags.contains k

/-- `del record.format[tag]` for the three tags, seen from one call -/
def stripTags (fs : List (String × String)) : List (String × String) :=
  fs.filter (fun kv => !isPhaseTag kv.1)

def sortNat (l : List Nat) : List Nat := l.mergeSort (fun a b => decide (a ≤ b))

def allPresent (l : List (Option Nat)) : Bool := l.all Option.isSome

/-- sort iff every allele is present (otherwise leave the order alone) -/
def sortAlleles (l : List (Option Nat)) : List (Option Nat) :=
  if allPresent l then (sortNat (l.filterMap id)).map some else l

/-! ## specification-level function -/

def unphaseGT (g : GT) : GT := { alleles := sortAlleles g.alleles, phased := false }
def unphaseCall (c : Call) : Call := { gt := c.gt.map unphaseGT, fields := stripTags c.fields }
def unphaseRecord (r : Record) : Record := { fixed := r.fixed, calls := r.calls.map unphaseCall }
def unphase (v : List Record) : List Record := v.map unphaseRecord

/-! ## Python primitives with their exceptions -/

/-- `t[i]` on a tuple -/
def pyIndex (l : List (Option Nat)) (i : Nat) : Except Err (Option Nat) :=
  match l[i]? with
  | some a => .ok a
  | none => .error .indexError

/-- `sorted(t)` on a tuple of `int | None`: any comparison involving `None` raises; a tuple of length ≤ 1
is never compared -/
def pySorted (l : List (Option Nat)) : Except Err (List (Option Nat)) :=
  if l.length ≤ 1 then .ok l
  else if allPresent l then .ok ((sortNat (l.filterMap id)).map some)
  else .error .typeError

/-- `call["GT"]` -/
def pyGetGT (c : Call) : Except Err GT :=
  match c.gt with
  | some g => .ok g
  | none => .error .keyError

/-! ## the loop body as it is (HEAD) -/

def unphaseCallCur (c : Call) : Except Err Call := do
  let g ← pyGetGT c                       -- call["GT"]  (is never None for a present key)
  let a0 ← pyIndex g.alleles 0            -- call["GT"][0] is not None
  let alleles ←
    if a0.isSome then do
      let a1 ← pyIndex g.alleles 1        -- and call["GT"][1] is not None
      if a1.isSome then pySorted g.alleles else pure g.alleles
    else pure g.alleles
  pure { gt := some { alleles := alleles, phased := false }, fields := stripTags c.fields }

def unphaseRecordCur (r : Record) : Except Err Record := do
  let cs ← r.calls.mapM unphaseCallCur
  pure { fixed := r.fixed, calls := cs }

def unphaseCur (v : List Record) : Except Err (List Record) := v.mapM unphaseRecordCur

/-! ## the loop body after fixes/F2.patch -/

def unphaseCallFix (c : Call) : Except Err Call :=
  match c.gt with
  | none => pure { gt := none, fields := stripTags c.fields }       -- "GT" not in record.format: skip
  | some g => do
    let alleles ← if allPresent g.alleles then pySorted g.alleles else pure g.alleles   -- None not in gt
    pure { gt := some { alleles := alleles, phased := false }, fields := stripTags c.fields }

def unphaseRecordFix (r : Record) : Except Err Record := do
  let cs ← r.calls.mapM unphaseCallFix
  pure { fixed := r.fixed, calls := cs }

def unphaseFix (v : List Record) : Except Err (List Record) := v.mapM unphaseRecordFix

end WhVerif.C13

import WhVerif.Model.C11
/-!
# C11 model, the glue of `whatshap compare` (`run_compare` in `whatshap/cli/compare.py`)

Core Lean only.  What happens between the VCF records and the calls of `compare` / `compare_pair` / `compare_multiway`
(modelled in `Model/C11.lean`):

* `get_sample_names`: `--sample`, `--ignore-sample-name`, sample intersection, with the four `CommandLineError`s in the
  order the code raises them;
* the reader as `compare` configures it (`VcfReader(only_snvs=…, phases=True, ploidy=…, mav=True)`,
  `vcf.py:_process_single_chromosome`): records without ALT and with ≥ 16 ALT alleles are skipped, non-SNVs are skipped
  with `--only-snvs` (a record is an SNV iff REF and every ALT have length 1), a record at the position of the
  previously KEPT record is skipped, a smaller position raises `VcfNotSortedError`; `PloidyError` (→ "Provided ploidy is
  invalid") when a GT/PS phase with a phase-set value, or a complete genotype, of ANY sample has another length than
  `--ploidy`; tables are built per run of consecutive records of one chromosome, a later run of the same chromosome
  replaces the earlier table (`m[variant_table.chromosome] = variant_table`);
* a variant is identified by (position, REF, ALT alleles); a call with a missing allele has the empty `Genotype`,
  which is NOT homozygous: it counts as heterozygous for `collect_common_variants` and has no usable phase;
* `get_common_chromosomes` (sorted; none → error), per chromosome `het_variants0` of the first data set, all pairs
  `i < j` in order with the sample column (`a_b` with `--ignore-sample-name`), the BED records of all pairs sorted, and
  for ≥ 3 diploid files the multiway comparison whose sample column is `"_".join(set(sample_names))` — a `set` of
  strings, so its order depends on the hash seed (finding F47): the model returns the distinct names in file order and
  the harness accepts any order as coded / demands file order as repaired;
* an exception inside a comparison (`KeyError` of `complement` on an allele ≥ 2, finding F45) ends the run: the rows
  of the earlier comparisons have been written.

NOT modelled: HP-tag phasing, `--names` validation, the plots, the printed report, float rate columns.
-/
namespace WhVerif.C11

structure RawCall where
  /-- alleles as pysam reports them (`none` = `.`); `[]` = no GT -/
  gt : List (Option Nat)
  /-- pysam's `call.phased` -/
  phased : Bool
  /-- `call.get("PS", 0)`: `none` = `.`, `some 0` when the FORMAT has no PS -/
  ps : Option Nat
deriving Repr

structure Rec where
  chrom : String
  pos : Nat
  ref : String
  alts : List String
  calls : List RawCall
deriving Repr

structure VFile where
  samples : List String
  records : List Rec
deriving Repr

structure Opts where
  ploidy : Nat
  sample : Option String
  ignoreName : Bool
  onlySnvs : Bool
deriving Repr

inductive RunError
  | multiSampleIgnore | sampleNotFound | noCommonSample | ambiguousSample | noSample
  | ploidy | notSorted | noCommonChromosome
deriving Repr, DecidableEq

/-- `get_sample_names` -/
def sampleNames (o : Opts) (files : List VFile) : Except RunError (List String) :=
  -- the loop: intersection, multi-sample check, first samples
  match files.find? (fun f => (o.ignoreName && decide (1 < f.samples.length)) || f.samples.isEmpty) with
  | some f => if f.samples.isEmpty then .error .noSample else .error .multiSampleIgnore
  | none =>
    let inter := match files with
      | [] => []
      | f0 :: rest => f0.samples.eraseDups.filter fun s => rest.all fun f => f.samples.contains s
    match o.sample with
    | some s => if inter.contains s then .ok (files.map fun _ => s) else .error .sampleNotFound
    | none =>
      if o.ignoreName then .ok (files.map fun f => f.samples.headD "")
      else match inter with
        | [] => .error .noCommonSample
        | [s] => .ok (files.map fun _ => s)
        | _ => .error .ambiguousSample

/-- a variant as the tables identify it -/
structure VKey where
  pos : Nat
  ref : String
  alts : List String
deriving Repr, DecidableEq, BEq

structure Row where
  key : VKey
  calls : List RawCall
deriving Repr

structure Table where
  chrom : String
  rows : List Row
deriving Repr

def isSnvRec (r : Rec) : Bool := r.ref.length == 1 && r.alts.all (·.length == 1)

def gtComplete (gt : List (Option Nat)) : Option (List Nat) := if gt.isEmpty then none else gt.mapM id

/-- `_extract_GT_PS_phase(call) is not None` -/
def hasGtPsPhase (c : RawCall) : Bool := c.phased && !(c.gt.all (· == c.gt.headD none))

/-- the two ploidy checks of one call -/
def ploidyBad (ploidy : Nat) (c : RawCall) : Bool :=
  (hasGtPsPhase c && c.ps.isSome && c.gt.length != ploidy) ||
  (match gtComplete c.gt with | some g => g.length != ploidy | none => false)

/-- `_process_single_chromosome` on one run of records; `prev` = position of the last kept record -/
def readRun (o : Opts) : List Rec → Option Nat → List Row → Except RunError (List Row)
  | [], _, acc => .ok acc.reverse
  | r :: rest, prev, acc =>
    if r.alts.isEmpty then readRun o rest prev acc
    else if decide (16 ≤ r.alts.length) then readRun o rest prev acc
    else if !isSnvRec r && o.onlySnvs then readRun o rest prev acc
    else if (match prev with | some q => decide (r.pos < q) | none => false) then .error .notSorted
    else if prev == some r.pos then readRun o rest prev acc
    else if r.calls.any (ploidyBad o.ploidy) then .error .ploidy
    else readRun o rest (some r.pos) (⟨⟨r.pos, r.ref, r.alts⟩, r.calls⟩ :: acc)

/-- `itertools.groupby(records, chrom)`: runs of consecutive records of one chromosome -/
def splitRuns : List Rec → List (String × List Rec)
  | [] => []
  | r :: rest =>
    match splitRuns rest with
    | (c, l) :: more => if c == r.chrom then (c, r :: l) :: more else (r.chrom, [r]) :: (c, l) :: more
    | [] => [(r.chrom, [r])]

def setTable (t : Table) : List Table → List Table
  | [] => [t]
  | u :: rest => if u.chrom == t.chrom then t :: rest else u :: setTable t rest

/-- `get_variant_tables` for one file: chromosome → table, a later run replaces an earlier one -/
def readFile (o : Opts) (f : VFile) : Except RunError (List Table) :=
  (splitRuns f.records).foldlM (fun m run => do
    let rows ← readRun o run.2 none []
    pure (setTable ⟨run.1, rows⟩ m)) []

def insertStr (a : String) : List String → List String
  | [] => [a]
  | b :: t => if a < b then a :: b :: t else if a == b then b :: t else b :: insertStr a t

/-- `sorted(set(...))` of strings -/
def sortStrings (l : List String) : List String := l.foldr insertStr []

/-- `get_common_chromosomes` -/
def commonChromosomes (tabs : List (List Table)) : List String :=
  match tabs with
  | [] => []
  | t0 :: rest => sortStrings ((t0.map (·.chrom)).filter fun c => rest.all fun t => t.any (·.chrom == c))

def tableOf (tabs : List Table) (c : String) : List Row := ((tabs.find? (·.chrom == c)).map (·.rows)).getD []

def sampleIndex (f : VFile) (s : String) : Nat := f.samples.findIdx (· == s)

/-- not `Genotype.is_homozygous()`: the empty genotype (missing allele) is not homozygous -/
def rawHet (c : RawCall) : Bool :=
  match gtComplete c.gt with
  | some g => !isHom g
  | none => true

/-- the call of one sample in the format of `Model/C11.lean`: an incomplete genotype becomes an unphased
heterozygous place-holder (heterozygous for `collect_common_variants`, no phase) -/
def toCall (k : VKey) (c : RawCall) : Call :=
  match gtComplete c.gt with
  | some g => ⟨k.pos, g, c.phased, match c.ps with | some n => n + 1 | none => 0⟩
  | none => ⟨k.pos, [0, 1], false, 0⟩

def dummyCall : RawCall := ⟨[], false, none⟩

/-- the rows of `rows` whose variant occurs in every one of `others`, as calls of sample number `si` -/
def restrictCalls (rows : List Row) (si : Nat) (others : List (List Row)) : List Call :=
  (rows.filter fun r => others.all fun o => o.any fun q => q.key == r.key).map fun r =>
    toCall r.key (r.calls.getD si dummyCall)

structure PairOut where
  i : Nat
  j : Nat
  sampleName : String
  hetVariants0 : Nat
  /-- `none` = an exception inside the comparison -/
  result : Option PairResult
deriving Repr

structure ChromOut where
  chrom : String
  pairs : List PairOut
  /-- BED records of all pairs `(start, end, i, j)` in the order written -/
  bed : List (Nat × Nat × Nat × Nat)
  /-- multiway: (distinct sample names in file order, total, histogram); `none` = not run -/
  multiway : Option (List String × Nat × List (Hap × Nat))
  /-- the run died in this chromosome -/
  died : Bool
deriving Repr

def lexLe (a b : Nat × Nat × Nat × Nat) : Bool :=
  if a.1 != b.1 then decide (a.1 < b.1)
  else if a.2.1 != b.2.1 then decide (a.2.1 < b.2.1)
  else if a.2.2.1 != b.2.2.1 then decide (a.2.2.1 < b.2.2.1)
  else decide (a.2.2.2 ≤ b.2.2.2)

def insertBed (a : Nat × Nat × Nat × Nat) : List (Nat × Nat × Nat × Nat) → List (Nat × Nat × Nat × Nat)
  | [] => [a]
  | b :: t => if lexLe a b then a :: b :: t else b :: insertBed a t

def allPairs (k : Nat) : List (Nat × Nat) :=
  (List.range k).flatMap fun i => ((List.range k).filter fun j => decide (i < j)).map fun j => (i, j)

/-- the pairs of one chromosome, in order, until one dies -/
def runPairs (fix3 fix45 fix46 : Bool) (o : Opts) (tabs : List (List Row)) (sidx : List Nat) (names : List String) (het0 : Nat) :
    List (Nat × Nat) → List PairOut → List PairOut × Bool
  | [], acc => (acc.reverse, false)
  | (i, j) :: rest, acc =>
    let ti := tabs.getD i []
    let tj := tabs.getD j []
    let ci := restrictCalls ti (sidx.getD i 0) [tj]
    let cj := restrictCalls tj (sidx.getD j 0) [ti]
    let sn := if o.ignoreName then names.getD i "" ++ "_" ++ names.getD j "" else names.getD i ""
    match comparePair true true fix3 fix45 fix46 o.ploidy ci cj with
    | none => ((⟨i, j, sn, het0, none⟩ :: acc).reverse, true)
    | some r => runPairs fix3 fix45 fix46 o tabs sidx names het0 rest (⟨i, j, sn, het0, some r⟩ :: acc)

def runChrom (fix3 fix45 fix46 : Bool) (o : Opts) (files : List VFile) (tabsAll : List (List Table)) (names : List String)
    (c : String) : ChromOut :=
  let tabs := tabsAll.map (tableOf · c)
  let sidx := (files.zip names).map fun fn => sampleIndex fn.1 fn.2
  let het0 := ((tabs.headD []).filter fun r => rawHet (r.calls.getD (sidx.headD 0) dummyCall)).length
  let (pairs, died) := runPairs fix3 fix45 fix46 o tabs sidx names het0 (allPairs files.length) []
  let bedAll := pairs.flatMap fun p => match p.result with
    | some r => r.bed.map fun b => (b.1, b.2, p.i, p.j)
    | none => []
  let bed := if o.ploidy = 2 then bedAll.foldr insertBed [] else []
  if died then ⟨c, pairs, [], none, true⟩ else
  if decide (2 < files.length) && o.ploidy = 2 then
    let calls := (List.range files.length).map fun i =>
      restrictCalls (tabs.getD i []) (sidx.getD i 0) ((tabs.take i) ++ (tabs.drop (i + 1)))
    match compareMultiway true fix46 calls with
    | some (total, hist) => ⟨c, pairs, bed, some (names.eraseDups, total, hist), false⟩
    | none => ⟨c, pairs, bed, none, true⟩
  else ⟨c, pairs, bed, none, false⟩

/-- the chromosomes in sorted order until the run dies -/
def runChroms (fix3 fix45 fix46 : Bool) (o : Opts) (files : List VFile) (tabsAll : List (List Table)) (names : List String) :
    List String → List ChromOut
  | [] => []
  | c :: rest =>
    let out := runChrom fix3 fix45 fix46 o files tabsAll names c
    if out.died then [out] else out :: runChroms fix3 fix45 fix46 o files tabsAll names rest

/-- `run_compare`: an error before anything is compared, or the per-chromosome outputs -/
def runCompare (fix3 fix45 fix46 : Bool) (o : Opts) (files : List VFile) : Except RunError (List ChromOut) := do
  let names ← sampleNames o files
  let tabsAll ← files.mapM (readFile o)
  let chroms := commonChromosomes tabsAll
  if chroms.isEmpty then .error .noCommonChromosome
  else pure (runChroms fix3 fix45 fix46 o files tabsAll names chroms)

end WhVerif.C11

import WhVerif.Model.C06Filter
import WhVerif.Model.C07Pipe
import WhVerif.Model.C01Input
/-!
# C02 composed stage model: alignments → reads (C06) → sorted read set → candidates / selection (C07) → solver input (C01)

What `whatshap phase` (default exact algorithm, single-sample family, no phase-input VCF) does per (chromosome, sample)
between the alignment files and `PedigreeDPTable`:

```
readset, vcf_source_ids = phased_input_reader.read(chromosome, phasable_variant_table.variants, sample)
      = ReadSetReader.read(chromosome, variants, sample, reference)          -- `C06.readModel`
        (SampleNotFoundError -> empty ReadSet); for read in readset: read.sort(); readset.sort()   -- `sortReads`
readset = readset.subset([i for i, read in enumerate(readset) if len(read) >= 2])                  -- `candidatesP`
selected_reads = select_reads(merged_reads, max_coverage_per_sample, preferred_source_ids)         -- `C07.sampleStage`
all_reads = merge_readsets(readsets); accessible_positions = sorted(all_reads.get_positions())     -- `C01.defaultPositions`
PedigreeDPTable(all_reads, recombination_costs, pedigree, distrust_genotypes, accessible_positions)  -- `C01.mkInst`
```

`ReadSet::sort()` (`read_comparator_t`): reads without variants first, then by first position; ties by
`std::hash<std::string>(name) ^ std::hash<int>(source_id)` — implementation-defined, hence a parameter `rank` of the model
(the theorems hold for every `rank`; the driver takes the observed order as rank).  `read.sort()` is the identity on the
reads of `readModel` (`create_read_from_group` sorts by position).  The reads carry alleles here (`C06.ReadOut`), the C07
stage model sees them through `toSRead`, the solver through `toRaw`.  Core Lean only.
-/
namespace WhVerif.C02S
open WhVerif.C06 WhVerif.C07 WhVerif.C01

instance : Inhabited ReadOut := ⟨⟨"", 0, 0, 0, "", 0, 0, []⟩⟩

/-- the read as the C07 stage model sees it (positions, qualities, source id) -/
def toSRead (r : ReadOut) : SRead := ⟨r.sourceId, r.variants.map (·.1), r.variants.map (·.2.2)⟩

/-- the read as the solver sees it (`ind` 0: single-sample family; `Read::addVariant` stores the quality as the weight) -/
def toRaw (r : ReadOut) : RawRead := ⟨0, r.variants.map fun v => (v.1, v.2.1, v.2.2.toNat)⟩

/-- `read_comparator_t`: 0 for a read without variants, else 1 + first position -/
def sortKey (r : ReadOut) : Nat :=
  match r.variants with
  | [] => 0
  | v :: _ => v.1 + 1

def keyLt (rank : ReadOut → Nat) (a b : ReadOut) : Bool :=
  decide (sortKey a < sortKey b) || (sortKey a == sortKey b && decide (rank a < rank b))

def insertRead (rank : ReadOut → Nat) (x : ReadOut) : List ReadOut → List ReadOut
  | [] => [x]
  | y :: ys => if keyLt rank x y then x :: y :: ys else y :: insertRead rank x ys

/-- `readset.sort()` -/
def sortReads (rank : ReadOut → Nat) : List ReadOut → List ReadOut
  | [] => []
  | x :: xs => insertRead rank x (sortReads rank xs)

/-- `len(read) >= 2` -/
def longEnoughP (r : ReadOut) : Bool := decide (2 ≤ r.variants.length)

/-- `readset.subset([i for i, read in enumerate(readset) if len(read) >= 2])` -/
def candidatesP (rs : List ReadOut) : List ReadOut := rs.filter longEnoughP

structure StageOut where
  /-- the candidates (trace: `candidates[sample].reads`) -/
  cands : List ReadOut
  /-- `sorted(selected_indices)` into `cands` -/
  selIdx : List Nat
  /-- `readsets[sample]` (trace: `candidates[sample].selected`) -/
  selected : List ReadOut
deriving Repr

/-- the body of `for sample in family` on reads that carry their alleles: the selection is `C07.sampleStage`'s -/
def stageP (rs : List ReadOut) (cap : Nat) (prefIds choices : List Nat) : Except StageErr StageOut :=
  match sampleStage (rs.map toSRead) cap prefIds choices with
  | .ok o => .ok ⟨candidatesP rs, o.selIdx, o.selIdx.map (fun i => (candidatesP rs).getD i default)⟩
  | .error e => .error e

inductive PipeErr where
  | read (e : RErr)
  | stage (e : StageErr)
deriving Repr

structure PipeOut where
  /-- the sorted read set `PhasedInputReader.read` returns -/
  reads : List ReadOut
  stage : StageOut
  /-- `accessible_positions` = `sorted(all_reads.get_positions())` -/
  positions : List Nat
  /-- the solver's reads -/
  raws : List RawRead
deriving Repr

/-- `PhasedInputReader.read` without phase-input VCFs: `SampleNotFoundError` is caught (empty read set) -/
def readSorted (cfg : ReadCfg) (sources : List Source) (sample : Option String) (variants : List Variant)
    (reference : Option Seq) (rank : ReadOut → Nat) : Except RErr (List ReadOut) :=
  match readModel cfg sources sample none variants reference with
  | .error .sampleNotFound => .ok []
  | .error e => .error e
  | .ok reads => .ok (sortReads rank reads)

/-- alignments of one sample on one chromosome → the solver's input -/
def samplePipeline (cfg : ReadCfg) (sources : List Source) (sample : Option String) (variants : List Variant)
    (reference : Option Seq) (rank : ReadOut → Nat) (cap : Nat) (prefIds choices : List Nat) : Except PipeErr PipeOut :=
  match readSorted cfg sources sample variants reference rank with
  | .error e => .error (.read e)
  | .ok rs =>
    match stageP rs cap prefIds choices with
    | .error e => .error (.stage e)
    | .ok o => .ok ⟨rs, o, defaultPositions (o.selected.map toRaw), o.selected.map toRaw⟩

end WhVerif.C02S

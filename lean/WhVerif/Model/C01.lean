import WhVerif.Model.Cost
/-!
# C01 model: the exact (Ped)MEC solver `PedigreeDPTable` (src/pedigreedptable.cpp and friends)

Core Lean only.  What mirrors what:

* `Inst`               the solver's input after `reassignReadIds`: reads in ReadSet order (sorted by first
                       position), each with its individual index, the column index of its first and last
                       variant and its entries `(column, allele, weight)`; the pedigree (individual count,
                       trios as index triples); per individual and column the genotype constraint as a cost
                       per number of ALT alleles (`none` = incompatible: trusted genotypes; all `some`:
                       phred likelihoods of `--distrust-genotypes`); recombination costs per column.
* `activeAt`           `ColumnIterator`: reads with first ≤ c ≤ last, in id order (BLANK entries for gaps).
* `h2p`                `PedigreePartitions` (`compute_haplotype_to_partition_rec`), transmission value `t`.
* `assignments`        the constructor of `PedigreeColumnCostComputer` (genotype-compatible allele assignments).
* `colCost`            `get_cost()` for the bipartition given as bits (bit i = i-th active read; bit set =
                       read on haplotype 1 of its individual — `entry_in_partition1 == (bit == 0)`).
* `costTable`/`flip`   `set_partitioning` / `update_partitioning` (the incremental table).
* `dpCell`, `projTable`, `dpCost`   `compute_column`: DP cell = column cost + min over previous transmission
                       values of (previous projection at `index & (2^w-1)` + popcount(i xor j)·recomb[c]);
                       forward projection = minimum over all indices with the same restriction to the reads
                       shared with the next column; optimum = minimum over the last column.
* `getAlleles`         `get_alleles()` incl. the `EQUAL_SCORES` tie flag (allele 3).
* `witness`            backtrace (index path and transmission path), `get_optimal_partitioning`.

Modelled in separate files: `compute_table` as coded — the √n check-pointing of projection columns, the stored
backtrace tables, the backtrace that recomputes the segment between two check-points, the Gray-code *order* of the
enumeration (which decides which of several equally good witnesses is returned), `get_optimal_partitioning`,
`get_super_reads` — in `Model/C01Ckpt.lean` (refinement theorems: `Props/C01.lean`, `ckpt_*`); the 32-bit
`unsigned int` arithmetic with `UINT_MAX` as infinity in `Model/C01U32.lean` (`no_overflow`).  The definitions below
are the unbounded, full-table, index-order reference those refine.
-/
namespace WhVerif.C01
open WhVerif.Cost

structure Read where
  ind : Nat
  first : Nat
  last : Nat
  /-- (column, allele ∈ {0,1}, weight) -/
  entries : List (Nat × Nat × Nat)
deriving Repr, Inhabited

structure Inst where
  ncols : Nat
  reads : List Read
  nind : Nat
  /-- (father, mother, child) individual indices -/
  trios : List (Nat × Nat × Nat)
  /-- `geno[ind][col] = [cost for 0 ALT alleles, for 1, for 2]`, `none` = incompatible -/
  geno : List (List (List (Option Nat)))
  recomb : List Nat
deriving Repr, Inhabited

def Inst.read (I : Inst) (r : Nat) : Read := I.reads.getD r default
def Inst.nreads (I : Inst) : Nat := I.reads.length
def Inst.ntrans (I : Inst) : Nat := 4 ^ I.trios.length
def Inst.npart (I : Inst) : Nat := 2 * (I.nind - I.trios.length)
def Inst.recombAt (I : Inst) (c : Nat) : Nat := I.recomb.getD c 0

/-- reads whose span contains column `c`, in id order (`ColumnIterator::get_next`) -/
def Inst.activeAt (I : Inst) (c : Nat) : List Nat :=
  (List.range I.nreads).filter (fun r => decide ((I.read r).first ≤ c) && decide (c ≤ (I.read r).last))

/-- reads active in column `c` and in column `c+1` -/
def Inst.sharedAt (I : Inst) (c : Nat) : List Nat :=
  (I.activeAt c).filter (fun r => decide (c + 1 ≤ (I.read r).last))

def Read.entryAt (rd : Read) (c : Nat) : Option (Nat × Nat) :=
  (rd.entries.find? (fun e => e.1 == c)).map (fun e => (e.2.1, e.2.2))

def popcount (n : Nat) : Nat := if h : n = 0 then 0 else n % 2 + popcount (n / 2)
decreasing_by omega

def bitOf (x i : Nat) : Nat := (x >>> i) % 2

/-! ## pedigree partitions -/

/-- `[!(bool)bit]` selection of a parental partition -/
def sel (p : Nat × Nat) (bit : Nat) : Nat := if bit = 1 then p.1 else p.2

def isChild (I : Inst) (i : Nat) : Bool := I.trios.any (fun tr => tr.2.2 == i)

/-- roots get partitions (0,1),(2,3),… in individual order -/
def h2pRoots (I : Inst) : List (Option (Nat × Nat)) :=
  ((List.range I.nind).foldl (fun (acc : List (Option (Nat × Nat)) × Nat) i =>
      if isChild I i then (acc.1 ++ [none], acc.2) else (acc.1 ++ [some (acc.2, acc.2 + 1)], acc.2 + 2)) ([], 0)).1

def h2pPass (I : Inst) (t : Nat) (m : List (Option (Nat × Nat))) : List (Option (Nat × Nat)) :=
  (I.trios.zipIdx).foldl (fun m (tr, k) =>
    match m.getD tr.2.2 none, m.getD tr.1 none, m.getD tr.2.1 none with
    | none, some pf, some pm => m.set tr.2.2 (some (sel pf (bitOf t (2 * k)), sel pm (bitOf t (2 * k + 1))))
    | _, _, _ => m) m

def iter {α} (f : α → α) : Nat → α → α
  | 0, x => x
  | n + 1, x => iter f n (f x)

def h2pMap (I : Inst) (t : Nat) : List (Option (Nat × Nat)) := iter (h2pPass I t) I.nind (h2pRoots I)

/-- lookup in a computed partition map -/
def h2pOf (hm : List (Option (Nat × Nat))) (ind h : Nat) : Nat :=
  match hm.getD ind none with
  | some p => if h = 0 then p.1 else p.2
  | none => 0

/-- `haplotype_to_partition(ind, h)` under transmission value `t` -/
def h2p (I : Inst) (t ind h : Nat) : Nat := h2pOf (h2pMap I t) ind h

/-! ## column cost -/

def gcost (I : Inst) (ind c k : Nat) : Option Nat := ((I.geno.getD ind []).getD c []).getD k none

/-- genotype cost of allele assignment `α` (bit p = allele of partition p); `none` = incompatible -/
def assignCost (I : Inst) (c t α : Nat) : Option Nat :=
  let hm := h2pMap I t
  (List.range I.nind).foldl (fun acc ind =>
    cadd acc (gcost I ind c (bitOf α (h2pOf hm ind 0) + bitOf α (h2pOf hm ind 1)))) (some 0)

/-- genotype-compatible allele assignments with their genotype cost, in increasing order of `α` -/
def assignments (I : Inst) (c t : Nat) : List (Nat × Nat) :=
  (List.range (2 ^ I.npart)).filterMap (fun α => (assignCost I c t α).map (fun g => (α, g)))

/-- cost of read `r` in column `c` when it sits on haplotype `b` of its individual -/
def readCost (I : Inst) (c : Nat) (hm : List (Option (Nat × Nat))) (α r : Nat) (b : Bool) : Nat :=
  match (I.read r).entryAt c with
  | none => 0
  | some (al, w) => if bitOf α (h2pOf hm (I.read r).ind (if b then 1 else 0)) = al then 0 else w

def viewCost (I : Inst) (c t α : Nat) (bs : List Bool) : Nat :=
  let hm := h2pMap I t
  (((I.activeAt c).zip bs).map (fun rb => readCost I c hm α rb.1 rb.2)).sum

/-- `get_cost()` -/
def colCost (I : Inst) (c : Nat) (bs : List Bool) (t : Nat) : Option Nat :=
  minOver (assignments I c t) (fun ag => some (ag.2 + viewCost I c t ag.1 bs))

/-! ### the incremental table of the code (`cost_partition[p][allele]`) -/

/-- `set_partitioning`: `tab[p] = (cost if partition p carries REF(0), cost if it carries ALT(1))` -/
def costTable (I : Inst) (c t : Nat) (bs : List Bool) : List (Nat × Nat) :=
  let hm := h2pMap I t
  ((I.activeAt c).zip bs).foldl (fun tab rb =>
    match (I.read rb.1).entryAt c with
    | none => tab
    | some (al, w) =>
      let p := h2pOf hm (I.read rb.1).ind (if rb.2 then 1 else 0)
      -- a REF entry costs w if the partition is set to ALT, and vice versa
      tab.modify p (fun e => if al = 0 then (e.1, e.2 + w) else (e.1 + w, e.2)))
    (List.replicate I.npart (0, 0))

def tableCost (tab : List (Nat × Nat)) (α : Nat) : Nat :=
  ((tab.zipIdx).map (fun ep => if bitOf α ep.2 = 0 then ep.1.1 else ep.1.2)).sum

/-- `get_cost()` through the table, as the code computes it -/
def colCostTab (I : Inst) (c : Nat) (bs : List Bool) (t : Nat) : Option Nat :=
  minOver (assignments I c t) (fun ag => some (ag.2 + tableCost (costTable I c t bs) ag.1))

/-! ## bits and indices -/

def bitsOf (k idx : Nat) : List Bool := (List.range k).map (fun i => idx.testBit i)

def natOfBits : List Bool → Nat
  | [] => 0
  | b :: bs => (if b then 1 else 0) + 2 * natOfBits bs

/-- restriction of a column view to the reads shared with the next column (forward projection) -/
def fwdBits (I : Inst) (c : Nat) (bs : List Bool) : List Bool :=
  ((I.activeAt c).zip bs).filterMap (fun rb => if c + 1 ≤ (I.read rb.1).last then some rb.2 else none)

/-! ## the DP -/

/-- bucketed minimum by a left fold, as the code updates its projection column -/
def bucketMin {α} (n : Nat) (items : List α) (key : α → Nat) (f : α → Option Nat) : Array (Option Nat) :=
  items.foldl (fun arr a => arr.modify (key a) (fun old => cmin old (f a))) (Array.replicate n none)

def pairs (n m : Nat) : List (Nat × Nat) := (List.range n).flatMap (fun i => (List.range m).map (fun t => (i, t)))

/-- DP cell of column `c` for bipartition index `idx` and transmission value `t`,
given the projection table `prev` of column `c-1` (ignored for `c = 0`) -/
def dpCell (I : Inst) (c : Nat) (prev : Array (Option Nat)) (idx t : Nat) : Option Nat :=
  let cur := colCost I c (bitsOf (I.activeAt c).length idx) t
  if c = 0 then cur
  else
    let bp := idx % 2 ^ (I.sharedAt (c - 1)).length
    cadd cur (minOver (List.range I.ntrans) (fun j =>
      cadd (prev.getD (bp * I.ntrans + j) none) (some (popcount (t ^^^ j) * I.recombAt c))))

/-- forward projection table of column `c`: entry `f * ntrans + t` -/
def projTable (I : Inst) (c : Nat) (prev : Array (Option Nat)) : Array (Option Nat) :=
  let k := (I.activeAt c).length
  bucketMin (2 ^ (I.sharedAt c).length * I.ntrans) (pairs (2 ^ k) I.ntrans)
    (fun it => natOfBits (fwdBits I c (bitsOf k it.1)) * I.ntrans + it.2)
    (fun it => dpCell I c prev it.1 it.2)

/-- projection table after column `c` -/
def tableAt (I : Inst) : Nat → Array (Option Nat)
  | 0 => projTable I 0 #[]
  | c + 1 => projTable I (c + 1) (tableAt I c)

/-- `get_optimal_cost()`; `none` = the "Mendelian conflict" exception / no feasible solution -/
def dpCost (I : Inst) : Option Nat :=
  if I.ncols = 0 then some 0
  else
    let c := I.ncols - 1
    let prev := if c = 0 then #[] else tableAt I (c - 1)
    minOver (pairs (2 ^ (I.activeAt c).length) I.ntrans) (fun it => dpCell I c prev it.1 it.2)

end WhVerif.C01

import WhVerif.Model.C14
/-!
# C14 model, text level: from the bytes of the haplotag list / the command line to `Opts` and `Table`,
and from the `Pass` to the bytes of the histogram file

Core Lean only.  Mirrors, as the code is:

* text-mode iteration over the list file (universal newlines: `\n`, `\r\n`, `\r` end a line; a last line without
  terminator is a line; the terminator is not part of the model's line — `strip()` removes it and `startswith("#")`
  does not see it),
* `check_haplotag_list_information`: `first_line.strip().split("\t")[:4]` has 4 values → 4-column parser, else
  `[:2]` has 2 values → 2-column parser, else `ValueError` (an empty file too),
* `process_haplotag_list_file`: the header is the first *raw* line if it starts with `#` (no `strip` here: a first
  line ` #x…` is data), every other line is `line.strip().split("\t")[:4]` resp. `[:2]` — `strip` also eats leading /
  trailing tabs, so an empty last column shortens the line; a blank line has the single column `""`,
* `validate` + the first lines of `run_split`: which outputs exist and what the ploidy is,
* `_bam_iterator`'s read length (`query_length`, else the query-consuming CIGAR length without hard clips, else 0),
* `initialize_io_files`' format decision (magic bytes via `detect_file_format`, else the extension list with its
  missing commas),
* `write_read_length_histogram`: header line and one tab-separated line per row.
-/
namespace WhVerif.C14

/-! ### Python `str` primitives on `List Char` -/

/-- `str.isspace` of one character (Unicode `White_Space` + the four ASCII separators `\x1c`–`\x1f`) -/
def isSpace (c : Char) : Bool :=
  let n := c.toNat
  (9 ≤ n && n ≤ 13) || (28 ≤ n && n ≤ 32) || n == 0x85 || n == 0xa0 || n == 0x1680 || (0x2000 ≤ n && n ≤ 0x200a) ||
    n == 0x2028 || n == 0x2029 || n == 0x202f || n == 0x205f || n == 0x3000

def lstrip (l : List Char) : List Char := l.dropWhile isSpace
def rstrip (l : List Char) : List Char := (lstrip l.reverse).reverse
/-- `str.strip()` -/
def strip (l : List Char) : List Char := rstrip (lstrip l)

/-- `str.split(sep)` for a one-character separator: never empty, `"" ↦ [""]` -/
def splitOn (sep : Char) : List Char → List (List Char)
  | [] => [[]]
  | c :: cs =>
    if c == sep then [] :: splitOn sep cs
    else
      match splitOn sep cs with
      | [] => [[c]]
      | w :: ws => (c :: w) :: ws

/-- the lines of a text-mode file (universal newlines), terminators removed; `afterCR`: the previous character was
a `\r` that already ended a line, so a `\n` now belongs to that terminator -/
def splitLinesAux (afterCR : Bool) : List Char → List (List Char)
  | [] => []
  | c :: cs =>
    if c == '\n' then (if afterCR then splitLinesAux false cs else [] :: splitLinesAux false cs)
    else if c == '\r' then [] :: splitLinesAux true cs
    else
      match splitLinesAux false cs with
      | [] => [[c]]
      | w :: ws => (c :: w) :: ws

def splitLines (text : List Char) : List (List Char) := splitLinesAux false text

/-- `line.strip().split("\t")` -/
def colsOf (line : List Char) : List String := (splitOn '\t' (strip line)).map String.ofList

/-- `readline().startswith("#")` on the raw first line -/
def rawHeader (line : List Char) : Bool := line.head? == some '#'

/-- `check_haplotag_list_information`, the `--only-largest-block` requirement of `run_split`, the header skip and the
line parser applied to every remaining line, on the text of the list file -/
def parseText (o : Opts) (text : List Char) : Except Err (List Line) :=
  match splitLines text with
  | [] => .error .valueError
  | first :: rest =>
    let fc := colsOf first
    if fc.length < 2 then .error .valueError
    else if o.onlyLargest && !fourColOf fc then .error .valueError
    else (if rawHeader first then rest else first :: rest).mapM
      (fun l => parseLine (fourColOf fc) o.ploidy (colsOf l))

def processListText (o : Opts) (text : List Char) : Except Err Table :=
  match parseText o text with
  | .error e => .error e
  | .ok lines => buildTable o lines

/-! ### the command line -/

/-- the output options as given: `--output-h1`, `--output-h2`, `--output-untagged` present or not, `-o` absent
(`none`) or given `n ≥ 1` times (paths themselves are irrelevant; empty-string paths are outside the model) -/
structure OutArgs where
  h1 : Bool
  h2 : Bool
  outs : Option Nat
  untagged : Bool
deriving Repr, DecidableEq

inductive ArgErr
  | usage       -- `parser.error` of `validate` (exit status 2)
  | typeError   -- `len(None)`: no haplotype output at all and no `--output-untagged`
deriving Repr, DecidableEq

/-- `validate` + the head of `run_split`: ploidy and `[o is not None for o in outputs]` -/
def resolveOutputs (a : OutArgs) : Except ArgErr (Nat × List Bool) :=
  if !a.h1 && !a.h2 && a.outs.isNone && a.untagged then .error .usage      -- (sic) "nothing to be done"
  else if (a.h1 || a.h2) && a.outs.isSome then .error .usage
  else if a.h1 || a.h2 then .ok (2, [a.untagged, a.h1, a.h2])
  else
    match a.outs with
    | none => .error .typeError
    | some n => .ok (n, a.untagged :: List.replicate n true)

structure Flags where
  addUntagged : Bool
  discardUnknown : Bool
  onlyLargest : Bool
deriving Repr, DecidableEq

def optsOf (a : OutArgs) (f : Flags) : Except ArgErr Opts :=
  match resolveOutputs a with
  | .error e => .error e
  | .ok (p, req) => .ok ⟨p, req, f.addUntagged, f.discardUnknown, f.onlyLargest⟩

/-! ### read lengths, input format -/

/-- CIGAR operations by their BAM codes: 0 M, 1 I, 2 D, 3 N, 4 S, 5 H, 6 P, 7 =, 8 X -/
def consumesQuery (op : Nat) : Bool := op == 0 || op == 1 || op == 4 || op == 7 || op == 8

/-- `_bam_iterator`: `query_length` if positive, else `infer_query_length()` (`None` without CIGAR), else 0 -/
def bamLen (seqLen : Nat) (cigar : List (Nat × Nat)) : Nat :=
  if seqLen > 0 then seqLen
  else ((cigar.filter (fun e => consumesQuery e.1)).map (·.2)).sum

/-- `_fastq_string_iterator`: `len(record.sequence)` -/
def fastqLen (seq : List Char) : Nat := seq.length

/-- what `detect_file_format` can see -/
inductive Magic
  | cram | vcf | bam | gzVcf | other
deriving Repr, DecidableEq

inductive InFmt
  | bam | fastq
deriving Repr, DecidableEq

/-- the list literal of `initialize_io_files` as Python reads it (adjacent literals are concatenated) -/
def fastqExtensions : List String := ["fastq", "fastq.gz", "fastq.gzipfq", "fq.gzfq.gzip"]

/-- `initialize_io_files`: `none` = `ValueError` -/
def detectInput (m : Magic) (path : String) : Option InFmt :=
  match m with
  | .bam => some .bam
  | .cram | .vcf | .gzVcf => none
  | .other => if fastqExtensions.any (fun e => path.endsWith e) then some .fastq else none

/-! ### the histogram file -/

def histHeader (ploidy : Nat) : List String :=
  "#length" :: "count-untagged" :: (List.range' 1 ploidy).map (fun i => "count-h" ++ toString i)

/-- the text `write_read_length_histogram` prints -/
def histText (o : Opts) (p : Pass) : String :=
  String.join ((histHeader o.ploidy :: (histRowsFix o p).map (fun r => r.map toString)).map
    (fun cols => "\t".intercalate cols ++ "\n"))

/-- column `k` (0 = untagged) of a row `[length, count-untagged, count-h1, …]` -/
def rowCount (row : List Nat) (k : Nat) : Nat := row.getD (k + 1) 0

/-- sum of column `k` over the rows of the file -/
def colSum (rows : List (List Nat)) (k : Nat) : Nat := (rows.map (fun r => rowCount r k)).sum

/-! ### the whole run on text -/

/-- `run_split` from the output options, the flags, the text of the list file and the reads to the `Pass` -/
def runSplit (a : OutArgs) (f : Flags) (text : List Char) (reads : List Read) : Except (ArgErr ⊕ Err) (Opts × Pass) :=
  match optsOf a f with
  | .error e => .error (.inl e)
  | .ok o =>
    match processListText o text with
    | .error e => .error (.inr e)
    | .ok t => .ok (o, loopFix o t 0 reads)

end WhVerif.C14

/-!
# C08 model: the genotyping forward–backward table (`src/genotypedptable.cpp`) and the GT/GQ rules
# (`whatshap/cli/genotype.py:determine_genotype`, `whatshap/vcf.py:GenotypeVcfWriter.write_genotypes`).

Core Lean only.  Everything is polymorphic in the number type `K`: the driver runs it at `Float`,
the theorems are proved for every field (in particular `ℚ`), with the phred→probability map, the
recombination probabilities and the priors as *parameters* (`Params`).

Structure, mirroring the code:

* `Frame` – which reads are active in which column (`ColumnIterator`/`BackwardColumnIterator`: a read is
  active from the column of its first to the column of its last variant; inside that span a column it does
  not cover is a BLANK entry).  `Frame.col c` is the `ColumnIndexingScheme` of column `c`: number of active
  reads, the positions whose read is also active in column `c+1` (`forward_projection_mask ≠ -1`, in
  increasing order – the n-th of them has mask value n) and the `backward_projection_width`.
  Bit `k` of a column index is the side of the k-th active read (`ColumnIndexingIterator::get_partition`).
  `get_forward_projection()` = the bits at the masked positions, packed (`gather fwdPos idx`);
  `get_backward_projection()` = `idx & (2^w - 1)` (`idx % 2^w`).
* `Weights` – emission, allele-assignment prior and transmission transition of one column as the code
  computes them (`GenotypeColumnCostComputer`, `TransitionProbabilityComputer`).
* `fwdTbl`, `bwdTbl` – the projection columns of `compute_forward_column` / `compute_backward_column`
  (the scatter-adds `col->at(projection, i) += …` are written as the equivalent gathers),
  with *arbitrary* per-column divisors `Scal` where the code divides by `scaling_sum` /
  `scaling_parameters[c]` (the code's values are data dependent sums; re-computation of non-stored
  columns divides stored columns once more – every such uniform factor is covered by `Scal`).
* `numer`, `likelihood` – `genotype_likelihood_table.at(i,c).likelihoods[g]` after `divide_likelihoods_by`.

Not modelled (pure re-organisations of the same sums, covered by the correspondence run only): Gray-code
iteration order with incremental `update_partitioning` (multiplying/dividing single factors in and out),
√n check-pointing of backward columns, `long double`.
`GenotypeColumnCostComputer::set_partitioning` does not shift `p` for BLANK entries; it is only ever called
with `p = 0` (first Gray code), where this does not matter – recorded, not modelled.
-/
namespace WhVerif.C08

/-! ## generic helpers -/
section Helpers
variable {K : Type}

/-- `Σ_{i<n} f i`, accumulated left to right -/
@[inline] def sumN [Zero K] [Add K] (n : Nat) (f : Nat → K) : K :=
  Nat.fold n (fun i _ acc => acc + f i) 0

/-- `Σ_{x∈l} f x` -/
@[inline] def sumL {α : Type} [Zero K] [Add K] (l : List α) (f : α → K) : K :=
  l.foldl (fun acc x => acc + f x) 0

/-- a materialised table with `n` entries -/
def mkTbl (n : Nat) (f : Nat → K) : Array K := Array.ofFn (n := n) (fun i => f i.val)

def tblAt [Zero K] (t : Array K) (i : Nat) : K := t.getD i 0

def powNat [One K] [Mul K] (x : K) : Nat → K
  | 0 => 1
  | n + 1 => powNat x n * x

/-- pack the bits of `b` found at the positions listed in `l`: bit `k` of the result is bit `l[k]` of `b` -/
def gather : List Nat → Nat → Nat
  | [], _ => 0
  | r :: rest, b => (if b.testBit r then 1 else 0) + 2 * gather rest b

/-- the first `n` bits of `idx`, lowest first -/
def bitsOf (n idx : Nat) : List Bool := (List.range n).map idx.testBit

/-- positions (counted from `k`) of the elements of `l` satisfying `p` -/
def posWhere (p : Nat → Bool) : List Nat → Nat → List Nat
  | [], _ => []
  | r :: rest, k => if p r then k :: posWhere p rest (k + 1) else posWhere p rest (k + 1)

def popcount : Nat → Nat → Nat
  | 0, _ => 0
  | fuel + 1, x => if x = 0 then 0 else x % 2 + popcount fuel (x / 2)

end Helpers

/-! ## the column frame -/

structure Frame where
  nCols : Nat
  nReads : Nat
  /-- column of the first / last variant of read `r` -/
  first : Nat → Nat
  last : Nat → Nat

/-- read ids active in column `c`, increasing (`ColumnIterator::jump_to_column`) -/
def Frame.active (F : Frame) (c : Nat) : List Nat :=
  (List.range F.nReads).filter (fun r => decide (F.first r ≤ c) && decide (c ≤ F.last r))

/-- `ColumnIndexingScheme` of one column -/
structure Col where
  nAct : Nat
  fwdPos : List Nat
  bwdW : Nat

def Frame.col (F : Frame) (c : Nat) : Col :=
  let act := F.active c
  let nxt := F.active (c + 1)
  { nAct := act.length
    fwdPos := posWhere (fun r => nxt.contains r) act 0
    bwdW := if c = 0 then 0 else ((F.active (c - 1)).filter (fun r => act.contains r)).length }

/-- sorted read set whose reads lie inside the column range (what `ReadSet.sort()` + the position list give) -/
def Frame.WF (F : Frame) : Prop :=
  (∀ r, r < F.nReads → F.first r ≤ F.last r ∧ F.last r < F.nCols) ∧
  (∀ r, r + 1 < F.nReads → F.first r ≤ F.first (r + 1))

/-! ## weights and scalings -/

structure Weights (K : Type) where
  /-- number of transmission values `4^T` -/
  nT : Nat
  /-- number of allele assignments `2^P` -/
  nA : Nat
  /-- `cost_computers[t].get_cost(a)` in column `c` when the active reads are on the sides `bits` -/
  emit : Nat → List Bool → Nat → Nat → K
  /-- `get_prob_allele_assignment(t, a)` of column `c` -/
  asg : Nat → Nat → Nat → K
  /-- `get_prob_transmission(j, t)` of column `c` -/
  trans : Nat → Nat → Nat → K

structure Scal (K : Type) where
  /-- divisor of the forward probabilities of column `c` (`scaling_parameters[c]`) -/
  fw : Nat → K
  /-- divisor applied to the backward projection column produced while processing column `c` (`scaling_sum`) -/
  bw : Nat → K
  /-- further divisor the backward column of the boundary `c|c+1` has collected before the forward pass reads it -/
  bw2 : Nat → K

def Scal.one {K : Type} [One K] : Scal K := ⟨fun _ => 1, fun _ => 1, fun _ => 1⟩

/-! ## forward and backward columns -/
section FB
variable {K : Type} [Zero K] [One K] [Add K] [Mul K] [Div K]

/-- `sum_prev_values` of `compute_forward_column` -/
def sumPrev (W : Weights K) (c : Nat) (co : Col) (prev : Array K) (idx t : Nat) : K :=
  if c = 0 then 1
  else sumN W.nT (fun j => tblAt prev ((idx % 2 ^ co.bwdW) * W.nT + j) * W.trans c j t)

/-- `forward_probability` of one (bipartition, transmission, allele assignment) -/
def cell (W : Weights K) (S : Scal K) (c : Nat) (co : Col) (prev : Array K) (idx t a : Nat) : K :=
  sumPrev W c co prev idx t * W.emit c (bitsOf co.nAct idx) t a * W.asg c t a / S.fw c

/-- the forward projection column written by column `c` (`current_projection_column`), entry `(π, t)` at `π·nT + t` -/
def fwdStep (F : Frame) (W : Weights K) (S : Scal K) (c : Nat) (prev : Array K) : Array K :=
  let co := F.col c
  let cs := mkTbl (2 ^ co.nAct * W.nT) (fun k => sumN W.nA (fun a => cell W S c co prev (k / W.nT) (k % W.nT) a))
  mkTbl (2 ^ co.fwdPos.length * W.nT) (fun k =>
    sumN (2 ^ co.nAct) (fun idx => if gather co.fwdPos idx = k / W.nT then tblAt cs (idx * W.nT + k % W.nT) else 0))

def fwdTbl (F : Frame) (W : Weights K) (S : Scal K) : Nat → Array K
  | 0 => fwdStep F W S 0 #[]
  | c + 1 => fwdStep F W S (c + 1) (fwdTbl F W S c)

/-- `backward_prob` as read inside `compute_backward_column(c)` from the column of the boundary `c|c+1` -/
def bRaw (F : Frame) (W : Weights K) (c : Nat) (next : Array K) (p t : Nat) : K :=
  if c + 1 < F.nCols then tblAt next (p * W.nT + t) else 1

/-- the backward projection column of the boundary `c-1|c`, written by `compute_backward_column(c)`, `c ≥ 1` -/
def bwdStep (F : Frame) (W : Weights K) (S : Scal K) (c : Nat) (next : Array K) : Array K :=
  let co := F.col c
  let xs := mkTbl (2 ^ co.nAct * W.nT) (fun k =>
    bRaw F W c next (gather co.fwdPos (k / W.nT)) (k % W.nT) *
      sumN W.nA (fun a => W.emit c (bitsOf co.nAct (k / W.nT)) (k % W.nT) a * W.asg c (k % W.nT) a))
  mkTbl (2 ^ co.bwdW * W.nT) (fun k =>
    sumN (2 ^ co.nAct) (fun idx =>
      if idx % 2 ^ co.bwdW = k / W.nT then sumN W.nT (fun t => tblAt xs (idx * W.nT + t) * W.trans c (k % W.nT) t) else 0)
    / S.bw c)

/-- `bwdTbl d` is the backward column of the boundary `c|c+1` with `c = nCols - 2 - d` -/
def bwdTbl (F : Frame) (W : Weights K) (S : Scal K) : Nat → Array K
  | 0 => bwdStep F W S (F.nCols - 1) #[]
  | d + 1 => bwdStep F W S (F.nCols - 1 - (d + 1)) (bwdTbl F W S d)

def bwdOf (F : Frame) (W : Weights K) (S : Scal K) (c : Nat) : Array K :=
  if c + 1 < F.nCols then bwdTbl F W S (F.nCols - 2 - c) else #[]

/-- `backward_probability` as read by `compute_forward_column(c)` -/
def bwdAt (F : Frame) (W : Weights K) (S : Scal K) (c : Nat) (tbl : Array K) (p t : Nat) : K :=
  if c + 1 < F.nCols then tblAt tbl (p * W.nT + t) / S.bw2 c else 1

/-- the forward projection column read by column `c` (none for column 0) -/
def prevTbl (F : Frame) (W : Weights K) (S : Scal K) : Nat → Array K
  | 0 => #[]
  | c + 1 => fwdTbl F W S c

/-- `forward_backward` of every cell of column `c`; entry `(idx, t, a)` at `(idx·nT + t)·nA + a` -/
def fbCells (F : Frame) (W : Weights K) (S : Scal K) (c : Nat) : Array K :=
  let co := F.col c
  let prev := prevTbl F W S c
  let bt := bwdOf F W S c
  mkTbl (2 ^ co.nAct * W.nT * W.nA) (fun k =>
    cell W S c co prev (k / W.nA / W.nT) (k / W.nA % W.nT) (k % W.nA)
      * bwdAt F W S c bt (gather co.fwdPos (k / W.nA / W.nT)) (k / W.nA % W.nT))

/-- sum of the selected cells (`likelihoods[g] += forward_backward` for the cells whose genotype is `g`) -/
def numerOf (W : Weights K) (nAct : Nat) (cells : Array K) (sel : Nat → Nat → Bool) : K :=
  sumN (2 ^ nAct) (fun idx => sumN W.nT (fun t => sumN W.nA (fun a =>
    if sel t a then tblAt cells ((idx * W.nT + t) * W.nA + a) else 0)))

/-- `Σ forward_backward` over the cells of column `c` whose (transmission, assignment) is selected -/
def numer (F : Frame) (W : Weights K) (S : Scal K) (c : Nat) (sel : Nat → Nat → Bool) : K :=
  numerOf W (F.col c).nAct (fbCells F W S c) sel

/-- `normalization` of `compute_forward_column` -/
def total (F : Frame) (W : Weights K) (S : Scal K) (c : Nat) : K := numer F W S c (fun _ _ => true)

def likelihoodSel (F : Frame) (W : Weights K) (S : Scal K) (c : Nat) (sel : Nat → Nat → Bool) : K :=
  numer F W S c sel / total F W S c

end FB

/-! ## the concrete genotyper instance -/

structure Read where
  ind : Nat
  /-- (column, allele, phred quality), columns strictly increasing -/
  entries : List (Nat × Nat × Nat)
deriving Repr, DecidableEq

structure Inst where
  nCols : Nat
  nInd : Nat
  /-- (father, mother, child), in `add_relationship` order -/
  triples : List (Nat × Nat × Nat)
  reads : List Read
deriving Repr, DecidableEq

structure Params (K : Type) where
  /-- phred quality ↦ error probability (`get_phred_probability`: 0.9999 for 0, else 10^(-q/10)) -/
  em : Nat → K
  /-- column ↦ recombination probability 10^(-recombcost[c]/10) -/
  rho : Nat → K
  /-- individual, column, genotype (number of ALT alleles) ↦ prior -/
  prior : Nat → Nat → Nat → K

def Read.first (r : Read) : Nat := match r.entries.head? with | some e => e.1 | none => 0
def Read.last (r : Read) : Nat := match r.entries.getLast? with | some e => e.1 | none => 0

def Inst.frame (inst : Inst) : Frame :=
  { nCols := inst.nCols, nReads := inst.reads.length
    first := fun r => match inst.reads[r]? with | some x => x.first | none => 0
    last := fun r => match inst.reads[r]? with | some x => x.last | none => 0 }

def strictlyIncreasing : List Nat → Bool
  | a :: b :: rest => decide (a < b) && strictlyIncreasing (b :: rest)
  | _ => true

/-- the instance guard: what `whatshap genotype` hands to the table (reads with ≥ 2 variants, sorted read
set, biallelic entries, a pedigree whose children are distinct and whose parents precede… nothing more) -/
def Inst.WF (inst : Inst) : Bool :=
  inst.reads.all (fun r =>
    decide (2 ≤ r.entries.length) && strictlyIncreasing (r.entries.map (·.1)) &&
    r.entries.all (fun e => decide (e.1 < inst.nCols) && decide (e.2.1 ≤ 1)) && decide (r.ind < inst.nInd)) &&
  (List.range (inst.reads.length - 1)).all (fun r => decide (inst.frame.first r ≤ inst.frame.first (r + 1))) &&
  inst.triples.all (fun t => decide (t.1 < inst.nInd) && decide (t.2.1 < inst.nInd) && decide (t.2.2 < inst.nInd)) &&
  (inst.triples.map (·.2.2)).Nodup

/-- `triple_indices[i]`: index of the (last) triple in which `i` is the child -/
def Inst.childTriple (inst : Inst) (i : Nat) : Option Nat :=
  let rec go : List (Nat × Nat × Nat) → Nat → Option Nat → Option Nat
    | [], _, acc => acc
    | t :: rest, k, acc => go rest (k + 1) (if t.2.2 = i then some k else acc)
  go inst.triples 0 none

def Inst.rootRank (inst : Inst) (i : Nat) : Nat :=
  ((List.range i).filter (fun j => (inst.childTriple j).isNone)).length

/-- `PedigreePartitions(pedigree, t).haplotype_to_partition(i, ·)` as a pair (haplotype 0, haplotype 1) -/
def Inst.hapPart (inst : Inst) (t : Nat) : Nat → Nat → Nat × Nat
  | fuel, i =>
    match inst.childTriple i with
    | none => (2 * inst.rootRank i, 2 * inst.rootRank i + 1)
    | some k =>
      match fuel with
      | 0 => (0, 0)
      | fuel + 1 =>
        match inst.triples[k]? with
        | none => (0, 0)
        | some tr =>
          let pf := inst.hapPart t fuel tr.1
          let pm := inst.hapPart t fuel tr.2.1
          (if t.testBit (2 * k) then pf.1 else pf.2, if t.testBit (2 * k + 1) then pm.1 else pm.2)

def Inst.nPart (inst : Inst) : Nat := 2 * (inst.nInd - inst.triples.length)
def Inst.nTrans (inst : Inst) : Nat := 4 ^ inst.triples.length

/-- number of ALT alleles of individual `i` under transmission `t` and allele assignment `a` -/
def genoOf (parts : Nat → Nat → Nat × Nat) (i t a : Nat) : Nat :=
  let p := parts t i
  (if a.testBit p.1 then 1 else 0) + (if a.testBit p.2 then 1 else 0)

/-- the entry of every active read in column `c`: `none` = BLANK, else (individual, is ALT, quality) -/
def Inst.colEntries (inst : Inst) (c : Nat) : List (Option (Nat × Bool × Nat)) :=
  (inst.frame.active c).map (fun r =>
    match inst.reads[r]? with
    | none => none
    | some rd => (rd.entries.find? (fun e => e.1 = c)).map (fun e => (rd.ind, e.2.1 != 0, e.2.2)))

section Concrete
variable {K : Type} [Zero K] [One K] [Add K] [Mul K] [Div K] [Sub K] [NatCast K]

/-- `get_cost(a)` = product over the non-blank entries: `1 - e(q)` if the allele the assignment gives to the
read's partition equals the read's allele, `e(q)` otherwise.  Bit 0 of the column index puts a read on
haplotype 1 (`entry_in_partition1 = (bit == 0)`), bit 1 on haplotype 0. -/
def emitCol (em : Nat → K) (parts : Nat → Nat × Nat) (a : Nat) : List (Option (Nat × Bool × Nat)) → List Bool → K
  | some (ind, alt, q) :: es, b :: bs =>
    let p := parts ind
    let part := if b then p.1 else p.2
    (if a.testBit part = alt then 1 - em q else em q) * emitCol em parts a es bs
  | none :: es, _ :: bs => emitCol em parts a es bs
  | _, _ => 1

def Inst.weights (inst : Inst) (p : Params K) : Weights K :=
  let nT := inst.nTrans
  let nP := inst.nPart
  let nA := 2 ^ nP
  let nTr := inst.triples.length
  -- haplotype → partition maps for every transmission value
  let partsT : Array (Array (Nat × Nat)) :=
    Array.ofFn (n := nT) (fun t => Array.ofFn (n := inst.nInd) (fun i => inst.hapPart t.val inst.nInd i.val))
  let parts : Nat → Nat → Nat × Nat := fun t i => (partsT.getD t #[]).getD i (0, 0)
  let ents : Array (List (Option (Nat × Bool × Nat))) := Array.ofFn (n := inst.nCols) (fun c => inst.colEntries c.val)
  -- genotype vector of an assignment
  let gvec : Nat → Nat → List Nat := fun t a => (List.range inst.nInd).map (fun i => genoOf parts i t a)
  -- allele-assignment priors: Π member priors / multiplicity of the genotype vector, normalised over a
  let asgT : Array K := mkTbl (inst.nCols * nT * nA) (fun k =>
    let c := k / (nT * nA); let t := (k / nA) % nT; let a := k % nA
    let raw := fun a' => (List.range inst.nInd).foldl (fun acc i => acc * p.prior i c (genoOf parts i t a')) (1 : K)
    let mult := fun a' => ((List.range nA).filter (fun a'' => gvec t a'' = gvec t a')).length
    (raw a / ((mult a : Nat) : K)) / sumN nA (fun a' => raw a' / ((mult a' : Nat) : K)))
  -- transmission transitions: row-normalised r^k (1-r)^(2T-k), k = popcount(j xor t)
  let trT : Array K := mkTbl (inst.nCols * nT * nT) (fun k =>
    let c := k / (nT * nT); let j := (k / nT) % nT; let t := k % nT
    let bern := fun x => powNat (p.rho c) x * powNat (1 - p.rho c) (2 * nTr - x)
    bern (popcount 64 (j ^^^ t)) / sumN nT (fun t' => bern (popcount 64 (j ^^^ t'))))
  { nT := nT, nA := nA
    emit := fun c bits t a => emitCol p.em (parts t) a (ents.getD c []) bits
    asg := fun c t a => tblAt asgT ((c * nT + t) * nA + a)
    trans := fun c j t => tblAt trT ((c * nT + j) * nT + t) }

/-- the haplotype→partition maps used for marginalising (`haplotype_to_partition`) -/
def Inst.parts (inst : Inst) : Nat → Nat → Nat × Nat := fun t i => inst.hapPart t inst.nInd i

/-- `get_genotype_likelihoods(i, c).likelihoods[g]` -/
def likelihood (inst : Inst) (p : Params K) (S : Scal K) (c i g : Nat) : K :=
  likelihoodSel inst.frame (inst.weights p) S c (fun t a => genoOf inst.parts i t a == g)

end Concrete

/-! ## GT and GQ (`determine_genotype`, `write_genotypes`) -/
section Call
variable {K : Type}

/-- insertion into an ascending list *after* equal keys: `list.sort(key=…)` is stable -/
def insertStable [LT K] [DecidableLT K] (x : K × Nat) : List (K × Nat) → List (K × Nat)
  | [] => [x]
  | y :: ys => if x.1 < y.1 then x :: y :: ys else y :: insertStable x ys

def sortStable [LT K] [DecidableLT K] (l : List (K × Nat)) : List (K × Nat) :=
  l.foldl (fun acc x => insertStable x acc) []

/-- `determine_genotype(likelihoods, threshold_prob)`: `some g` = genotype with `g` ALT alleles, `none` = `./.` -/
def determineGenotype [LT K] [DecidableLT K] (l0 l1 l2 thr : K) : Option Nat :=
  match sortStable [(l0, 0), (l1, 1), (l2, 2)] with
  | [_, b, c] => if b.1 < c.1 ∧ thr < c.1 then some c.2 else none
  | _ => none

/-- `geno_q`: the mass of the genotypes other than the called one (before the phred transformation) -/
def gqMass [Zero K] [Add K] (l : Nat → K) (g : Nat) : K :=
  sumN 3 (fun i => if i = g then 0 else l i)

end Call

end WhVerif.C08

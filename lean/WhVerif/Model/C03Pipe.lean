import WhVerif.Model.C03
import WhVerif.Model.C09
/-!
# C03 pipeline model: `whatshap/cli/phase.py:run_whatshap` between read selection and the written records

What happens to the reads that come out of `select_reads` until a phase-set name stands in the output:

* `merge_readsets(readsets)`: the selected reads of ALL family members are added to one `ReadSet`
  (`assert read.is_sorted()`; `ReadSet::add` raises `RuntimeError` on a repeated `(name, source_id)`), then
  `ReadSet.sort()` (by first position; ties by `std::hash`, i.e. arbitrary — the model sorts stably and the
  theorems show that the order is irrelevant).  These are the reads "used for phasing".
* `accessible_positions = sorted(all_reads.get_positions())`, united with `homozygous_positions` iff
  `len(family) > 1 and genetic_haplotyping`.
* `compute_overall_components(accessible_positions, all_reads, …)` (Model/C03.lean); the SAME map is stored
  for every family member (`components[sample] = overall_components`), next to the member's two super-reads
  (with the `assert … sample_id == numeric_sample_ids[sample]`).
* the families of one chromosome are processed in `sorted(families.items())` order and fill two dicts that are
  created afresh per chromosome; `PhasedVcfWriter.write(chromosome, superreads, components)` (Model/C04.lean,
  `repaired = true` is the writer of /repo since 5060bb8) maps `components[pos] + 1` into PS or the HP prefix;
  a chromosome excluded by `--chromosome` is written with two empty dicts.
* `ReadList.write` (`--output-read-list`): phase-set column = `components[read[0].position] + 1`.
* `find_largest_component` (only logged).

Core Lean only.
-/
namespace WhVerif.C03
open WhVerif.C04 (Target Cfg Tag Record Out writeChrom outRecords)

/-- a read of a `ReadSet`, as the trace hook dumps it -/
structure SelRead where
  name : String
  sourceId : Nat
  /-- numeric sample id -/
  sample : Nat
  /-- `(position, allele, quality)` in read order -/
  vars : List (Nat × Nat × Nat)
deriving Repr, DecidableEq

def SelRead.positions (r : SelRead) : List Nat := r.vars.map (·.1)

/-- what `find_components` looks at: sample id and positions (alleles and qualities are never read) -/
def SelRead.toRead (r : SelRead) : Read := ⟨r.sample, r.positions⟩

/-- `Read::isSorted()`: strictly increasing positions -/
def strictSortedB : List Nat → Bool
  | a :: b :: t => decide (a < b) && strictSortedB (b :: t)
  | _ => true

inductive PErr where
  /-- raised inside `find_components`, or one of the `assert`s of the family loop -/
  | fc (e : Err)
  /-- `assert read.is_sorted()` in `merge_readsets` -/
  | notSorted
  /-- `RuntimeError: ReadSet::add: duplicate read name.` -/
  | duplicateRead
  /-- `ReadList.write`: `assert len(readset) == len(bipartition)` -/
  | lengthMismatch
  /-- `ReadList.write`: `KeyError` (unknown numeric sample id / sample without components / position without component) -/
  | keyError
  /-- `ReadList.write`: `read[0]` of a read without variants -/
  | indexError
deriving Repr, DecidableEq

/-! ## `merge_readsets` -/

def sameKey (a b : SelRead) : Bool := a.name == b.name && a.sourceId == b.sourceId

/-- the loop `for read in readset: assert read.is_sorted(); all_reads.add(read)` -/
def addAll (acc : List SelRead) : List SelRead → Except PErr (List SelRead)
  | [] => .ok acc
  | r :: rs =>
    if !strictSortedB r.positions then .error .notSorted
    else if acc.any (sameKey r) then .error .duplicateRead
    else addAll (acc ++ [r]) rs

/-- `read_comparator_t` without the hash tie-break: reads without variants first, then by first position -/
def readBefore (a b : SelRead) : Bool :=
  match a.positions, b.positions with
  | [], _ => true
  | _ :: _, [] => false
  | p :: _, q :: _ => decide (p ≤ q)

def insertRead (r : SelRead) : List SelRead → List SelRead
  | [] => [r]
  | b :: t => if readBefore r b then r :: b :: t else b :: insertRead r t

/-- stable insertion sort -/
def sortReads (l : List SelRead) : List SelRead := l.foldr insertRead []

/-- `merge_readsets(readsets)`; `readsets` = the values of the dict in insertion (= family) order -/
def mergeReadsets (readsets : List (List SelRead)) : Except PErr (List SelRead) :=
  match addAll [] readsets.flatten with
  | .ok l => .ok (sortReads l)
  | .error e => .error e

/-! ## accessible positions -/

def accessiblePositions (all : List SelRead) (famSize : Nat) (genetic : Bool) (homozygous : List Nat) : List Nat :=
  let acc := sortDedup (all.flatMap (·.positions))
  if famSize > 1 && genetic then sortDedup (acc ++ homozygous) else acc

/-! ## one family -/

structure Member where
  name : String
  /-- `numeric_sample_ids[name]` -/
  id : Nat
deriving Repr, DecidableEq

structure FamilyIn where
  /-- `family` in its list order -/
  members : List Member
  /-- `readsets[sample]` (after selection) for the members, in family order -/
  selected : List (List SelRead)
  /-- `homozygous_positions` as returned by `find_phaseable_variants` -/
  homozygous : List Nat
  /-- `superreads_list` of the solver: one zipped pair per member, in family order -/
  superreads : List SuperReads
deriving Repr

structure FamilyOut where
  allReads : List SelRead
  accessible : List Nat
  comps : List (Nat × Nat)
  /-- `(superreads[sample], components[sample])` for the members -/
  targets : List Target
deriving Repr

def toTarget (name : String) (s : SuperReads) (comps : List (Nat × Nat)) : Target :=
  ⟨name, s.vars.map (fun v => (v.1, (v.2.1 : Int))), s.vars.map (fun v => (v.1, (v.2.2 : Int))), comps⟩

/-- the master block and het map of the family (arguments of `find_components`) -/
def familyParams (distrust genetic : Bool) (f : FamilyIn) (all : List SelRead) : Option (List Nat) × Option HetMap :=
  overallParams (accessiblePositions all f.members.length genetic f.homozygous) distrust f.members.length genetic
    f.homozygous f.superreads

/-- body of `for representative_sample, family in sorted(families.items())` from `merge_readsets` to the two dict
updates (the solver call in between is an input: `superreads`) -/
def familyStage (distrust genetic : Bool) (f : FamilyIn) : Except PErr FamilyOut :=
  match mergeReadsets f.selected with
  | .error e => .error e
  | .ok all =>
    let acc := accessiblePositions all f.members.length genetic f.homozygous
    match computeOverallComponents acc (all.map (·.toRead)) distrust f.members.length genetic f.homozygous
        f.superreads with
    | .error e => .error (.fc e)
    | .ok comps =>
      let ms := f.members.zip f.superreads
      if ms.any (fun x => x.1.id != x.2.sampleId) then .error (.fc .assertion)
      else .ok ⟨all, acc, comps, ms.map (fun x => toTarget x.1.name x.2 comps)⟩

/-! ## one chromosome, the whole file -/

def stageAll (distrust genetic : Bool) : List FamilyIn → Except PErr (List FamilyOut)
  | [] => .ok []
  | f :: fs =>
    match familyStage distrust genetic f with
    | .error e => .error e
    | .ok o =>
      match stageAll distrust genetic fs with
      | .error e => .error e
      | .ok os => .ok (o :: os)

structure RunCfg where
  tag : Tag
  onlySnvs : Bool
  distrust : Bool
  genetic : Bool
  /-- sample columns of the VCF header -/
  header : List String
  /-- `--chromosome` (empty: all) -/
  chromosomes : List String
deriving Repr

structure ChromIn where
  name : String
  /-- the families in the order of `sorted(families.items())` with THIS chromosome's reads and super-reads -/
  families : List FamilyIn
  /-- the chromosome's records of the input VCF -/
  records : List Record
deriving Repr

/-- the writer configuration of `whatshap phase` (no multi-allelic mode) -/
def pipeCfg (rc : RunCfg) (targets : List Target) : Cfg := ⟨rc.tag, rc.onlySnvs, false, true, rc.header, targets⟩

def requested (rc : RunCfg) (chrom : String) : Bool := rc.chromosomes.isEmpty || rc.chromosomes.contains chrom

/-- `superreads` / `components` of one chromosome: two dicts created afresh and filled family by family -/
def chromTargets (rc : RunCfg) (c : ChromIn) : Except PErr (List Target) :=
  if requested rc c.name then
    match stageAll rc.distrust rc.genetic c.families with
    | .ok os => .ok (os.flatMap (·.targets))
    | .error e => .error e
  else .ok []

/-- body of `for variant_table in vcf_reader` -/
def phaseChrom (rc : RunCfg) (c : ChromIn) : Except PErr (List Out) :=
  match chromTargets rc c with
  | .ok ts => .ok (writeChrom (pipeCfg rc ts) none c.records)
  | .error e => .error e

def phaseFile (rc : RunCfg) : List ChromIn → Except PErr (List (List Out))
  | [] => .ok []
  | c :: cs =>
    match phaseChrom rc c with
    | .error e => .error e
    | .ok o =>
      match phaseFile rc cs with
      | .error e => .error e
      | .ok os => .ok (o :: os)

/-- what an independent reader decodes from a call of a written record (GT/PS statement, else the HP statement);
`none` also when the call is malformed -/
def decodeCall (fmt : List String) (c : WhVerif.C04.Call) : Option WhVerif.C09.Phase :=
  match WhVerif.C09.callPhases fmt c with
  | .ok (hp, gp) => (match gp with | some p => some p | none => hp)
  | .error _ => none

/-! ## `ReadList.write` -/

structure ReadListRow where
  name : String
  sourceId : Nat
  sample : String
  phaseset : Nat
  haplotype : Nat
  nvars : Nat
  first : Nat
  last : Nat
deriving Repr, DecidableEq

def memberName (members : List Member) (id : Nat) : Option String := (members.find? (fun m => m.id == id)).map (·.name)

def readListRow (members : List Member) (sampleComps : List (String × List (Nat × Nat))) (r : SelRead) (hap : Nat) :
    Except PErr ReadListRow :=
  match memberName members r.sample with
  | none => .error .keyError
  | some s =>
    match sampleComps.lookup s with
    | none => .error .keyError
    | some comps =>
      match r.positions with
      | [] => .error .indexError
      | p :: rest =>
        match compOf comps p with
        | none => .error .keyError
        | some c => .ok ⟨r.name, r.sourceId, s, c + 1, hap, r.vars.length, p + 1, (rest.getLast?.getD p) + 1⟩

def readListRows (members : List Member) (sampleComps : List (String × List (Nat × Nat))) :
    List SelRead → List Nat → Except PErr (List ReadListRow)
  | [], _ => .ok []
  | _ :: _, [] => .ok []      -- unreachable after the length check of `readList`
  | r :: rs, h :: hs =>
    match readListRow members sampleComps r h with
    | .error e => .error e
    | .ok row =>
      match readListRows members sampleComps rs hs with
      | .error e => .error e
      | .ok rows => .ok (row :: rows)

/-- `ReadList.write(readset, bipartition, sample_components, numeric_sample_ids)`; `members` = the inverse of
`numeric_sample_ids` restricted to what is needed; rows written before an exception are not modelled -/
def readList (members : List Member) (sampleComps : List (String × List (Nat × Nat))) (reads : List SelRead)
    (bipartition : List Nat) : Except PErr (List ReadListRow) :=
  if reads.length != bipartition.length then .error .lengthMismatch
  else readListRows members sampleComps reads bipartition

/-- the read-list rows of one family as `run_whatshap` writes them: every member's components are the overall ones -/
def familyReadList (f : FamilyIn) (o : FamilyOut) (bipartition : List Nat) : Except PErr (List ReadListRow) :=
  readList f.members (f.members.map (fun m => (m.name, o.comps))) o.allReads bipartition

/-! ## `find_largest_component` (logged only) -/

/-- the number of positions of a component -/
def compSize (comps : List (Nat × Nat)) (c : Nat) : Nat := (comps.filter (fun pc => pc.2 == c)).length

/-- `len(find_largest_component(components))` -/
def largestSize (comps : List (Nat × Nat)) : Nat := (comps.map (fun pc => compSize comps pc.2)).foldl max 0

end WhVerif.C03

/-!
# C08 model, part 2: the conversions between probabilities and the integers / log-values written to the VCF

`whatshap/vcf.py:GenotypeVcfWriter.write_genotypes` and `whatshap/cli/genotype.py`:

```
gt_prob = 1.0 - 10 ** (-gt_qual_threshold / 10.0)                       # phred threshold → probability
geno_q  = sum(geno_l[i] for i in range(n_genotypes) if i != geno_index)  # `gqMass` in Model/C08.lean
GL      = [max(math.log10(j), -1000) if j > 0 else -1000 for j in geno_l]
GQ      = min(round(-10.0 * math.log10(geno_q)), 10000) if geno_q > 0 else 10000     (None for `./.`)
```

`log10` is transcendental, but for a *rational* argument the value of `round(-10·log10 q)` is decided by integer
comparisons:  `round(-10·log10 q) = n  ⟺  n - ½ < -10·log10 q < n + ½  ⟺  10^(2n-1) < q^(-20) < 10^(2n+1)`,
i.e. with `q = a/b`:  `a^20 · 10^(2n+1) > b^20`  and  `a^20 · 10^(2n-1) < b^20`.  Ties (`= `) cannot occur for rational
`q` (`10^odd` is not a 20th power), so Python's round-half-even never matters.  Every double is a rational, so this is
the exact value of the formula on the implementation's own `geno_q`.

* `gqNat a b` – `min(round(-10·log10(a/b)), 10000)` for `0 < a/b` with `(a/b)^20 < 10` (then the value is `≥ 0`):
  the least `n` with `a^20 · 10^(2n+1) > b^20`, searched up to the cap (fuel 10000 *is* the `min(·, 10000)`);
* `gqNeg a b` – `-round(-10·log10(a/b))` when `(a/b)^20 ≥ 10` (mass of the other genotypes > 1.12: impossible for a
  distribution, modelled because the code does not exclude it);
* `gqOf` – the whole expression on a rational `geno_q` (numerator `Int`, denominator `Nat`);
* `aboveThr a b thr` – `a/b > 1 - 10^(-thr/10)` for an integer phred threshold, i.e. `(1 - a/b)^10 · 10^thr < 1`;
* `glOf lg floor l` – one GL value with `log10` as a parameter `lg` (the driver uses `Float.log10`).

Core Lean only.
-/
namespace WhVerif.C08

def GQ_CAP : Nat := 10000

/-- least `n ≥ start` with `A · 10^(2n+1) > B`, giving up after `fuel` rounds -/
def gqLoop (A B : Nat) : (fuel n : Nat) → Nat
  | 0, n => n
  | fuel + 1, n => if A * 10 ^ (2 * n + 1) > B then n else gqLoop A B fuel (n + 1)

/-- `min(round(-10·log10(a/b)), 10000)` when `0 < a/b` and `(a/b)^20 < 10` -/
def gqNat (a b : Nat) : Nat := gqLoop (a ^ 20) (b ^ 20) GQ_CAP 0

/-- least `k ≥ start` with `A < B · 10^(2k+1)` -/
def gqNegLoop (A B : Nat) : (fuel k : Nat) → Nat
  | 0, k => k
  | fuel + 1, k => if A < B * 10 ^ (2 * k + 1) then k else gqNegLoop A B fuel (k + 1)

/-- `-round(-10·log10(a/b))` when `(a/b)^20 ≥ 10` -/
def gqNeg (a b : Nat) : Nat := gqNegLoop (a ^ 20) (b ^ 20) GQ_CAP 1

/-- `GQ` of a called genotype whose `geno_q` is the rational `num/den` (`den > 0`) -/
def gqOf (num : Int) (den : Nat) : Int :=
  if num ≤ 0 then (GQ_CAP : Int)
  else if num.toNat ^ 20 < 10 * den ^ 20 then (gqNat num.toNat den : Int)
  else -(gqNeg num.toNat den : Int)

/-- `a/b > 1 - 10^(-thr/10)` for `a ≤ b`, `0 < b`: `(b - a)^10 · 10^thr < b^10`  (`determine_genotype`'s threshold test
for a phred threshold `thr`; for `a > b` the test is true as well: `b - a` truncates to 0) -/
def aboveThr (a b thr : Nat) : Bool := (b - a) ^ 10 * 10 ^ thr < b ^ 10

section GL
variable {K : Type} [LT K] [DecidableLT K] [Zero K]

/-- `max(math.log10(j), -1000) if j > 0 else -1000` with `log10 = lg`, `-1000 = floor` -/
def glOf (lg : K → K) (floor : K) (l : K) : K :=
  if 0 < l then (if lg l < floor then floor else lg l) else floor

end GL

end WhVerif.C08

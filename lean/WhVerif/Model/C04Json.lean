import WhVerif.Util.Proto
import WhVerif.Model.C04
/-! JSON codec of the record model (used by the C04, C09 and C20 drivers). Core Lean only. -/
namespace WhVerif.C04.Json
open Lean WhVerif.Proto WhVerif.C04

def pairNat? (j : Json) : Option (Nat × Nat) := do
  match ← asArr? j with
  | [a, b] => some (← asNat? a, ← asNat? b)
  | _ => none

def pairNatInt? (j : Json) : Option (Nat × Int) := do
  match ← asArr? j with
  | [a, b] => some (← asNat? a, ← asInt? b)
  | _ => none

def strList? (j : Json) : Option (List String) := do (← asArr? j).mapM asStr?

def val? : Json → Option Val
  | Json.null => some .missing
  | Json.str s => some (.raw s)
  | j@(Json.num _) => (asInt? j).map .int
  | j@(Json.arr _) => do some (.hp (← (← asArr? j).mapM pairNat?))
  | _ => none

def ofVal : Val → Json
  | .missing => Json.null
  | .int n => ofInt n
  | .hp l => ofList (fun p => Json.arr #[ofNat p.1, ofNat p.2]) l
  | .raw s => Json.str s

def allele? : Json → Option (Option Nat)
  | Json.null => some none
  | j => (asNat? j).map some

def gt? : Json → Option (Option Gt)
  | Json.null => some none
  | j => do some (some (← (← asArr? j).mapM allele?))

def ofGt : Option Gt → Json
  | none => Json.null
  | some g => ofList (fun a => ofOptNat a) g

def field? (j : Json) : Option (String × Val) := do
  match ← asArr? j with
  | [k, v] => some (← asStr? k, ← val? v)
  | _ => none

def call? (j : Json) : Option (String × Call) := do
  let name ← getStr? j "name"
  let gt ← gt? (← getObj? j "gt")
  let phased ← getBool? j "phased"
  let fields ← (← getList? j "fields").mapM field?
  some (name, ⟨gt, phased, fields⟩)

def ofCall (nc : String × Call) : Json :=
  Json.mkObj [("name", Json.str nc.1), ("gt", ofGt nc.2.gt), ("phased", Json.bool nc.2.phased),
    ("fields", ofList (fun kv => Json.arr #[Json.str kv.1, ofVal kv.2]) nc.2.fields)]

def record? (j : Json) : Option Record := do
  some ⟨← getStr? j "site", ← getNat? j "pos", ← getStr? j "ref", ← strList? (← getObj? j "alts"),
        ← strList? (← getObj? j "format"), ← (← getList? j "calls").mapM call?⟩

def ofRecord (r : Record) : Json :=
  Json.mkObj [("site", Json.str r.site), ("pos", ofNat r.pos), ("ref", Json.str r.ref),
    ("alts", ofList Json.str r.alts), ("format", ofList Json.str r.format), ("calls", ofList ofCall r.calls)]

def target? (j : Json) : Option Target := do
  some ⟨← getStr? j "name", ← (← getList? j "sr0").mapM pairNatInt?, ← (← getList? j "sr1").mapM pairNatInt?,
        ← (← getList? j "comps").mapM pairNat?⟩

def tag? (s : String) : Option Tag := if s == "PS" then some .PS else if s == "HP" then some .HP else none

def cfg? (j : Json) : Option Cfg := do
  some ⟨← tag? (← getStr? j "tag"), ← getBool? j "onlySnvs", ← getBool? j "mav", ← getBool? j "repaired",
        ← strList? (← getObj? j "samples"), ← (← getList? j "targets").mapM target?⟩

def change? (j : Json) : Option GtChange := do
  some ⟨← getStr? j "sample", ← getNat? j "pos", ← getStr? j "ref", ← strList? (← getObj? j "alts"),
        ← getNatList? j "old", ← getNatList? j "new"⟩

def ofChange (c : GtChange) : Json :=
  Json.mkObj [("sample", Json.str c.sample), ("pos", ofNat c.pos), ("ref", Json.str c.ref),
    ("alts", ofList Json.str c.alts), ("old", ofNatList c.oldGt), ("new", ofNatList c.newGt)]

end WhVerif.C04.Json

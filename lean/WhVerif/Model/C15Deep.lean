import WhVerif.Model.C15Solve
/-!
# C15 model, part 4 (round 10): sub-instances, haploid sets, the stage order of `phase_single_block`

Core Lean only.

* `findCollapsed` / `findSubinstances` — `reorder.py:find_subinstances` on the thread matrix (`threads[pos][t]` =
  cluster of thread `t`) and the haplotype columns (`cols[pos][t] = haplotypes[t][pos]`): per cluster the state
  machine `last_thread_set` / `cwise_snps` (a run of positions at which the cluster carries ≥ 2 threads with ≥ 2
  different alleles and the SAME thread set; a change of the thread set closes the run), then the two filters
  (`len(snps) == num_vars and len(thread_set) == ploidy`; `len(subm) > 0`, which depends on the reads of the
  cluster: parameter `hasReads`).  The code's list order depends on the iteration order of a Python `set` of
  cluster ids; the model lists the clusters in ascending order (the write-backs touch disjoint cells, see
  `subinstances_disjoint_and_inside_block`; the harness compares sorted).
  `extractSubMatrix(snps, …)` keeps ALL positions `snps` (`posList`), so `subm.getPositions()` mapped back by
  `globalToLocal` is `snps`.
* `subGenotypes` — `subgeno = [{a: h.count(a) for a in h} for h in subhaps]` (as lists of alleles).
* `writeSub` / `integrateHaps` — the haplotype part of `integrate_sub_results`:
  `haplotypes[hap][pos] = res.haplotypes[j][i]` (sub-result given by its columns `res[i][j]`).
* `haploidDict` — the `haploid_components` dict of `cli/polyphase.py:phase_single_individual`: keys as the
  component dict, entry `j` written by the loop over `hap_cuts[j] + [num_vars]` (the same loop as for the
  components), initial value 0.
* `hsOfCall` — the HS value `PhasedVcfWriter.write` leaves in a call (`_set_PS`: `[c + 1 for c in
  haploid_component]` if the call is phased now and the entry has `ploidy` values; otherwise nothing is set:
  before the repair of F24 an empty value if the record carries HS for another sample, after it `.`).
* `Heur`, `forceCol`, `phaseBlock`, `solveInstance` — the stage order of `phase_single_block` /
  `solve_polyphase_instance` (threading → `force_genotypes` → `find_subinstances` → recursive solve →
  `integrate_sub_results` → `permute_blocks`, blocks by `compute_block_starts`, `aggregate_results`
  concatenating) with every heuristic an arbitrary function.
-/
namespace WhVerif.C15

/-! ## find_subinstances -/

structure SubInst where
  cid : Nat
  ts : List Nat
  snps : List Nat
deriving Repr, DecidableEq

/-- `thread_set[cid]` of one position: the threads on cluster `cid`, ascending -/
def threadSet (cid : Nat) (row : List Nat) : List Nat :=
  (List.range row.length).filter (fun i => row.getD i 0 == cid)

/-- `len(alleles[cid]) >= 2` -/
def isHetOn (ts : List Nat) (col : List Allele) : Bool :=
  decide (2 ≤ (dedup (extractPerm ts col)).length)

structure SubState where
  last : List Nat          -- `last_thread_set[cid]`
  cur : List Nat           -- `cwise_snps[cid]`
  out : List SubInst       -- what this cluster appended to `collapsed`

/-- one position of the scan, for cluster `cid` -/
def subStep (threads : List (List Nat)) (cols : List (List Allele)) (cid : Nat) (st : SubState) (pos : Nat) : SubState :=
  let ts := threadSet cid (threads.getD pos [])
  if ts.isEmpty then st                                  -- `cid` not in `clusters`
  else if isHetOn ts (cols.getD pos []) then
    if st.last != ts then
      ⟨ts, [pos], if st.cur.isEmpty then st.out else st.out ++ [⟨cid, st.last, st.cur⟩]⟩
    else ⟨st.last, st.cur ++ [pos], st.out⟩
  else st

def scanCluster (threads : List (List Nat)) (cols : List (List Allele)) (cid : Nat) (st : SubState) (i n : Nat) : SubState :=
  (List.range' i n).foldl (subStep threads cols cid) st

/-- the entries of `collapsed` for cluster `cid` (incl. "write remaining lists into collapsed") -/
def collapsedOf (threads : List (List Nat)) (cols : List (List Allele)) (cid : Nat) : List SubInst :=
  let st := scanCluster threads cols cid ⟨[], [], []⟩ 0 threads.length
  if st.cur.isEmpty then st.out else st.out ++ [⟨cid, st.last, st.cur⟩]

def clusterIds (threads : List (List Nat)) : List Nat := posSet threads.flatten

def findCollapsed (threads : List (List Nat)) (cols : List (List Allele)) : List SubInst :=
  (clusterIds threads).flatMap (collapsedOf threads cols)

/-- `find_subinstances`; `ploidy = len(haplotypes)`, `num_vars = len(threads)` (`assert len(paths) == num_vars`) -/
def findSubinstances (hasReads : SubInst → Bool) (ploidy : Nat) (threads : List (List Nat)) (cols : List (List Allele)) :
    List SubInst :=
  (findCollapsed threads cols).filter
    (fun s => !(s.snps.length == threads.length && s.ts.length == ploidy) && hasReads s)

/-- `len(subm) > 0` for `subm = allele_matrix.extractSubMatrix(snps, clustering[cid], True)`: some read of the cluster
(`reads` = its rows as ascending lists of local positions) passes the interval test of `extractSubMatrix` as coded
(`starts[i] >= end || ends[i] < start` drops it, `end` being the LAST position of `snps`) and covers a position of
`snps` -/
def subHasReads (reads : List (List Nat)) (snps : List Nat) : Bool :=
  let start := snps.foldl min (snps.headD 0)
  let stop := snps.foldl max 0
  reads.any (fun r => match r.head?, r.getLast? with
    | some f, some l => !(decide (stop ≤ f) || decide (l < start)) && r.any (fun p => snps.contains p)
    | _, _ => false)

/-- `subgeno`, as lists of alleles, one per position of the sub-instance -/
def subGenotypes (cols : List (List Allele)) (s : SubInst) : List (List Allele) :=
  s.snps.map (fun p => extractPerm s.ts (cols.getD p []))

/-! ## integrate_sub_results, haplotype part -/

/-- `for i, pos in enumerate(snps): for j, hap in enumerate(thread_set): haplotypes[hap][pos] = res.haplotypes[j][i]` -/
def writePairs (ts : List Nat) (cols : List (List Allele)) (pairs : List (Nat × List Allele)) : List (List Allele) :=
  pairs.foldl (fun c pr => c.set pr.1 (assign (c.getD pr.1 []) ts pr.2)) cols

def writeSub (cols : List (List Allele)) (s : SubInst) (res : List (List Allele)) : List (List Allele) :=
  writePairs s.ts cols (s.snps.zip res)

/-- `for (cid, thread_set, subm), res in zip(sub_instances, sub_results)` -/
def integrateHaps (cols : List (List Allele)) (pairs : List (SubInst × List (List Allele))) : List (List Allele) :=
  pairs.foldl (fun c sr => writeSub c sr.1 sr.2) cols

/-! ## haploid sets -/

/-- `haploid_components.get(key)`: `none` = key absent -/
def haploidDict (acc : List Nat) (numVars : Nat) (cuts : List Nat) (hapCuts : List (List Nat)) (key : Nat) :
    Option (List Nat) :=
  match dictGet (componentWrites acc numVars cuts) key with
  | none => none
  | some _ => some (hapCuts.map (fun hc => (dictGet (componentWrites acc numVars hc) key).getD 0))

inductive HsOut where
  | absent                  -- the record has no HS field
  | missing                 -- `.`
  | empty                   -- an empty value (invalid VCF, F24)
  | values (l : List Nat)
deriving Repr, DecidableEq

/-- HS of one call after `PhasedVcfWriter.write`; `phasedNow` = the call went through `_set_phasing_tags`,
`inFormat` = some call of the record has HS (set now, or carried by the input), `hc` = `haploid_components.get(pos)` -/
def hsOfCall (repaired : Bool) (ploidy : Nat) (inFormat phasedNow : Bool) (hc : Option (List Nat)) : HsOut :=
  match (if phasedNow then hc else none) with
  | some l =>
    if l.length == ploidy && !l.isEmpty then .values (l.map (· + 1))
    else if !inFormat then .absent else if repaired then .missing else .empty
  | none => if !inFormat then .absent else if repaired then .missing else .empty

/-! ## the stage order, heuristics as parameters -/

/-- everything heuristic in `phase_single_block` / `solve_polyphase_instance`, as arbitrary functions -/
structure Heur where
  /-- cluster editing + `run_threading` up to `compute_haplotypes`: ploidy, genotypes ↦ (thread rows, haplotype columns) -/
  thread : Nat → List (List Allele) → List (List Nat) × List (List Allele)
  /-- the likelihood of `force_genotypes`: column, genotype, affected slots, alleles to insert ↦ the arrangement taken -/
  pick : List Allele → List Allele → List Nat → List Allele → List Allele
  /-- `len(subm) > 0` -/
  hasReads : SubInst → Bool
  /-- breakpoint positions + `get_optimal_assignments` (link likelihoods, ILP): thread rows, columns ↦ (positions, perms) -/
  reorder : List (List Nat) → List (List Allele) → List Nat × List (List Nat)
  /-- `compute_block_starts` up to its last loop: merged-cluster label per column -/
  labels : Nat → List (List Allele) → List Nat

/-- `force_genotypes` on one column: the arrangement taken is ONE OF `itertools.permutations(alleles_to_insert)`
whatever the likelihood says; an arbitrary `pick` is turned into such a choice (a value that is no arrangement of
`alleles_to_insert` stands for the first permutation, `alleles_to_insert` itself) -/
def forceCol (pick : List Allele → List Allele → List Nat → List Allele → List Allele) (col gv : List Allele) :
    List Allele :=
  match forceStep col gv with
  | .choose aff ins =>
    let c := pick col gv aff ins
    assign col aff (if c.isPerm ins then c else ins)
  | _ => col

/-- `perms[i]` is a one-to-one assignment of threads to haplotypes (ILP constraints; `optimal_assignments_are_permutations`):
an arbitrary value that is none stands for the identity -/
def sanPerm (k : Nat) (p : List Nat) : List Nat := if p.isPerm (List.range k) then p else List.range k

/-- `phase_single_block`: columns of the block result for the genotypes `gts` -/
def phaseBlock (H : Heur) (solveSub : Nat → List (List Allele) → List (List Allele)) (k : Nat)
    (gts : List (List Allele)) : List (List Allele) :=
  if gts.length < 2 then gts.map singletonCol
  else
    let tc := H.thread k gts
    let cols1 := List.zipWith (forceCol H.pick) tc.2 gts
    let subs := findSubinstances H.hasReads k tc.1 cols1
    let results := subs.map (fun s => solveSub s.ts.length (subGenotypes cols1 s))
    let cols2 := integrateHaps cols1 (subs.zip results)
    let bp := H.reorder tc.1 cols2
    permuteBlocks cols2 bp.1 (bp.2.map (sanPerm k))

/-- `solve_polyphase_instance` (haplotype columns of the aggregate), recursion depth bounded by `fuel` -/
def solveInstance (H : Heur) : Nat → Nat → List (List Allele) → List (List Allele)
  | 0, _, gl => gl.map singletonCol
  | fuel + 1, k, gl =>
    ((blocks (blockStartsOfLabels (H.labels k gl)) gl.length).map
      (fun se => phaseBlock H (solveInstance H fuel) k (slice gl se))).flatten

end WhVerif.C15

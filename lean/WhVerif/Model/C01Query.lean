import WhVerif.Model.C01
import WhVerif.Model.C01Ckpt
/-!
# C01 — the result object: a constructed `PedigreeDPTable` and its accessors

After `compute_table` the object keeps `optimal_score`, `index_path` (one `(bipartition index, transmission value)`
per column) and the `input_column_iterator` (left wherever the backtrace's last recomputation stopped).  The three
public accessors of `whatshap/core.pyx` read that state:

* `get_optimal_cost()`          returns `optimal_score`;
* `get_optimal_partitioning()`  reads `index_path[i].index` BY VALUE (`unsigned int index = index_path[i].index`) and
                                tests it against a moving mask — the stored path is not written;
* `get_super_reads()`           rewinds the column iterator (`jump_to_column(0)`), walks over all columns, builds a
                                fresh `PedigreeColumnCostComputer` per column for `index_path[i]` — the only member
                                it changes is the iterator position (end of input afterwards).

A client may call them in any order and any number of times.  `Table.step` is one call (new state, answer);
`Table.run` a sequence of calls.
-/
namespace WhVerif.C01

/-- the members of a constructed `PedigreeDPTable` the accessors touch -/
structure Table where
  /-- `optimal_score` -/
  score : Nat
  /-- `index_path` -/
  path : List (Nat × Nat)
  /-- column the `input_column_iterator` stands at -/
  iter : Nat
deriving Repr, DecidableEq

inductive Query where
  | superReads | cost | partitioning
deriving Repr, DecidableEq

inductive Answer where
  /-- per column the `get_alleles` result (one `(allele0, allele1)` per individual), and the transmission vector -/
  | superReads (sr : List (Option (List (Nat × Nat)))) (tau : List Nat)
  | cost (c : Nat)
  | partitioning (β : List Bool)
deriving Repr, DecidableEq

/-- the constructor: `none` = it threw ("Mendelian conflict").  `optimal_score` is the DP value, `index_path` the
backtrace of `compute_table` as coded (Gray-code order, spacing `⌊√n⌋`) -/
def mkTable (I : Inst) : Option Table :=
  match ckptPath I, dpCost I with
  | some p, some c => some { score := c, path := p, iter := 0 }
  | _, _ => none

/-- what an accessor answers in state `T` (none of them looks at the iterator position: `get_super_reads` rewinds
first) -/
def Table.answer (I : Inst) (T : Table) : Query → Answer
  | .superReads => .superReads (superReadsOf I T.path) (T.path.map (·.2))
  | .cost => .cost T.score
  | .partitioning => .partitioning (partOf I T.path)

/-- one accessor call: state afterwards and answer -/
def Table.step (I : Inst) (T : Table) : Query → Table × Answer
  | .superReads => ({ T with iter := T.path.length }, T.answer I .superReads)
  | q => (T, T.answer I q)

/-- a sequence of accessor calls on one object -/
def Table.run (I : Inst) (T : Table) : List Query → Table × List Answer
  | [] => (T, [])
  | q :: qs =>
    let (T1, a) := T.step I q
    let (T2, as) := T1.run I qs
    (T2, a :: as)

end WhVerif.C01

/-!
# C19 model, part 2: `whatshap/align.pyx:edit_distance(s, t, maxdiff)`

Core Lean only; strings are lists of byte values (`s.encode()`; the code takes `m = len(s)` *before*
encoding, so for non-ASCII `str` the lengths would differ – outside the model, see ASSUMPTIONS).

Faithful to the code as it is:
* early return `abs(m-n)` when `maxdiff != -1 and abs(m-n) > maxdiff` (hence for every `maxdiff < -1`),
* prefix trimming by advancing both pointers, suffix trimming by decrementing `m` and `n` only (the DP
  afterwards reads `sv[i-1]`, `tv[j-1]` of the *untruncated* arrays for `i ≤ m`, `j ≤ n`),
* one row `costs[0..m]`, `prev` carrying the old diagonal value,
* banded variant: `stop = min(j+e+1, m+1)`; for `j ≤ e` the cell 0 is updated and `start = 1`, else
  `start = j-e`, `prev = costs[start-1]`, `smallest = maxdiff+1`; cells outside the band keep whatever
  they held (initial value `i` above the band, the value of an older column below it) and are read as
  neighbours; `break` as soon as a column's `smallest > maxdiff`; after the loop `smallest` is returned
  if it exceeds `maxdiff`, else `costs[m]`.
  The unbanded loop body is the banded one with `start = 1`, `stop = m+1` and no `smallest`; the model
  uses the same `inner` for both and drops `smallest` there.
C `int` overflow (`j + e + 1` for `maxdiff` near 2³¹) is not modelled.
-/
namespace WhVerif.C19

/-- `while m > 0 and n > 0 and sv[0] == tv[0]: sv += 1; tv += 1; m -= 1; n -= 1` -/
def trimPrefix : List Nat → List Nat → List Nat × List Nat
  | a :: s, b :: t => if a = b then trimPrefix s t else (a :: s, b :: t)
  | s, t => (s, t)

/-- `while m > 0 and n > 0 and sv[m-1] == tv[n-1]: m -= 1; n -= 1` -/
def trimSuffix (sv tv : List Nat) : (m n : Nat) → Nat × Nat
  | m + 1, n + 1 => if sv.getD m 0 = tv.getD n 0 then trimSuffix sv tv m n else (m + 1, n + 1)
  | m, n => (m, n)

/-- `for i in range(start, stop)` of either DP loop, `cnt = stop - i` iterations left;
returns `(costs, smallest)` -/
def inner (sv tv : List Nat) (j : Nat) : (cnt i : Nat) → (costs : List Nat) → (prev smallest : Nat) → List Nat × Nat
  | 0, _, costs, _, smallest => (costs, smallest)
  | cnt + 1, i, costs, prev, smallest =>
    let mism := if sv.getD (i - 1) 0 = tv.getD (j - 1) 0 then 0 else 1
    let c := min (prev + mism) (min (costs.getD i 0 + 1) (costs.getD (i - 1) 0 + 1))
    inner sv tv j cnt (i + 1) (costs.set i c) (costs.getD i 0) (min smallest c)

/-- one column of the unbanded loop -/
def colU (sv tv : List Nat) (m j : Nat) (costs : List Nat) : List Nat :=
  let prev := costs.getD 0 0
  let costs := costs.set 0 (costs.getD 0 0 + 1)
  (inner sv tv j m 1 costs prev 0).1

/-- `for j in range(1, n+1)` of the unbanded loop, `cnt = n + 1 - j` columns left -/
def outerU (sv tv : List Nat) (m : Nat) : (cnt j : Nat) → List Nat → List Nat
  | 0, _, costs => costs
  | cnt + 1, j, costs => outerU sv tv m cnt (j + 1) (colU sv tv m j costs)

/-- one column of the banded loop (up to, not including, the `if smallest > maxdiff: break`) -/
def colB (sv tv : List Nat) (m e j : Nat) (costs : List Nat) : List Nat × Nat :=
  let stop := min (j + e + 1) (m + 1)
  if j ≤ e then
    let prev := costs.getD 0 0
    let costs := costs.set 0 (costs.getD 0 0 + 1)
    let smallest := costs.getD 0 0
    inner sv tv j (stop - 1) 1 costs prev smallest
  else
    let start := j - e
    let prev := costs.getD (start - 1) 0
    inner sv tv j (stop - start) start costs prev (e + 1)

/-- `for j in range(1, n+1)` of the banded loop with its `break`; returns `(costs, smallest)` -/
def outerB (sv tv : List Nat) (m e : Nat) : (cnt j : Nat) → List Nat → Nat → List Nat × Nat
  | 0, _, costs, smallest => (costs, smallest)
  | cnt + 1, j, costs, _ =>
    let r := colB sv tv m e j costs
    if r.2 > e then r else outerB sv tv m e cnt (j + 1) r.1 r.2

/-- DP part after trimming, unbanded -/
def dpU (sv tv : List Nat) (m n : Nat) : Nat :=
  (outerU sv tv m n 1 (List.range (m + 1))).getD m 0

/-- DP part after trimming, banded with `e = maxdiff ≥ 0` -/
def dpB (sv tv : List Nat) (m n e : Nat) : Nat :=
  let r := outerB sv tv m e n 1 (List.range (m + 1)) 0
  if r.2 > e then r.2 else r.1.getD m 0

def absDiff (m n : Nat) : Nat := if m ≥ n then m - n else n - m

/-- `edit_distance(s, t, maxdiff)` -/
def editDistance (s t : List Nat) (maxdiff : Int) : Nat :=
  let m := s.length
  let n := t.length
  if maxdiff ≠ -1 ∧ (absDiff m n : Int) > maxdiff then absDiff m n
  else
    let p := trimPrefix s t
    let mn := trimSuffix p.1 p.2 p.1.length p.2.length
    if maxdiff = -1 then dpU p.1 p.2 mn.1 mn.2
    else dpB p.1 p.2 mn.1 mn.2 maxdiff.toNat

end WhVerif.C19

import WhVerif.Model.C06Affine
/-!
# C06 model, part 3: which alignments reach allele detection, and how their alleles become reads

`readModel` = `ReadSetReader.read`:

* `fetchSource`        = `SampleBamReader.fetch`: the alignments of the chromosome overlapping the region (htslib's
                         overlap test, `reference_end` = `bam_endpos`), with a sample only those whose `RG` tag is one
                         of the sample's read groups — an alignment WITHOUT `RG` tag is a `KeyError`
                         (`bam_read.get_tag("RG")`), a sample without read group a `SampleNotFoundError`;
* `fetchAll`           = that, or `MultiBamReader.fetch` (readers without the sample are skipped, none left:
                         `SampleNotFoundError`; `heapq.merge` by `(reference_start, source_id)`);
* `usable`             = the filter of `_usable_alignments` (supplementary unless `use_supplementary`, mapq below the
                         threshold, secondary, unmapped, duplicate unless `duplicates`);
* `usableStream`       = `_usable_alignments` with its regions loop (an alignment overlapping an earlier region was
                         delivered with that one);
* `processAln`         = the body of the loop of `_alignments_to_reads`: PS tag must be an integer (`ValueError`), the
                         variant pointer `i` skips variants left of the alignment (it never moves back), detection
                         with (`detectRefQ`) or without (`detectNoRef`) reference, "`if read:`" drops alignments without
                         detected allele; CIGAR `*` (`cigartuples is None`): skipped with a reference, `TypeError`
                         without; SEQ `*` (`query_sequence is None`): `TypeError` at the first base access;
* `groupReads`         = `_group_reads` (key `(source_id, name, sample_id)`, first-appearance order) with
                         `mergeGroupG` = `create_read_from_group` for any quality type (`mergeGroup` is the instance
                         for `Nat`), name/mapq/source/BX/HP/PS of the (last) primary, smallest `reference_start`.
-/
namespace WhVerif.C06

structure Aln where
  name : String
  flag : Nat
  mapq : Nat
  /-- `RG` tag -/
  rg : Option String
  refStart : Nat
  /-- `none`: CIGAR `*` -/
  cigar : Option Cigar
  /-- `none`: SEQ `*` -/
  query : Option Seq
  quals : Option (List Nat)
  bx : String
  hp : Int
  /-- `none`: the PS tag is not an integer -/
  ps : Option Int
  sourceId : Nat
deriving Repr, DecidableEq

def Aln.unmapped (a : Aln) : Bool := a.flag.testBit 2
def Aln.reverse (a : Aln) : Bool := a.flag.testBit 4
def Aln.secondary (a : Aln) : Bool := a.flag.testBit 8
def Aln.duplicate (a : Aln) : Bool := a.flag.testBit 10
def Aln.supplementary (a : Aln) : Bool := a.flag.testBit 11

/-- pysam `reference_end` (= htslib `bam_endpos`; `None` for unmapped / CIGAR-less records) -/
def Aln.refEnd (a : Aln) : Option Nat :=
  if a.unmapped then none else a.cigar.map (fun c => a.refStart + max 1 (refLen c))

inductive RErr
  | det (e : Err)        -- an error of the detection functions (IndexError / AssertionError / ValueError)
  | typeError            -- `None` sequence or CIGAR used
  | keyError             -- alignment without RG tag while a sample is selected
  | sampleNotFound
  | psValue              -- PS tag not an integer (ValueError)
deriving Repr, DecidableEq

structure ReadCfg where
  mapqThreshold : Nat
  duplicates : Bool
  useSupplementary : Bool
  distanceThreshold : Int
  overhang : Nat
  affine : Option AffineCfg
  fx : Fixes
  /-- proposed repair F40: alignments without SEQ are not usable (as-is `false`: `TypeError`) -/
  skipNoSeq : Bool
  /-- proposed repair F41: an alignment without RG tag belongs to no sample (as-is `false`: `KeyError`) -/
  tolerateNoRG : Bool
deriving Repr

/-- the condition of `_usable_alignments` (negated `continue`) -/
def usable (cfg : ReadCfg) (a : Aln) : Bool :=
  !((!cfg.useSupplementary && a.supplementary) || decide (a.mapq < cfg.mapqThreshold) || a.secondary || a.unmapped
    || (!cfg.duplicates && a.duplicate) || (cfg.skipNoSeq && a.query.isNone))

abbrev Region := Nat × Option Nat

/-- htslib's / `_overlaps_any`'s overlap test -/
def overlapsRegion (a : Aln) (r : Region) : Bool :=
  decide (r.1 < a.refEnd.getD (a.refStart + 1)) && (match r.2 with | none => true | some e => decide (a.refStart < e))

structure Source where
  /-- `@RG` lines: (ID, SM) -/
  readGroups : List (String × Option String)
  /-- all alignments of the chromosome, file order -/
  alns : List Aln
deriving Repr

/-- `_sample_to_group_ids[sample]` -/
def Source.groupsOf (s : Source) (sample : String) : Option (List String) :=
  let ids := s.readGroups.filterMap (fun g => if g.2 = some sample then some g.1 else none)
  if ids.isEmpty then none else some ids

/-- the RG test of `SampleBamReader.fetch` for one alignment: error / not of the sample / of the sample -/
def rgTest (tolerate : Bool) (ids : List String) (a : Aln) : Option (Except RErr Aln) :=
  match a.rg with
  | none => if tolerate then none else some (.error .keyError)
  | some g => if ids.contains g then some (.ok a) else none

/-- `SampleBamReader.fetch(chromosome, sample, start, end)` as a stream: an `error` element is raised when reached -/
def fetchSource (tolerate : Bool) (s : Source) (sample : Option String) (r : Region) : List (Except RErr Aln) :=
  let inRegion := s.alns.filter (overlapsRegion · r)
  match sample with
  | none => inRegion.map .ok
  | some sm =>
    match s.groupsOf sm with
    | none => [.error .sampleNotFound]
    | some ids => inRegion.filterMap (rgTest tolerate ids)

/-- stable insertion by `(reference_start, source_id)` -/
def insertByStart (x : Aln) : List Aln → List Aln
  | [] => [x]
  | y :: ys => if y.refStart < x.refStart || (y.refStart == x.refStart && y.sourceId < x.sourceId)
               then y :: insertByStart x ys else x :: y :: ys

def sortByStart : List Aln → List Aln
  | [] => []
  | x :: xs => insertByStart x (sortByStart xs)

def firstError {α} : List (Except RErr α) → Option RErr
  | [] => none
  | .error e :: _ => some e
  | .ok _ :: l => firstError l

def oks {α} : List (Except RErr α) → List α
  | [] => []
  | .error _ :: l => oks l
  | .ok a :: l => a :: oks l

/-- `self._reader.fetch`: one BAM, or several merged (errors of the per-file streams first: see notes) -/
def fetchAll (tolerate : Bool) (sources : List Source) (sample : Option String) (r : Region) : List (Except RErr Aln) :=
  match sources with
  | [s] => fetchSource tolerate s sample r
  | _ =>
    let active := match sample with
      | none => sources
      | some sm => sources.filter (fun s => (s.groupsOf sm).isSome)
    if active.isEmpty then [.error .sampleNotFound] else
    let streams := active.map (fun s => fetchSource tolerate s sample r)
    match firstError streams.flatten with
    | some e => [.error e]
    | none => (sortByStart (oks streams.flatten)).map .ok

/-- the part of the stream of region number `k` that `_usable_alignments` yields -/
def usableOfRegion (cfg : ReadCfg) (earlier : List Region) (l : List (Except RErr Aln)) : List (Except RErr Aln) :=
  l.filter (fun x => match x with
    | .error _ => true
    | .ok a => !(earlier.any (overlapsRegion a)) && usable cfg a)

/-- `_usable_alignments(chromosome, sample, regions)`; `done` = the regions already handled -/
def usableGo (cfg : ReadCfg) (sources : List Source) (sample : Option String) : List Region → List Region →
    List (Except RErr Aln)
  | _, [] => []
  | done, r :: rest =>
    usableOfRegion cfg done (fetchAll cfg.tolerateNoRG sources sample r) ++ usableGo cfg sources sample (done ++ [r]) rest

def usableStream (cfg : ReadCfg) (sources : List Source) (sample : Option String) (regions : Option (List Region)) :
    List (Except RErr Aln) :=
  usableGo cfg sources sample [] (regions.getD [(0, none)])

/-! ## `_alignments_to_reads` -/

/-- one `AlignedRead` with the fields of its `Read` that survive the merge -/
structure AlignedQ where
  name : String
  sourceId : Nat
  mapq : Nat
  bx : String
  hp : Int
  ps : Int
  supplementary : Bool
  reverse : Bool
  refStart : Int
  refEnd : Int
  /-- (position, allele, quality) -/
  variants : List (Nat × Nat × Int)
deriving Repr, DecidableEq

/-- `while i < len(positions) and positions[i] < reference_start: i += 1` -/
def advance (positions : List Nat) (i refStart : Nat) : Nat :=
  i + ((positions.drop i).takeWhile (· < refStart)).length

/-- with a reference, SEQ `*`: the first variant reached whose ALT is not symbolic makes `realign` slice `None`
(after the window arithmetic, whose own errors come first) -/
def detectRefNoSeq (f14 : Bool) (variants : List Variant) (cigar : Cigar) (reference : Seq) (overhang : Nat) :
    List Yield → Option RErr
  | [] => none
  | y :: ys =>
    match variants[y.index]? with
    | none => some (.det .index)
    | some v =>
      if isSymbolic v then detectRefNoSeq f14 variants cigar reference overhang ys else
      match window f14 v [] cigar y.i y.consumed y.queryPos reference overhang with
      | .error e => some (.det e)
      | .ok _ => some .typeError

/-- detection on one usable alignment: (index into the variant list, allele, quality) -/
def detectAln (cfg : ReadCfg) (variants : List Variant) (reference : Option Seq) (i : Nat) (a : Aln) :
    Except RErr (List (Nat × Nat × Int)) :=
  match reference with
  | some rf =>
    match a.cigar with
    | none => .ok []
    | some cigar =>
      if cigar.isEmpty then .ok [] else
      match a.query with
      | some q =>
        let r := detectRefQ cfg.fx.f14 cfg.affine variants none i a.refStart cigar q rf cfg.overhang
        match r.2 with
        | some e => .error (.det e)
        | none => .ok r.1
      | none =>
        let it := iterateCigar (variants.map (·.pos)) i a.refStart cigar
        match detectRefNoSeq cfg.fx.f14 variants cigar rf cfg.overhang it.1 with
        | some e => .error e
        | none => match it.2 with
          | some e => .error (.det e)
          | none => .ok []
  | none =>
    match a.cigar with
    | none => .error .typeError
    | some cigar =>
      match a.query with
      | some q =>
        let r := detectNoRef cfg.fx variants i a.refStart cigar q a.quals
        match r.2 with
        | some e => .error (.det e)
        | none => .ok (r.1.map (fun t => (t.1, t.2.1, (t.2.2 : Int))))
      | none =>
        let r := detectNoRef cfg.fx variants i a.refStart cigar [] none
        match r.2 with
        | some .index => .error .typeError
        | some e => .error (.det e)
        | none => .ok (r.1.map (fun t => (t.1, t.2.1, (t.2.2 : Int))))

/-- the positions the variant pointer runs over: all variants with a reference, the non-conflicting normalised
variants without -/
def pointerPositions (variants : List Variant) (reference : Option Seq) : List Nat :=
  match reference with
  | some _ => variants.map (·.pos)
  | none =>
    let nvs := variants.map normalize
    (nonOverlapping nvs).filterMap (fun id => (nvs[id]?).map (·.pos))

/-- the loop of `_alignments_to_reads` over the stream; `i` = variant pointer -/
def toReadsGo (cfg : ReadCfg) (variants : List Variant) (reference : Option Seq) (positions : List Nat) :
    Nat → List (Except RErr Aln) → Except RErr (List AlignedQ)
  | _, [] => .ok []
  | _, .error e :: _ => .error e
  | i, .ok a :: rest =>
    match a.ps with
    | none => .error .psValue
    | some ps =>
      let i' := advance positions i a.refStart
      match detectAln cfg variants reference i' a with
      | .error e => .error e
      | .ok det =>
        match toReadsGo cfg variants reference positions i' rest with
        | .error e => .error e
        | .ok more =>
          if det.isEmpty then .ok more else
          .ok (⟨a.name, a.sourceId, a.mapq, a.bx, a.hp, ps, a.supplementary, a.reverse, a.refStart,
                ((a.refEnd.getD (a.refStart + 1) : Nat) : Int),
                det.map (fun t => ((variants[t.1]?).map (·.pos) |>.getD 0, t.2.1, t.2.2))⟩ :: more)

/-! ## `_group_reads` / `create_read_from_group` -/

variable {Q : Type}

def addVariantsG : List (Nat × Nat × Q) → List Nat → List (Nat × Nat × Q) → List (Nat × Nat × Q) × List Nat
  | acc, skip, [] => (acc, skip)
  | acc, skip, x :: xs =>
    match acc.find? (fun y => y.1 == x.1) with
    | some y => addVariantsG acc (if y.2.1 != x.2.1 then x.1 :: skip else skip) xs
    | none => addVariantsG (acc ++ [x]) skip xs

def insertByPosG (x : Nat × Nat × Q) : List (Nat × Nat × Q) → List (Nat × Nat × Q)
  | [] => [x]
  | y :: ys => if x.1 < y.1 then x :: y :: ys else y :: insertByPosG x ys

def sortByPosG : List (Nat × Nat × Q) → List (Nat × Nat × Q)
  | [] => []
  | x :: xs => insertByPosG x (sortByPosG xs)

def distanceQ (a b : AlignedQ) : Int := max (max (b.refEnd - a.refStart) (b.refStart - a.refEnd)) 0

structure ReadOut where
  name : String
  sourceId : Nat
  mapq : Nat
  refStart : Int
  bx : String
  hp : Int
  ps : Int
  variants : List (Nat × Nat × Int)
deriving Repr, DecidableEq

/-- the alignments of a group whose alleles are used -/
def usedOf (f12 : Bool) (threshold : Int) (primary : AlignedQ) (group : List AlignedQ) : List AlignedQ :=
  group.filter (fun r => (f12 && !r.supplementary) || (r.reverse == primary.reverse && decide (distanceQ primary r ≤ threshold)))

/-- `create_read_from_group` -/
def mergeGroupQ (f12 : Bool) (group : List AlignedQ) (threshold : Int) : Option ReadOut :=
  let prim := group.filter (fun r => !r.supplementary)
  match prim.getLast? with
  | none => none
  | some primary =>
    if prim.length > 2 then none else
    let used := usedOf f12 threshold primary group
    let r := used.foldl (fun st r => addVariantsG st.1 st.2 r.variants) (([] : List (Nat × Nat × Int)), ([] : List Nat))
    let kept := r.1.filter (fun x => !r.2.contains x.1)
    let start := used.foldl (fun m r => min m r.refStart) primary.refStart
    some ⟨primary.name, primary.sourceId, primary.mapq, start, primary.bx, primary.hp, primary.ps, sortByPosG kept⟩

/-- `groups[(source_id, name, sample_id)].append(read)`: the groups in order of first appearance (a Python dict) -/
def groupInsert (a : AlignedQ) : List (List AlignedQ) → List (List AlignedQ)
  | [] => [[a]]
  | g :: gs =>
    if g.any (fun b => b.sourceId == a.sourceId && b.name == a.name) then (g ++ [a]) :: gs else g :: groupInsert a gs

def groupBy (l : List AlignedQ) : List (List AlignedQ) := l.foldl (fun gs a => groupInsert a gs) []

def groupReads (cfg : ReadCfg) (reads : List AlignedQ) : List ReadOut :=
  (groupBy reads).filterMap (fun g => mergeGroupQ cfg.fx.f12 g cfg.distanceThreshold)

/-- `ReadSetReader.read(chromosome, variants, sample, reference, regions)` -/
def readModel (cfg : ReadCfg) (sources : List Source) (sample : Option String) (regions : Option (List Region))
    (variants : List Variant) (reference : Option Seq) : Except RErr (List ReadOut) :=
  match toReadsGo cfg variants reference (pointerPositions variants reference) 0
      (usableStream cfg sources sample regions) with
  | .error e => .error e
  | .ok reads => .ok (groupReads cfg reads)

/-- `ReadSetReader.has_reference` / `MultiBamReader.has_reference` -/
def hasReference (references : List (List String)) (chromosome : String) : Bool :=
  references.all (·.contains chromosome)

end WhVerif.C06

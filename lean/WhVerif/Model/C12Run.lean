import WhVerif.Model.C12
/-!
# C12 model, part 2: `run_stats` end to end

Core Lean only.  What `Model/C12.lean` leaves to the caller is modelled here as the code has it:

* `unpackChromosomes` = `unpack_chromosomes` (comma lists, empty entries dropped);
* `tables` = `parse_variant_tables`: with `--chromosome` and an index (`.tbi`/`.csi`) the chromosomes are fetched in the
  order they were *given* (an unknown contig raises `VcfInvalidChromosome`, a name given twice is fetched twice in HEAD);
  otherwise the file is iterated chromosome by chromosome (`itertools.groupby`).  Tables are produced lazily: an error in
  a chromosome that is never reached (after the early exit) is never raised;
* `runLoop` = the `for variant_table in …` loop of `run_stats`: `seen_chromosomes`, the `--chromosome` filter, the early exit
  `set(given) <= seen`, one `PhasingStats` per processed chromosome, `total_stats += stats`;
* `run` = the loop + the ALL row, which is printed iff more than one chromosome was *seen* (not: processed);
* `lookupLen` / `targetLength` / `computeNg50` / `blockN50` = `get_chr_lengths` (a dict: the last entry of a name wins),
  `compute_ng50` (set of chromosomes of the split blocks; a chromosome without length gives `nan`) and the `block_n50`
  column of `get_detailed_stats`.

`dedupGiven = true` is the behaviour after `fixes/F75.patch` (a chromosome named twice is fetched once).
-/
namespace WhVerif.C12

/-- `entry.split(",")`, structurally on the characters (`acc` = the current field, reversed) -/
def splitCommaAux : List Char → List Char → List String
  | [], acc => [String.ofList acc.reverse]
  | c :: cs, acc => if c == ',' then String.ofList acc.reverse :: splitCommaAux cs [] else splitCommaAux cs (c :: acc)

def splitComma (s : String) : List String := splitCommaAux s.toList []

/-- `unpack_chromosomes` -/
def unpackChromosomes (args : List String) : List String :=
  (args.flatMap splitComma).filter (fun c => c != "")

inductive RunErr
  | chrom (e : Err)                    -- raised while reading / reporting one chromosome
  | invalidChromosome (c : String)     -- VcfInvalidChromosome (indexed fetch of a contig the header does not have)
deriving DecidableEq, Repr

/-- first occurrences, order kept (`dict.fromkeys`) -/
def strDedup : List String → List String
  | [] => []
  | x :: xs => x :: (strDedup xs).filter (fun y => y != x)

/-- `seen_chromosomes.add(c)`, as a duplicate-free list -/
def addSeen (seen : List String) (c : String) : List String := if seen.contains c then seen else seen ++ [c]

/-- the records `fetch(c)` returns -/
def recsOf (file : List (String × List Rec)) (c : String) : List Rec :=
  (file.filter (fun g => g.1 == c)).flatMap (·.2)

/-- everything `run_stats` gets -/
structure RunIn where
  flags : Flags
  dedupGiven : Bool                        -- fixes/F75.patch
  onlySnvs : Bool
  wantBl : Bool                            -- `--block-list` given
  indexed : Bool                           -- `vcf_reader.index_exists()`
  contigs : List String                    -- contig names of the header
  lens : List (String × Nat)               -- `chr_lengths` in insertion order
  given : List String                      -- `--chromosome` arguments as typed
  file : List (String × List Rec)          -- the data lines grouped by chromosome, file order

/-- one processed chromosome -/
structure Part where
  name : String
  vars : List Var
  stats : Stats
deriving Repr

abbrev Table := String × Except RunErr (List Var)

/-- `parse_variant_tables(vcf_reader, given)`; `given` is already unpacked -/
def tables (i : RunIn) (given : List String) : List Table :=
  if !given.isEmpty && i.indexed then
    (if i.dedupGiven then strDedup given else given).map fun c =>
      if i.contigs.contains c then
        (c, match readChrom i.flags i.onlySnvs (recsOf i.file c) with
            | .ok v => .ok v
            | .error e => .error (.chrom e))
      else (c, .error (.invalidChromosome c))
  else
    i.file.map fun g =>
      (g.1, match readChrom i.flags i.onlySnvs g.2 with
            | .ok v => .ok v
            | .error e => .error (.chrom e))

/-- `given_chromosomes and chromosome not in given_chromosomes` -/
def skipped (given : List String) (c : String) : Bool := !given.isEmpty && !given.contains c

/-- `given_chromosomes and set(given_chromosomes) <= seen_chromosomes` -/
def allGivenSeen (given seen : List String) : Bool := !given.isEmpty && given.all (fun g => seen.contains g)

/-- the chromosome loop of `run_stats`; returns `seen_chromosomes` and the processed chromosomes in order -/
def runLoop (f : Flags) (wantBl : Bool) (given : List String) :
    List String → List Table → Except RunErr (List String × List Part)
  | seen, [] => .ok (seen, [])
  | _, (_, .error e) :: _ => .error e
  | seen, (c, .ok vars) :: rest =>
    if skipped given c then runLoop f wantBl given (addSeen seen c) rest
    else
      match chromStats f vars with
      | none => .error (.chrom .noFuel)
      | some s =>
        match wantBl, blockList (blocksOf (phasedOf f vars)) with
        | true, .error e => .error (.chrom e)
        | _, _ =>
          if allGivenSeen given (addSeen seen c) then .ok (addSeen seen c, [⟨c, vars, s⟩])
          else
            match runLoop f wantBl given (addSeen seen c) rest with
            | .error e => .error e
            | .ok (sn, ps) => .ok (sn, ⟨c, vars, s⟩ :: ps)

structure RunOut where
  parts : List Part
  seen : List String
  /-- `total_stats` if the ALL row is printed (`len(seen_chromosomes) > 1`) -/
  all : Option Stats

/-- `total_stats` after the loop -/
def totalStats (ps : List Part) : Stats := (ps.map (·.stats)).foldl addStats {}

def run (i : RunIn) : Except RunErr RunOut :=
  let given := unpackChromosomes i.given
  match runLoop i.flags i.wantBl given [] (tables i given) with
  | .error e => .error e
  | .ok (seen, ps) => .ok { parts := ps, seen := seen, all := if seen.length > 1 then some (totalStats ps) else none }

/-! ## NG50 -/

/-- `chr_lengths[c]` of a dict filled in the order of `lens` -/
def lookupLen (lens : List (String × Nat)) (c : String) : Option Nat :=
  ((lens.filter (fun e => e.1 == c)).getLast?).map (·.2)

/-- `target_length` of `compute_ng50` over the (distinct) chromosomes; `none` = `KeyError` → `nan` -/
def targetLength (lens : List (String × Nat)) : List String → Option Nat
  | [] => some 0
  | c :: cs =>
    match lookupLen lens c with
    | none => none
    | some l => (targetLength lens cs).map (l + ·)

/-- `compute_ng50(split_blocks, chr_lengths)`; `chroms` = the chromosome of each split block (any order, repeats allowed) -/
def computeNg50 (lens : List (String × Nat)) (chroms : List String) (splitBlocks : List Block) : Option Nat :=
  (targetLength lens (strDedup chroms)).map (fun t => n50 (splitBlocks.map span) t)

/-- the `block_n50` column (`none` = `nan`): `nan` unless there is a block of more than one variant -/
def blockN50 (lens : List (String × Nat)) (chroms : List String) (s : Stats) : Option Nat :=
  if (bigOf s.blocks).isEmpty then none else computeNg50 lens chroms s.splitBlocks

/-- the chromosomes of the split blocks of `total_stats` -/
def splitChroms (ps : List Part) : List String := ps.flatMap (fun p => p.stats.splitBlocks.map (fun _ => p.name))

/-- `block_n50` of a chromosome row -/
def partN50 (lens : List (String × Nat)) (p : Part) : Option Nat :=
  blockN50 lens (p.stats.splitBlocks.map (fun _ => p.name)) p.stats

/-- `block_n50` of the ALL row -/
def allN50 (lens : List (String × Nat)) (ps : List Part) : Option Nat := blockN50 lens (splitChroms ps) (totalStats ps)

end WhVerif.C12

/-!
# C16 model: `split --only-largest-block` — the largest phase set of a chromosome (round 10)

`whatshap/cli/split.py`: `process_haplotag_list_file` reads the haplotag list row by row (read name, haplotype, phase set,
chromosome); for every TAGGED row it does `block_sizes[chromosome][phaseset] += 1` on a `defaultdict(Counter)` and
`blocks_to_readnames[(chromosome, phaseset)].add(readname)`.  `select_reads_in_largest_phased_blocks` then takes, for every
chromosome, `block_counts.most_common(1)[0]` and keeps the reads of that phase set only.

`Counter` is a `dict`: its keys are enumerated in INSERTION order, i.e. in the order of their first occurrence in the list
file.  `most_common(1)` is `heapq.nlargest(1, self.items(), key=itemgetter(1))`, which for n = 1 is
`[max(self.items(), key=itemgetter(1))]`, and `max` returns the FIRST maximal element of its iterable.  So no set of
strings is enumerated anywhere: among the phase sets that tie for the largest number of tagged rows the one that occurs
first in the file wins.  Names (read, phase set, chromosome) are natural numbers here; haplotype 0 = `none` (untagged).
-/
namespace WhVerif.C16

/-- `counter[k] += 1` on a `Counter` given as the list of its items in insertion order -/
def countInc : List (Nat × Nat) → Nat → List (Nat × Nat)
  | [], k => [(k, 1)]
  | (k', n) :: rest, k => if k' = k then (k', n + 1) :: rest else (k', n) :: countInc rest k

/-- the `Counter` after `for k in l: counter[k] += 1` -/
def counter (l : List Nat) : List (Nat × Nat) := l.foldl countInc []

/-- `max(iterable, key=f)`: the FIRST maximal element in iteration order (`none` for an empty iterable) -/
def firstMaxBy {α : Type} (f : α → Nat) : List α → Option α
  | [] => none
  | x :: rest =>
    match firstMaxBy f rest with
    | none => some x
    | some y => if f x < f y then some y else some x

/-- `Counter.most_common(1)[0]` -/
def mostCommon1 (l : List Nat) : Option (Nat × Nat) := firstMaxBy (·.2) (counter l)

/-- the distinct elements of a list in the order of their first occurrence (the key order of a dict filled from it) -/
def firstOcc (l : List Nat) : List Nat := l.foldl (fun acc x => if x ∈ acc then acc else acc ++ [x]) []

/-- the variant that is NOT in the code (seed C16-h): the phase set names of a chromosome kept in a `set`, enumerated in
some order `enum`, and `max(enum, key=number of tagged rows)` -/
def maxOverEnum (enum : List Nat) (l : List Nat) : Option Nat := firstMaxBy (fun b => l.count b) enum

/-- a row of the haplotag list: read, haplotype (0 = none), phase set, chromosome -/
structure TagRow where
  read : Nat
  hap : Nat
  ps : Nat
  chrom : Nat
  deriving Repr, DecidableEq

/-- the phase sets of the tagged rows of one chromosome, in file order -/
def taggedPs (rows : List TagRow) (c : Nat) : List Nat :=
  (rows.filter (fun r => r.hap != 0 && r.chrom == c)).map (·.ps)

/-- `select_reads_in_largest_phased_blocks`, first half: per chromosome (dict order = first occurrence among the tagged rows)
the chosen phase set and its number of tagged rows -/
def largestBlocks (rows : List TagRow) : List (Nat × Nat × Nat) :=
  (firstOcc ((rows.filter (fun r => r.hap != 0)).map (·.chrom))).filterMap
    (fun c => (mostCommon1 (taggedPs rows c)).map (fun bn => (c, bn.1, bn.2)))

/-- … second half: the reads that stay tagged (the union of `blocks_to_readnames[(chromosome, block)]`; with multiplicity
and in file order here, the caller compares as a set) -/
def selectedReads (rows : List TagRow) : List Nat :=
  let blocks := largestBlocks rows
  (rows.filter (fun r => r.hap != 0 && blocks.any (fun cb => cb.1 == r.chrom && cb.2.1 == r.ps))).map (·.read)

end WhVerif.C16

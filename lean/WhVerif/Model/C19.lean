/-!
# C19 model, part 1: `src/binomial.cpp`, `src/genotype.cpp`, `whatshap/core.pyx:Genotype`

Core Lean only.  Faithful to the code as it is:

* `binom n k` = `binomial_coefficient` for non-negative arguments: `n < k → 0`, `k := min k (n-k)`, then the
  loop `result *= (n-i); result /= (i+1)`.  `binomInt` adds the `k < 0 || n < 0` guard on C `int`s
  (`get_index` really calls it with `k = allele - 1 = -1` for allele 0).  32-bit overflow is not part of
  the functions; `binomPeak` is the largest intermediate product of the loop, so that "no overflow
  within the supported limits" is a statement (`Props.C19.binom_no_overflow`).
* a `Genotype` is the 64-bit word `gt` of 16 nibbles: nibble 15 = ploidy, nibbles `0 … ploidy-1` the
  alleles in *descending* order (`set_position(ploidy - i - 1, sorted[i])`), built with the mask
  operations of `set_position`/`get_position`.
* `getIndex` iterates `i = 0 … ploidy-1` over `get_position(ploidy-i-1)` (ascending alleles) with `k = i+1`.
* `indexToAlleles` = `convert_index_to_alleles`: outer `while (pth > 0)`, inner linear search with the
  test `i >= leftover || allele_index == max_allele_index`, the decrement on `i > leftover`, and
  `genotype[pth] = allele_index` filling the vector from the back.
  (`allele_index == max_allele_index` is written `≥` for termination; the search starts at 0 ≤ max, so
  the two tests coincide on every reachable state.)
* `==` compares the words, `<` compares `get_index()` only (also across ploidies), `__getstate__` =
  `(index, ploidy)`, `__setstate__` = `Genotype(convert_index_to_alleles(index, ploidy))`.
-/
namespace WhVerif.C19

/-! ## binomial.cpp -/

/-- the loop `for (i = 0; i < k; i++) { result *= (n-i); result /= (i+1); }`, `cnt` iterations left -/
def binomLoop (n : Nat) : (cnt i result : Nat) → Nat
  | 0, _, r => r
  | cnt + 1, i, r => binomLoop n cnt (i + 1) (r * (n - i) / (i + 1))

/-- `binomial_coefficient(n, k)` for `0 ≤ n`, `0 ≤ k` -/
def binom (n k : Nat) : Nat :=
  if n < k then 0
  else
    let k' := if k > n - k then n - k else k
    binomLoop n k' 0 1

/-- `binomial_coefficient(int n, int k)` -/
def binomInt (n k : Int) : Int :=
  if k < 0 ∨ n < 0 ∨ n < k then 0 else (binom n.toNat k.toNat : Nat)

/-- largest value held by `result` between `*=` and `/=` -/
def binomPeakLoop (n : Nat) : (cnt i result peak : Nat) → Nat
  | 0, _, _, p => p
  | cnt + 1, i, r, p => binomPeakLoop n cnt (i + 1) (r * (n - i) / (i + 1)) (max p (r * (n - i)))

def binomPeak (n k : Nat) : Nat :=
  if n < k then 0
  else
    let k' := if k > n - k then n - k else k
    binomPeakLoop n k' 0 1 1

/-! ## convert_index_to_alleles -/

/-- the inner `for (allele_index = 0; allele_index <= max_allele_index; ++allele_index)` from
`allele_index = a` up to its `break`; returns the (possibly decremented) `allele_index` -/
def findAllele (pth leftover maxA : Nat) (a : Nat) : Nat :=
  let i := binom (pth + a - 1) pth
  if i ≥ leftover ∨ a ≥ maxA then
    if i > leftover then a - 1 else a
  else findAllele pth leftover maxA (a + 1)
termination_by maxA - a
decreasing_by omega

/-- the outer `while (pth > 0)`; returns `genotype[0 .. pth-1]` (ascending) -/
def indexToAllelesLoop : (pth maxA leftover : Nat) → List Nat
  | 0, _, _ => []
  | pth + 1, maxA, leftover =>
    let a := findAllele (pth + 1) leftover maxA 0
    indexToAllelesLoop pth a (leftover - binom (pth + 1 + a - 1) (pth + 1)) ++ [a]

/-- `convert_index_to_alleles(index, ploidy)` -/
def indexToAlleles (index ploidy : Nat) : List Nat :=
  indexToAllelesLoop ploidy index index

/-! ## get_index on an ascending allele list -/

/-- `index += binomial_coefficient(k + allele - 1, allele - 1); k += 1` over the ascending alleles -/
def getIndexLoop : (k : Nat) → (index : Int) → List Nat → Int
  | _, index, [] => index
  | k, index, a :: as => getIndexLoop (k + 1) (index + binomInt ((k : Int) + (a : Int) - 1) ((a : Int) - 1)) as

/-- `get_index` of the genotype whose ascending allele list is `g` -/
def getIndexL (g : List Nat) : Nat := (getIndexLoop 1 0 g).toNat

/-! ## the packed representation -/

def MAX_ALLELES : Nat := 16
def MAX_PLOIDY : Nat := 15

structure Genotype where
  gt : Nat
deriving Repr, DecidableEq

/-- `get_position` (callers only use `pos ≤ 15`) -/
def Genotype.getPosition (g : Genotype) (pos : Nat) : Nat :=
  (g.gt >>> (pos * 4)) &&& 15

/-- `set_position` for `pos ≤ 15`, `allele < 16` (the guards are checked by the callers below) -/
def Genotype.setPosition (g : Genotype) (pos allele : Nat) : Genotype :=
  let setMask := allele <<< (pos * 4)
  let deleteMask := (15 <<< (pos * 4)) ^^^ (2 ^ 64 - 1)
  ⟨(g.gt &&& deleteMask) ||| setMask⟩

def Genotype.getPloidy (g : Genotype) : Nat := g.getPosition MAX_PLOIDY

inductive Err where
  | ploidy   -- "Error: Maximum ploidy for genotype exceeded!"
  | alleles  -- "Error: Maximum alleles for genotype exceeded!"
  | unsorted -- "Error: Genotype not sorted! 1 " (unreachable, see `Props`)
deriving Repr, DecidableEq

/-- insertion into an ascending list (`std::sort` on `uint32_t`: any sorting algorithm gives the same vector) -/
def insertAsc (x : Nat) : List Nat → List Nat
  | [] => [x]
  | y :: ys => if x ≤ y then x :: y :: ys else y :: insertAsc x ys

def sortAsc : List Nat → List Nat
  | [] => []
  | x :: xs => insertAsc x (sortAsc xs)

/-- the loop `for i: if (alleles[i] >= MAX_ALLELES) throw; set_position(ploidy - i - 1, alleles[i])` -/
def packLoop (ploidy : Nat) : (i : Nat) → List Nat → Genotype → Except Err Genotype
  | _, [], g => .ok g
  | i, a :: as, g =>
    if a ≥ MAX_ALLELES then .error .alleles
    else packLoop ploidy (i + 1) as (g.setPosition (ploidy - i - 1) a)

def Genotype.asVector (g : Genotype) : List Nat :=
  (List.range g.getPloidy).map g.getPosition

/-- ascending alleles: `get_position(ploidy-i-1)` for `i = 0 … ploidy-1` -/
def Genotype.allelesAsc (g : Genotype) : List Nat :=
  (List.range g.getPloidy).map (fun i => g.getPosition (g.getPloidy - i - 1))

/-- the final sortedness check of the constructor -/
def Genotype.descending (g : Genotype) : Bool :=
  (List.range (g.getPloidy - 1)).all (fun i => !(g.getPosition i < g.getPosition (i + 1)))

/-- `Genotype::Genotype(vector<uint32_t> alleles)` -/
def Genotype.ofAlleles (alleles : List Nat) : Except Err Genotype :=
  let ploidy := alleles.length
  if ploidy ≥ MAX_PLOIDY then .error .ploidy
  else
    match packLoop ploidy 0 (sortAsc alleles) ⟨0⟩ with
    | .error e => .error e
    | .ok g =>
      let g := g.setPosition MAX_PLOIDY ploidy
      if ploidy > 0 ∧ !g.descending then .error .unsorted else .ok g

/-- `Genotype::get_index` -/
def Genotype.getIndex (g : Genotype) : Nat := getIndexL g.allelesAsc

/-- `operator==` : `!(g1.gt ^ g2.gt)` -/
def Genotype.eq (g1 g2 : Genotype) : Bool := (g1.gt ^^^ g2.gt) == 0
/-- `operator!=` -/
def Genotype.ne (g1 g2 : Genotype) : Bool := (g1.gt ^^^ g2.gt) != 0
/-- `operator<` : by index only -/
def Genotype.lt (g1 g2 : Genotype) : Bool := g1.getIndex < g2.getIndex

/-- `__getstate__` -/
def Genotype.getState (g : Genotype) : Nat × Nat := (g.getIndex, g.getPloidy)
/-- `__setstate__` -/
def Genotype.setState (state : Nat × Nat) : Except Err Genotype :=
  Genotype.ofAlleles (indexToAlleles state.1 state.2)

end WhVerif.C19

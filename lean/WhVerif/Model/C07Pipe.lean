import WhVerif.Model.C07
import WhVerif.Spec.C07
/-!
# C07 pipeline model: how `whatshap/cli/phase.py` uses `readselection` (default exact algorithm)

Per family and chromosome, for every member (`for sample in family`):

```
readset, vcf_source_ids = phased_input_reader.read(chromosome, variants, sample)
readset = readset.subset([i for i, read in enumerate(readset) if len(read) >= 2])       -- `candidates`
merged_reads = read_merger.merge(readset)                                               -- identity without --merge-reads
selected_reads = select_reads(merged_reads, max_coverage_per_sample, preferred_source_ids=vcf_source_ids)
     = readset.subset(readselection(readset, max_coverage, preferred_source_ids))       -- bridging = default True
readsets[sample] = selected_reads
```

with `max_coverage_per_sample = max(1, max_coverage // len(family))` (Python floor division; `max_coverage` is the
`--internal-downsampling` integer, rejected by `validate` only when `> 23`, so it may be `0` or negative).
`ReadSet.subset` iterates a `std::set<int>`: the selected reads keep the order of the candidates.
`vcf_source_ids` are the source ids of the phase-input VCFs: their pseudo reads are the preferred reads.

Core Lean only.  `readselection true …` is the selection of /repo (F9 repaired, 900ba9c).
-/
namespace WhVerif.C07

/-- a read of the sample's `ReadSet` as `PhasedInputReader.read` returns it -/
structure SRead where
  sourceId : Nat
  pos : List Nat
  qual : List Int
deriving Repr, DecidableEq, Inhabited

/-- `validate`: `if args.max_coverage > 23: parser.error(...)` -/
def capAccepted (k : Int) : Bool := decide (k ≤ 23)

/-- `max(1, max_coverage // len(family))` -/
def perSampleCapInt (k : Int) (m : Nat) : Nat := (max 1 (k / (m : Int))).toNat

/-- `len(read) >= 2` -/
def longEnough (r : SRead) : Bool := decide (2 ≤ r.pos.length)

/-- `readset.subset([i for i, read in enumerate(readset) if len(read) >= 2])` -/
def candidates (rs : List SRead) : List SRead := rs.filter longEnough

/-- the read as `readselection` sees it: preferred iff its source id is one of `preferred_source_ids` -/
def SRead.toRead (prefIds : List Nat) (r : SRead) : Read := ⟨r.pos, r.qual, prefIds.contains r.sourceId⟩

inductive StageErr where
  /-- `ValueError` of `readselection` (unreachable behind the `len(read) >= 2` filter: `Props.C07.stage_total`) -/
  | valueError
  /-- a read that is not position-sorted / has a repeated position (outside `Read`'s contract) -/
  | misuse
  | outOfFuel
deriving Repr, DecidableEq

structure SampleOut where
  /-- the candidates (what the trace hook dumps as `candidates[sample].reads`) -/
  cands : List SRead
  /-- `sorted(selected_indices)`: indices into `cands` -/
  selIdx : List Nat
  /-- `readsets[sample]` -/
  selected : List SRead
deriving Repr

/-- the body of `for sample in family` up to `readsets[sample] = selected_reads` -/
def sampleStage (rs : List SRead) (cap : Nat) (prefIds : List Nat) (choices : List Nat) : Except StageErr SampleOut :=
  let cands := candidates rs
  match readselection true (cands.map (SRead.toRead prefIds)) cap true choices with
  | .ok sel => .ok ⟨cands, sortNat sel, (sortNat sel).map (fun i => cands.getD i default)⟩
  | .valueError => .error .valueError
  | .misuse => .error .misuse
  | .outOfFuel => .error .outOfFuel

structure MemberIn where
  reads : List SRead
  /-- `vcf_source_ids` -/
  prefIds : List Nat
  choices : List Nat
deriving Repr

/-- the member loop of one family: every member is selected on its own with the per-sample cap -/
def familyStageSel (k : Int) : List MemberIn → (m : Nat) → Except StageErr (List SampleOut)
  | [], _ => .ok []
  | x :: xs, m =>
    match sampleStage x.reads (perSampleCapInt k m) x.prefIds x.choices with
    | .error e => .error e
    | .ok o =>
      match familyStageSel k xs m with
      | .error e => .error e
      | .ok os => .ok (o :: os)

def familySel (k : Int) (members : List MemberIn) : Except StageErr (List SampleOut) :=
  familyStageSel k members members.length

/-- number of the family's selected reads (all members together) whose span first..last contains `q` -/
def mergedCount (os : List SampleOut) (q : Nat) : Nat :=
  (os.map (fun o => countReads (o.selected.map (SRead.toRead [])) q)).sum

end WhVerif.C07

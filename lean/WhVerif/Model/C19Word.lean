import WhVerif.Model.C19
/-!
# C19 model, part 3: the machine level of `src/genotype.cpp` / `src/binomial.cpp`

`Model/C19.lean` computes with unbounded integers and only models the constructor from a vector.  This file
adds what the C++ really executes, with its fixed-width types, so that the *two coded directions*
`Genotype(uint64_t index, uint32_t ploidy)` and `get_index()` are inside the model together with their
behaviour outside the supported range:

* `wrapI32`, `toU32` – conversion to `int` / `uint32_t` (two's complement, value mod 2³²);
* `binom32` = `binomial_coefficient(int n, int k)` with `result *= (n-i)` wrapping to 32 bits and
  `result /= (i+1)` truncating toward zero (signed overflow is undefined behaviour in C++; this is what the
  compiled code does, and it is what the check observes: `binomial_coefficient(30, 15) = -131213633`);
  `binomU` = the call with `uint32_t` arguments whose result is assigned to a `uint32_t`;
* `convertW` = `convert_index_to_alleles(uint64_t index, uint32_t ploidy)`: the index is *narrowed* to
  `uint32_t max_allele_index = index`, the search uses `binomU`, `--allele_index` and
  `leftover_genotype_index -= …` wrap;
* `getIndexW` = `get_index()` with `uint32_t index`, `uint32_t k`, `allele - 1` wrapping to `-1` for allele 0;
* `setPositionC` / `getPositionC` = `set_position` / `get_position` with their guards
  ("Invalid set position", "Invalid set allele", "Invalid get position");
* `Genotype.ofIndex` = the constructor from an index: convert, `std::sort`, pack (the `MAX_ALLELES` check),
  `set_ploidy`, and the final loop `for (i = 0; i < ploidy-1; i++)` on `uint32_t` – for `ploidy = 0` the
  bound wraps to 2³²−1 and the loop runs into `get_position(16)`, which throws.  There is **no ploidy check**
  in this constructor: ploidy 15 is accepted (the vector constructor rejects it), 16 fails in `set_ploidy`
  ("Invalid set allele"), ≥ 17 in `set_position`.
* the small observers `is_none`, `is_homozygous`, `is_diploid_and_biallelic`, `toString` (ascending alleles),
  `get_max_genotype_ploidy`, `get_max_genotype_alleles`, and `setStateW` = `__setstate__` on the machine level.

Core Lean only.
-/
namespace WhVerif.C19

/-! ## fixed-width conversions -/

/-- value of a mathematical integer after conversion to C `int` (32 bit two's complement) -/
def wrapI32 (x : Int) : Int := (x + 2147483648) % 4294967296 - 2147483648

/-- value after conversion to `uint32_t` -/
def toU32 (x : Int) : Nat := (x % 4294967296).toNat

/-- `x - 1` on `uint32_t` -/
def decU32 (x : Nat) : Nat := (x + 4294967295) % 4294967296

/-! ## binomial.cpp on `int` -/

/-- `for (i = 0; i < k; i++) { result *= (n-i); result /= (i+1); }` on `int` -/
def binom32Loop (n : Int) : (cnt : Nat) → (i result : Int) → Int
  | 0, _, r => r
  | cnt + 1, i, r => binom32Loop n cnt (i + 1) ((wrapI32 (r * (n - i))).tdiv (i + 1))

/-- `binomial_coefficient(int n, int k)` (arguments are `int` values) -/
def binom32 (n k : Int) : Int :=
  if k < 0 ∨ n < 0 ∨ n < k then 0
  else
    let k' := if k > n - k then n - k else k
    binom32Loop n k'.toNat 0 1

/-- the call with two `uint32_t` arguments (converted to `int`), result converted to `uint32_t` -/
def binomU (n k : Nat) : Nat := toU32 (binom32 (wrapI32 n) (wrapI32 k))

/-! ## convert_index_to_alleles on `uint32_t` -/

/-- inner `for` from `allele_index = a` to its `break` (cf. `findAllele`) -/
def findAlleleW (pth leftover maxA : Nat) (a : Nat) : Nat :=
  let i := binomU (decU32 (pth + a)) pth
  if i ≥ leftover ∨ a ≥ maxA then
    if i > leftover then decU32 a else a
  else findAlleleW pth leftover maxA (a + 1)
termination_by maxA - a
decreasing_by omega

/-- outer `while (pth > 0)` -/
def convertLoopW : (pth maxA leftover : Nat) → List Nat
  | 0, _, _ => []
  | pth + 1, maxA, leftover =>
    let a := findAlleleW (pth + 1) leftover maxA 0
    let sub := binomU (decU32 (pth + 1 + a)) (pth + 1)
    convertLoopW pth a ((leftover + 4294967296 - sub) % 4294967296) ++ [a]

/-- `convert_index_to_alleles(uint64_t index, uint32_t ploidy)`; `index < 2⁶⁴` is narrowed to 32 bits -/
def convertW (index ploidy : Nat) : List Nat :=
  convertLoopW ploidy (index % 4294967296) (index % 4294967296)

/-! ## get_index on `uint32_t` -/

/-- `index += binomial_coefficient(k + allele - 1, allele - 1); k += 1` over the ascending alleles -/
def getIndexLoopW : (k index : Nat) → List Nat → Nat
  | _, index, [] => index
  | k, index, a :: as =>
    getIndexLoopW ((k + 1) % 4294967296)
      ((index + toU32 (binom32 (wrapI32 (decU32 (k + a))) (wrapI32 (decU32 a)))) % 4294967296) as

/-- `Genotype::get_index()` -/
def Genotype.getIndexW (g : Genotype) : Nat := getIndexLoopW 1 0 g.allelesAsc

/-- `operator<` as executed -/
def Genotype.ltW (g1 g2 : Genotype) : Bool := g1.getIndexW < g2.getIndexW

/-! ## the guarded nibble accessors and the constructor from an index -/

inductive CErr where
  | ploidy     -- "Error: Maximum ploidy for genotype exceeded!"
  | alleles    -- "Error: Maximum alleles for genotype exceeded!"
  | unsorted   -- "Error: Genotype not sorted! …"
  | setPos     -- "Error: Invalid set position"
  | setAllele  -- "Error: Invalid set allele"
  | getPos     -- "Error: Invalid get position"
deriving Repr, DecidableEq

def Genotype.setPositionC (g : Genotype) (pos allele : Nat) : Except CErr Genotype :=
  if pos > MAX_PLOIDY then .error .setPos
  else if allele ≥ MAX_ALLELES then .error .setAllele
  else .ok (g.setPosition pos allele)

def Genotype.getPositionC (g : Genotype) (pos : Nat) : Except CErr Nat :=
  if pos > MAX_PLOIDY then .error .getPos else .ok (g.getPosition pos)

/-- `for i: if (genotype[i] >= MAX_ALLELES) throw; set_position(ploidy - i - 1, genotype[i]);` -/
def packLoopC (ploidy : Nat) : (i : Nat) → List Nat → Genotype → Except CErr Genotype
  | _, [], g => .ok g
  | i, a :: as, g =>
    if a ≥ MAX_ALLELES then .error .alleles
    else
      match g.setPositionC (ploidy - i - 1) a with
      | .error e => .error e
      | .ok g' => packLoopC ploidy (i + 1) as g'

/-- `for (uint32_t i = 0; i < bound; i++) if (get_position(i) < get_position(i+1)) throw …`; `get_position(16)`
throws, so the loop body runs at most 16 times: `fuel = 17` is never exhausted (`checkLoopC_fuel`) -/
def checkLoopC (g : Genotype) (bound : Nat) : (fuel i : Nat) → Except CErr Unit
  | 0, _ => .ok ()
  | fuel + 1, i =>
    if i < bound then
      match g.getPositionC i, g.getPositionC (i + 1) with
      | .ok x, .ok y => if x < y then .error .unsorted else checkLoopC g bound fuel (i + 1)
      | .error e, _ => .error e
      | _, .error e => .error e
    else .ok ()

/-- `Genotype::Genotype(uint64_t index, uint32_t ploidy)` -/
def Genotype.ofIndex (index ploidy : Nat) : Except CErr Genotype :=
  match packLoopC ploidy 0 (sortAsc (convertW index ploidy)) ⟨0⟩ with
  | .error e => .error e
  | .ok g =>
    match g.setPositionC MAX_PLOIDY ploidy with
    | .error e => .error e
    | .ok g =>
      match checkLoopC g (decU32 ploidy) 17 0 with
      | .error e => .error e
      | .ok _ => .ok g

/-- `__setstate__((index, ploidy))` as executed: `Genotype(convert_index_to_alleles(index, ploidy))` -/
def Genotype.setStateW (index ploidy : Nat) : Except Err Genotype :=
  Genotype.ofAlleles (convertW index ploidy)

/-! ## small observers -/

def Genotype.isNone (g : Genotype) : Bool := g.getPloidy == 0

/-- `is_homozygous` -/
def Genotype.isHomozygous (g : Genotype) : Bool :=
  if g.isNone then false
  else ((List.range g.getPloidy).drop 1).all (fun i => g.getPosition i == g.getPosition 0)

/-- `is_diploid_and_biallelic` -/
def Genotype.isDiploidAndBiallelic (g : Genotype) : Bool :=
  if g.getPloidy != 2 then false
  else (List.range g.getPloidy).all (fun i => !(g.getPosition i > 1))

/-- `toString`: `None` stands for ".", otherwise the alleles in the printed order (ascending) -/
def Genotype.toStringL (g : Genotype) : Option (List Nat) :=
  if g.isNone then none
  else some (g.getPosition (g.getPloidy - 1) ::
    ((List.range g.getPloidy).drop 1).map (fun i => g.getPosition (g.getPloidy - i - 1)))

def getMaxGenotypePloidy : Nat := MAX_PLOIDY
/-- after `fixes/F55.patch`: the largest ploidy the vector constructor accepts -/
def getMaxGenotypePloidyRepaired : Nat := MAX_PLOIDY - 1
def getMaxGenotypeAlleles : Nat := MAX_ALLELES

end WhVerif.C19

import WhVerif.Model.C06
import WhVerif.Spec.C06Affine
/-!
# C06 model, part 2: re-alignment with affine gap costs (`whatshap genotype --affine-gap`)

* `editDistanceAffine` = `align.pyx:edit_distance_affine_gap` (Gotoh): identical prefixes, then identical suffixes are
  skipped; three arrays `a` (last column a (mis)match), `b` (last column a query base over a gap), `c` (last column
  a gap over a base of the other sequence) are filled column by column over the other sequence; `INT_MAX` entries are
  `none` here (in the code they are the float 2³¹, which is never the minimum of a reachable cell and absorbs every
  realistic addend; all reachable values are integers far below 2²⁴, where `float` is exact);
  the mismatch cost is per query base (`mismatch_cost[i-1+len_p]`), so a query base travels with its cost (`QSeq`).
* `realignQ` = `ReadSetReader.realign` returning allele AND quality, for both the default branch (Levenshtein distance,
  quality 30) and the `use_affine` branch (mismatch cost `default_mismatch` for every base — the base qualities are
  commented out in the code —, quality `distances[0][1] - distances[1][1]` after sorting, i.e. ≤ 0, or
  `distances[0][1]` when only one allele is compared).
* `detectRefQ` = `detect_alleles_by_alignment` with those qualities.
-/
namespace WhVerif.C06

/-! ## costs with `INT_MAX` -/

/-- `none` = the `INT_MAX` entries of the three tables -/
abbrev Cost := Option Nat

def cadd (c : Cost) (k : Nat) : Cost := c.map (· + k)

def cmin : Cost → Cost → Cost
  | none, b => b
  | a, none => a
  | some x, some y => some (min x y)

def cmin3 (a b c : Cost) : Cost := cmin a (cmin b c)

/-- one row position of the three tables -/
structure Cell where
  a : Cost
  b : Cost
  c : Cost
deriving Repr, DecidableEq

def Cell.best (x : Cell) : Cost := cmin3 x.a x.b x.c

/-- `f(l, gap_start, gap_ext) = gap_start + (l-1)*gap_ext` (only called with `l ≥ 1`) -/
def gapCost (gs ge l : Nat) : Nat := gs + (l - 1) * ge

/-- rows `i, i+1, …` of the initial tables (column 0): `a[i] = c[i] = INT_MAX`, `b[i] = f(i)` -/
def initGo (gs ge : Nat) : Nat → QSeq → List Cell
  | _, [] => []
  | i, _ :: q => ⟨none, some (gapCost gs ge i), none⟩ :: initGo gs ge (i + 1) q

/-- the tables before the first column: `a[0] = b[0] = c[0] = 0`, then `initGo` -/
def initCol (gs ge : Nat) (q : QSeq) : List Cell := ⟨some 0, some 0, some 0⟩ :: initGo gs ge 1 q

/-- the inner loop `for i in range(1, m+1)` for the column of base `y`: `q` = query bases from row `i` on,
`pd` = previous column at row `i-1` (`prev_a/b/c`), `na` = new column at row `i-1` (`a[i-1]`, … already overwritten),
third list = previous column from row `i` on (`a[i]`, … not yet overwritten) -/
def colGo (gs ge : Nat) (y : Char) : QSeq → Cell → Cell → List Cell → List Cell
  | x :: q, pd, na, p :: ps =>
    let cell : Cell :=
      ⟨cadd pd.best (if x.1 == y then 0 else x.2),
       cmin3 (cadd na.a gs) (cadd na.b ge) (cadd na.c gs),
       cmin3 (cadd p.a gs) (cadd p.b gs) (cadd p.c ge)⟩
    cell :: colGo gs ge y q p cell ps
  | _, _, _, _ => []

/-- one iteration of `for j in range(1, n+1)`: row 0 becomes `(INT_MAX, INT_MAX, f(j))`, then the inner loop -/
def nextCol (gs ge : Nat) (q : QSeq) (j : Nat) (y : Char) : List Cell → List Cell
  | [] => []
  | p0 :: ps =>
    let c0 : Cell := ⟨none, none, some (gapCost gs ge j)⟩
    c0 :: colGo gs ge y q p0 c0 ps

/-- the outer loop over the remaining bases of the other sequence; `j` columns are done -/
def dpCols (gs ge : Nat) (q : QSeq) : Nat → List Char → List Cell → List Cell
  | _, [], col => col
  | j, y :: r, col => dpCols gs ge q (j + 1) r (nextCol gs ge q (j + 1) y col)

/-- the DP without the prefix/suffix shortcut: `int(min(a[m], b[m], c[m]))` -/
def affineDP (gs ge : Nat) (q : QSeq) (r : List Char) : Nat :=
  match (dpCols gs ge q 0 r (initCol gs ge q)).getLast? with
  | some cell => cell.best.getD 0
  | none => 0

/-- "Skip identical prefixes" -/
def stripPre : QSeq → List Char → QSeq × List Char
  | x :: q, y :: r => if x.1 == y then stripPre q r else (x :: q, y :: r)
  | q, r => (q, r)

/-- "Skip identical suffixes" -/
def stripSuf (q : QSeq) (r : List Char) : QSeq × List Char :=
  let p := stripPre q.reverse r.reverse
  (p.1.reverse, p.2.reverse)

/-- `edit_distance_affine_gap(query, ref, mismatch_cost, gap_start, gap_extend)`, the query bases zipped with their
mismatch costs (`assert len(query) == len(mismatch_cost)`) -/
def editDistanceAffine (gs ge : Nat) (q : QSeq) (r : List Char) : Nat :=
  let p := stripPre q r
  let s := stripSuf p.1 p.2
  affineDP gs ge s.1 s.2

/-- parameters of the affine branch of `realign` (`gap_start`, `gap_extend`, `default_mismatch`; defaults 10, 7, 15) -/
structure AffineCfg where
  gs : Nat
  ge : Nat
  mm : Nat
  /-- proposed repair F42: the quality is `distances[1][1] - distances[0][1]` (as-is `false`: the reversed difference) -/
  fixSign : Bool
deriving Repr, DecidableEq

/-- the distance the affine branch of `realign` uses: every base gets `default_mismatch` -/
def affineDist (p : AffineCfg) (query allele : Seq) : Nat :=
  editDistanceAffine p.gs p.ge (query.map (fun ch => (ch, p.mm))) allele

/-- the distance function of `realign`: affine branch or Levenshtein -/
def distOf : Option AffineCfg → Seq → Seq → Nat
  | none => levFast
  | some p => affineDist p

/-! ## `realign` with qualities -/

/-- `base_qual_score`: 30 in the default branch; `distances[0][1] - distances[1][1]` (sorted, so ≤ 0) or
`distances[0][1]` in the affine branch -/
def qualityOf (aff : Option AffineCfg) (sorted : List (Nat × Nat)) : Int :=
  match aff with
  | none => 30
  | some p =>
    match sorted with
    | [] => 0
    | [a] => (a.2 : Int)
    | a :: b :: _ => if p.fixSign then (b.2 : Int) - (a.2 : Int) else (a.2 : Int) - (b.2 : Int)

/-- `ReadSetReader.realign`: (allele, quality) -/
def realignQ (f14 : Bool) (aff : Option AffineCfg) (v : Variant) (restricted : Option (List Nat)) (query : Seq)
    (cigar : Cigar) (i consumed : Nat) (queryPos : Int) (reference : Seq) (overhang : Nat) :
    Except Err (Option (Nat × Int)) :=
  if isSymbolic v then .ok none else
  match window f14 v query cigar i consumed queryPos reference overhang with
  | .error e => .error e
  | .ok w =>
    let ds := distances (distOf aff) restricted w
    match decideAllele ds with
    | .error e => .error e
    | .ok none => .ok none
    | .ok (some a) => .ok (some (a, qualityOf aff (sortDist ds)))

/-- `detect_alleles_by_alignment` with qualities; `hasSeq = false`: `bam_read.query_sequence` is `None`
(SEQ `*`), slicing it in `realign` is a `TypeError` (reported as `Err.value`-free outcome `typeErr = true`) -/
def detectRefGoQ (f14 : Bool) (aff : Option AffineCfg) (variants : List Variant) (restricted : Option (List (List Nat)))
    (cigar : Cigar) (query reference : Seq) (overhang : Nat) :
    List Yield → List (Nat × Nat × Int) × Option Err
  | [] => ([], none)
  | y :: ys =>
    match variants[y.index]? with
    | none => ([], some .index)
    | some v =>
      let r : Except Err (Option (List Nat)) := match restricted with
        | none => .ok none
        | some rs => match rs[y.index]? with | none => .error Err.index | some x => .ok (some x)
      match r with
      | .error e => ([], some e)
      | .ok r =>
        match realignQ f14 aff v r query cigar y.i y.consumed y.queryPos reference overhang with
        | .error e => ([], some e)
        | .ok a =>
          let t := detectRefGoQ f14 aff variants restricted cigar query reference overhang ys
          ((match a with | some a => [(y.index, a.1, a.2)] | none => []) ++ t.1, t.2)

def detectRefQ (f14 : Bool) (aff : Option AffineCfg) (variants : List Variant) (restricted : Option (List (List Nat)))
    (j refStart : Nat) (cigar : Cigar) (query reference : Seq) (overhang : Nat) :
    List (Nat × Nat × Int) × Option Err :=
  if cigar.isEmpty then ([], none) else
  let it := iterateCigar (variants.map (·.pos)) j refStart cigar
  let r := detectRefGoQ f14 aff variants restricted cigar query reference overhang it.1
  match r.2 with
  | some e => (r.1, some e)
  | none => (r.1, it.2)

end WhVerif.C06

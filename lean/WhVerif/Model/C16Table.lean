/-!
# C16 model: per-sample results written into a table

`whatshap genotype` (posterior likelihood list of each family member, `run_genotype`: `for s in family: … likelihood_list[i] =
likelihoods`), `whatshap haplotag` (`read_to_haplotype[(sample_key, read name)] = …` for every shared sample) and
`whatshap polyphase` (one result per sample) iterate over a SET of sample names and write one result per sample into a
table.  The iteration order of a set of strings depends on PYTHONHASHSEED; the table afterwards does not — as long as
every sample writes to its OWN key.  A write is a pair (key, value); the run performs the writes in enumeration order.
-/
namespace WhVerif.C16

/-- the table after the writes `ws` (in this order) on top of `t`: a later write to the same key replaces an earlier one -/
def writeAll {κ ν : Type} [DecidableEq κ] (ws : List (κ × ν)) (t : κ → Option ν) : κ → Option ν :=
  ws.foldl (fun t w => fun k => if k = w.1 then some w.2 else t k) t

/-- `haplotag`: the key under which the assignment of a read of `sample` is stored: with `--ignore-read-groups` the
sample is replaced by `None` (here 0) -/
def haplotagKey (ignoreReadGroups : Bool) (sample readName : Nat) : Nat × Nat :=
  (if ignoreReadGroups then 0 else sample + 1, readName)

end WhVerif.C16

/-!
# C07 model: `whatshap/readselect.pyx` (readselection, readselection_helper, _slice_read_selection,
# scores), `whatshap/coverage.py` (CovMonitor), the per-family cap of `whatshap/cli/phase.py`.

Core Lean only.  Faithful to the code as it is, with these (documented) representation choices:

* A read is its list of variant positions (in read order), the qualities at those variants and the
  flag "source_id ∈ preferred_source_ids".  `vcf_indices` (position ↦ rank in the sorted position
  list) is an order isomorphism, so "variant index in `[begin, end)`" is "own position `p` of the read
  set with `first ≤ p ≤ last`"; the model works on positions and never materialises the indices.
* `CovMonitor.coverage` is kept as the history of `add_read(begin,end)` calls (`Cov`): by definition of
  `add_read`, `coverage[i]` = number of recorded calls whose range contains `i` (`Cov.at`).
  `max(coverage[begin:end]) >= max_cov` is `blocked` (some own position in the span has `coverage ≥ k`).
* The priority queue is ABSTRACT: a list of `(item, score)`; `pop` returns any entry whose
  lexicographic 3-score is maximal (the refinement target of C18).  Which maximal entry is taken is
  decided by the argument `choices : List Nat` (one number per pop, index modulo the number of
  maximal entries; `0` when the list is exhausted).  Heap layout, CPython `set` iteration order and the
  order of `change_score` calls are thereby abstracted (none of them is observable otherwise).
* `ComponentFinder` is the partition it represents (label = minimum position of the class, which is
  what C18 shows `find` returns); only the number of distinct blocks a read touches is used.
* Loops run on fuel that is *proved* sufficient (`Props.C07.terminates`): the slice/bridging loops pop
  one entry per iteration (fuel = queue length), the outer `while len(undecided_reads) > 0` removes at
  least one read per iteration (fuel = number of undecided reads).
* Defect F9 (aliasing): `readselection` hands the set object `preferred_reads` to the helper as its
  `undecided_reads`; the helper empties it in place, so `undecided_reads -= preferred_reads` removes
  nothing and the second phase starts from ALL reads.  `readselection (fixed := false)` is the code as it
  is; `fixed := true` is the repaired behaviour (`set(preferred_reads)` is passed, fixes/F9.patch).
-/
namespace WhVerif.C07

/-! ## reads, positions -/

structure Read where
  /-- variant positions in read order (`read.getPosition(i)`) -/
  pos : List Nat
  /-- `read.getVariantQuality(i)` -/
  qual : List Int
  /-- `read.source_id in preferred_source_ids` -/
  pref : Bool
deriving Repr, DecidableEq, Inhabited

def Read.first (r : Read) : Nat := r.pos.headD 0
def Read.last (r : Read) : Nat := r.pos.getLastD 0

/-- position `p` lies in the span first..last of the read -/
def Read.spans (r : Read) (p : Nat) : Bool := decide (r.first ≤ p) && decide (p ≤ r.last)

def strictSorted : List Nat → Bool
  | [] => true
  | [_] => true
  | a :: b :: rest => decide (a < b) && strictSorted (b :: rest)

/-- what `ReadSet`/`Read` guarantee in the pipeline (reads are sorted by position, no duplicate
position, one quality per variant); anything else is outside the contract of `readselection` -/
def Read.wf (r : Read) : Bool := strictSorted r.pos && r.qual.length == r.pos.length

def insertNew (x : Nat) (acc : List Nat) : List Nat := if acc.contains x then acc else x :: acc

/-- set union, as a duplicate-free list when `b` is duplicate-free -/
def union (a b : List Nat) : List Nat := a.foldr insertNew b

def dedup (l : List Nat) : List Nat := union l []

/-- `readset.get_positions()` as a set (the order is never observed by the model) -/
def positions (reads : List Read) : List Nat := dedup (reads.flatMap (·.pos))

def getRead (reads : List Read) (i : Nat) : Read := reads.getD i default

/-! ## coverage monitor -/

abbrev Cov := List (Nat × Nat)

/-- `coverage[vcf_indices[p]]` -/
def Cov.at (c : Cov) (p : Nat) : Nat := c.countP (fun s => decide (s.1 ≤ p) && decide (p ≤ s.2))

/-- `add_read(begin, end)` for the span of `r` -/
def Cov.add (c : Cov) (r : Read) : Cov := (r.first, r.last) :: c

/-- `coverages.max_coverage_in_range(begin, end) >= max_cov` -/
def blocked (P : List Nat) (c : Cov) (k : Nat) (r : Read) : Bool :=
  P.any (fun p => r.spans p && decide (k ≤ c.at p))

/-! ## scores and the abstract priority queue -/

structure Score where
  a : Int
  b : Int
  q : Int
deriving Repr, DecidableEq, Inhabited

/-- `_vector_score_lower` on 3-vectors -/
def Score.lt (x y : Score) : Bool :=
  decide (x.a < y.a) || (x.a == y.a && (decide (x.b < y.b) || (x.b == y.b && decide (x.q < y.q))))

structure Entry where
  item : Nat
  score : Score
deriving Repr, DecidableEq, Inhabited

/-- `min_quality` of `_compute_score_for_read` -/
def minQual : List Int → Int
  | [] => -1
  | q :: qs => qs.foldl min q

/-- `covered_variants[-1] - covered_variants[0] + 1`: number of own positions in the span -/
def spanLen (P : List Nat) (r : Read) : Nat := P.countP r.spans

/-- `_compute_score_for_read`: `(good - bad, good - bad, min quality)` -/
def initScore (P : List Nat) (r : Read) : Score :=
  let good : Int := r.pos.length
  let bad : Int := (spanLen P r : Int) - (r.pos.length : Int)
  ⟨good - bad, good - bad, minQual r.qual⟩

/-- `_update_score_for_reads`: the first component drops by the number of variants of the read that
are NOT among the positions newly covered by the read just selected (sic) -/
def updScore (s : Score) (r : Read) (newvars : List Nat) : Score :=
  { s with a := s.a - ((r.pos.countP (fun p => !newvars.contains p) : Nat) : Int) }

/-- `_construct_priorityqueue` -/
def mkQueue (reads : List Read) (P : List Nat) (items : List Nat) : List Entry :=
  items.map (fun i => ⟨i, initScore P (getRead reads i)⟩)

def isMax (pq : List Entry) (e : Entry) : Bool := pq.all (fun f => !e.score.lt f.score)

/-- indices (into `pq`) of the entries of maximal score -/
def maxIdx (pq : List Entry) : List Nat := (List.range pq.length).filter (fun j => isMax pq (pq.getD j default))

/-- abstract `c_pop`: the `c`-th (mod number of ties) maximal entry; `none` iff the queue is empty.
Returns the resolved choice index, the entry and the remaining queue. -/
def popChoice (pq : List Entry) (c : Nat) : Option (Nat × Entry × List Entry) :=
  match pq with
  | [] => none
  | _ :: _ =>
    let m := maxIdx pq
    let ci := c % m.length
    let j := m.getD ci 0
    some (ci, pq.getD j default, pq.eraseIdx j)

/-! ## `_slice_read_selection` -/

structure SliceSt where
  pq : List Entry
  cov : Cov
  /-- `already_covered_variants` -/
  covered : List Nat
  /-- `reads_in_slice` -/
  inSlice : List Nat
  /-- `reads_violating_coverage` -/
  violating : List Nat
  choices : List Nat
  /-- resolved choice indices so far, newest first -/
  trace : List Nat
deriving Repr

/-- body of the `while not pq.c_is_empty()` loop for the popped entry `e` (already removed) -/
def sliceStep (reads : List Read) (P : List Nat) (k : Nat) (st : SliceSt) (e : Entry) : SliceSt :=
  let r := getRead reads e.item
  let newvars := r.pos.filter (fun p => !st.covered.contains p)
  if blocked P st.cov k r then
    { st with violating := insertNew e.item st.violating }
  else if !newvars.isEmpty then
    let inSlice := insertNew e.item st.inSlice
    let pq := st.pq.map (fun f =>
      let rf := getRead reads f.item
      if rf.pos.any (fun p => newvars.contains p) && !inSlice.contains f.item then
        { f with score := updScore f.score rf newvars }
      else f)
    { st with cov := st.cov.add r, inSlice := inSlice, covered := union newvars st.covered, pq := pq }
  else st

def sliceLoop (reads : List Read) (P : List Nat) (k : Nat) : Nat → SliceSt → SliceSt
  | 0, st => st
  | n + 1, st =>
    match popChoice st.pq (st.choices.headD 0) with
    | none => st
    | some (ci, e, pq') =>
      sliceLoop reads P k n (sliceStep reads P k { st with pq := pq', choices := st.choices.tail, trace := ci :: st.trace } e)

/-! ## component finder as a partition: position ↦ label (minimum of its class) -/

abbrev Comp := List (Nat × Nat)

def Comp.init (P : List Nat) : Comp := P.map (fun p => (p, p))
def Comp.find (c : Comp) (p : Nat) : Nat := ((c.find? (fun e => e.1 == p)).map (·.2)).getD p
def Comp.merge (c : Comp) (x y : Nat) : Comp :=
  let lx := c.find x
  let ly := c.find y
  let l := min lx ly
  c.map (fun e => if e.2 == lx || e.2 == ly then (e.1, l) else e)

/-- `for i in range(1, n): component_finder.merge(read.getPosition(0), read.getPosition(i))` -/
def Comp.mergeRead (c : Comp) (r : Read) : Comp := r.pos.tail.foldl (fun c p => c.merge r.first p) c

/-- `len(covered_blocks)` -/
def Comp.blocks (c : Comp) (r : Read) : Nat := (dedup (r.pos.map c.find)).length

/-! ## `readselection_helper` -/

structure HSt where
  cov : Cov
  /-- `selected_reads` (duplicate-free) -/
  selected : List Nat
  /-- `undecided_reads` -/
  undecided : List Nat
  choices : List Nat
  trace : List Nat
deriving Repr

structure BridgeSt where
  pq : List Entry
  cov : Cov
  selected : List Nat
  undecided : List Nat
  comp : Comp
  choices : List Nat
  trace : List Nat
deriving Repr

/-- body of the bridging loop for the popped entry `e` -/
def bridgeStep (reads : List Read) (P : List Nat) (k : Nat) (st : BridgeSt) (e : Entry) : BridgeSt :=
  let r := getRead reads e.item
  if blocked P st.cov k r then
    { st with undecided := st.undecided.filter (· != e.item) }
  else if st.comp.blocks r < 2 then st
  else
    { st with selected := insertNew e.item st.selected, cov := st.cov.add r,
              undecided := st.undecided.filter (· != e.item), comp := st.comp.mergeRead r }

def bridgeLoop (reads : List Read) (P : List Nat) (k : Nat) : Nat → BridgeSt → BridgeSt
  | 0, st => st
  | n + 1, st =>
    match popChoice st.pq (st.choices.headD 0) with
    | none => st
    | some (ci, e, pq') =>
      bridgeLoop reads P k n (bridgeStep reads P k { st with pq := pq', choices := st.choices.tail, trace := ci :: st.trace } e)

def sliceInit (reads : List Read) (P : List Nat) (st : HSt) : SliceSt :=
  { pq := mkQueue reads P st.undecided, cov := st.cov, covered := [], inSlice := [], violating := [],
    choices := st.choices, trace := st.trace }

/-- state after the slice, before bridging: `selected_reads.update(reads_in_slice)`,
`undecided_reads -= reads_in_slice`, `undecided_reads -= reads_violating_coverage`, new component
finder from the reads just selected, new queue from the undecided reads -/
def bridgeInit (reads : List Read) (P : List Nat) (st : HSt) (s : SliceSt) : BridgeSt :=
  let und := st.undecided.filter (fun i => !s.inSlice.contains i && !s.violating.contains i)
  { pq := mkQueue reads P und, cov := s.cov, selected := union s.inSlice st.selected, undecided := und,
    comp := s.inSlice.foldl (fun c i => c.mergeRead (getRead reads i)) (Comp.init P),
    choices := s.choices, trace := s.trace }

def bridgeExit (b : BridgeSt) : HSt :=
  { cov := b.cov, selected := b.selected, undecided := b.undecided, choices := b.choices, trace := b.trace }

/-- one iteration of `while len(undecided_reads) > 0` -/
def helperIter (reads : List Read) (P : List Nat) (k : Nat) (bridging : Bool) (st : HSt) : HSt :=
  let s0 := sliceInit reads P st
  let s := sliceLoop reads P k s0.pq.length s0
  let b0 := bridgeInit reads P st s
  if bridging then bridgeExit (bridgeLoop reads P k b0.pq.length b0)
  else bridgeExit { b0 with pq := [] }

def helperLoop (reads : List Read) (P : List Nat) (k : Nat) (bridging : Bool) : Nat → HSt → HSt
  | 0, st => st
  | n + 1, st =>
    if st.undecided.isEmpty then st
    else helperLoop reads P k bridging n (helperIter reads P k bridging st)

/-- `readselection_helper` with the proved-sufficient fuel -/
def helper (reads : List Read) (P : List Nat) (k : Nat) (bridging : Bool) (st : HSt) : HSt :=
  helperLoop reads P k bridging st.undecided.length st

/-! ## `readselection` -/

inductive Outcome where
  /-- `ValueError('readselection expects reads that cover at least two variants')` -/
  | valueError
  /-- input outside the contract (unsorted read, duplicate position, quality list of other length) -/
  | misuse
  /-- a loop ran out of fuel (never: `Props.C07.terminates`) -/
  | outOfFuel
  /-- the returned set of read indices (in the model's internal order; the driver sorts) -/
  | ok (selected : List Nat)
deriving Repr, DecidableEq

def preferredIdx (reads : List Read) : List Nat :=
  (List.range reads.length).filter (fun i => (getRead reads i).pref)

/-- final helper states of the two phases (second component: state after the preferred phase) -/
def phases (fixed : Bool) (reads : List Read) (k : Nat) (bridging : Bool) (choices : List Nat) : HSt × HSt :=
  let P := positions reads
  let all := List.range reads.length
  let pref := preferredIdx reads
  let st0 : HSt := { cov := [], selected := [], undecided := [], choices := choices, trace := [] }
  -- `if len(preferred_reads) > 0:` first the preferred reads alone
  let st1 := if pref.isEmpty then st0 else helper reads P k bridging { st0 with undecided := pref }
  -- `undecided_reads -= preferred_reads`: as the code is, `preferred_reads` has been emptied by the helper
  let und2 := if fixed then all.filter (fun i => !pref.contains i) else all
  (st1, helper reads P k bridging { st1 with undecided := und2 })

/-- `readselection(readset, max_cov, preferred_source_ids, bridging)`; `fixed = false` is the code as it
is (F9), `fixed = true` the repaired code -/
def readselection (fixed : Bool) (reads : List Read) (k : Nat) (bridging : Bool) (choices : List Nat) : Outcome :=
  if reads.any (fun r => decide (r.pos.length < 2)) then .valueError
  else if !reads.all Read.wf then .misuse
  else
    let ph := phases fixed reads k bridging choices
    if !ph.1.undecided.isEmpty || !ph.2.undecided.isEmpty then .outOfFuel
    else .ok ph.2.selected

/-! ## the per-family cap of `whatshap phase` (default exact algorithm)

`max_coverage_per_sample = max(1, max_coverage // len(family))`; every member's reads are selected
separately with that cap (`select_reads`, bridging on, the member's own position list). -/

def perSampleCap (k m : Nat) : Nat := max 1 (k / m)

/-- the reads handed to the solver for one family: per member the selected reads (as reads) -/
def familySelect (fixed : Bool) (members : List (List Read)) (k : Nat) (choices : List (List Nat)) : List (List Read) :=
  (members.zip (choices ++ List.replicate members.length [])).map (fun (reads, cs) =>
    match readselection fixed reads (perSampleCap k members.length) true cs with
    | .ok sel => sel.map (getRead reads)
    | _ => [])

/-! ## enumeration of all tie choices (for the correspondence check)

Breadth-first over the same step functions, all maximal entries at every pop, states merged when they
agree on everything but the choice bookkeeping.  `explore` yields choice lists; `allOutcomes` is the
set of `readselection … choices` over them, so every element IS an outcome of the verified function
(`Props.C07.allOutcomes_sound`). -/

/-- insertion sort (structural, so that closed instances reduce in the kernel) -/
def insertBy {α : Type} (le : α → α → Bool) (x : α) : List α → List α
  | [] => [x]
  | y :: ys => if le x y then x :: y :: ys else y :: insertBy le x ys

def sortBy {α : Type} (le : α → α → Bool) (l : List α) : List α := l.foldr (insertBy le) []

def sortNat (l : List Nat) : List Nat := sortBy (fun a b => decide (a ≤ b)) l
def sortCov (c : Cov) : Cov := sortBy (fun a b => decide (a.1 < b.1) || (a.1 == b.1 && decide (a.2 ≤ b.2))) c

def dedupBy {α κ : Type} [BEq κ] (key : α → κ) (l : List α) : List α :=
  (l.foldl (fun (acc : List (κ × α)) x => let kx := key x; if acc.any (fun p => p.1 == kx) then acc else (kx, x) :: acc) []).reverse.map (·.2)

def popAll (pq : List Entry) : List (Nat × Entry × List Entry) :=
  let m := maxIdx pq
  (List.range m.length).map (fun ci => let j := m.getD ci 0; (ci, pq.getD j default, pq.eraseIdx j))

def SliceSt.key (s : SliceSt) :=
  (s.pq.map (fun e => (e.item, e.score.a, e.score.b, e.score.q)), sortCov s.cov, sortNat s.covered, sortNat s.inSlice, sortNat s.violating)

def sliceAll (reads : List Read) (P : List Nat) (k : Nat) : Nat → List SliceSt → List SliceSt
  | 0, sts => sts
  | n + 1, sts =>
    let next := sts.flatMap (fun st =>
      match popAll st.pq with
      | [] => [st]
      | cands => cands.map (fun (ci, e, pq') => sliceStep reads P k { st with pq := pq', trace := ci :: st.trace } e))
    sliceAll reads P k n (dedupBy SliceSt.key next)

def BridgeSt.key (s : BridgeSt) :=
  (s.pq.map (fun e => (e.item, e.score.a, e.score.b, e.score.q)), sortCov s.cov, sortNat s.selected, sortNat s.undecided, s.comp)

def bridgeAll (reads : List Read) (P : List Nat) (k : Nat) : Nat → List BridgeSt → List BridgeSt
  | 0, sts => sts
  | n + 1, sts =>
    let next := sts.flatMap (fun st =>
      match popAll st.pq with
      | [] => [st]
      | cands => cands.map (fun (ci, e, pq') => bridgeStep reads P k { st with pq := pq', trace := ci :: st.trace } e))
    bridgeAll reads P k n (dedupBy BridgeSt.key next)

def HSt.key (s : HSt) := (sortCov s.cov, sortNat s.selected, sortNat s.undecided)

def helperIterAll (reads : List Read) (P : List Nat) (k : Nat) (bridging : Bool) (st : HSt) : List HSt :=
  let s0 := sliceInit reads P st
  let ss := sliceAll reads P k s0.pq.length [s0]
  let bs := ss.map (bridgeInit reads P st)
  if bridging then
    (bridgeAll reads P k st.undecided.length (dedupBy BridgeSt.key bs)).map bridgeExit
  else bs.map (fun b0 => bridgeExit { b0 with pq := [] })

def helperAll (reads : List Read) (P : List Nat) (k : Nat) (bridging : Bool) : Nat → List HSt → List HSt
  | 0, sts => sts
  | n + 1, sts =>
    let next := sts.flatMap (fun st =>
      if st.undecided.isEmpty then [st] else helperIterAll reads P k bridging st)
    helperAll reads P k bridging n (dedupBy HSt.key next)

/-- choice lists reaching every distinct final state -/
def explore (fixed : Bool) (reads : List Read) (k : Nat) (bridging : Bool) : List (List Nat) :=
  let P := positions reads
  let all := List.range reads.length
  let pref := preferredIdx reads
  let st0 : HSt := { cov := [], selected := [], undecided := [], choices := [], trace := [] }
  let sts1 := if pref.isEmpty then [st0] else helperAll reads P k bridging pref.length [{ st0 with undecided := pref }]
  let und2 := if fixed then all.filter (fun i => !pref.contains i) else all
  let sts2 := helperAll reads P k bridging und2.length (sts1.map (fun st1 => { st1 with undecided := und2 }))
  sts2.map (fun st => st.trace.reverse)

def Outcome.canon : Outcome → Outcome
  | .ok sel => .ok (sortNat sel)
  | o => o

def dedupOutcomes (l : List Outcome) : List Outcome :=
  l.foldr (fun o acc => if acc.contains o then acc else o :: acc) []

def allOutcomes (fixed : Bool) (reads : List Read) (k : Nat) (bridging : Bool) : List Outcome :=
  dedupOutcomes ((explore fixed reads k bridging).map (fun cs => (readselection fixed reads k bridging cs).canon))

end WhVerif.C07

/-! Costs in `Option Nat` (`none` = +∞ = infeasible), minimum over a list, order-theoretic characterisation of minima. Core Lean only. -/


namespace WhVerif.Cost

/-- cost order: none = +infinity -/
def cle : Option Nat → Option Nat → Prop
  | _, none => True
  | none, some _ => False
  | some a, some b => a ≤ b

def cadd : Option Nat → Option Nat → Option Nat
  | some a, some b => some (a + b)
  | _, _ => none

def cmin : Option Nat → Option Nat → Option Nat
  | none, y => y
  | x, none => x
  | some a, some b => some (min a b)

theorem cle_refl (a : Option Nat) : cle a a := by cases a <;> simp [cle]
theorem cle_trans {a b c : Option Nat} : cle a b → cle b c → cle a c := by
  cases a <;> cases b <;> cases c <;> simp [cle] <;> omega
theorem cle_antisymm {a b : Option Nat} : cle a b → cle b a → a = b := by
  cases a <;> cases b <;> simp [cle] <;> omega
theorem cmin_le_left (a b : Option Nat) : cle (cmin a b) a := by
  cases a <;> cases b <;> simp [cle, cmin] <;> omega
theorem cmin_le_right (a b : Option Nat) : cle (cmin a b) b := by
  cases a <;> cases b <;> simp [cle, cmin] <;> omega
theorem cmin_eq (a b : Option Nat) : cmin a b = a ∨ cmin a b = b := by
  cases a <;> cases b <;> simp [cmin] <;> omega
theorem cadd_mono {a b c d : Option Nat} : cle a b → cle c d → cle (cadd a c) (cadd b d) := by
  cases a <;> cases b <;> cases c <;> cases d <;> simp [cle, cadd] <;> omega

/-- minimum of f over a list -/
def minOver {α} (l : List α) (f : α → Option Nat) : Option Nat :=
  l.foldr (fun x acc => cmin (f x) acc) none

/-- order-theoretic characterisation: lower bound, and attained unless +∞ -/
structure IsMinOf {α} (S : α → Prop) (f : α → Option Nat) (m : Option Nat) : Prop where
  lb : ∀ x, S x → cle m (f x)
  att : m = none ∨ ∃ x, S x ∧ f x = m

theorem IsMinOf.unique {α} {S : α → Prop} {f : α → Option Nat} {m m' : Option Nat}
    (h : IsMinOf S f m) (h' : IsMinOf S f m') : m = m' := by
  apply cle_antisymm
  · rcases h'.att with e | ⟨x, hx, e⟩
    · subst e; cases m <;> simp [cle]
    · rw [← e]; exact h.lb x hx
  · rcases h.att with e | ⟨x, hx, e⟩
    · subst e; cases m' <;> simp [cle]
    · rw [← e]; exact h'.lb x hx

theorem minOver_isMin {α} (l : List α) (f : α → Option Nat) :
    IsMinOf (fun x => x ∈ l) f (minOver l f) := by
  induction l with
  | nil =>
    constructor
    · intro x hx; cases hx
    · exact Or.inl rfl
  | cons a l ih =>
    constructor
    · intro x hx
      simp only [minOver, List.foldr] at *
      rcases List.mem_cons.mp hx with rfl | hx
      · exact cmin_le_left _ _
      · exact cle_trans (cmin_le_right _ _) (ih.lb x hx)
    · simp only [minOver, List.foldr] at *
      rcases cmin_eq (f a) (List.foldr (fun x acc => cmin (f x) acc) none l) with e | e
      · right; exact ⟨a, List.mem_cons_self, e.symm⟩
      · rw [e]
        rcases ih.att with e' | ⟨x, hx, e'⟩
        · left; exact e'
        · right; exact ⟨x, List.mem_cons_of_mem _ hx, e'⟩

end WhVerif.Cost

import WhVerif.Model.C12Run
import WhVerif.Model.C09File
/-!
# C12 model, part 3: `run_stats` on a multi-sample file, on top of the whole-file reader of `Model/C09File.lean`

What `Model/C12.lean` / `C12Run.lean` assumed about the reader (one sample, one consistent ploidy, one phasing encoding per
chromosome, well-formed HP) is modelled here as the code has it:

* `selectSample`: no sample column → error exit; `--sample S` (a non-empty string) must be a sample of the header, else error
  exit; otherwise the first sample (`if sample:` — an empty `--sample` is the default, too);
* the tables come from `C09.readChromP` (`VcfReader._process_single_chromosome(phases=True)` on ALL samples: `phase_detected`
  per table → `MixedPhasingError`, `self.ploidy` carried from table to table — in file order when the file is iterated, in
  the order of the fetches with an index — → `PloidyError`, malformed HP → `hpFormat`, `VcfNotSortedError`), lazily: a
  table is read when the loop of `run_stats` asks for it, so an error in a chromosome behind the early exit is never raised
  (`fileTables` stops at the first table that raises);
* `varOfRow`: what `get_phase_blocks` reads of a row for the selected sample (`genotypes_of`, `phases_of`, `is_snv`);
* `fileLoop` = the chromosome loop of `run_stats` (the same text as `runLoop`, with the reader's errors passed through).
Core Lean only.
-/
namespace WhVerif.C12File
open WhVerif.C12
open WhVerif.C04 (Record)

inductive FileErr
  | noSample                           -- "Input VCF does not contain any sample" (`return 1`)
  | sampleNotFound                     -- "Requested sample (..) not found" (`return 1`)
  | reader (e : WhVerif.C09.Err)       -- raised by `VcfReader` while a table is read
  | run (e : RunErr)                   -- raised by `run_stats` itself / by the indexed fetch
deriving DecidableEq, Repr

/-- `Genotype.is_none()` / `is_homozygous()` of `genotype_code(call["GT"])` -/
def genoOfCode (g : List Nat) : Geno :=
  if g.isEmpty then .missing else if WhVerif.C04.isHom g then .hom else .het

/-- `phase.block_id` as `get_phase_blocks` uses it (`fixPs`: `None` → 0) -/
def phaseOfRow (f : Flags) (p : Option WhVerif.C09.Phase) : Option BlockId :=
  p.map fun ph =>
    match ph.block with
    | some b => some b.toNat
    | none => if f.fixPs then some 0 else none

/-- the variant `get_phase_blocks` sees in a row of the table for sample number `si` -/
def varOfRow (f : Flags) (si : Nat) (r : WhVerif.C09.Row) : Var :=
  let c := r.calls.getD si ([], none)
  ⟨r.pos, r.ref != r.alt && r.ref.length == 1 && r.alt.length == 1, genoOfCode c.1, phaseOfRow f c.2⟩

/-- the sample `run_stats` reports: its column number -/
def selectSample (samples : List String) (sample : Option String) : Except FileErr Nat :=
  if samples.isEmpty then .error .noSample
  else
    match sample with
    | none => .ok 0
    | some s =>
      if s == "" then .ok 0
      else if samples.contains s then .ok (samples.idxOf s) else .error .sampleNotFound

structure FileIn where
  flags : Flags
  dedupGiven : Bool
  onlySnvs : Bool
  wantBl : Bool
  indexed : Bool
  contigs : List String
  lens : List (String × Nat)
  given : List String
  samples : List String                      -- header
  sample : Option String                     -- `--sample`
  groups : List (String × List Record)       -- the data lines grouped by chromosome, file order, all samples

abbrev FTable := String × Except FileErr (List Var)

/-- the records `fetch(c)` returns -/
def recsOfG (groups : List (String × List Record)) (c : String) : List Record :=
  (groups.filter (fun g => g.1 == c)).flatMap (·.2)

/-- what `parse_variant_tables` hands to the reader, in order: `none` = a contig the header lacks (`VcfInvalidChromosome`) -/
def fetchPlan (i : FileIn) (given : List String) : List (String × Option (List Record)) :=
  if !given.isEmpty && i.indexed then
    (if i.dedupGiven then strDedup given else given).map fun c =>
      if i.contigs.contains c then (c, some (recsOfG i.groups c)) else (c, none)
  else i.groups.map fun g => (g.1, some g.2)

/-- the tables in the order they are produced, `self.ploidy` threaded; nothing is produced after the first error -/
def fileTables (f : Flags) (onlySnvs : Bool) (si : Nat) : Option Nat → List (String × Option (List Record)) → List FTable
  | _, [] => []
  | _, (c, none) :: _ => [(c, .error (.run (.invalidChromosome c)))]
  | pl, (c, some rs) :: rest =>
    match WhVerif.C09.readChromP onlySnvs none pl none rs with
    | .error e => [(c, .error (.reader e))]
    | .ok (_, pl1, rows) => (c, .ok (rows.map (varOfRow f si))) :: fileTables f onlySnvs si pl1 rest

/-- the chromosome loop of `run_stats` (as `runLoop`) -/
def fileLoop (f : Flags) (wantBl : Bool) (given : List String) :
    List String → List FTable → Except FileErr (List String × List Part)
  | seen, [] => .ok (seen, [])
  | _, (_, .error e) :: _ => .error e
  | seen, (c, .ok vars) :: rest =>
    if skipped given c then fileLoop f wantBl given (addSeen seen c) rest
    else
      match chromStats f vars with
      | none => .error (.run (.chrom .noFuel))
      | some s =>
        match wantBl, blockList (blocksOf (phasedOf f vars)) with
        | true, .error e => .error (.run (.chrom e))
        | _, _ =>
          if allGivenSeen given (addSeen seen c) then .ok (addSeen seen c, [⟨c, vars, s⟩])
          else
            match fileLoop f wantBl given (addSeen seen c) rest with
            | .error e => .error e
            | .ok (sn, ps) => .ok (sn, ⟨c, vars, s⟩ :: ps)

/-- `run_stats` on the file -/
def fileRun (i : FileIn) : Except FileErr RunOut :=
  match selectSample i.samples i.sample with
  | .error e => .error e
  | .ok si =>
    let given := unpackChromosomes i.given
    match fileLoop i.flags i.wantBl given [] (fileTables i.flags i.onlySnvs si none (fetchPlan i given)) with
    | .error e => .error e
    | .ok (seen, ps) => .ok { parts := ps, seen := seen, all := if seen.length > 1 then some (totalStats ps) else none }

end WhVerif.C12File

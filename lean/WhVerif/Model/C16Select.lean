import WhVerif.Model.C16
import WhVerif.Model.C07
/-!
# C16 model: read selection after `ReadSet::sort`

`whatshap phase` reads the alignments of a sample into a `ReadSet` (in the order the BAM records arrive, file after
file), calls `readset.sort()` (`whatshap/cli/__init__.py:PhasedInputReader.read`) and hands the sorted read set to
`select_reads` → `readselection` (`whatshap/readselect.pyx`, model `WhVerif.C07`).  `readselection` addresses reads by
their index in that sorted read set and breaks score ties of its priority queue by heap layout, i.e. by those indices.

A read here is its comparator key (`ReadKey`: has variants, first position, `std::hash` of (name, source id), name,
source id) together with what the selection looks at (`C07.Read`: variant positions, qualities, preferred source).
-/
namespace WhVerif.C16

abbrev SelRead := ReadKey × WhVerif.C07.Read

/-- the read set as `readselection` sees it: after `readset.sort()` -/
def sortedReads (l : List SelRead) : List WhVerif.C07.Read := (sortReads l).map (·.2)

/-- `select_reads(readset, max_coverage, preferred)` on the reads `l` in arrival order, for one resolution `choices`
of the priority-queue ties -/
def selectAfterSort (fixed : Bool) (l : List SelRead) (k : Nat) (bridging : Bool) (choices : List Nat) :
    WhVerif.C07.Outcome :=
  WhVerif.C07.readselection fixed (sortedReads l) k bridging choices

/-- all selections the code may return (over all resolutions of score ties), as sorted index lists into the sorted
read set -/
def selectOutcomes (fixed : Bool) (l : List SelRead) (k : Nat) (bridging : Bool) : List WhVerif.C07.Outcome :=
  WhVerif.C07.allOutcomes fixed (sortedReads l) k bridging

end WhVerif.C16

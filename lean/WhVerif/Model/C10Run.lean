import WhVerif.Model.C10Regions
/-!
# C10 — `run_haplotag` end to end (whatshap/cli/haplotag.py as it is at /repo d9c1d56 + later fixes)

`Model/C10.lean` has the decision rule, the read loop of one sample and the tagging of one alignment;
`Model/C10Regions.lean` the region normalisation and the write loop of one contig.  Here the pieces in between,
each mirroring the code literally, and their composition:

* `variantInfo`                       = `get_variant_information` (which VCF calls give phase information, which
                                        positions are handed to the read reader);
* `samplesToUse`, `sharedSamples`     = `compute_variant_file_samples_to_use`, `compute_shared_samples`
                                        (`--sample`, `--ignore-read-groups`, the three error exits);
* `prepareAll`                        = the `for sample in shared_samples` loop of `prepare_haplotag_information`:
                                        ONE `read_to_haplotype` / `BX_tag_to_haplotype` for all samples, keyed by read
                                        name / barcode only; `processed_reads` is reset per sample;
* `attemptNames`, `listEntry`         = the values `attempt_add_phase_information` returns for the haplotag list
                                        (`haplotype_name`, `phaseset`), computed by the code separately from the tags;
* `selectContigs`, `planContig`,
  `haplotagPlaced`, `haplotag`        = the contig loop of `run_haplotag`: `user_regions.items()`, `has_alignments`,
                                        `VcfInvalidChromosome` (error, or with `--skip-missing-contigs` the contig's
                                        alignments are NOT written: `continue`), the write loop, the unmapped tail
                                        (only without `--regions`), the list lines.
  `Config.writeMissing = true` is the behaviour after `fixes/F70.patch` (`variant_table = None` instead of
  `continue`: the alignments are written with HP/PC/PS removed).
-/
namespace WhVerif.C10

/-! ## `get_variant_information` -/

/-- one record of the `VariantTable` for one sample -/
structure Call where
  pos : Nat
  hom : Bool                                   -- `gt.is_homozygous()`
  /-- `phases_of(sample)[k]`: `none` = `phase is None`; `some (none, _)` = `phase.block_id is None` -/
  phase : Option (Option Int × List Nat)
deriving Repr

/-- `(vpos_to_phase_info, variants)`.  The dict is built by assignment: a later record at the same position
replaces the earlier one, which is what `List.lookup` sees when new entries are put in front.
`variants` = positions of the phased, non-homozygous records, in table order. -/
def variantInfo (calls : List Call) : PhaseInfo × List Nat :=
  calls.foldl (fun (acc : PhaseInfo × List Nat) c =>
    match c.phase with
    | some (some b, ph) => ((c.pos, (b, ph)) :: acc.1, if c.hom then acc.2 else acc.2 ++ [c.pos])
    | _ => acc) ([], [])

/-! ## sample selection -/

inductive RunErr
  | noVcfSamples            -- VcfError "No samples detected in VCF file"
  | needSampleOption        -- ValueError: --ignore-read-groups on a multi-sample VCF without --sample
  | sampleNotInVcf          -- VcfError: --sample names a sample the VCF does not have
  | noSharedSamples         -- ValueError "No common samples between VCF and BAM file detected"
  | contigNotInVcf (i : Nat) -- CommandLineError: reads on a contig the VCF header does not know
  | prepare (e : Err)       -- an exception inside `prepare_haplotag_information`
deriving Repr, DecidableEq

/-- `compute_variant_file_samples_to_use`; Python sets are modelled as duplicate-free lists in VCF order
(the iteration order of the real sets is unspecified, see notes) -/
def samplesToUse (vcf : List String) (given : Option (List String)) (ignoreRG : Bool) : Except RunErr (List String) :=
  let inVcf := vcf.eraseDups
  if inVcf.isEmpty then .error .noVcfSamples
  else if ignoreRG && given.isNone && decide (inVcf.length > 1) then .error .needSampleOption
  else match given with
    | none => .ok inVcf
    | some g => if g.any (fun s => !inVcf.contains s) then .error .sampleNotInVcf else .ok (inVcf.filter g.contains)

/-- `compute_shared_samples`; `bam` = the SM values of the @RG lines (`""` for a read group without SM) -/
def sharedSamples (bam : List String) (ignoreRG : Bool) (use : List String) : Except RunErr (List String) :=
  if ignoreRG then .ok use
  else
    let sh := use.filter bam.contains
    if sh.isEmpty then .error .noSharedSamples else .ok sh

/-! ## all samples of one chromosome -/

/-- `prepare_haplotag_information`: the outer loop.  The dictionaries are shared by all samples (a read name or a
barcode occurring in two samples is ONE key: the later sample overwrites / appends), `processed_reads` is not. -/
def prepareAll (ploidy : Nat) (cutoff : Int) (ignoreLinked : Bool) (samples : List (PhaseInfo × List SetRead)) : Prepared :=
  samples.foldl (fun st s => prepare ploidy s.1 cutoff ignoreLinked { st with processed := [] } s.2) {}

/-! ## the haplotag list -/

/-- `(haplotype_name, phaseset)` as returned by `attempt_add_phase_information` (`none` = the string "none");
HP number = haplotype index + 1 -/
def attemptNames (c : ChromCtx) (name : String) (refStart : Int) (bx : Option String) : Option Nat × Option Int :=
  match lookupLast name c.readToHap with
  | some (h, _, ps) => (some (h + 1), some ps)
  | none =>
    if c.ignoreLinked then (none, none) else
    match bx with
    | none => (none, none)
    | some tag =>
      let clouds := (c.bxToHap.filter (·.1 == tag)).map (·.2)
      match clouds.find? (fun e => decide (absDiff e.1 refStart ≤ c.cutoff)) with
      | some (_, h, ps) => (some (h + 1), some ps)
      | none => (none, none)

/-- the two variables of the write loop that go into the list: "none" for ignored alignments -/
def listEntry {α} (c : ChromCtx) (a : Aln α) : Option Nat × Option Int :=
  if ignoreRead c.tagSupplementary a.unmapped a.secondary a.supplementary then (none, none)
  else attemptNames c a.name a.refStart a.bx

structure ListLine where
  name : String
  hap : Option Nat         -- `H<n>` or "none"
  ps : Option Int          -- phase set or "none"
  contig : Nat             -- header index of the contig
deriving Repr, DecidableEq

/-! ## the contig loop -/

/-- what `run_haplotag` knows about one contig of the BAM header -/
structure ContigIn (α : Type) where
  alns : List (Aln α)                            -- `bam_reader.fetch(contig=chrom)`: all its alignments, file order
  inVcf : Bool                                   -- `fetch_regions` does not raise `VcfInvalidChromosome`
  samples : List (PhaseInfo × List SetRead)      -- per shared sample: phase information and read set (of the regions)

structure Config where
  ploidy : Nat
  cutoff : Int
  ignoreLinked : Bool
  tagSupplementary : Bool
  skipMissing : Bool
  regions : Option (List (Nat × Region))         -- `--regions` (contig by header index), `none` = option absent
  writeMissing : Bool := false                   -- after fixes/F70.patch

/-- `user_regions.items()`: without `--regions` every contig of the header with `[(0, None)]`; with `--regions`
`normalize_user_regions` (= `normalizeSel`, see `selectContigs_some`).  The header index is kept. -/
def selectContigs {β} (xs : List β) (regions : Option (List (Nat × Region))) : List (Nat × β × List Region) :=
  xs.zipIdx.filterMap fun (c, i) =>
    match regions with
    | none => some (i, c, [((0 : Int), (none : Option Int))])
    | some user =>
      let rq := requestedFor user i
      if rq.isEmpty then none else some (i, c, normalizeRegions rq)

def emptyCtx (cfg : Config) : ChromCtx := ⟨[], [], cfg.cutoff, cfg.ignoreLinked, cfg.tagSupplementary⟩

/-- the head of the loop body: `none` = nothing is written for this contig -/
def planContig {α} (cfg : Config) (i : Nat) (c : ContigIn α) : Except RunErr (Option ChromCtx) :=
  if c.alns.isEmpty then .ok none                               -- `chrom not in has_alignments`
  else if !c.inVcf then
    if cfg.skipMissing then .ok (if cfg.writeMissing then some (emptyCtx cfg) else none)
    else .error (.contigNotInVcf i)
  else
    let st := prepareAll cfg.ploidy cfg.cutoff cfg.ignoreLinked c.samples
    match st.error with
    | some e => .error (.prepare e)
    | none => .ok (some ⟨st.readToHap, st.bxToHap, cfg.cutoff, cfg.ignoreLinked, cfg.tagSupplementary⟩)

/-- one written record: header index of its contig, the alignment as written, the list variables -/
abbrev Written (α : Type) := Nat × Aln α × (Option Nat × Option Int)

def writeContig {α} (i : Nat) (ctx : ChromCtx) (alns : List (Aln α)) (regions : List Region) : List (Written α) :=
  (fetchSkip alns none regions).map fun a => (i, tagAln ctx a, listEntry ctx a)

/-- the loop over `user_regions.items()`; the first exception ends the run -/
def haplotagLoop {α} (cfg : Config) : List (Nat × ContigIn α × List Region) → Except RunErr (List (Written α))
  | [] => .ok []
  | (i, c, regions) :: rest =>
    match planContig cfg i c with
    | .error e => .error e
    | .ok none => haplotagLoop cfg rest
    | .ok (some ctx) =>
      match haplotagLoop cfg rest with
      | .error e => .error e
      | .ok w => .ok (writeContig i ctx c.alns regions ++ w)

def haplotagPlaced {α} (cfg : Config) (contigs : List (ContigIn α)) : Except RunErr (List (Written α)) :=
  haplotagLoop cfg (selectContigs contigs cfg.regions)

structure Output (α : Type) where
  alns : List (Aln α)
  list : List ListLine

/-- `if haplotag_writer is not None and not (alignment.is_secondary or alignment.is_supplementary)` -/
def listLines {α} (w : List (Written α)) : List ListLine :=
  w.filterMap fun (i, a, e) => if a.secondary || a.supplementary then none else some ⟨a.name, e.1, e.2, i⟩

/-- `run_haplotag`: the output BAM (placed part, then with `include_unmapped` the unplaced reads verbatim) and
the haplotag list -/
def haplotag {α} (cfg : Config) (contigs : List (ContigIn α)) (unplaced : List (Aln α)) : Except RunErr (Output α) :=
  match haplotagPlaced cfg contigs with
  | .error e => .error e
  | .ok w => .ok ⟨w.map (·.2.1) ++ (if cfg.regions.isNone then unplaced else []), listLines w⟩

/-! ## what the output should be -/

/-- `--regions` absent: every alignment; present: the alignments overlapping a requested region of their contig -/
def wantedAln {α} (regions : Option (List (Nat × Region))) (ia : Nat × Aln α) : Bool :=
  match regions with
  | none => true
  | some user => requestedAln user ia

/-- the placed input alignments the run has to write, with the header index of their contig: contig after contig in
header order, file order within; a contig unknown to the VCF is left out unless `writeMissing` -/
def expectedPlaced {α} (cfg : Config) (contigs : List (ContigIn α)) : List (Nat × Aln α) :=
  contigs.zipIdx.flatMap fun (c, i) =>
    if c.inVcf || cfg.writeMissing then (c.alns.filter fun a => wantedAln cfg.regions (i, a)).map fun a => (i, a) else []

/-- the whole placed input -/
def placedIn {α} (contigs : List (ContigIn α)) : List (Nat × Aln α) :=
  contigs.zipIdx.flatMap fun (c, i) => c.alns.map fun a => (i, a)

end WhVerif.C10

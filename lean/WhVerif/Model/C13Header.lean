import WhVerif.Model.C13
import WhVerif.Model.C13Bridge
/-!
# C13 model, part 3: the whole file

Core Lean only.  The header function itself is `unphaseHeader` / `unphaseHeaderFix` of `Model/C13Bridge.lean` (on
`C04.HLine`; `unphaseHeaderFix` = /repo since 3f23520, F61 = F76).  Added here: the lines `unphase` has no business with
(`keepLine`), a file = header + records (`VcfFile`, `unphaseFileCur` with the pre-3f23520 header function, `unphaseFileFix`
with the repaired one; records through `unphase`, which the record loop equals: `Props.C13.total`), and "the header declares
every FORMAT key the records use" (`Declared`: what htslib needs to serialise a record).
-/
namespace WhVerif.C13
open WhVerif

/-- `hr.key == "phasing"` (case-sensitive; also a structured `##phasing=<…>` line) -/
def isPhasingLine (l : C04.HLine) : Bool := decide (l.key = "phasing")

/-- a line `unphase` has no business with: neither a `##phasing` line nor a FORMAT definition of HP / PQ / PS -/
def keepLine (l : C04.HLine) : Bool := !(isPhasingLine l || isPhaseFormat l)

/-- remove the first element satisfying `p` (`C04.removeFirstPhasing` is the instance `p = isPhasingLine`) -/
def removeFirst {α : Type} (p : α → Bool) : List α → List α
  | [] => []
  | l :: ls => if p l then ls else l :: removeFirst p ls

structure VcfFile where
  header : List C04.HLine
  records : List Record
deriving DecidableEq, Repr

/-- header function as it was before 3f23520 (only the first `##phasing` line goes) -/
def unphaseFileCur (f : VcfFile) : VcfFile := { header := unphaseHeader f.header, records := unphase f.records }
/-- header function after fixes/F61.patch (= F76.patch; /repo since 3f23520) -/
def unphaseFileFix (f : VcfFile) : VcfFile := { header := unphaseHeaderFix f.header, records := unphase f.records }

/-- the FORMAT keys a record uses: `GT` if it has one, and the keys of its other fields -/
def callKeys (c : Call) : List String := (if c.gt.isSome then ["GT"] else []) ++ c.fields.map (·.1)
def recordKeys (r : Record) : List String := r.calls.flatMap callKeys

/-- every FORMAT key used by a record is declared in the header -/
def Declared (f : VcfFile) : Prop := ∀ r ∈ f.records, ∀ k ∈ recordKeys r, C04.defined f.header "FORMAT" k = true

end WhVerif.C13

import WhVerif.Model.C13
/-!
# C13 model, part 2: `unphase_header` and the whole file

Core Lean only.  A header is the list of its `##` lines as pysam's `header.records` presents them: `key` (`FORMAT`, `INFO`,
`contig`, …, or the key of a generic `##key=value` line), the `ID` of a structured line, and the text of the line.

`unphase_header` does
```
for hr in header.records:
    if hr.key == "phasing": hr.remove(); break          # the FIRST such line only
for tag in TAGS_TO_REMOVE:
    if tag in header.formats: header.formats.remove_header(tag)
```
* `unphaseHeaderCur` — as in /repo HEAD (only the first `##phasing` line goes);
* `unphaseHeaderFix` — after `fixes/F76.patch` (every `##phasing` line goes).

`unphaseFileCur` / `unphaseFileFix` = header + records (`unphase`, the specification function of `Model/C13.lean`, which the
record loop of HEAD equals since F2 was repaired: `Props.C13.total`).
-/
namespace WhVerif.C13

structure HLine where
  key : String
  id : Option String
  text : String
deriving DecidableEq, Repr

/-- `hr.key == "phasing"` (case-sensitive; also a structured `##phasing=<…>` line) -/
def isPhasing (l : HLine) : Bool := l.key == "phasing"

/-- a `##FORMAT=<ID=HP|PQ|PS,…>` definition (an `##INFO` line of the same ID is something else) -/
def isPhaseFormat (l : HLine) : Bool :=
  l.key == "FORMAT" && (match l.id with
    | some i => isPhaseTag i
    | none => false)

/-- a line `unphase` has no business with -/
def keepLine (l : HLine) : Bool := !(isPhasing l || isPhaseFormat l)

/-- remove the first element satisfying `p` -/
def removeFirst (p : HLine → Bool) : List HLine → List HLine
  | [] => []
  | l :: ls => if p l then ls else l :: removeFirst p ls

def unphaseHeaderCur (h : List HLine) : List HLine := (removeFirst isPhasing h).filter (fun l => !isPhaseFormat l)

def unphaseHeaderFix (h : List HLine) : List HLine := h.filter keepLine

structure VcfFile where
  header : List HLine
  records : List Record
deriving DecidableEq, Repr

def unphaseFileCur (f : VcfFile) : VcfFile := { header := unphaseHeaderCur f.header, records := unphase f.records }
def unphaseFileFix (f : VcfFile) : VcfFile := { header := unphaseHeaderFix f.header, records := unphase f.records }

/-- the FORMAT keys a record uses: `GT` if it has one, and the keys of its other fields -/
def callKeys (c : Call) : List String := (if c.gt.isSome then ["GT"] else []) ++ c.fields.map (·.1)
def recordKeys (r : Record) : List String := r.calls.flatMap callKeys

/-- the header declares FORMAT key `k` -/
def declares (h : List HLine) (k : String) : Bool := h.any (fun l => l.key == "FORMAT" && l.id == some k)

/-- every FORMAT key used by a record is declared (what htslib needs to write the file) -/
def Declared (f : VcfFile) : Prop := ∀ r ∈ f.records, ∀ k ∈ recordKeys r, declares f.header k = true

end WhVerif.C13

/-!
# C18 model: `whatshap/priorityqueue.pyx` (binary max-heap with position map) and
# `whatshap/graph.py:ComponentFinder` (union-find, smaller value becomes root, path compression).

Core Lean only.  Faithful to the code as it is:
* `scoreLower` = `_vector_score_lower` (lexicographic, on a common prefix the shorter is lower).
* heap = array of `(score, item)`; `siftUp`/`siftDown` exactly as `_sift_up`/`_sift_down`
  (larger child by `lower(left,right)`, strict comparisons), `pop` moves the last entry to the root.
* the `positions` map of the code is kept as an explicit association list updated exactly where the
  code updates it (`c_push`, `_swap`, `c_pop`); `changeScore` and `getScore` look the item up there.
* misuse the class does not guard against (push of an already queued item, change_score of an
  absent item) is outside the model's contract: the model answers `misuse`.
-/
namespace WhVerif.C18

abbrev Score := List Int

/-- `_vector_score_lower` -/
def scoreLower : Score → Score → Bool
  | [], [] => false
  | [], _ :: _ => true
  | _ :: _, [] => false
  | a :: as, b :: bs => if a < b then true else if b < a then false else scoreLower as bs

structure Entry where
  score : Score
  item : Nat
deriving Repr, DecidableEq

structure PQ where
  heap : Array Entry := #[]
  /-- item ↦ index, as `unordered_map positions` -/
  pos : List (Nat × Nat) := []
deriving Repr

def posSet (pos : List (Nat × Nat)) (item idx : Nat) : List (Nat × Nat) :=
  (item, idx) :: pos.filter (fun p => p.1 != item)

def posGet (pos : List (Nat × Nat)) (item : Nat) : Option Nat :=
  (pos.find? (fun p => p.1 == item)).map (·.2)

def posErase (pos : List (Nat × Nat)) (item : Nat) : List (Nat × Nat) :=
  pos.filter (fun p => p.1 != item)

def parent (i : Nat) : Nat := (i - 1) / 2

/-- `_swap(index1, index2)`: positions first (read through the map, as the code does), then entries -/
def PQ.swap (q : PQ) (i j : Nat) : PQ :=
  if h : i < q.heap.size ∧ j < q.heap.size then
    let e1 := q.heap[i]'h.1
    let e2 := q.heap[j]'h.2
    let p1 := (posGet q.pos e1.item).getD 0
    let p2 := (posGet q.pos e2.item).getD 0
    let pos := posSet (posSet q.pos e1.item p2) e2.item p1
    { heap := (q.heap.set i e2 h.1).set j e1 (by simpa using h.2), pos := pos }
  else q

def PQ.lowerAt (q : PQ) (i j : Nat) : Bool :=
  match q.heap[i]?, q.heap[j]? with
  | some a, some b => scoreLower a.score b.score
  | _, _ => false

/-- `_sift_up(index)`; fuel = index bounds the recursion (parent index strictly decreases) -/
def PQ.siftUp (q : PQ) (i : Nat) : PQ :=
  if h : i = 0 then q
  else
    let p := parent i
    if q.lowerAt p i then (q.swap p i).siftUp p else q
termination_by i
decreasing_by simp [parent]; omega

@[simp] theorem PQ.swap_size (q : PQ) (i j : Nat) : (q.swap i j).heap.size = q.heap.size := by
  unfold PQ.swap; split <;> simp

/-- `_sift_down(index)` -/
def PQ.siftDown (q : PQ) (i : Nat) : PQ :=
  let l := 2 * i + 1
  let r := 2 * i + 2
  if hr : r < q.heap.size then
    if q.lowerAt l r then
      if q.lowerAt i r then
        (q.swap r i).siftDown r
      else q
    else
      if q.lowerAt i l then
        (q.swap l i).siftDown l
      else q
  else if hl : l < q.heap.size then
    if q.lowerAt i l then
      (q.swap l i).siftDown l
    else q
  else q
termination_by q.heap.size - i
decreasing_by all_goals (simp only [PQ.swap_size]; omega)

/-- `c_push` -/
def PQ.push (q : PQ) (s : Score) (item : Nat) : PQ :=
  let idx := q.heap.size
  ({ heap := q.heap.push ⟨s, item⟩, pos := posSet q.pos item idx } : PQ).siftUp idx

/-- `c_pop`; `none` = `IndexError('PriorityQueue empty.')` -/
def PQ.pop (q : PQ) : Option (Entry × PQ) :=
  if h : q.heap.size = 0 then none
  else
    let last := q.heap[q.heap.size - 1]'(by omega)
    let first := q.heap[0]'(by omega)
    if q.heap.size = 1 then
      some (first, { heap := q.heap.pop, pos := posErase q.pos first.item })
    else
      let heap := (q.heap.set 0 last (by omega)).pop
      let pos := posErase (posSet q.pos last.item 0) first.item
      some (first, ({ heap := heap, pos := pos } : PQ).siftDown 0)

/-- `c_change_score`; `none` = item not queued (misuse: the C++ map would default-insert 0) -/
def PQ.changeScore (q : PQ) (item : Nat) (s : Score) : Option PQ :=
  match posGet q.pos item with
  | none => none
  | some p =>
    if h : p < q.heap.size then
      let old := (q.heap[p]'h).score
      let q' : PQ := { q with heap := q.heap.set p ⟨s, (q.heap[p]'h).item⟩ h }
      if scoreLower old s then some (q'.siftUp p) else some (q'.siftDown p)
    else none

/-- `c_get_score_by_item` -/
def PQ.getScore (q : PQ) (item : Nat) : Option Score :=
  match posGet q.pos item with
  | none => none
  | some p => (q.heap[p]?).map (·.score)

def PQ.len (q : PQ) : Nat := q.heap.size
def PQ.isEmpty (q : PQ) : Bool := q.heap.size == 0

/-! ## operations and histories -/

inductive Op where
  | push (s : Score) (item : Nat)
  | pop
  | change (item : Nat) (s : Score)
  | get (item : Nat)
  | len
  | isEmpty
deriving Repr

inductive Out where
  | unit
  | popped (s : Score) (item : Nat)
  | empty          -- IndexError
  | misuse         -- outside the class contract
  | score (s : Option Score)
  | len (n : Nat)
  | isEmpty (b : Bool)
deriving Repr, DecidableEq

def PQ.contains (q : PQ) (item : Nat) : Bool := (posGet q.pos item).isSome

def step (q : PQ) : Op → PQ × Out
  | .push s item => if q.contains item then (q, .misuse) else (q.push s item, .unit)
  | .pop => match q.pop with
      | none => (q, .empty)
      | some (e, q') => (q', .popped e.score e.item)
  | .change item s => match q.changeScore item s with
      | none => (q, .misuse)
      | some q' => (q', .unit)
  | .get item => (q, .score (q.getScore item))
  | .len => (q, .len q.len)
  | .isEmpty => (q, .isEmpty q.isEmpty)

def run (q : PQ) : List Op → List Out
  | [] => []
  | op :: ops => let (q', o) := step q op; o :: run q' ops

/-! ## union-find (`ComponentFinder`) over `Nat` values

`parent : List (Nat × Option Nat)` association list value ↦ parent value. -/

structure UF where
  nodes : List (Nat × Option Nat)
deriving Repr

def UF.init (values : List Nat) : UF := ⟨values.eraseDups.map (fun v => (v, none))⟩

def UF.parentOf (u : UF) (v : Nat) : Option (Option Nat) :=
  (u.nodes.find? (fun p => p.1 == v)).map (·.2)

def UF.setParent (u : UF) (v : Nat) (p : Option Nat) : UF :=
  ⟨u.nodes.map (fun e => if e.1 == v then (v, p) else e)⟩

/-- first loop of `_find_node`: climb to the root. Fuel-bounded by the number of nodes (the real
loop terminates because parents have strictly smaller values: theorem `parent_lt`). -/
def UF.rootFuel (u : UF) : Nat → Nat → Nat
  | 0, v => v
  | fuel + 1, v => match u.parentOf v with
    | some (some p) => u.rootFuel fuel p
    | _ => v

def UF.root (u : UF) (v : Nat) : Nat := u.rootFuel u.nodes.length v

/-- second loop of `_find_node`: path compression -/
def UF.compressFuel (u : UF) (root : Nat) : Nat → Nat → UF
  | 0, _ => u
  | fuel + 1, v => match u.parentOf v with
    | some (some p) => (u.setParent v (some root)).compressFuel root fuel p
    | _ => u

/-- `_find_node`: returns (state after compression, root value); `none` = KeyError -/
def UF.findNode (u : UF) (v : Nat) : Option (UF × Nat) :=
  match u.parentOf v with
  | none => none
  | some _ =>
    let r := u.root v
    some (u.compressFuel r u.nodes.length v, r)

/-- `merge(x, y)`; `none` = KeyError / assertion `x != y` -/
def UF.merge (u : UF) (x y : Nat) : Option UF :=
  if x = y then none else
  match u.findNode x with
  | none => none
  | some (u1, xr) =>
    match u1.findNode y with
    | none => none
    | some (u2, yr) =>
      if xr = yr then some u2
      else if xr < yr then some (u2.setParent yr (some xr))
      else some (u2.setParent xr (some yr))

def UF.find (u : UF) (v : Nat) : Option (UF × Nat) := u.findNode v

end WhVerif.C18

import WhVerif.Model.C13
/-!
# C13 at the TEXT level: what `whatshap unphase` (pysam / htslib underneath) does to one VCF data line

Core Lean only.  A data line is a list of characters: tab-separated columns; column 9 (FORMAT) is a `:`-separated list of
keys (`.` = no key at all: htslib's spelling of a FORMAT column from which every key was deleted); every further column is
a `:`-separated list of values for one sample, where trailing values may be omitted (VCF spec).  The GT token is a list of
allele tokens (`.` or a decimal number) separated by `/` or `|`.

`unphaseLineText` is the observable effect of `run_unphase`'s record loop followed by htslib's serialisation on the text:

* the first eight columns are not touched by `run_unphase` (htslib's own re-rendering of QUAL / INFO numbers is *not* part of
  this model; the harness compares those columns with a plain pysam copy of the file);
* `del record.format[tag]`: the keys HP, PQ, PS leave FORMAT and their values leave every sample column; htslib writes every
  remaining value of every sample, so omitted trailing values come back as `.` (observed: `0/1:3` under `GT:DP:PS:GQ` is
  written `0/1:3:.` under `GT:DP:GQ`); a FORMAT column without keys is written `.` and so are its sample columns;
* `call["GT"] = sorted(genotype)` iff no allele is missing, then `call.phased = False`: the GT token (first key) is written
  with `/` between all alleles, the alleles in ascending numerical order iff all of them are present, otherwise in the
  order of the input (`1/.|0` gives `1/./0`); numbers are re-rendered in decimal (`01` gives `1`);
* a GT token that is not of this grammar is left alone (pysam shows such a value as a string; excluded by well-formedness).

`parseLine` reads a line into the record of `Model/C13.lean` (`none` iff some GT token is outside the grammar).
-/
namespace WhVerif.C13.Text
open WhVerif.C13

abbrev Str := List Char

/-! ## splitting and joining -/

/-- Python's `s.split(sep)` for a one-character separator: never empty, `[[]]` for the empty string -/
def splitOn (sep : Char) : Str → List Str
  | [] => [[]]
  | c :: cs =>
    if c = sep then [] :: splitOn sep cs
    else match splitOn sep cs with
      | [] => [[c]]
      | w :: ws => (c :: w) :: ws

/-- `sep.join(ws)` -/
def join (sep : Char) : List Str → Str
  | [] => []
  | [w] => w
  | w :: w' :: ws => w ++ sep :: join sep (w' :: ws)

/-- `mapM` in `Option`, written out -/
def mapOpt {α β : Type} (f : α → Option β) : List α → Option (List β)
  | [] => some []
  | a :: as =>
    match f a, mapOpt f as with
    | some b, some bs => some (b :: bs)
    | _, _ => none

/-! ## decimal numbers -/

def digitChar : Nat → Char
  | 0 => '0' | 1 => '1' | 2 => '2' | 3 => '3' | 4 => '4' | 5 => '5' | 6 => '6' | 7 => '7' | 8 => '8' | _ => '9'

def digitVal? : Char → Option Nat
  | '0' => some 0 | '1' => some 1 | '2' => some 2 | '3' => some 3 | '4' => some 4
  | '5' => some 5 | '6' => some 6 | '7' => some 7 | '8' => some 8 | '9' => some 9
  | _ => none

/-- the decimal digits of `n`, least significant first -/
def digitsRev (n : Nat) : Str :=
  if h : n < 10 then [digitChar n] else digitChar (n % 10) :: digitsRev (n / 10)
decreasing_by omega

def natStr (n : Nat) : Str := (digitsRev n).reverse

/-- value of a non-empty list of decimal digits, least significant first -/
def valRev : Str → Option Nat
  | [] => none
  | [c] => digitVal? c
  | c :: c' :: cs => do
    let d ← digitVal? c
    let a ← valRev (c' :: cs)
    some (10 * a + d)

def parseNat (s : Str) : Option Nat := valRev s.reverse

/-! ## the GT token -/

def parseAllele (s : Str) : Option (Option Nat) :=
  if s = ['.'] then some none else (parseNat s).map some

def renderAllele : Option Nat → Str
  | none => ['.']
  | some n => natStr n

def barToSlash (c : Char) : Char := if c = '|' then '/' else c

/-- `0|1`, `1/0/2`, `.`, `./.`, `1/.|0`, `7` … ; `phased` = some separator is `|` -/
def parseGTTok (tok : Str) : Option GT :=
  (mapOpt parseAllele (splitOn '/' (tok.map barToSlash))).map fun a => { alleles := a, phased := tok.contains '|' }

/-- htslib's spelling of a genotype all of whose separators are the same -/
def renderGT (g : GT) : Str := join (if g.phased then '|' else '/') (g.alleles.map renderAllele)

/-- sorted iff complete, `/` everywhere; a token outside the grammar is left alone -/
def unphaseGTTok (tok : Str) : Str :=
  match parseGTTok tok with
  | none => tok
  | some g => renderGT (unphaseGT g)

/-! ## the line -/

def gtKey : Str := ['G', 'T']
def isPhaseTagC (k : Str) : Bool := isPhaseTag (String.ofList k)

/-- a data line cut into its tokens: the fixed columns (all columns when there is no FORMAT column), and, when there is a
FORMAT column, its keys and per sample exactly one value per key -/
structure TLine where
  fixed : List Str
  body : Option (List Str × List (List Str))
deriving DecidableEq, Repr

/-- one value per key: omitted trailing values are `.` (surplus values, which htslib rejects, are cut) -/
def padTo (n : Nat) (vs : List Str) : List Str := (vs ++ List.replicate n ['.']).take n

/-- `.` = no key -/
def parseKeys (col : Str) : List Str := (splitOn ':' col).filter (fun k => k ≠ ['.'])

def parseCols (cols : List Str) : TLine :=
  match cols.drop 8 with
  | [] => { fixed := cols, body := none }
  | fmt :: samples =>
    { fixed := cols.take 8,
      body := some (parseKeys fmt, samples.map fun s => padTo (parseKeys fmt).length (splitOn ':' s)) }

def parseT (l : Str) : TLine := parseCols (splitOn '\t' l)

def renderList (ws : List Str) : Str := if ws = [] then ['.'] else join ':' ws

def renderT (t : TLine) : Str :=
  match t.body with
  | none => join '\t' t.fixed
  | some (keys, samples) => join '\t' (t.fixed ++ renderList keys :: samples.map renderList)

/-- FORMAT after `del record.format[tag]` for the three tags -/
def unphaseKeys (keys : List Str) : List Str := keys.filter fun k => !isPhaseTagC k

/-- the values of the keys that stay -/
def dropTags (keys vals : List Str) : List Str :=
  ((keys.zip vals).filter fun kv => !isPhaseTagC kv.1).map (·.2)

/-- one sample column: values of HP / PQ / PS removed, the GT token (first key only) re-written -/
def unphaseVals (keys vals : List Str) : List Str :=
  match keys, vals with
  | k :: ks, v :: vs => if k = gtKey then unphaseGTTok v :: dropTags ks vs else dropTags keys vals
  | _, _ => dropTags keys vals

def unphaseT (t : TLine) : TLine :=
  match t.body with
  | none => t
  | some (keys, samples) => { fixed := t.fixed, body := some (unphaseKeys keys, samples.map (unphaseVals keys)) }

/-- the same on the columns of a line -/
def unphaseCols (cols : List Str) : Str := renderT (unphaseT (parseCols cols))

/-- the text of a data line after `whatshap unphase` -/
def unphaseLineText (l : Str) : Str := unphaseCols (splitOn '\t' l)

/-- well-formedness the theorems need: GT, if present, is the first FORMAT key (VCF spec; pysam shows a GT elsewhere as a string) -/
def GtFirstOnly (t : TLine) : Prop := ∀ keys samples, t.body = some (keys, samples) → gtKey ∉ keys.tail

/-! ## from tokens to the record of `Model/C13.lean` -/

def zipS (ks vs : List Str) : List (String × String) :=
  (ks.zip vs).map fun kv => (String.ofList kv.1, String.ofList kv.2)

def toCall (keys vals : List Str) : Option Call :=
  match keys, vals with
  | k :: ks, v :: vs =>
    if k = gtKey then (parseGTTok v).map fun g => { gt := some g, fields := zipS ks vs }
    else some { gt := none, fields := zipS keys vals }
  | _, _ => some { gt := none, fields := zipS keys vals }

def toRecord (t : TLine) : Option Record :=
  match t.body with
  | none => some { fixed := t.fixed.map String.ofList, calls := [] }
  | some (keys, samples) =>
    (mapOpt (toCall keys) samples).map fun cs => { fixed := t.fixed.map String.ofList, calls := cs }

/-- a data line as pysam shows it to `run_unphase`; `none` iff a GT token is outside the grammar -/
def parseLine (l : Str) : Option Record := toRecord (parseT l)

/-- `|` occurs in no GT token of the line (decidable observable used by `unphase_text_no_bar`) -/
def gtTokens (t : TLine) : List Str :=
  match t.body with
  | some (k :: _, samples) => if k = gtKey then samples.filterMap List.head? else []
  | _ => []

/-! ## String front end (driver) -/

def unphaseLine (s : String) : String := String.ofList (unphaseLineText s.toList)

end WhVerif.C13.Text

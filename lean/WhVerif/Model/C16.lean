/-!
# C16 model: the order-independence arguments that are logic

No executable model can exhibit CPython's hash randomisation or the OS scheduler.  What is modelled is the
places where the code *re-establishes* a canonical order after working with an unordered or
schedule-dependent collection:

* `readLt` — `src/readset.h:read_comparator_t` (reads without variants first, then first position, then
  hash of (name, source id), then name, then source id) used by `ReadSet::sort`;
* `sortByBlockId` — `results = sorted(blockwise_results, key=lambda x: x.block_id)` in
  `whatshap/polyphase/algorithm.py:solve_polyphase_instance`;
* `sortedNames` — `sorted(...)` over a Python `set` of names (a duplicate-free enumeration in arbitrary order).

`List.mergeSort` stands for `std::sort` / Python's `sorted`: all three return *a* sorted permutation, and the
theorems show that under the stated conditions there is only one.
-/
namespace WhVerif.C16

/-- what `read_comparator_t` looks at -/
structure ReadKey where
  hasVariants : Bool      -- `getVariantCount() > 0`
  firstPos : Nat          -- `firstPosition()` (only looked at when both reads have variants)
  nameHash : Nat          -- `hasher(name, source_id)`
  name : List Nat         -- read name as code units (`std::string::compare` is lexicographic on them)
  sourceId : Int
deriving DecidableEq, Repr

/-- `std::string::compare(...) < 0` -/
def strLt : List Nat → List Nat → Bool
  | [], [] => false
  | [], _ :: _ => true
  | _ :: _, [] => false
  | a :: as, b :: bs => if a < b then true else if b < a then false else strLt as bs

/-- `read_comparator_t::operator()(r1, r2)` -/
def readLt (r1 r2 : ReadKey) : Bool :=
  if r1.hasVariants || r2.hasVariants then
    if !r1.hasVariants then true
    else if !r2.hasVariants then false
    else if r1.firstPos != r2.firstPos then decide (r1.firstPos < r2.firstPos)
    else tie r1 r2
  else tie r1 r2
where
  tie (r1 r2 : ReadKey) : Bool :=
    if r1.nameHash != r2.nameHash then decide (r1.nameHash < r2.nameHash)
    else if r1.name != r2.name then strLt r1.name r2.name
    else decide (r1.sourceId < r2.sourceId)

/-- the non-strict order `std::sort` establishes: `r2` does not come before `r1` -/
def readLe (r1 r2 : ReadKey) : Bool := !readLt r2 r1

/-- `ReadSet::sort` on reads carrying a payload (their variants) -/
def sortReads {β} (l : List (ReadKey × β)) : List (ReadKey × β) :=
  l.mergeSort (fun a b => readLe a.1 b.1)

/-- `sorted(blockwise_results, key=lambda x: x.block_id)` -/
def sortByBlockId {β} (l : List (Nat × β)) : List (Nat × β) :=
  l.mergeSort (fun a b => decide (a.1 ≤ b.1))

/-- `sorted(set_of_names)` with names as code-unit lists -/
def sortedNames (l : List (List Nat)) : List (List Nat) :=
  l.mergeSort (fun a b => !strLt b a)

end WhVerif.C16

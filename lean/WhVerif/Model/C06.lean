import WhVerif.Spec.C06
/-!
# C06 model: allele detection (`whatshap/variants.py`, `whatshap/_variants.pyx`, `whatshap/vcf.py`)

Core Lean only.  Faithful to the code as it is:

* `iterateCigar`     = `_variants.pyx:_iterate_cigar` (nine operators; the `assert v_position >= ref_pos`
                        and the `ValueError` for an operator > 8 are outcomes; yields made before an error
                        are kept, as a consumer of the generator sees them)
* `splitLeft/Right`  = `ReadSetReader.split_cigar_left/right`
* `cigarPrefixLength`= `ReadSetReader.cigar_prefix_length` (S/H skipped, N returns the *requested* number
                        of reference bases, P and unknown operators hit `assert False`)
* `realign`          = `ReadSetReader.realign` for the default settings (no affine gaps, no k-merald):
                        symbolic ALT skipped, window by prefix lengths, Python slice semantics, padded alleles,
                        stable sort of the distances, "cannot decide" on a tie; `dist` is the edit distance
                        (parameter; the driver uses `levFast`, the theorems `lev`)
* `detectRef`        = `ReadSetReader.detect_alleles_by_alignment`
* `normalize`, `nonOverlapping`, `buildVarProgress`, `detectNoRef` with the three handlers
                      = `VcfVariant.normalized`, `detect_non_overlapping_variants`, `build_var_progress`,
                        `_detect_alleles`, `_detect_alleles_match/_insertion/_deletion`
                        (including the quirk that the match handler never advances its query index)
* `mergeGroup`       = `ReadSetReader.create_read_from_group` (mates / supplementary alignments of one name)
-/
namespace WhVerif.C06

inductive Err
  | index      -- IndexError
  | assertion  -- AssertionError
  | value      -- ValueError
deriving Repr, DecidableEq

abbrev Seq := List Char

/-- Which of the defects found by this property's check are modelled as *repaired* (`true`) or as the code was
(`false`).  F12: `create_read_from_group` drops the other mate; F13: `_detect_alleles_match` never advances its
query index; F14: `cigar_prefix_length` reports the *requested* number of reference bases at an N;
F15: without a reference an insertion directly before the first aligned base of a block is called REF;
F16: without a reference an I operation of length `n` also "sees" the variants up to `n` bases to its right. -/
structure Fixes where
  f12 : Bool
  f13 : Bool
  f14 : Bool
  f15 : Bool
  f16 : Bool
deriving Repr, DecidableEq

def Fixes.all : Fixes := ⟨true, true, true, true, true⟩
def Fixes.asIs : Fixes := ⟨false, false, false, false, false⟩

/-! ## `_iterate_cigar` -/

structure Yield where
  index : Nat
  i : Nat
  consumed : Nat
  queryPos : Nat
deriving Repr, DecidableEq

/-- a variant still to be visited: (index into the variant list, position) -/
abbrev VarRef := Nat × Nat

/-- `while j < n and v_position < bound: assert v_position >= ref_pos; [yield]; j += 1` -/
def walkRegion (mk : VarRef → Option Yield) (refPos bound : Nat) :
    List VarRef → List Yield × Option Err × List VarRef
  | [] => ([], none, [])
  | v :: vs =>
    if v.2 < bound then
      if v.2 < refPos then ([], some .assertion, v :: vs)
      else
        let r := walkRegion mk refPos bound vs
        ((mk v).toList ++ r.1, r.2.1, r.2.2)
    else ([], none, v :: vs)

def iterGo : Nat → Nat → Nat → List VarRef → Cigar → List Yield × Option Err
  | _, _, _, _, [] => ([], none)
  | i, refPos, queryPos, vs, (op, len) :: rest =>
    if isMatch op then
      let r := walkRegion (fun v => some ⟨v.1, i, v.2 - refPos, queryPos + v.2 - refPos⟩) refPos (refPos + len) vs
      match r.2.1 with
      | some e => (r.1, some e)
      | none => let t := iterGo (i + 1) (refPos + len) (queryPos + len) r.2.2 rest; (r.1 ++ t.1, t.2)
    else if op == 1 then
      match vs with
      | v :: vs' =>
        if v.2 == refPos then
          let t := iterGo (i + 1) refPos (queryPos + len) vs' rest; (⟨v.1, i, 0, queryPos⟩ :: t.1, t.2)
        else iterGo (i + 1) refPos (queryPos + len) vs rest
      | [] => iterGo (i + 1) refPos (queryPos + len) vs rest
    else if op == 2 then
      let r := walkRegion (fun v => some ⟨v.1, i, v.2 - refPos, queryPos⟩) refPos (refPos + len) vs
      match r.2.1 with
      | some e => (r.1, some e)
      | none => let t := iterGo (i + 1) (refPos + len) queryPos r.2.2 rest; (r.1 ++ t.1, t.2)
    else if op == 3 then
      let r := walkRegion (fun _ => none) refPos (refPos + len) vs
      match r.2.1 with
      | some e => (r.1, some e)
      | none => let t := iterGo (i + 1) (refPos + len) queryPos r.2.2 rest; (r.1 ++ t.1, t.2)
    else if op == 4 then iterGo (i + 1) refPos (queryPos + len) vs rest
    else if op == 5 || op == 6 then iterGo (i + 1) refPos queryPos vs rest
    else ([], some .value)

/-- `(index, position)` for the variants from index `j` on -/
def varRefsFrom (positions : List Nat) (j : Nat) : List VarRef :=
  (enumFrom 0 positions).drop j

/-- `_iterate_cigar(variants, j, bam_read, cigartuples)`; `positions` = `[v.position for v in variants]` -/
def iterateCigar (positions : List Nat) (j refStart : Nat) (cigar : Cigar) : List Yield × Option Err :=
  iterGo 0 refStart 0 ((varRefsFrom positions j).dropWhile (fun v => v.2 < refStart)) cigar

/-! ## `split_cigar_left/right`, `cigar_prefix_length` -/

def splitLeft (cigar : Cigar) (i consumed : Nat) : Except Err Cigar :=
  match cigar[i]? with
  | none => .error .index
  | some (op, len) =>
    if consumed ≤ len then .ok ((if consumed > 0 then [(op, consumed)] else []) ++ (cigar.take i).reverse)
    else .error .assertion

def splitRight (cigar : Cigar) (i consumed : Nat) : Except Err Cigar :=
  match cigar[i]? with
  | none => .error .index
  | some (op, len) => .ok ((if consumed < len then [(op, len - consumed)] else []) ++ cigar.drop (i + 1))

def prefixGo (f14 : Bool) (k : Nat) : Nat → Nat → Cigar → Except Err (Nat × Nat)
  | refPos, queryPos, [] => if refPos < k then .ok (refPos, queryPos) else .error .assertion
  | refPos, queryPos, (op, len) :: rest =>
    if isMatch op then
      if refPos + len ≥ k then .ok (k, queryPos + len + k - (refPos + len))
      else prefixGo f14 k (refPos + len) (queryPos + len) rest
    else if op == 2 then
      if refPos + len ≥ k then .ok (k, queryPos) else prefixGo f14 k (refPos + len) queryPos rest
    else if op == 1 then prefixGo f14 k refPos (queryPos + len) rest
    else if op == 4 || op == 5 then prefixGo f14 k refPos queryPos rest
    else if op == 3 then .ok (if f14 then refPos else k, queryPos)
    else .error .assertion

/-- `cigar_prefix_length(cigar, reference_bases)` → `(reference_bases, query_bases)` -/
def cigarPrefixLength (f14 : Bool) (cigar : Cigar) (k : Nat) : Except Err (Nat × Nat) := prefixGo f14 k 0 0 cigar

/-! ## `realign` -/

structure Variant where
  pos : Nat
  ref : Seq
  alts : List Seq
deriving Repr, DecidableEq

/-- Python `s[a:b]` for arbitrary ints -/
def pySlice {α} (s : List α) (a b : Int) : List α :=
  let n : Int := s.length
  let a' := if a < 0 then max (a + n) 0 else min a n
  let b' := if b < 0 then max (b + n) 0 else min b n
  (s.drop a'.toNat).take (b' - a').toNat

/-- stable insertion by distance: goes after every entry with a distance ≤ its own -/
def insertDist (x : Nat × Nat) : List (Nat × Nat) → List (Nat × Nat)
  | [] => [x]
  | y :: ys => if x.2 < y.2 then x :: y :: ys else y :: insertDist x ys

/-- `distances.sort(key=lambda x: x[1])` (stable) -/
def sortDist : List (Nat × Nat) → List (Nat × Nat)
  | [] => []
  | x :: xs => insertDist x (sortDist xs)

/-- `if len(distances) == 1 or distances[0][1] < distances[1][1]: return distances[0][0]` else cannot decide;
an empty list is an `IndexError` -/
def decideAllele (distances : List (Nat × Nat)) : Except Err (Option Nat) :=
  match sortDist distances with
  | [] => .error .index
  | [a] => .ok (some a.1)
  | a :: b :: _ => if a.2 < b.2 then .ok (some a.1) else .ok none

def isSymbolic (v : Variant) : Bool := v.alts.any (fun a => a.head? == some '<')

structure Window where
  query : Seq
  padded : List Seq
deriving Repr, DecidableEq

/-- the window extraction of `realign`: the query slice and the padded alleles (REF first) -/
def window (f14 : Bool) (v : Variant) (query : Seq) (cigar : Cigar) (i consumed : Nat) (queryPos : Int)
    (reference : Seq) (overhang : Nat) : Except Err Window :=
  match splitLeft cigar i consumed with
  | .error e => .error e
  | .ok left =>
    match cigarPrefixLength f14 left overhang with
    | .error e => .error e
    | .ok (lr, lq) =>
      match splitRight cigar i consumed with
      | .error e => .error e
      | .ok right =>
        match cigarPrefixLength f14 right (v.ref.length + overhang) with
        | .error e => .error e
        | .ok (rr, rq) =>
          if v.pos < lr then .error .assertion
          else if v.pos + rr > reference.length then .error .assertion
          else
            let q := pySlice query (queryPos - lq) (queryPos + rq)
            let leftPad := pySlice reference ((v.pos : Int) - lr) v.pos
            let rightPad := pySlice reference ((v.pos : Int) + v.ref.length) ((v.pos : Int) + rr)
            let paddedRef := pySlice reference ((v.pos : Int) - lr) ((v.pos : Int) + rr)
            .ok ⟨q, paddedRef :: v.alts.map (fun alt => leftPad ++ alt ++ rightPad)⟩

/-- `[(i, edit_distance(query, allele)) for i, allele in enumerate(padded_alleles) if restricted is None or i in …]` -/
def distances (dist : Seq → Seq → Nat) (restricted : Option (List Nat)) (w : Window) : List (Nat × Nat) :=
  (enumFrom 0 w.padded).filterMap (fun p =>
    if (match restricted with | none => true | some r => r.contains p.1) then some (p.1, dist w.query p.2) else none)

/-- `ReadSetReader.realign(...)[0]` (the quality is the constant 30 whenever an allele is returned) -/
def realign (f14 : Bool) (dist : Seq → Seq → Nat) (v : Variant) (restricted : Option (List Nat)) (query : Seq)
    (cigar : Cigar) (i consumed : Nat) (queryPos : Int) (reference : Seq) (overhang : Nat) :
    Except Err (Option Nat) :=
  if isSymbolic v then .ok none else
  match window f14 v query cigar i consumed queryPos reference overhang with
  | .error e => .error e
  | .ok w => decideAllele (distances dist restricted w)

/-- `detect_alleles_by_alignment`: `(index, allele, 30)` per decided variant -/
def detectRefGo (f14 : Bool) (dist : Seq → Seq → Nat) (variants : List Variant) (restricted : Option (List (List Nat)))
    (cigar : Cigar) (query reference : Seq) (overhang : Nat) :
    List Yield → List (Nat × Nat × Nat) × Option Err
  | [] => ([], none)
  | y :: ys =>
    match variants[y.index]? with
    | none => ([], some .index)
    | some v =>
      let r : Except Err (Option (List Nat)) := match restricted with
        | none => .ok none
        | some rs => match rs[y.index]? with | none => .error Err.index | some x => .ok (some x)
      match r with
      | .error e => ([], some e)
      | .ok r =>
        match realign f14 dist v r query cigar y.i y.consumed y.queryPos reference overhang with
        | .error e => ([], some e)
        | .ok a =>
          let t := detectRefGo f14 dist variants restricted cigar query reference overhang ys
          ((match a with | some a => [(y.index, a, 30)] | none => []) ++ t.1, t.2)

def detectRef (f14 : Bool) (dist : Seq → Seq → Nat) (variants : List Variant) (restricted : Option (List (List Nat)))
    (j refStart : Nat) (cigar : Cigar) (query reference : Seq) (overhang : Nat) :
    List (Nat × Nat × Nat) × Option Err :=
  if cigar.isEmpty then ([], none) else
  let it := iterateCigar (variants.map (·.pos)) j refStart cigar
  let r := detectRefGo f14 dist variants restricted cigar query reference overhang it.1
  match r.2 with
  | some e => (r.1, some e)
  | none => (r.1, it.2)

/-! ## no-reference path -/

/-- `VcfVariant.normalized()` (common suffix first, then common prefix; all ALTs must share it) -/
def stripSuffix (fuel : Nat) (ref : Seq) (alts : List Seq) : Seq × List Seq :=
  match fuel with
  | 0 => (ref, alts)
  | fuel + 1 =>
    match ref.getLast? with
    | none => (ref, alts)
    | some c =>
      if alts.all (fun a => a.getLast? == some c) then stripSuffix fuel ref.dropLast (alts.map List.dropLast)
      else (ref, alts)

def stripPrefix (pos : Nat) : Seq → List Seq → Nat × Seq × List Seq
  | [], alts => (pos, [], alts)
  | c :: ref, alts =>
    if alts.all (fun a => a.head? == some c) then stripPrefix (pos + 1) ref (alts.map List.tail)
    else (pos, c :: ref, alts)

def normalize (v : Variant) : Variant :=
  let (r, a) := stripSuffix v.ref.length v.ref v.alts
  let (p, r', a') := stripPrefix v.pos r a
  ⟨p, r', a'⟩

/-- `detect_non_overlapping_variants`: the indices that are kept -/
def nonOverlapGo (seen : List Nat) (idx : Nat) (vs : List Variant) : List Nat :=
  match vs with
  | [] => []
  | v :: rest =>
    if seen.contains v.pos then nonOverlapGo seen (idx + 1) rest
    else
      let seen' := v.pos :: seen
      let isDel := v.alts.any (fun a => a.length < v.ref.length)
      let k := (rest.takeWhile (fun w => w.pos < v.pos + v.ref.length)).length
      if isDel && k > 0 then nonOverlapGo seen' (idx + 1 + k) (rest.drop k)
      else idx :: nonOverlapGo seen' (idx + 1) rest
termination_by vs.length
decreasing_by all_goals simp_wf; all_goals omega

def nonOverlapping (vs : List Variant) : List Nat := nonOverlapGo [] 0 vs

/-- `AlleleProgress` -/
structure AP where
  progress : Int
  length : Nat
  quality : Nat
  matched : Nat
  matchTarget : Nat
  inserted : Nat
  insertTarget : Nat
  deleted : Nat
  deleteTarget : Nat
deriving Repr, DecidableEq

def AP.mk' (m i d : Nat) : AP := ⟨0, m + i + d, 0, 0, m, 0, i, 0, d⟩

/-- `build_var_progress` (already `reset`) -/
def buildVarProgress (v : Variant) : List AP :=
  AP.mk' v.ref.length 0 0 ::
    v.alts.map (fun alt => AP.mk' (min v.ref.length alt.length) (alt.length - v.ref.length) (v.ref.length - alt.length))

/-- a queued `VariantProgress` -/
structure Entry where
  variantId : Nat
  v : Variant
  queryStart : Int
  alleles : List AP
deriving Repr, DecidableEq

def getAllele (v : Variant) (i : Nat) : Option Seq := (v.ref :: v.alts)[i]?

/-- Python `s[i]` -/
def pyGet {α} (s : List α) (i : Int) : Option α :=
  if i < 0 then (if i + s.length < 0 then none else s[(i + s.length).toNat]?) else s[i.toNat]?

/-- the `while` loop of `_detect_alleles_match`.  In the code as it is the query index `qp` is never advanced
(`adv = false`, defect F13); `adv = true` is the repaired behaviour (`query_pos += 1` after a matching base). -/
def matchLoop (adv : Bool) (query : Seq) (quals : Option (List Nat)) (alleleSeq : Seq) (qp : Int) (length : Nat) :
    Nat → AP → Nat → Except Err (AP × Nat)
  | 0, a, ops => .ok (a, ops)
  | fuel + 1, a, ops =>
    if a.matched < a.matchTarget ∧ ops < length then
      match pyGet query qp, alleleSeq[a.matched + a.inserted]? with
      | some qb, some vb =>
        if qb == vb then
          let qual := match quals with
            | none => Except.ok 30
            | some qs => match pyGet qs qp with | some x => .ok x | none => .error Err.index
          match qual with
          | .error e => .error e
          | .ok qual =>
            matchLoop adv query quals alleleSeq (if adv then qp + 1 else qp) length fuel
              { a with quality := a.quality + qual, matched := a.matched + 1, progress := a.progress + 1 } (ops + 1)
        else .ok (a, ops)
      | _, _ => .error .index
    else .ok (a, ops)

def handleMatch (adv : Bool) (query : Seq) (quals : Option (List Nat)) (e : Entry) (opQueryPos : Nat) (length : Nat)
    (i : Nat) (a : AP) : Except Err AP :=
  if a.progress < 0 then .ok a else
  let opStart := (e.queryStart - opQueryPos).toNat
  match getAllele e.v i with
  | none => .error .index
  | some alleleSeq =>
    match matchLoop adv query quals alleleSeq (e.queryStart + a.matched + a.inserted) length (length - opStart) a opStart with
    | .error err => .error err
    | .ok (a, ops) => .ok (if ops < length ∧ a.progress < a.length then { a with progress := -1 } else a)

def insertLoop (query : Seq) (alleleSeq : Seq) (queryStart : Int) (length : Nat) :
    Nat → AP → Nat → Except Err (AP × Nat)
  | 0, a, ops => .ok (a, ops)
  | fuel + 1, a, ops =>
    if a.inserted < a.insertTarget ∧ ops < length then
      match pyGet query (queryStart + a.matched + a.inserted), alleleSeq[a.matched + a.inserted]? with
      | some qb, some vb =>
        if qb == vb then
          insertLoop query alleleSeq queryStart length fuel
            { a with inserted := a.inserted + 1, progress := a.progress + 1, quality := a.quality + 30 } (ops + 1)
        else .ok (a, ops + 1)
      | _, _ => .error .index
    else .ok (a, ops)

def handleInsert (query : Seq) (e : Entry) (length : Nat) (i : Nat) (a : AP) : Except Err AP :=
  if a.progress < 0 then .ok a else
  match getAllele e.v i with
  | none => .error .index
  | some alleleSeq =>
    match insertLoop query alleleSeq e.queryStart length length a 0 with
    | .error err => .error err
    | .ok (a, ops) =>
      .ok (if ops < length ∧ 0 < a.progress ∧ a.progress < a.length then { a with progress := -1 } else a)

def handleDelete (length : Nat) (a : AP) : AP :=
  if a.progress < 0 then a else
  let n := min (a.deleteTarget - a.deleted) length
  let a := { a with deleted := a.deleted + n, progress := a.progress + n, quality := a.quality + 30 * n }
  if n < length ∧ a.progress < a.length then { a with progress := -1 } else a

def mapIdxM {α β} (f : Nat → α → Except Err β) : Nat → List α → Except Err (List β)
  | _, [] => .ok []
  | i, x :: xs => do let y ← f i x; let ys ← mapIdxM f (i + 1) xs; return y :: ys

/-- apply the handler of the current operation to one queued entry -/
def handleEntry (adv : Bool) (op : Nat) (query : Seq) (quals : Option (List Nat)) (opQueryPos length : Nat) (e : Entry) :
    Except Err Entry := do
  let alleles ←
    if isMatch op then mapIdxM (handleMatch adv query quals e opQueryPos length) 0 e.alleles
    else if op == 1 then mapIdxM (handleInsert query e length) 0 e.alleles
    else .ok (e.alleles.map (handleDelete length))
  return { e with alleles := alleles }

def resolvedIdx (as : List AP) : List Nat :=
  ((enumFrom 0 as).filter (fun p => p.2.progress == p.2.length)).map (·.1)
def pendingIdx (as : List AP) : List Nat :=
  ((enumFrom 0 as).filter (fun p => 0 ≤ p.2.progress ∧ p.2.progress < p.2.length)).map (·.1)

/-- first resolved allele of maximal length: `resolved[lengths.index(max(lengths))]` -/
def pickLongest (as : List AP) : Option (Nat × AP) :=
  ((enumFrom 0 as).filter (fun p => p.2.progress == p.2.length)).foldl
    (fun best p => match best with
      | none => some p
      | some b => if p.2.length > b.2.length then some p else some b) none

def yieldOf (e : Entry) : Option (Nat × Nat × Nat) :=
  match pickLongest e.alleles with
  | some (i, a) => some (e.variantId, i, if a.length > 0 then a.quality / a.length else 30)
  | none => none

/-- the `while vqueue:` loop after each operation -/
def popResolved : List Entry → List (Nat × Nat × Nat) × List Entry
  | [] => ([], [])
  | e :: es =>
    if !(resolvedIdx e.alleles).isEmpty && (pendingIdx e.alleles).isEmpty then
      let r := popResolved es; ((yieldOf e).toList ++ r.1, r.2)
    else if !(pendingIdx e.alleles).isEmpty then ([], e :: es)
    else popResolved es

/-- the final `for var_entry in vqueue:` -/
def flushQueue (q : List Entry) : List (Nat × Nat × Nat) :=
  q.flatMap (fun e =>
    if !(resolvedIdx e.alleles).isEmpty && (pendingIdx e.alleles).isEmpty then (yieldOf e).toList else [])

/-- a not yet visited `VariantProgress`: (variant id, normalised variant) -/
abbrev VP := Nat × Variant

/-- "Queue all variants that start within the ref span of the cigar operation" -/
def queueLoop (skipUnanchored : Bool) (op refPos queryPos refEnd : Nat) : List VP → List Entry × List VP
  | [] => ([], [])
  | (id, v) :: rest =>
    if v.pos ≥ refEnd then ([], (id, v) :: rest)
    else if op == 1 ∧ v.ref.length > 0 then ([], (id, v) :: rest)
    else if op == 2 ∧ v.ref.length == 0 then queueLoop skipUnanchored op refPos queryPos refEnd rest
    else if skipUnanchored ∧ v.ref.length == 0 ∧ v.pos == refPos then queueLoop skipUnanchored op refPos queryPos refEnd rest
    else
      let qs : Int := if op != 2 then (queryPos : Int) + v.pos - refPos else queryPos
      let r := queueLoop skipUnanchored op refPos queryPos refEnd rest
      (⟨id, v, qs, buildVarProgress v⟩ :: r.1, r.2)

def mapM' {α β} (f : α → Except Err β) : List α → Except Err (List β)
  | [] => .ok []
  | x :: xs => do let y ← f x; let ys ← mapM' f xs; return y :: ys

def noRefGo (fx : Fixes) (query : Seq) (quals : Option (List Nat)) :
    Bool → Nat → Nat → List VP → List Entry → Cigar → List (Nat × Nat × Nat) × Option Err
  | _, _, _, _, vqueue, [] => (flushQueue vqueue, none)
  | anchored, refPos, queryPos, vps, vqueue, (op, len) :: rest =>
    let vps := vps.dropWhile (fun p => p.2.pos < refPos)
    if op == 3 then noRefGo fx query quals false (refPos + len) queryPos vps vqueue rest
    else if op == 4 then noRefGo fx query quals anchored refPos (queryPos + len) vps vqueue rest
    else if op == 5 || op == 6 then noRefGo fx query quals anchored refPos queryPos vps vqueue rest
    else
      let qd := queueLoop (fx.f15 && !anchored && isMatch op) op refPos queryPos
        (if fx.f16 && op == 1 then refPos + 1 else refPos + len) vps
      let vqueue := vqueue ++ qd.1
      if !(isMatch op || op == 1 || op == 2) then ([], some .value)
      else
        match mapM' (handleEntry fx.f13 op query quals queryPos len) vqueue with
        | .error e => ([], some e)
        | .ok vqueue =>
          let pr := popResolved vqueue
          let refPos' := if isMatch op || op == 2 then refPos + len else refPos
          let queryPos' := if isMatch op || op == 1 then queryPos + len else queryPos
          let t := noRefGo fx query quals true refPos' queryPos' qd.2 pr.2 rest
          (pr.1 ++ t.1, t.2)

/-- `_detect_alleles(normalized_variants, var_progress, first, bam_read)`;
`variants` are the *un-normalised* variants, normalisation and conflict removal as in `_alignments_to_reads` -/
def detectNoRef (fx : Fixes) (variants : List Variant) (first refStart : Nat) (cigar : Cigar) (query : Seq)
    (quals : Option (List Nat)) : List (Nat × Nat × Nat) × Option Err :=
  let nvs := variants.map normalize
  let vps : List VP := (nonOverlapping nvs).filterMap (fun id => (nvs[id]?).map (fun v => (id, v)))
  noRefGo fx query quals false refStart 0 ((vps.drop first).dropWhile (fun p => p.2.pos < refStart)) [] cigar

/-! ## `create_read_from_group` -/

structure Aligned where
  supplementary : Bool
  reverse : Bool
  refStart : Int
  refEnd : Int
  /-- (position, allele, quality) in insertion order -/
  variants : List (Nat × Nat × Nat)
deriving Repr

def alignedDistance (a b : Aligned) : Int := max (max (b.refEnd - a.refStart) (b.refStart - a.refEnd)) 0

/-- insert (position ↦ variant) keeping first-insertion order; a differing allele marks the position -/
def addVariants : List (Nat × Nat × Nat) → List Nat → List (Nat × Nat × Nat) → List (Nat × Nat × Nat) × List Nat
  | acc, skip, [] => (acc, skip)
  | acc, skip, x :: xs =>
    match acc.find? (fun y => y.1 == x.1) with
    | some y => addVariants acc (if y.2.1 != x.2.1 then x.1 :: skip else skip) xs
    | none => addVariants (acc ++ [x]) skip xs

/-- `union_read.sort()`: by position (positions are unique here) -/
def insertByPos (x : Nat × Nat × Nat) : List (Nat × Nat × Nat) → List (Nat × Nat × Nat)
  | [] => [x]
  | y :: ys => if x.1 < y.1 then x :: y :: ys else y :: insertByPos x ys

def sortByPos : List (Nat × Nat × Nat) → List (Nat × Nat × Nat)
  | [] => []
  | x :: xs => insertByPos x (sortByPos xs)

/-- returns `none` for "no read" else the (position-sorted) variants of the union read.
`f12 = false`: the code as it is — every alignment whose orientation differs from the (last) primary's, or
that lies further than `threshold` from it, is left out, *including the other mate of a pair* (defect F12);
`f12 = true`: that filter applies to supplementary alignments only. -/
def mergeGroup (f12 : Bool) (group : List Aligned) (threshold : Int) : Option (List (Nat × Nat × Nat)) :=
  let prim := group.filter (fun r => !r.supplementary)
  match prim.getLast? with
  | none => none
  | some primary =>
    if prim.length > 2 then none else
    let used := group.filter (fun r => (f12 && !r.supplementary) || (r.reverse == primary.reverse && alignedDistance primary r ≤ threshold))
    let r := used.foldl (fun st r => addVariants st.1 st.2 r.variants) (([] : List (Nat × Nat × Nat)), ([] : List Nat))
    let kept := r.1.filter (fun x => !r.2.contains x.1)
    some (sortByPos kept)

end WhVerif.C06

/-!
# C05 model: pedigree partitions, admissible allele assignments, Mendelian conflict test, phasable variants

Core Lean only.  Faithful to the code as it is:

* `src/pedigreepartitions.cpp`: `triple_indices[i]` = index of the LAST triple whose child is `i`; individuals
  without such a triple ("roots") get partitions `(p, p+1)`, `p = 0, 2, 4, …` in index order;
  `compute_haplotype_to_partition_rec`: child haplotype 0 gets the father's partition with index
  `!bit(2k)` of the transmission value, haplotype 1 the mother's with index `!bit(2k+1)` (note the negation:
  bit value 1 selects the parent's haplotype 0).  The C++ recursion memoises; the model recomputes (same value).
  A cyclic pedigree makes the C++ recursion run away; the model runs out of fuel (`none`).
* `src/pedigreecolumncostcomputer.cpp` (trusted genotypes): the admissible assignments are the bit vectors over
  partitions under which every individual's two alleles reproduce its genotype (as a multiset); `get_alleles`
  reports, for every individual, the alleles under the LAST cost-minimal admissible assignment, and marks a
  haplotype `EQUAL_SCORES` (3) when the best cost with allele 0 equals the best cost with allele 1 there
  (`UINT_MAX` = "no admissible assignment with that allele"; both `UINT_MAX` also counts as equal).
  No admissible assignment at all: `runtime_error("Mendelian conflict")` (`none`).
* `whatshap/pedigree.py:mendelian_conflict` on `Genotype.as_vector()` (alleles in DEscending order).
* `whatshap/cli/phase.py:find_mendelian_conflicts`, `find_phaseable_variants`, the accessible positions
  (`run_whatshap`), and the writer's decision `pos in components and pos in phases and is_het`.
-/
namespace WhVerif.C05

/-! ## pedigree partitions -/

structure Ped where
  /-- number of individuals (index = order of `add_individual`) -/
  size : Nat
  /-- `(father, mother, child)` by index, in `add_relationship` order -/
  triples : List (Nat × Nat × Nat)
deriving Repr

def tripleIndexAux : List (Nat × Nat × Nat) → Nat → Nat → Option Nat → Option Nat
  | [], _, _, acc => acc
  | (_, _, c) :: ts, k, i, acc => tripleIndexAux ts (k + 1) i (if c = i then some k else acc)

/-- `triple_indices[i]` (`none` = -1) -/
def tripleIndex (ped : Ped) (i : Nat) : Option Nat := tripleIndexAux ped.triples 0 i none

/-- number of roots with a smaller index -/
def rootRank (ped : Ped) (i : Nat) : Nat :=
  ((List.range i).filter (fun j => (tripleIndex ped j).isNone)).length

/-- `arr[b]` for a two-element array -/
def sel (p : Nat × Nat) (b : Bool) : Nat := if b then p.2 else p.1

/-- `compute_haplotype_to_partition_rec` (fuel bounds the depth of the recursion) -/
def partOf (ped : Ped) (t : Nat) : Nat → Nat → Option (Nat × Nat)
  | 0, _ => none
  | fuel + 1, i =>
    match tripleIndex ped i with
    | none => some (2 * rootRank ped i, 2 * rootRank ped i + 1)
    | some k =>
      match ped.triples[k]? with
      | none => none
      | some (f, m, _) =>
        match partOf ped t fuel f, partOf ped t fuel m with
        | some pf, some pm => some (sel pf (!t.testBit (2 * k)), sel pm (!t.testBit (2 * k + 1)))
        | _, _ => none

/-- `haplotype_to_partition_map[i]` for transmission value `t` -/
def hapToPartition (ped : Ped) (t : Nat) (i : Nat) : Option (Nat × Nat) := partOf ped t ped.size i

/-- `partition_count` -/
def partitionCount (ped : Ped) : Nat := 2 * (ped.size - ped.triples.length)

/-! ## genotypes -/

/-- a `Genotype` as its `as_vector()`: alleles in descending order; `[]` = none/missing -/
abbrev Gt := List Nat

/-- `Genotype(vector{a, b})` -/
def mkGt2 (a b : Nat) : Gt := if a ≥ b then [a, b] else [b, a]

def Gt.isNone (g : Gt) : Bool := g.isEmpty

def Gt.isHomozygous : Gt → Bool
  | [] => false
  | a :: rest => rest.all (· == a)

/-! ## admissible assignments and `get_alleles` (trusted genotypes) -/

/-- `(i >> partition) & 1` -/
def alleleOf (asg p : Nat) : Nat := (asg >>> p) % 2

def indivAlleles (ped : Ped) (t asg i : Nat) : Option (Nat × Nat) :=
  (hapToPartition ped t i).map (fun p => (alleleOf asg p.1, alleleOf asg p.2))

/-- does assignment `asg` reproduce every individual's genotype? (`gts[i]` = genotype of individual `i` in this column) -/
def compatible (ped : Ped) (t : Nat) (gts : List Gt) (asg : Nat) : Bool :=
  (List.range ped.size).all (fun i =>
    match indivAlleles ped t asg i, gts[i]? with
    | some (a0, a1), some g => mkGt2 a0 a1 == g
    | _, _ => false)

/-- `allele_assignments` of the column's cost computer for transmission value `t`, in enumeration order -/
def admissible (ped : Ped) (t : Nat) (gts : List Gt) : List Nat :=
  (List.range (2 ^ partitionCount ped)).filter (compatible ped t gts)

/-- `cost_partition`: per partition `(cost if its allele is 0, cost if its allele is 1)` -/
abbrev PartCosts := List (Nat × Nat)

def asgCost (ped : Ped) (cp : PartCosts) (asg : Nat) : Nat :=
  (List.range (partitionCount ped)).foldl (fun acc p =>
    let c := cp.getD p (0, 0)
    acc + (if alleleOf asg p = 0 then c.1 else c.2)) 0

/-- `set_partitioning`: accumulate `cost_partition` from the entries of a column.  An entry is
`(individual index, haplotype 0/1 of its read in the bipartition, allele 0 = REF / 1 = ALT / other = blank, phred)`;
a REF entry costs its phred score if the partition's allele is 1, an ALT entry if it is 0 -/
def costsFromEntries (ped : Ped) (t : Nat) (entries : List (Nat × Nat × Nat × Nat)) : PartCosts :=
  entries.foldl (fun cp e =>
    match hapToPartition ped t e.1 with
    | none => cp
    | some p =>
      let part := if e.2.1 = 0 then p.1 else p.2
      if e.2.2.1 = 0 then cp.modify part (fun c => (c.1, c.2 + e.2.2.2))
      else if e.2.2.1 = 1 then cp.modify part (fun c => (c.1 + e.2.2.2, c.2))
      else cp) (List.replicate (partitionCount ped) (0, 0))

/-- minimum of `cost` over the candidates satisfying `pred` (`none` = `UINT_MAX`) -/
def minCostWith (cost : Nat → Nat) (pred : Nat → Bool) : List Nat → Option Nat
  | [] => none
  | a :: rest =>
    let r := minCostWith cost pred rest
    if pred a then
      match r with
      | none => some (cost a)
      | some m => some (min (cost a) m)
    else r

/-- the last candidate of minimal cost (`cost <= best_cost` updates) -/
def lastBest (cost : Nat → Nat) : List Nat → Option Nat
  | [] => none
  | a :: rest =>
    match lastBest cost rest with
    | none => some a
    | some b => if cost a < cost b then some a else some b

def EQUAL_SCORES : Nat := 3

/-- `best_cost_for_allele[i][h][a]`: best cost over the admissible assignments that give haplotype `h` of
individual `i` the allele `a` (`none` = `UINT_MAX`) -/
def bestCostFor (ped : Ped) (t : Nat) (cost : Nat → Nat) (adm : List Nat) (i h a : Nat) : Option Nat :=
  minCostWith cost (fun asg =>
    match indivAlleles ped t asg i with
    | some al => (if h = 0 then al.1 else al.2) == a
    | none => false) adm

/-- the entry of `pop_haps` for individual `i`: alleles under the best assignment, `EQUAL_SCORES` where
`quality == 0` -/
def allelesFor (ped : Ped) (t : Nat) (cost : Nat → Nat) (adm : List Nat) (best i : Nat) : Nat × Nat :=
  let al := (indivAlleles ped t best i).getD (0, 0)
  (if bestCostFor ped t cost adm i 0 0 == bestCostFor ped t cost adm i 0 1 then EQUAL_SCORES else al.1,
   if bestCostFor ped t cost adm i 1 0 == bestCostFor ped t cost adm i 1 1 then EQUAL_SCORES else al.2)

/-- `get_alleles()`: per individual `(allele0, allele1)`, with `EQUAL_SCORES` for ambiguous haplotypes;
`none` = `runtime_error("Error: Mendelian conflict")` -/
def getAlleles (ped : Ped) (t : Nat) (gts : List Gt) (cp : PartCosts) : Option (List (Nat × Nat)) :=
  let adm := admissible ped t gts
  let cost := asgCost ped cp
  match lastBest cost adm with
  | none => none
  | some best => some ((List.range ped.size).map (allelesFor ped t cost adm best))

/-! ## Mendelian conflicts and phasable variants -/

/-- `pedigree.py:mendelian_conflict(genotypem, genotypef, genotypec)`; `none` = IndexError (child ploidy < 2) -/
def mendelianConflict (gm gf gc : Gt) : Option Bool :=
  match gc[0]?, gc[1]? with
  | some c0, some c1 =>
    if gm.contains c0 && gf.contains c1 then some false
    else if gm.contains c1 && gf.contains c0 then some false
    else some true
  | _, _ => none

/-- genotype table of one family: `tab[s][i]` = genotype of family member `s` at variant index `i` -/
abbrev GtTable := List (List Gt)

def gtAt (tab : GtTable) (s i : Nat) : Gt := (tab.getD s []).getD i []

def nVariants (tab : GtTable) : Nat := (tab.getD 0 []).length

def missingAt (tab : GtTable) (i : Nat) : Bool := (List.range tab.length).any (fun s => (gtAt tab s i).isNone)

def hetAt (tab : GtTable) (i : Nat) : Bool :=
  (List.range tab.length).any (fun s => !(gtAt tab s i).isNone && !(gtAt tab s i).isHomozygous)

def homAt (tab : GtTable) (i : Nat) : Bool :=
  (List.range tab.length).any (fun s => !(gtAt tab s i).isNone && (gtAt tab s i).isHomozygous)

/-- `find_mendelian_conflicts`: trios are `(father, mother, child)` by family-member index -/
def conflictAt (tab : GtTable) (trios : List (Nat × Nat × Nat)) (i : Nat) : Bool :=
  trios.any (fun (f, m, c) =>
    let gm := gtAt tab m i; let gf := gtAt tab f i; let gc := gtAt tab c i
    !gm.isNone && !gf.isNone && !gc.isNone && (mendelianConflict gm gf gc).getD true)

/-- `to_retain` of `find_phaseable_variants` -/
def retained (tab : GtTable) (trios : List (Nat × Nat × Nat)) (includeHom : Bool) (i : Nat) : Bool :=
  (includeHom || hetAt tab i) && !missingAt tab i && !conflictAt tab trios i

/-- `find_phaseable_variants`: (indices behind `homozygous_positions`, indices kept in the phasable table) -/
def findPhaseableVariants (tab : GtTable) (trios : List (Nat × Nat × Nat)) (includeHom : Bool) :
    List Nat × List Nat :=
  let keep := (List.range (nVariants tab)).filter (retained tab trios includeHom)
  (keep.filter (homAt tab), keep)

/-- accessible positions of `run_whatshap`: positions covered by selected reads, plus (pedigree with genetic
haplotyping) the retained positions homozygous in some member; `none` = the assertion after
`subset_rows_by_position` fails (an accessible position that is not in the phasable table) -/
def accessiblePositions (retainedPos : List Nat) (readPos : List Nat) (homPos : List Nat) (famSize : Nat)
    (genetic : Bool) : Option (List Nat) :=
  let acc := if famSize > 1 && genetic then (readPos ++ homPos).eraseDups else readPos.eraseDups
  if acc.all (retainedPos.contains ·) then some acc else none

/-- the writer's decision for one call: `pos in components and pos in phases and is_het`
(`phases` holds a position only if both super-read alleles are 0/1); returns `(PS, allele1, allele2)` -/
def writerPhase (components : List (Nat × Nat)) (superreads : List (Nat × Nat × Nat)) (isHet : Bool) (pos : Nat) :
    Option (Nat × Nat × Nat) :=
  match components.lookup pos, superreads.lookup pos with
  | some c, some (a0, a1) => if a0 ≤ 1 && a1 ≤ 1 && isHet then some (c + 1, a0, a1) else none
  | _, _ => none

end WhVerif.C05

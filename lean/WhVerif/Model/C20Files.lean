import WhVerif.Model.C20
/-!
# C20 model, file level: the three list files as lines on disk, and the processing order

Core Lean only.  `Model/C20.lean` models the *data rows* of the three lists; this file models the files themselves as
`run_whatshap` treats them, as the code is (after the F1 fix, /repo d9c1d56):

* a file is `none` (does not exist) or its lines; the content found before the run is part of the state (`Pre`);
* `ReadList.__enter__`: `open(path, "w")` + header once, before the first chromosome; `ReadList.write` appends one line
  per read, looking the read's components up in the per-chromosome dict `components[sample]` that the family loop fills
  (`components[sample] = overall_components` for every family member; reset to `dict()` at every chromosome);
* `write_changed_genotypes(path, rows, append=gtchange_list_started)` once per *processed* chromosome:
  `open(path, "a" if append else "w")`, header only when not appending; then `gtchange_list_started = True`;
* `write_recombination_list(…, append=recombination_list_started)` once per processed (chromosome, family), also for
  families without trios; header printed with `print`'s default separator (blanks), rows likewise;
* chromosomes not named by `--chromosome` are `continue`d before any list is touched.
  Consequence (F80): when the run processes no chromosome the two piecewise lists are never opened — a requested
  file is not created, a pre-existing one keeps its old content.  `Fix.createAtStart` models `fixes/F80.patch`
  (both files are created with their header before the first chromosome, every later call appends).
* `setup_families`: union–find over the samples with the *minimum* as representative, one merge per kept trio
  (father–child, mother–child), `families[find(sample)].append(sample)` in sample order, `family_trios[find(child)]` in
  PED order, families processed in `sorted(families.items())` order.
-/
namespace WhVerif.C20
open WhVerif.C04

/-! ### lines -/

def tabJoin (cols : List String) : String := "\t".intercalate cols
def blankJoin (cols : List String) : String := " ".intercalate cols

def readHeader : String :=
  tabJoin ["#readname", "source_id", "sample", "phaseset", "haplotype", "covered_variants", "first_variant_pos",
    "last_variant_pos"]
def gtHeader : String := tabJoin ["#sample", "chromosome", "position", "REF", "ALT", "old_gt", "new_gt"]
def recHeader : String :=
  blankJoin ["#child_id", "chromosome", "position1", "position2", "transmitted_hap_father1", "transmitted_hap_father2",
    "transmitted_hap_mother1", "transmitted_hap_mother2", "recombination_cost"]

def renderReadRow (r : ReadRow) : String :=
  tabJoin [r.name, toString r.sourceId, r.sample, toString r.phaseSet, toString r.hap, toString r.nVariants,
    toString r.first, toString r.last]

/-- `Genotype::toString` -/
def gtRepr (g : List Nat) : String := if g.isEmpty then "." else "/".intercalate (g.map toString)

/-- one line of `write_changed_genotypes` (the position column is the 0-based `variant.position`) -/
def renderGtRow (chrom : String) (c : GtChange) : String :=
  tabJoin [c.sample, chrom, toString c.pos, c.ref, c.alts.head?.getD ".", gtRepr c.oldGt, gtRepr c.newGt]

def renderRecRow (r : RecRow) : String :=
  blankJoin [r.child, r.chrom, toString r.pos1, toString r.pos2, toString r.f1, toString r.f2, toString r.m1,
    toString r.m2, toString r.cost]

/-! ### the run -/

/-- one (chromosome, family) with the family's members (`family`, in sample order) -/
structure FamRun where
  inst : Inst
  members : List String
deriving Repr

structure ChromF where
  name : String
  /-- `false`: not requested by `--chromosome` -/
  selected : Bool
  families : List FamRun
  /-- what `vcf_writer.write` returned for this chromosome -/
  gtChanges : List GtChange
deriving Repr

abbrev FileC := Option (List String)

/-- the three paths before the run -/
structure Pre where
  read : FileC
  gt : FileC
  reco : FileC
deriving Repr

structure Fix where
  /-- `fixes/F80.patch`: create the changed-genotype and recombination lists before the first chromosome -/
  createAtStart : Bool
deriving Repr

structure FState where
  read : FileC
  gt : FileC
  reco : FileC
  gtStarted : Bool
  recStarted : Bool
deriving Repr

/-- `open(path, "a" if append else "w")`, the header unless appending, then the lines -/
def writePiece (append : Bool) (header : String) (old : FileC) (lines : List String) : FileC :=
  if append then some (old.getD [] ++ lines) else some (header :: lines)

/-- the per-chromosome dict `components`: sample ↦ components of its family (later assignment wins) -/
abbrev SampleComps := List (String × List (Nat × Nat))

def scLookup (sc : SampleComps) (s : String) : Option (List (Nat × Nat)) := (sc.find? (·.1 == s)).map (·.2)

def scAssign (sc : SampleComps) (members : List String) (comps : List (Nat × Nat)) : SampleComps :=
  members.foldl (fun acc s => (s, comps) :: acc) sc

/-- `ReadList.write`: `components = sample_components[sample]` (`none` = `KeyError`), then as `readRow` -/
def readRowS (sc : SampleComps) (r : Read) (h : Nat) : Option ReadRow :=
  match scLookup sc r.sample with
  | none => none
  | some comps => readRow comps r h

def readListRowsS (sc : SampleComps) (i : Inst) : List ReadRow :=
  (i.reads.zip i.partition).filterMap fun rh => readRowS sc rh.1 rh.2

def famStepF (o : Opts) (st : FState × SampleComps) (f : FamRun) : FState × SampleComps :=
  let s := st.1
  let s1 := if o.recList then
      { s with reco := writePiece s.recStarted recHeader s.reco ((recombRows f.inst).map renderRecRow), recStarted := true }
    else s
  let sc := scAssign st.2 f.members f.inst.comps
  let s2 := if o.readList then
      { s1 with read := s1.read.map (· ++ (readListRowsS sc f.inst).map renderReadRow) }
    else s1
  (s2, sc)

def chromStepF (o : Opts) (s : FState) (c : ChromF) : FState :=
  if c.selected then
    let s1 := (c.families.foldl (famStepF o) (s, [])).1          -- `components = dict()` per chromosome
    if o.gtList then
      { s1 with gt := writePiece s1.gtStarted gtHeader s1.gt (c.gtChanges.map (renderGtRow c.name)), gtStarted := true }
    else s1
  else s

def initF (o : Opts) (fx : Fix) (pre : Pre) : FState :=
  { read := if o.readList then some [readHeader] else pre.read
    gt := if o.gtList && fx.createAtStart then some [gtHeader] else pre.gt
    reco := if o.recList && fx.createAtStart then some [recHeader] else pre.reco
    gtStarted := o.gtList && fx.createAtStart
    recStarted := o.recList && fx.createAtStart }

/-- the three files after the run -/
def runF (o : Opts) (fx : Fix) (pre : Pre) (chroms : List ChromF) : FState :=
  chroms.foldl (chromStepF o) (initF o fx pre)

def selectedF (chroms : List ChromF) : List ChromF := chroms.filter (·.selected)
def allFams (chroms : List ChromF) : List FamRun := (selectedF chroms).flatMap (·.families)

/-- every read of the family belongs to one of its members (what `merge_readsets(readsets)` over `family` guarantees) -/
def FamRun.ReadsOfMembers (f : FamRun) : Prop := ∀ r ∈ f.inst.reads, r.sample ∈ f.members

/-! ### processing order: `setup_pedigree` + `setup_families` -/

/-- a PED line: individual, father, mother (`none` = `0`) -/
structure PedLine where
  child : String
  father : Option String
  mother : Option String
deriving Repr, DecidableEq

structure Trio where
  father : String
  mother : String
  child : String
deriving Repr, DecidableEq

/-- `setup_pedigree`: relationships with an unknown individual or an individual outside `samples` are ignored -/
def keptTrios (samples : List String) (ped : List PedLine) : List Trio :=
  ped.filterMap fun l =>
    match l.father, l.mother with
    | some f, some m => if samples.contains f && samples.contains m && samples.contains l.child then some ⟨f, m, l.child⟩ else none
    | _, _ => none

abbrev Classes := List (List String)

def classOf (cls : Classes) (x : String) : List String := (cls.find? (·.contains x)).getD [x]

/-- `ComponentFinder.merge` on the partition -/
def mergeCls (cls : Classes) (x y : String) : Classes :=
  if (classOf cls x).contains y then cls
  else (classOf cls x ++ classOf cls y) :: cls.filter (fun c => !c.contains x && !c.contains y)

def minStr (d : String) (l : List String) : String := l.foldl (fun a b => if b < a then b else a) d

/-- `ComponentFinder.find`: the minimum of the class -/
def repOf (cls : Classes) (x : String) : String := minStr x (classOf cls x)

def finalClasses (samples : List String) (trios : List Trio) : Classes :=
  trios.foldl (fun c t => mergeCls (mergeCls c t.father t.child) t.mother t.child) (samples.map ([·]))

def insertStr (x : String) : List String → List String
  | [] => [x]
  | y :: r => if x ≤ y then x :: y :: r else y :: insertStr x r
def sortStr : List String → List String
  | [] => []
  | x :: r => insertStr x (sortStr r)

def dedupStr : List String → List String
  | [] => []
  | x :: xs => x :: (dedupStr xs).filter (fun y => y != x)

structure Family where
  rep : String
  members : List String
  trios : List Trio
deriving Repr, DecidableEq

/-- `setup_families` in the order `sorted(families.items())` processes them -/
def setupFamilies (samples : List String) (trios : List Trio) : List Family :=
  let cls := finalClasses samples trios
  (sortStr (dedupStr (samples.map (repOf cls)))).map fun r =>
    ⟨r, samples.filter (fun s => repOf cls s == r), trios.filter (fun t => repOf cls t.child == r)⟩

/-- the (chromosome, family members, children) sequence the run works through -/
def processingOrder (chroms : List (String × Bool)) (samples : List String) (ped : List PedLine) :
    List (String × List String × List String) :=
  (chroms.filter (·.2)).flatMap fun c =>
    (setupFamilies samples (keptTrios samples ped)).map fun f => (c.1, f.members, f.trios.map (·.child))

end WhVerif.C20

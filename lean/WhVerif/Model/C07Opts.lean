import WhVerif.Model.C07Pipe
/-!
# C07 option glue: which cap `whatshap phase` derives from its command line (`add_arguments`, `validate`, `main`)

`argparse` semantics used here: an option with the default `store` action keeps the value of its LAST occurrence
(`--internal-downsampling 3 --internal-downsampling 5` is `5`), whatever spelling was used (long form, unique prefix,
`--opt=value`, short form); `append` options collect; `store_true` options are flags.  The fields of `PhaseArgs` are the
command line after that step, restricted to what `validate` looks at:

```
--internal-downsampling   dest=max_coverage           int, default 15
--max-coverage / -H       dest=max_coverage_was_used  int, default None, help=SUPPRESS   (legacy, hidden)
--full-genotyping / --indels                         hidden flags
```

`validate(args, parser)` (the order of the tests is the order of the code; `parser.error` exits with status 2):
reference/no-reference, ignore-read-groups/ped, genmap/ped, genmap/one chromosome, include-homozygous/distrust,
use-ped-samples/ped, use-ped-samples/samples, no phase input without ped, `max_coverage > 23`, [legacy option: warning
only], row limit (only for `--algorithm heuristic`), `--full-genotyping` removed, [`--indels`: warning only].
`main` then deletes `max_coverage_was_used`, `full_genotyping`, `indels_used` and calls `run_whatshap(**vars(args))`:
the cap of the run is `args.max_coverage`.
-/
namespace WhVerif.C07

structure PhaseArgs where
  /-- the values of every `--internal-downsampling` occurrence, in command-line order -/
  internalDownsampling : List Int := []
  /-- the values of every `-H` / `--max-coverage` occurrence (hidden legacy option) -/
  legacyMaxCoverage : List Int := []
  reference : Bool := false
  noReference : Bool := false
  ignoreReadGroups : Bool := false
  ped : Bool := false
  genmap : Bool := false
  /-- number of `--chromosome` occurrences -/
  chromosomes : Nat := 0
  /-- number of `--sample` occurrences -/
  samples : Nat := 0
  includeHomozygous : Bool := false
  distrustGenotypes : Bool := false
  usePedSamples : Bool := false
  /-- number of PHASEINPUT files -/
  phaseInputs : Nat := 1
  fullGenotyping : Bool := false
  indels : Bool := false
  /-- last `--row-limit` / `-L` value, if any -/
  rowLimit : Option Int := none
  /-- `--algorithm heuristic` (the C07 statement is for the default; kept because `validate` tests it) -/
  heuristic : Bool := false
deriving Repr, DecidableEq, Inhabited

/-- `store` action: the last occurrence wins, the default if the option is absent -/
def lastOr (xs : List Int) (d : Int) : Int := xs.getLast?.getD d

/-- `args.max_coverage` after parsing -/
def parsedCap (a : PhaseArgs) : Int := lastOr a.internalDownsampling 15

inductive Rejected where
  | referenceAndNoReference | ignoreReadGroupsWithPed | genmapWithoutPed | genmapNeedsOneChromosome
  | includeHomozygousWithoutDistrust | usePedSamplesWithoutPed | usePedSamplesWithSamples | noPhaseInput
  | capAbove23 | rowLimitAbove65535 | fullGenotypingRemoved
deriving Repr, DecidableEq

/-- the `parser.error` tests of `validate` in the order of the code (condition, error) -/
def checks (a : PhaseArgs) : List (Bool × Rejected) :=
  [ (a.reference && a.noReference, .referenceAndNoReference),
    (a.ignoreReadGroups && a.ped, .ignoreReadGroupsWithPed),
    (a.genmap && !a.ped, .genmapWithoutPed),
    (a.genmap && a.chromosomes != 1, .genmapNeedsOneChromosome),
    (a.includeHomozygous && !a.distrustGenotypes, .includeHomozygousWithoutDistrust),
    (a.usePedSamples && !a.ped, .usePedSamplesWithoutPed),
    (a.usePedSamples && a.samples != 0, .usePedSamplesWithSamples),
    (a.phaseInputs == 0 && !a.ped, .noPhaseInput),
    (!capAccepted (parsedCap a), .capAbove23),
    -- `if args.max_coverage_was_used is not None: logger.warning(...)`: nothing else happens
    (a.heuristic && (match a.rowLimit with | some l => decide (65535 < l) | none => false), .rowLimitAbove65535),
    (a.fullGenotyping, .fullGenotypingRemoved)
    -- `if args.indels_used: logger.warning(...)`
  ]

/-- the first `parser.error` that `validate` raises, if any -/
def firstRejection (a : PhaseArgs) : Option Rejected := ((checks a).find? (·.1)).map (·.2)

/-- `validate` followed by `main`: the `max_coverage` keyword argument of `run_whatshap`, or the first `parser.error` -/
def validateCap (a : PhaseArgs) : Except Rejected Int :=
  match firstRejection a with
  | some e => .error e
  | none => .ok (parsedCap a)

def Rejected.text : Rejected → String
  | .referenceAndNoReference => "reference-and-no-reference"
  | .ignoreReadGroupsWithPed => "ignore-read-groups-with-ped"
  | .genmapWithoutPed => "genmap-without-ped"
  | .genmapNeedsOneChromosome => "genmap-needs-one-chromosome"
  | .includeHomozygousWithoutDistrust => "include-homozygous-without-distrust"
  | .usePedSamplesWithoutPed => "use-ped-samples-without-ped"
  | .usePedSamplesWithSamples => "use-ped-samples-with-samples"
  | .noPhaseInput => "no-phase-input"
  | .capAbove23 => "cap-above-23"
  | .rowLimitAbove65535 => "row-limit-above-65535"
  | .fullGenotypingRemoved => "full-genotyping-removed"

end WhVerif.C07

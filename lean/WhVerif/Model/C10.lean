/-!
# C10 — model of `whatshap haplotag` (whatshap/cli/haplotag.py, read assembly of whatshap/variants.py)

Core Lean only.  Three layers, each mirroring the code as it is:

* `groupRead`        — `ReadSetReader.create_read_from_group`: the alignments with one query name that
                       make up one `Read` (union of the alleles of the same-strand alignments of the last
                       primary alignment; conflicting positions dropped);
* `tagDecision`      — the body of the `for read in read_set` loop of `prepare_haplotag_information`:
                       per-phase-set score accumulation (`haplotype_costs`, a `defaultdict` created on the
                       first matching allele), choice of the reported phase set (stable sort by
                       `max(scores)`, descending), best versus second best haplotype, `quality == 0` ⇒ untagged;
                       `prepare` adds the linked-read (BX) grouping and the two dictionaries
                       `read_to_haplotype`, `BX_tag_to_haplotype`;
* `tagAln`, `run…`   — `ignore_read`, `attempt_add_phase_information` and the BAM in→out loop of
                       `run_haplotag` including the unmapped tail and `--regions`.
-/
namespace WhVerif.C10

/-! ## decision rule -/

/-- one `Variant` of a `Read`: position, detected allele, quality -/
structure RV where
  pos : Nat
  allele : Nat
  qual : Nat
deriving Repr, DecidableEq, Inhabited

/-- `variantpos_to_phaseinfo` of `get_variant_information`: position ↦ (phase set id, allele per haplotype).
A missing allele (`.` in the GT) is sent as a number ≥ 2: it never equals a detected allele. -/
abbrev PhaseInfo := List (Nat × (Int × List Nat))

/-- `haplotype_costs`: insertion-ordered map phase set ↦ score per haplotype -/
abbrev Scores := List (Int × List Nat)

inductive Err
  | keyError        -- `variantpos_to_phaseinfo[v.position]` of a position without phase information
  | assertAllele    -- `assert v.allele in [0, 1]`
  | indexError      -- `scores_list[1]` with ploidy < 2
deriving Repr, DecidableEq

/-- `for hap_index, hap_allele in enumerate(phasing): if v.allele == hap_allele: costs[hap_index] += v.quality`.
(`VcfReader` raises `PloidyError` unless every phasing has exactly `ploidy` entries, so the
`IndexError` of a phasing longer than the score vector is unreachable and not modelled.) -/
def bump (sc phasing : List Nat) (a q : Nat) : List Nat :=
  sc.mapIdx fun i s => if phasing[i]? = some a then s + q else s

/-- `haplotype_costs[ps]` (a `defaultdict(lambda: [0] * ploidy)`) updated in place, created at the end on first use -/
def touch (ploidy : Nat) (ps : Int) (phasing : List Nat) (a q : Nat) : Scores → Scores
  | [] => [(ps, bump (List.replicate ploidy 0) phasing a q)]
  | (p, s) :: rest =>
    if p = ps then (p, bump s phasing a q) :: rest else (p, s) :: touch ploidy ps phasing a q rest

/-- one iteration of `for v in r` -/
def step (ploidy : Nat) (info : PhaseInfo) (sc : Scores) (v : RV) : Except Err Scores :=
  if 2 ≤ v.allele then .error .assertAllele else
  match info.lookup v.pos with
  | none => .error .keyError
  | some (ps, phasing) =>
    -- the dictionary entry comes into existence only when some haplotype carries the allele
    .ok (if phasing.contains v.allele then touch ploidy ps phasing v.allele v.qual sc else sc)

def accumulate (ploidy : Nat) (info : PhaseInfo) : Scores → List RV → Except Err Scores
  | sc, [] => .ok sc
  | sc, v :: vs =>
    match step ploidy info sc v with
    | .error e => .error e
    | .ok sc' => accumulate ploidy info sc' vs

def listMax : List Nat → Nat
  | [] => 0
  | x :: xs => max x (listMax xs)

/-- `l.sort(key=lambda t: max(t[1]), reverse=True); l[0]`: Python's sort is stable also with
`reverse=True`, so the first entry (in insertion order) among those with the largest best score wins -/
def pickSet : Scores → Option (Int × List Nat)
  | [] => none
  | e :: rest =>
    match pickSet rest with
    | none => some e
    | some b => if listMax e.2 < listMax b.2 then some b else some e

/-- index of the first maximum: `scores_list.sort(key=lambda t: t[1], reverse=True); scores_list[0]` -/
def argmaxFirst : List Nat → Nat
  | [] => 0
  | x :: xs => if x < listMax xs then argmaxFirst xs + 1 else 0

inductive Decision
  | untagged
  | tagged (ht : Nat) (quality : Nat) (ps : Int)   -- haplotype index (HP = ht + 1), PC, PS
  | error (e : Err)
deriving Repr, DecidableEq

/-- best and second best haplotype of the reported phase set; `quality == 0` ⇒ `continue` -/
def decideScores (ps : Int) (s : List Nat) : Decision :=
  if s.length < 2 then .error .indexError else
  let h := argmaxFirst s
  let second := listMax (s.eraseIdx h)          -- `scores_list[1]` after the stable descending sort
  let quality := listMax s - second
  if quality = 0 then .untagged else .tagged h quality ps

/-- the decision for one read (or one read cloud): `rvs` are the variants of `reads_to_consider`
in iteration order -/
def tagDecision (ploidy : Nat) (info : PhaseInfo) (rvs : List RV) : Decision :=
  match accumulate ploidy info [] rvs with
  | .error e => .error e
  | .ok sc =>
    match pickSet sc with
    | none => .untagged                         -- `if len(l) == 0: continue`
    | some (ps, s) => decideScores ps s

/-! ## exchanging two haplotypes of a phase set in the VCF -/

/-- exchange the entries `i` and `j` of a list (identity when an index is out of range) -/
def swapAt (l : List Nat) (i j : Nat) : List Nat :=
  l.mapIdx fun k x => if k = i then l[j]?.getD x else if k = j then l[i]?.getD x else x

def swapIdx (i j k : Nat) : Nat := if k = i then j else if k = j then i else k

/-- the VCF with haplotypes `i` and `j` of phase set `P` exchanged -/
def swapPhase (P : Int) (i j : Nat) (info : PhaseInfo) : PhaseInfo :=
  info.map fun e => if e.2.1 = P then (e.1, (e.2.1, swapAt e.2.2 i j)) else e

/-! ## read assembly (`create_read_from_group`) -/

/-- an `AlignedRead` of one group (same query name, source, sample) with its detected alleles -/
structure AlnRead where
  supplementary : Bool
  reverse : Bool
  refStart : Int
  refEnd : Int
  variants : List RV
deriving Repr

def alnDistance (p o : AlnRead) : Int := max (max (o.refEnd - p.refStart) (o.refStart - p.refEnd)) 0

/-- the last non-supplementary alignment of the group -/
def lastPrimary : List AlnRead → Option AlnRead
  | [] => none
  | a :: rest => match lastPrimary rest with
    | some p => some p
    | none => if a.supplementary then none else some a

/-- insertion of a read's variants into the `variants` dict / the `skip` set -/
def mergeVariants (acc : List RV) (skip : List Nat) : List RV → List RV × List Nat
  | [] => (acc, skip)
  | v :: vs =>
    match acc.find? (·.pos == v.pos) with
    | some w => mergeVariants acc (if w.allele ≠ v.allele then v.pos :: skip else skip) vs
    | none => mergeVariants (acc ++ [v]) skip vs

def insertSorted (v : RV) : List RV → List RV
  | [] => [v]
  | w :: ws => if v.pos < w.pos then v :: w :: ws else w :: insertSorted v ws

/-- `create_read_from_group`: `none` = group skipped (no primary, or more than two primaries);
otherwise (reference_start, variants sorted by position) of the union read -/
def groupRead (repaired : Bool) (threshold : Int) (group : List AlnRead) : Option (Int × List RV) :=
  match lastPrimary group with
  | none => none
  | some p =>
    if (group.filter (!·.supplementary)).length > 2 then none else
    -- as the code is, the strand/distance filter also hits the other mate of a pair (defect F12 of C06, whose
    -- repair applies it to supplementary alignments only): `repaired` selects the behaviour after fixes/F12.patch
    let used := group.filter fun r =>
      (repaired && !r.supplementary) || (r.reverse == p.reverse && decide (alnDistance p r ≤ threshold))
    let start := used.foldl (fun s r => min s r.refStart) p.refStart
    let (vars, skip) := used.foldl (fun (st : List RV × List Nat) r => mergeVariants st.1 st.2 r.variants) ([], [])
    let kept := vars.filter fun v => !skip.contains v.pos
    some (start, kept.foldr insertSorted [])

/-! ## `prepare_haplotag_information`: linked reads and the two dictionaries -/

/-- a `Read` of the read set, in read-set order -/
structure SetRead where
  name : String
  refStart : Int
  bx : Option String            -- `None` = no BX tag (`has_BX_tag()` false)
  variants : List RV
deriving Repr

structure Prepared where
  readToHap : List (String × (Nat × Nat × Int)) := []     -- later entries override earlier ones (dict)
  bxToHap : List (String × (Int × Nat × Int)) := []       -- per tag in append order
  processed : List String := []
  nMultiple : Nat := 0
  error : Option Err := none
deriving Repr

def absDiff (a b : Int) : Int := if a ≤ b then b - a else a - b

/-- one iteration of `for read in read_set`; `later` = the reads behind `read` in the read set.
`reads_to_consider` is a Python `set`; it is iterated here with `read` first and the others in read-set
order (the order only matters for ties between phase sets, see notes). -/
def prepareStep (ploidy : Nat) (info : PhaseInfo) (cutoff : Int) (ignoreLinked : Bool)
    (st : Prepared) (read : SetRead) (all : List SetRead) : Prepared :=
  if st.error.isSome || st.processed.contains read.name then st else
  let linked := !ignoreLinked && read.bx.isSome
  let others :=
    if linked then
      all.filter fun r => r.bx == read.bx && r.name != read.name && !st.processed.contains r.name
        && decide (absDiff read.refStart r.refStart ≤ cutoff)
    else []
  let group := read :: others
  let processed := st.processed ++ group.map (·.name)
  match accumulate ploidy info [] (group.flatMap (·.variants)) with
  | .error e => { st with processed := processed, error := some e }
  | .ok sc =>
    match pickSet sc with
    | none => { st with processed := processed }
    | some (ps, s) =>
      let nMultiple := if sc.length > 1 then st.nMultiple + 1 else st.nMultiple
      match decideScores ps s with
      | .error e => { st with processed := processed, nMultiple := nMultiple, error := some e }
      | .untagged => { st with processed := processed, nMultiple := nMultiple }
      | .tagged h q _ =>
        { st with
          processed := processed
          nMultiple := nMultiple
          bxToHap := match read.bx with
            | some tag => if linked then st.bxToHap ++ [(tag, (read.refStart, h, ps))] else st.bxToHap
            | none => st.bxToHap
          readToHap := st.readToHap ++ group.map fun r => (r.name, (h, q, ps)) }

def prepare (ploidy : Nat) (info : PhaseInfo) (cutoff : Int) (ignoreLinked : Bool) (st : Prepared)
    (reads : List SetRead) : Prepared :=
  reads.foldl (fun st r => prepareStep ploidy info cutoff ignoreLinked st r reads) st

/-! ## the alignment stream -/

structure Tags where
  hp : Option Nat := none
  pc : Option Nat := none
  ps : Option Int := none
deriving Repr, DecidableEq

/-- an alignment record. `rest` stands for every field and every tag that the model does not look at;
`name … bx` are the fields `run_haplotag` reads (never writes); `tags` are HP, PC, PS. -/
structure Aln (α : Type) where
  rest : α
  name : String
  unmapped : Bool
  secondary : Bool
  supplementary : Bool
  refStart : Int
  refEnd : Int
  bx : Option String
  tags : Tags

/-- the record without its HP/PC/PS tags -/
def Aln.erase {α} (a : Aln α) : Aln α := { a with tags := {} }

structure ChromCtx where
  readToHap : List (String × (Nat × Nat × Int))
  bxToHap : List (String × (Int × Nat × Int))
  cutoff : Int
  ignoreLinked : Bool
  tagSupplementary : Bool

def ignoreRead (tagSupplementary unmapped secondary supplementary : Bool) : Bool :=
  if unmapped || secondary then true
  else if tagSupplementary && supplementary then false
  else if supplementary then true
  else false

/-- last binding of a key (Python dict built by successive assignment) -/
def lookupLast {β} (k : String) : List (String × β) → Option β
  | [] => none
  | (k', v) :: rest => match lookupLast k rest with
    | some w => some w
    | none => if k' = k then some v else none

/-- `attempt_add_phase_information` followed by the removal of HP/PC/PS on untagged alignments -/
def newTags (c : ChromCtx) (name : String) (refStart : Int) (bx : Option String) : Tags :=
  match lookupLast name c.readToHap with
  | some (h, q, ps) => { hp := some (h + 1), pc := some q, ps := some ps }
  | none =>
    if c.ignoreLinked then {} else
    match bx with
    | none => {}
    | some tag =>
      let clouds := (c.bxToHap.filter (·.1 == tag)).map (·.2)
      match clouds.find? (fun e => decide (absDiff e.1 refStart ≤ c.cutoff)) with
      | some (_, h, ps) => { hp := some (h + 1), pc := none, ps := some ps }
      | none => {}

def tagAln {α} (c : ChromCtx) (a : Aln α) : Aln α :=
  if ignoreRead c.tagSupplementary a.unmapped a.secondary a.supplementary then { a with tags := {} }
  else { a with tags := newTags c a.name a.refStart a.bx }

/-- a contig of the BAM with the dictionaries prepared for it -/
structure Chrom (α : Type) where
  ctx : ChromCtx
  alns : List (Aln α)          -- `bam_reader.fetch(contig=chrom)`: placed alignments in file order

/-- without `--regions`: all contigs in header order, then the unplaced unmapped reads, untouched -/
def run {α} (chroms : List (Chrom α)) (unplaced : List (Aln α)) : List (Aln α) :=
  chroms.flatMap (fun c => c.alns.map (tagAln c.ctx)) ++ unplaced

/-- `fetch(start, stop)`: alignments overlapping the half-open interval (`none` = to the end) -/
def overlaps {α} (r : Int × Option Int) (a : Aln α) : Bool :=
  decide (r.1 < max a.refEnd (a.refStart + 1)) && (match r.2 with | none => true | some e => decide (a.refStart < e))

/-- `--regions` as the code is: per chromosome (in the order of first mention) every region in the order
given, one `fetch` each, no unmapped tail.  An alignment overlapping two regions is written twice. -/
def runRegionsOrig {α} (sel : List (Chrom α × List (Int × Option Int))) : List (Aln α) :=
  sel.flatMap fun (c, regions) => regions.flatMap fun r => (c.alns.filter (overlaps r)).map (tagAln c.ctx)

/-- `--regions` after the repair fixes/F17: an alignment is written with the first region it overlaps -/
def fetchOnce {α} (alns : List (Aln α)) : List (Int × Option Int) → List (Int × Option Int) → List (Aln α)
  | _, [] => []
  | earlier, r :: rest =>
    alns.filter (fun a => overlaps r a && !earlier.any (overlaps · a)) ++ fetchOnce alns (earlier ++ [r]) rest

def runRegions {α} (sel : List (Chrom α × List (Int × Option Int))) : List (Aln α) :=
  sel.flatMap fun (c, regions) => (fetchOnce c.alns [] regions).map (tagAln c.ctx)

end WhVerif.C10

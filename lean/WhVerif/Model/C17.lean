import WhVerif.Model.C10
/-!
# C17 — model of `whatshap haplotagphase` (whatshap/cli/haplotagphase.py)

`computeVotes`, `bestCandidate`, `lengthOfHomopolymer`, `consensus` mirror the functions of the same name;
`phaseOut` is what `PhasedVcfWriter.write` makes of the consensus for one call (the writer first removes the
existing phase of every call, then writes PS = component + 1 and the super-read alleles for heterozygous
positions that are in both `components` and the super-reads).

The code as it is re-derives already phased variants from the votes (or loses their phase when there are no
votes): `consensus false` is that behaviour, `consensus true` the behaviour after fixes/F19.patch (existing
phase passes through).
-/
namespace WhVerif.C17
open WhVerif.C10 (RV)

/-- a haplotagged read as `ReadSetReader` delivers it: PS and HP tags (−1 when absent), detected alleles -/
structure TRead where
  ps : Int
  hp : Int
  variants : List RV
deriving Repr

/-- per variant position what `run_haplotagphase` tabulates before voting -/
structure VarInfo where
  pos : Nat
  gt : List Nat                         -- `genotype.as_vector()` (sorted)
  phase : Option (Int × List Nat)       -- `phases_of(sample)`: (block_id, alleles in haplotype order)
  isSnv : Bool
deriving Repr

def VarInfo.homozygous (v : VarInfo) : Bool :=
  match v.gt with
  | [] => false                          -- `Genotype([]).is_homozygous()` is false
  | a :: rest => rest.all (· == a)

/-- `allele_to_id[pos][allele]`: the dict is filled by `for i, v in enumerate(as_vector())`, later indices win -/
def alleleId (gt : List Nat) (a : Nat) : Option Nat :=
  (gt.zipIdx.filter (·.1 == a)).getLast?.map (·.2)

/-- `id_to_allele[pos][i]` -/
def idAllele (gt : List Nat) (i : Nat) : Option Nat := gt[i]?

inductive Err
  | keyError            -- vote key absent, allele not in the genotype, position unknown, `id_to_allele` miss
  | zeroDivision        -- all votes of a position have quality 0
deriving Repr, DecidableEq

/-- inner dict of `votes[pos]`: insertion ordered (phase set − 1, 0/1) ↦ summed quality -/
abbrev Inner := List ((Int × Nat) × Nat)
abbrev Votes := List (Nat × Inner)

def bumpKey (k : Int × Nat) (q : Nat) : Inner → Option Inner
  | [] => none                                              -- `votes[pos][key] += q` on a missing key: KeyError
  | (k', s) :: rest =>
    if k' = k then some ((k', s + q) :: rest) else (bumpKey k q rest).map ((k', s) :: ·)

/-- one vote: `if (ps, 0) not in votes[pos]: votes[pos][(ps,0)] = votes[pos][(ps,1)] = 0; votes[pos][(ps, key)] += q` -/
def voteInner (ps : Int) (key q : Nat) (inner : Inner) : Option Inner :=
  let inner := if inner.any (·.1 == (ps, 0)) then inner else inner ++ [((ps, 0), 0), ((ps, 1), 0)]
  bumpKey (ps, key) q inner

def voteAt (pos : Nat) (ps : Int) (key q : Nat) : Votes → Option Votes
  | [] => (voteInner ps key q []).map fun i => [(pos, i)]
  | (p, inner) :: rest =>
    if p = pos then (voteInner ps key q inner).map fun i => (p, i) :: rest
    else (voteAt pos ps key q rest).map ((p, inner) :: ·)

def infoAt (vars : List VarInfo) (pos : Nat) : Option VarInfo := vars.find? (·.pos == pos)

/-- the body of `for variant in read` -/
def voteVariant (vars : List VarInfo) (ps : Int) (ht : Nat) (votes : Votes) (v : RV) : Except Err Votes :=
  match infoAt vars v.pos with
  | none => .error .keyError
  | some info =>
    if info.homozygous then .ok votes else
    match alleleId info.gt v.allele with
    | none => .error .keyError
    | some id =>
      match voteAt v.pos ps (ht ^^^ id) v.qual votes with
      | none => .error .keyError
      | some votes' => .ok votes'

def voteVariants (vars : List VarInfo) (ps : Int) (ht : Nat) : Votes → List RV → Except Err Votes
  | votes, [] => .ok votes
  | votes, v :: vs =>
    match voteVariant vars ps ht votes v with
    | .error e => .error e
    | .ok votes' => voteVariants vars ps ht votes' vs

/-- `ps, ht = read.PS_tag - 1, read.HP_tag - 1`; untagged reads and reads with HP > 2 do not vote -/
def voteRead (vars : List VarInfo) (votes : Votes) (r : TRead) : Except Err Votes :=
  let ps := r.ps - 1
  let ht := r.hp - 1
  if ht < 0 ∨ ps < 0 then .ok votes
  else if ht > 1 then .ok votes
  else voteVariants vars ps ht.toNat votes r.variants

def computeVotes (vars : List VarInfo) : Votes → List TRead → Except Err Votes
  | votes, [] => .ok votes
  | votes, r :: rs =>
    match voteRead vars votes r with
    | .error e => .error e
    | .ok votes' => computeVotes vars votes' rs

/-- first entry with the largest score (`lst.sort(key=score, reverse=True); lst[0]`, stable) -/
def bestEntry : Inner → Option ((Int × Nat) × Nat)
  | [] => none
  | e :: rest =>
    match bestEntry rest with
    | none => some e
    | some b => if e.2 < b.2 then some b else some e

structure Candidate where
  allele : Nat        -- the 0/1 vote key
  phaseSet : Int
  score : Nat
  total : Nat
deriving Repr, DecidableEq

def bestCandidate (inner : Inner) : Except Err Candidate :=
  match bestEntry inner with
  | none => .error .keyError                               -- `lst[0]` of an empty list (never: a position has votes)
  | some ((ps, a), score) =>
    let total := (inner.map (·.2)).sum
    if total = 0 then .error .zeroDivision else .ok ⟨a, ps, score, total⟩

/-- `length_of_homopolymer(ref, start, step, threshold)`; `fwd = (step == 1)`; `fuel` bounds the walk -/
def homopolymerFrom (ref : Array Char) (start : Nat) (fwd : Bool) (threshold : Nat) : Nat → Nat → Nat → Nat
  | 0, _, res => res
  | fuel + 1, i, res =>
    if res < threshold ∧ i < ref.size ∧ ref[i]? = ref[start]? ∧ start < ref.size then
      if fwd then homopolymerFrom ref start fwd threshold fuel (i + 1) (res + 1)
      else if i = 0 then res + 1 else homopolymerFrom ref start fwd threshold fuel (i - 1) (res + 1)
    else res

def lengthOfHomopolymer (ref : Array Char) (start : Nat) (fwd : Bool) (threshold : Nat) : Nat :=
  homopolymerFrom ref start fwd threshold (threshold + 1) start 0

structure Params where
  onlyIndels : Bool := false
  gapThreshold : Nat := 70
  cutPoly : Nat := 10
deriving Repr

/-- what `consensus` produces for one position: the component and, unless filtered, the two super-read alleles -/
structure Cons where
  pos : Nat
  component : Int
  alleles : Option (Nat × Nat)
deriving Repr, DecidableEq

/-- the loop body of `consensus` for a position with votes -/
def consensusAt (repaired : Bool) (par : Params) (ref : Array Char) (info : VarInfo) (inner : Inner) : Except Err Cons :=
  match repaired, info.phase with
  | true, some (block, a0 :: a1 :: _) =>
    -- after F19: an already phased variant keeps its phase and its phase set
    .ok ⟨info.pos, block - 1, some (a0, a1)⟩
  | _, _ =>
  match bestCandidate inner with
  | .error e => .error e
  | .ok c =>
    let skip : Bool :=
      info.phase.isNone &&
        (decide (100 * c.score < par.gapThreshold * c.total)       -- `100 * fraction < gap_threshold`
         || (par.onlyIndels && info.isSnv)
         || (decide (par.cutPoly > 0) &&
              decide (par.cutPoly < max (lengthOfHomopolymer ref (info.pos + 1) true par.cutPoly)
                                        (lengthOfHomopolymer ref info.pos false par.cutPoly))))
    if skip then .ok ⟨info.pos, c.phaseSet, none⟩ else
    match idAllele info.gt c.allele, idAllele info.gt (1 - c.allele) with
    | some x, some y => .ok ⟨info.pos, c.phaseSet, some (x, y)⟩
    | _, _ => .error .keyError

def consensusVotes (repaired : Bool) (par : Params) (ref : Array Char) (vars : List VarInfo) :
    Votes → Except Err (List Cons)
  | [] => .ok []
  | (pos, inner) :: rest =>
    match infoAt vars pos with
    | none => .error .keyError
    | some info =>
      match consensusAt repaired par ref info inner, consensusVotes repaired par ref vars rest with
      | .ok c, .ok cs => .ok (c :: cs)
      | .error e, _ => .error e
      | _, .error e => .error e

/-- positions that are phased in the input but got no vote: after F19 they pass through as well -/
def passThrough (vars : List VarInfo) (votes : Votes) : List Cons :=
  vars.filterMap fun info =>
    if votes.any (·.1 == info.pos) then none else
    match info.phase with
    | some (block, a0 :: a1 :: _) => some ⟨info.pos, block - 1, some (a0, a1)⟩
    | _ => none

def consensus (repaired : Bool) (par : Params) (ref : Array Char) (vars : List VarInfo) (votes : Votes) :
    Except Err (List Cons) :=
  match consensusVotes repaired par ref vars votes with
  | .error e => .error e
  | .ok cs => .ok (if repaired then cs ++ passThrough vars votes else cs)

/-- the phase `PhasedVcfWriter.write` puts on the call at `pos`: `some (PS, a0, a1)` = `a0|a1:PS`,
`none` = not phased by the writer.  Since F25 (c654edd) haplotagphase constructs the writer with
`remove_existing_phasing=False`: a call the writer does not phase keeps whatever phase it has in the input (second
records at a position, multi-allelic records under `--no-mav`, phased calls without a PS value and without votes).
For the calls of the variant table this makes no difference to the model: with `repaired = true` every call that is
phased in the input with a block id and two alleles is in `cs` (`consensusAt` / `passThrough`), so `none` is only
returned for calls that are unphased in the input. -/
def phaseOut (cs : List Cons) (pos : Nat) : Option (Int × Nat × Nat) :=
  match cs.find? (·.pos == pos) with
  | some ⟨_, comp, some (a0, a1)⟩ => if a0 ≠ a1 then some (comp + 1, a0, a1) else none
  | _ => none

/-- the whole pipeline for one sample on one chromosome -/
def run (repaired : Bool) (par : Params) (ref : Array Char) (vars : List VarInfo) (reads : List TRead) :
    Except Err (List Cons) :=
  match computeVotes vars [] reads with
  | .error e => .error e
  | .ok votes => consensus repaired par ref vars votes

end WhVerif.C17

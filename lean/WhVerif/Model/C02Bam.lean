/-! C02 — which alignments `whatshap phase` takes as the reads of a sample (whatshap/bam.py: `SampleBamReader`,
`MultiBamReader`).  Every alignment file has its OWN table sample -> read-group ids, built from the `@RG` lines of its own
header (`_initialize_sample_to_group_ids`); `SampleBamReader.fetch(reference, sample)` yields the file's alignments whose `RG`
tag is in that file's id set of the sample; `MultiBamReader.fetch` merges the files whose header names the sample
(`SampleNotFoundError` if none does) and tags every alignment with the index of its file (`source_id`).
Read-group ids are only unique within one file.  The merge order (coordinate order) is not modelled: results are compared
as multisets. -/
namespace WhVerif.C02Bam

/-- an `@RG` header line: ID and optional SM -/
structure RG where
  id : String
  sm : Option String
deriving Repr, DecidableEq

/-- an alignment of one reference: read name and `RG` tag -/
structure Aln where
  name : String
  rg : String
deriving Repr, DecidableEq

structure BamFile where
  rgs : List RG
  alns : List Aln
deriving Repr

/-- `_sample_to_group_ids[sample]` of ONE file -/
def groupIds (f : BamFile) (sample : String) : List String :=
  (f.rgs.filter (fun g => g.sm == some sample)).map (·.id)

/-- `SampleBamReader.has_sample` -/
def hasSample (f : BamFile) (sample : String) : Bool := f.rgs.any (fun g => g.sm == some sample)

/-- `SampleBamReader.fetch(reference, sample)` of the file with `source_id = src` -/
def fetchFile (src : Nat) (f : BamFile) (sample : String) : List (Nat × Aln) :=
  (f.alns.filter (fun a => (groupIds f sample).contains a.rg)).map (fun a => (src, a))

/-- the merged readers, first file has `source_id = i` (a file that does not name the sample contributes nothing) -/
def fetchFrom (i : Nat) : List BamFile → String → List (Nat × Aln)
  | [], _ => []
  | f :: fs, s => fetchFile i f s ++ fetchFrom (i + 1) fs s

/-- `MultiBamReader.fetch(reference, sample)`: `none` = `SampleNotFoundError` -/
def fetch (files : List BamFile) (sample : String) : Option (List (Nat × Aln)) :=
  if files.any (hasSample · sample) then some (fetchFrom 0 files sample) else none

/-- the alignment's read group, in the header of ITS file, belongs to `sample` -/
def OwnedBy (f : BamFile) (a : Aln) (sample : String) : Prop :=
  ∃ g ∈ f.rgs, g.sm = some sample ∧ g.id = a.rg

end WhVerif.C02Bam

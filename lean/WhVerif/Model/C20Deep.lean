import WhVerif.Model.C20Files
/-!
# C20 model, round 10: `PedReader` at text level, `--use-ped-samples`, the assertions of `find_recombination`

Core Lean only.  Everything as coded in `whatshap/pedigree.py` / `cli/phase.py` (/repo 59721a2):

* `PedReader._parse`: iterate over the lines of the text stream (a line ends after each `"\n"`, the terminator is kept;
  a last line without terminator is a line), skip a line iff it *starts* with `#` or *is* `"\n"` (a line of blanks is NOT
  skipped: it has fewer than six fields), `_parse_record`: `line.split()` (Python's whitespace set), fewer than six
  fields → `ParseError`, individual / father / mother = fields 1..3, `"0"` = unknown (`None`).  The first bad line raises
  before `_sanity_check` is reached.
* `_sanity_check`: `Counter(children).most_common()[0]`: the id with the largest count, the first-mentioned one among
  equals (stable sort); count > 1 → `ParseError` naming that id.
* `PedReader(path)` opens the file in text mode: universal newlines (`"\r\n"`, `"\r"` → `"\n"`) are applied before
  (`univNl`); a stream handed in (`io.StringIO`) is read as it is.
* `samples()` (after F111): the dict used as an ordered set: child, father, mother of every *complete* line.
* `--use-ped-samples`: `samples = PedReader(ped).samples()`, then `raise_if_any_sample_not_in_vcf` (the first sample that
  the VCF lacks is an error — NOT an intersection).
* `find_recombination`: the three assertions in front of the scan (`assertsHold`); `f22 = false` is the assertion before
  the F22 repair (`len(recombcost) == len(positions)`).  `write_recombination_list` keys the per-trio transmission
  vectors by the *child name* (`tvDict`): with a child mentioned by two trios the vector would get two values per
  position (and the first assertion fires) — `_sanity_check` is what excludes it.
-/
namespace WhVerif.C20

/-! ### text -/

/-- `str.isspace()` = the separators of `str.split()` -/
def isWs (c : Char) : Bool :=
  let n := c.toNat
  (9 ≤ n && n ≤ 13) || (28 ≤ n && n ≤ 32) || n == 0x85 || n == 0xa0 || n == 0x1680 || (0x2000 ≤ n && n ≤ 0x200a) ||
    n == 0x2028 || n == 0x2029 || n == 0x202f || n == 0x205f || n == 0x3000

/-- `str.split()`; `cur` = the field being read, reversed -/
def splitWsAux : List Char → List Char → List (List Char)
  | [], cur => if cur.isEmpty then [] else [cur.reverse]
  | c :: r, cur =>
    if isWs c then (if cur.isEmpty then splitWsAux r [] else cur.reverse :: splitWsAux r [])
    else splitWsAux r (c :: cur)

def splitWs (s : List Char) : List (List Char) := splitWsAux s []

/-- iteration over a text stream -/
def linesAux : List Char → List Char → List (List Char)
  | [], cur => if cur.isEmpty then [] else [cur.reverse]
  | c :: r, cur => if c == '\n' then (c :: cur).reverse :: linesAux r [] else linesAux r (c :: cur)

def textLines (s : List Char) : List (List Char) := linesAux s []

/-- universal newlines of `open(path)` -/
def univNl : List Char → List Char
  | '\r' :: '\n' :: r => '\n' :: univNl r
  | '\r' :: r => '\n' :: univNl r
  | c :: r => c :: univNl r
  | [] => []

inductive PedErr where
  /-- "Less than six fields found in PED/FAM file" -/
  | fewFields
  /-- "Individual … occurs more than once in PED file" -/
  | duplicate (id : String)
deriving DecidableEq, Repr

def parentOf (f : List Char) : Option String := if f = ['0'] then none else some (String.ofList f)

/-- `_parse_record` -/
def parseRecord (line : List Char) : Except PedErr PedLine :=
  match splitWs line with
  | _ :: ind :: pat :: mat :: _ :: _ :: _ => .ok ⟨String.ofList ind, parentOf pat, parentOf mat⟩
  | _ => .error .fewFields

def isSkipped (line : List Char) : Bool := line.head? == some '#' || line == ['\n']

def dataLines (text : List Char) : List (List Char) := (textLines text).filter (fun l => !isSkipped l)

def parseAll : List (List Char) → Except PedErr (List PedLine)
  | [] => .ok []
  | l :: r =>
    match parseRecord l with
    | .error e => .error e
    | .ok t => match parseAll r with
      | .error e => .error e
      | .ok ts => .ok (t :: ts)

/-- `Counter(l).most_common()[0]` scanning the keys in insertion order: a later key wins only with a larger count -/
def mostCommonFrom (l : List String) : List String → Option (String × Nat) → Option (String × Nat)
  | [], best => best
  | k :: ks, none => mostCommonFrom l ks (some (k, l.count k))
  | k :: ks, some (b, cb) =>
    if cb < l.count k then mostCommonFrom l ks (some (k, l.count k)) else mostCommonFrom l ks (some (b, cb))

def mostCommon (l : List String) : Option (String × Nat) := mostCommonFrom l l none

/-- `_sanity_check` -/
def sanityCheck (trios : List PedLine) : Except PedErr Unit :=
  match mostCommon (trios.map (·.child)) with
  | some (id, c) => if 1 < c then .error (.duplicate id) else .ok ()
  | none => .ok ()

/-- `PedReader(stream).trios` -/
def parsePedChars (text : List Char) : Except PedErr (List PedLine) :=
  match parseAll (dataLines text) with
  | .error e => .error e
  | .ok trios => match sanityCheck trios with
    | .error e => .error e
    | .ok _ => .ok trios

/-- `PedReader(io.StringIO(text))` (`viaPath = false`) / `PedReader(path)` of a file with that content -/
def parsePed (viaPath : Bool) (text : String) : Except PedErr (List PedLine) :=
  parsePedChars (if viaPath then univNl text.toList else text.toList)

/-! ### `samples()` and `--use-ped-samples` -/

/-- child, father, mother of the complete lines, in file order -/
def mentions (trios : List PedLine) : List String :=
  trios.flatMap fun t => match t.father, t.mother with
    | some f, some m => [t.child, f, m]
    | _, _ => []

/-- `samples[x] = None` on the dict used as ordered set -/
def dictAdd (acc : List String) (s : String) : List String := if acc.contains s then acc else acc ++ [s]

/-- `PedReader.samples()` -/
def pedSamples (trios : List PedLine) : List String := (mentions trios).foldl dictAdd []

/-- `run_whatshap`: `samples = vcf_reader.samples` unless `--sample`; `--use-ped-samples` replaces them by the PED's;
    `raise_if_any_sample_not_in_vcf`: `.error s` = `CommandLineError` naming `s` -/
def selectSamples (vcf cli : List String) (ped : Option (List PedLine)) (usePed : Bool) : Except String (List String) :=
  let s0 := if cli.isEmpty then vcf else cli
  let s1 := match ped with
    | some t => if usePed then pedSamples t else s0
    | none => s0
  match s1.find? (fun s => !vcf.contains s) with
  | some s => .error s
  | none => .ok s1

/-! ### `find_recombination` with its assertions, `write_recombination_list` with its dict -/

/-- the three `assert`s; `f22 = true`: as coded now (`max(1, len(positions))`), `false`: before the F22 repair -/
def assertsHold (f22 : Bool) (tv : List Nat) (comps : List (Nat × Nat)) (positions recomb : List Nat) : Bool :=
  tv.length == positions.length &&
  (recomb.length == (if f22 then max 1 positions.length else positions.length)) &&
  comps.all (fun pc => positions.contains pc.1)

/-- `none` = `AssertionError` -/
def findRecombinationA (f22 : Bool) (tv : List Nat) (comps : List (Nat × Nat)) (positions recomb : List Nat) :
    Option (List RecEvent) :=
  if assertsHold f22 tv comps positions recomb then some (findRecombination tv comps positions recomb) else none

/-- `transmission_vector_trio[child]`: for every value of the vector, for every trio (index `k`) with that child name,
    `(v // 4^k) % 4` is appended -/
def tvDict (tv : List Nat) (children : List String) (child : String) : List Nat :=
  tv.flatMap fun v => children.zipIdx.filterMap fun ck => if ck.1 == child then some ((v / 4 ^ ck.2) % 4) else none

def toRecRow (child chrom : String) (e : RecEvent) : RecRow :=
  ⟨child, chrom, e.p1 + 1, e.p2 + 1, e.f1, e.f2, e.m1, e.m2, e.cost⟩

/-- the trio loop of `write_recombination_list`; `none` = an assertion of `find_recombination` fired -/
def recombRowsALoop (f22 : Bool) (i : Inst) : List String → Option (List RecRow)
  | [] => some []
  | child :: rest =>
    match findRecombinationA f22 (tvDict i.tv i.children child) i.comps i.positions i.recomb with
    | none => none
    | some evs => (recombRowsALoop f22 i rest).map (evs.map (toRecRow child i.chrom) ++ ·)

def recombRowsA (f22 : Bool) (i : Inst) : Option (List RecRow) := recombRowsALoop f22 i i.children

end WhVerif.C20

/-!
# C04 model: `whatshap/vcf.py:PhasedVcfWriter` at record level (shared by C04, C09 and C20)

Core Lean only.  A VCF record is what the harness parses out of the file (htslib parsing and
serialisation are trusted base): the opaque site columns, the few site fields the writer looks at
(`pos`, `ref`, `alts`), the FORMAT key list and one `Call` per sample.

Conventions
* a FORMAT value is a `Val`; a key that is absent from a call is `Val.missing` (`Call.get`), exactly
  as pysam pads a key that is added to a record with `.` for the other samples;
* `HP` values are carried as parsed lists of `(block, haplotype index)` pairs — the text codec
  `"b-h,b-h"` lives in the harness;
* `Cfg.repaired = false` is the code as it is in /repo (defect F4: `_remove_existing_phasing` only acts for
  tag PS; a changed genotype is written as `Genotype.as_vector()`, i.e. descending);
  `Cfg.repaired = true` is the behaviour after `fixes/F4.patch` (tag-independent removal: phased flag
  cleared, GT sorted, PS and HP of target samples set to missing; changed genotypes written sorted).
* `PhasedVcfWriter.write` for one chromosome is `writeChrom`; the order of its `continue`s is kept:
  removal of existing phasing happens first, then: no ALT / multi-ALT (unless `mav`) / duplicate
  position / not an SNV under `--only-snvs` / position not phased in any target sample.
-/
namespace WhVerif.C04

/-! ## values, calls, records -/

inductive Val where
  | missing
  | int (n : Int)
  | hp (l : List (Nat × Nat))
  | raw (s : String)
deriving DecidableEq, Repr, Inhabited

inductive Tag where
  | PS
  | HP
deriving DecidableEq, Repr

def Tag.key : Tag → String
  | .PS => "PS"
  | .HP => "HP"

abbrev Fields := List (String × Val)

/-- value of key `k`; absent = missing -/
def fget : Fields → String → Val
  | [], _ => .missing
  | (k', v) :: r, k => if k' = k then v else fget r k

/-- assignment `call[k] = v` -/
def fset : Fields → String → Val → Fields
  | [], k, v => [(k, v)]
  | (k', v') :: r, k, v => if k' = k then (k, v) :: r else (k', v') :: fset r k v

abbrev Gt := List (Option Nat)

structure Call where
  /-- `none`: the record has no GT key -/
  gt : Option Gt
  phased : Bool
  fields : Fields
deriving DecidableEq, Repr

def Call.get (c : Call) (k : String) : Val := fget c.fields k
def Call.set (c : Call) (k : String) (v : Val) : Call := { c with fields := fset c.fields k v }

structure Record where
  /-- CHROM … INFO, opaque -/
  site : String
  pos : Nat
  ref : String
  alts : List String
  /-- FORMAT keys in record order (including GT when present) -/
  format : List String
  calls : List (String × Call)
deriving DecidableEq, Repr

/-! ## small list utilities (own definitions so that the proofs do not depend on library details) -/

def insertNat (a : Nat) : List Nat → List Nat
  | [] => [a]
  | b :: r => if a ≤ b then a :: b :: r else b :: insertNat a r

/-- `sorted(...)` on integers -/
def sortNat : List Nat → List Nat
  | [] => []
  | a :: r => insertNat a (sortNat r)

def alookup {β} : List (Nat × β) → Nat → Option β
  | [], _ => none
  | (k, v) :: r, p => if k = p then some v else alookup r p

/-- dict semantics for repeated keys: the last assignment wins -/
def alookupLast {β} (l : List (Nat × β)) (p : Nat) : Option β := alookup l.reverse p

def clookup : List (String × Call) → String → Option Call
  | [], _ => none
  | (k, v) :: r, n => if k = n then some v else clookup r n

/-! ## genotypes -/

/-- `genotype_code(call["GT"])` as the sorted allele list; `[]` = `Genotype([])` (missing / partial / no GT) -/
def gcode : Option Gt → List Nat
  | none => []
  | some g => if g.all Option.isSome then sortNat (g.filterMap id) else []

/-- `Genotype.is_homozygous()`; `Genotype([]).is_homozygous()` is `False` -/
def isHom : List Nat → Bool
  | [] => false
  | a :: r => r.all (· == a)

/-- `sorted(call["GT"])` (only applied when no allele is missing) -/
def sortGt (g : Gt) : Gt := (sortNat (g.filterMap id)).map some

/-! ## the phasing result handed to `write` -/

structure Target where
  name : String
  /-- the two super-reads as `(position, allele)` -/
  sr0 : List (Nat × Int)
  sr1 : List (Nat × Int)
  /-- `sample_components[sample]`: position ↦ component (0-based position of its leftmost variant) -/
  comps : List (Nat × Nat)
deriving Repr

structure Cfg where
  tag : Tag
  onlySnvs : Bool
  mav : Bool
  repaired : Bool
  /-- header sample order (`self.samples`) -/
  samples : List String
  /-- `sample_superreads` in dict order -/
  targets : List Target
deriving Repr

def allowed (mav : Bool) (a : Int) : Bool := mav || a == 0 || a == 1

/-- `sample_phases[sample]`: built from `zip(*superreads)`; keyed by the first super-read's position -/
def phasesOf (mav : Bool) (t : Target) : List (Nat × List Nat) :=
  (t.sr0.zip t.sr1).filterMap fun (v0, v1) =>
    if allowed mav v0.2 && allowed mav v1.2 then some (v0.1, [v0.2.toNat, v1.2.toNat]) else none

def lookupPhase (mav : Bool) (t : Target) (pos : Nat) : Option (List Nat) := alookupLast (phasesOf mav t) pos

def findTarget (cfg : Cfg) (name : String) : Option Target := cfg.targets.find? (fun t => t.name = name)

def isTargetName (cfg : Cfg) (name : String) : Bool := (findTarget cfg name).isSome

/-! ## `_remove_existing_phasing`, `_set_PS`, `_set_HP` -/

/-- the GT part: `call.phased = False`, GT sorted when fully called (skipped when the record has no GT) -/
def unphaseGt (c : Call) : Call :=
  match c.gt with
  | none => c
  | some g => if g.all Option.isSome then { c with phased := false, gt := some (sortGt g) } else { c with phased := false }

def clearKey (fmt : List String) (k : String) (c : Call) : Call :=
  if k ∈ fmt then c.set k .missing else c

/-- `_remove_existing_phasing` on one call of a target sample -/
def clearPhasing (cfg : Cfg) (fmt : List String) (c : Call) : Call :=
  if cfg.repaired then clearKey fmt "HP" (clearKey fmt "PS" (unphaseGt c))
  else match cfg.tag with
    | .PS => unphaseGt c
    | .HP => c

def setPS (c : Call) (comp : Nat) (phase : List Nat) : Call :=
  { c with fields := fset c.fields "PS" (.int (comp + 1)), gt := some (phase.map some), phased := true }

def setHP (c : Call) (comp : Nat) (phase : List Nat) : Call :=
  c.set "HP" (.hp (phase.map fun a => (comp + 1, a + 1)))

def setTag : Tag → Call → Nat → List Nat → Call
  | .PS => setPS
  | .HP => setHP

/-- `Genotype.as_vector()` is descending; the repaired code writes the changed genotype sorted -/
def changedGt (cfg : Cfg) (p : List Nat) : Gt :=
  if cfg.repaired then (sortNat p).map some else (sortNat p).reverse.map some

structure GtChange where
  sample : String
  pos : Nat
  ref : String
  alts : List String
  oldGt : List Nat
  newGt : List Nat
deriving DecidableEq, Repr

/-- the genotype-change step of the per-sample loop: `(call, change row, is_het)` -/
def changeStep (cfg : Cfg) (t : Target) (r : Record) (c : Call) : Call × Option GtChange × Bool :=
  match lookupPhase cfg.mav t r.pos with
  | some p =>
    if sortNat p ≠ gcode c.gt then
      ({ c with gt := some (changedGt cfg p), phased := false },
       some ⟨t.name, r.pos, r.ref, r.alts, gcode c.gt, sortNat p⟩, !isHom (sortNat p))
    else (c, none, !isHom (gcode c.gt))
  | none => (c, none, !isHom (gcode c.gt))

/-- body of `for sample in sample_superreads:` for one (already un-phased) call -/
def updateCall (cfg : Cfg) (t : Target) (r : Record) (c : Call) : Call × Option GtChange :=
  let (c1, chg, isHet) := changeStep cfg t r c
  match alookup t.comps r.pos, lookupPhase cfg.mav t r.pos with
  | some comp, some p => if isHet then (setTag cfg.tag c1 comp p, chg) else (c1.set cfg.tag.key .missing, chg)
  | _, _ => (c1.set cfg.tag.key .missing, chg)

/-! ## one record, one chromosome -/

def isSnv (r : Record) : Bool :=
  r.ref.length == 1 && (match r.alts with | a :: _ => a.length == 1 | [] => false)

/-- `for sample in self.samples: if sample in sample_superreads: … break / else: continue` -/
def anyPhased (cfg : Cfg) (pos : Nat) : Bool :=
  cfg.samples.any fun s =>
    match findTarget cfg s with
    | some t => (alookup t.comps pos).isSome && (lookupPhase cfg.mav t pos).isSome
    | none => false

/-- the record passes all `continue`s and its target calls get tagged -/
def reaches (cfg : Cfg) (prev : Option Nat) (r : Record) : Bool :=
  !r.alts.isEmpty && !(decide (r.alts.length > 1) && !cfg.mav) && !(prev == some r.pos)
    && !(cfg.onlySnvs && !isSnv r) && anyPhased cfg r.pos

def addKey (fmt : List String) (k : String) : List String := if k ∈ fmt then fmt else fmt ++ [k]

def mapTargets (cfg : Cfg) (f : Target → Call → Call) (calls : List (String × Call)) : List (String × Call) :=
  calls.map fun nc => match findTarget cfg nc.1 with
    | some t => (nc.1, f t nc.2)
    | none => nc

structure Out where
  record : Record
  prev : Option Nat
  changes : List GtChange
  /-- the code would raise `KeyError` (`call["GT"]` on a record without GT); unreachable from the pipeline -/
  err : Bool
deriving Repr

def writeRecord (cfg : Cfg) (prev : Option Nat) (r : Record) : Out :=
  let calls1 := mapTargets cfg (fun _ c => clearPhasing cfg r.format c) r.calls
  if reaches cfg prev r then
    let calls2 := mapTargets cfg (fun t c => (updateCall cfg t r c).1) calls1
    let changes := cfg.targets.filterMap fun t =>
      match clookup calls1 t.name with
      | some c => (updateCall cfg t r c).2
      | none => none
    let err := calls1.any fun nc => isTargetName cfg nc.1 && nc.2.gt.isNone
    ⟨{ r with format := addKey r.format cfg.tag.key, calls := calls2 }, some r.pos, changes, err⟩
  else ⟨{ r with calls := calls1 }, prev, [], false⟩

/-- `PhasedVcfWriter.write(chromosome, …)` over the records of one chromosome block -/
def writeChrom (cfg : Cfg) : Option Nat → List Record → List Out
  | _, [] => []
  | prev, r :: rs => let o := writeRecord cfg prev r; o :: writeChrom cfg o.prev rs

def outRecords (os : List Out) : List Record := os.map (·.record)
def outChanges (os : List Out) : List GtChange := os.flatMap (·.changes)

/-! ## header: `missing_headers` result applied by `augment_header`, `add_meta`, `setup_header` -/

structure HLine where
  /-- `FORMAT`, `INFO`, `FILTER`, `contig`, or any other key such as `phasing`, `fileformat` -/
  key : String
  /-- the ID for structured lines -/
  id : Option String
  number : String := ""
  typ : String := ""
  /-- remaining text (generic value or description), opaque -/
  text : String := ""
deriving DecidableEq, Repr

/-- (id, Number, Type) of `PREDEFINED_FORMATS` -/
def predefinedFormats : List (String × String × String) :=
  [("GL", "G", "Float"), ("GQ", "1", "Integer"), ("GT", "1", "String"), ("HP", ".", "String"),
   ("PQ", "1", "Float"), ("PS", "1", "Integer"), ("HS", ".", "Integer"), ("AD", ".", "Integer")]

def predefinedInfos : List (String × String × String) :=
  [("AC", "A", "Integer"), ("AN", "A", "Integer"), ("END", "1", "Integer"), ("SVLEN", ".", "Integer"),
   ("SVTYPE", "1", "String")]

def slookup {β} : List (String × β) → String → Option β
  | [], _ => none
  | (k, v) :: r, n => if k = n then some v else slookup r n

def defined (h : List HLine) (key id : String) : Bool := h.any fun l => l.key = key && l.id = some id

/-- `header.add_line(...)` of a structured line: htslib keeps an existing definition of the same ID -/
def addLine (h : List HLine) (l : HLine) : List HLine :=
  match l.id with
  | some i => if defined h l.key i then h else h ++ [l]
  | none => h ++ [l]

def removeDef (h : List HLine) (key id : String) : List HLine :=
  h.filter fun l => !(l.key = key && l.id = some id)

/-- a FORMAT definition that `missing_headers` reports as having the wrong Number/Type
    (`"Float"` instead of `"Integer"` is accepted) -/
def incorrectFormat (l : HLine) : Bool :=
  l.key = "FORMAT" &&
  match l.id.bind (slookup predefinedFormats) with
  | some (num, typ) => l.number ≠ num || (l.typ ≠ typ && !(l.typ = "Float" && typ = "Integer"))
  | none => false

/-- the non-standard PS type that makes `missing_headers` raise -/
def badPsType (h : List HLine) : Bool :=
  h.any fun l => incorrectFormat l && l.id = some "PS" && l.typ ≠ "Integer"

def addFormats : List HLine → List String → Option (List HLine)
  | h, [] => some h
  | h, f :: fs =>
    match slookup predefinedFormats f with
    | some (num, typ) => addFormats (addLine (removeDef h "FORMAT" f) ⟨"FORMAT", some f, num, typ, ""⟩) fs
    | none => none

def addInfos : List HLine → List String → Option (List HLine)
  | h, [] => some h
  | h, f :: fs =>
    match slookup predefinedInfos f with
    | some (num, typ) => addInfos (addLine h ⟨"INFO", some f, num, typ, ""⟩) fs
    | none => none

/-- remove the first `phasing` line (`setup_header`, loop with `break`) -/
def removeFirstPhasing : List HLine → List HLine
  | [] => []
  | l :: r => if l.key = "phasing" then r else l :: removeFirstPhasing r

def dedup : List String → List String
  | [] => []
  | a :: r => if a ∈ r then dedup r else a :: dedup r

/-- The whole header pipeline of `PhasedVcfWriter.__init__`.
    `usedContigs`, `usedFormats`, `usedInfos`: what the record body uses (in order of first use; for INFO the
    order is arbitrary in the code — a Python set).  `none` = `VcfError` (undefined non-predefined
    FORMAT/INFO, or PS of a non-Integer type). -/
def outputHeader (tag : Tag) (commandLine : Bool) (h : List HLine)
    (usedContigs usedFormats usedInfos : List String) : Option (List HLine) :=
  if badPsType h then none else
  let incorrect := (h.filter incorrectFormat).filterMap (·.id)
  let missingContigs := (dedup usedContigs.reverse).reverse.filter fun c => !defined h "contig" c
  let missingFormats := (dedup usedFormats.reverse).reverse.filter fun f => !defined h "FORMAT" f
  let missingInfos := (dedup usedInfos.reverse).reverse.filter fun f => !defined h "INFO" f
  let h1 := missingContigs.foldl (fun h c => addLine h ⟨"contig", some c, "", "", ""⟩) h
  match addFormats h1 (incorrect ++ missingFormats) with
  | none => none
  | some h2 =>
    match addInfos h2 missingInfos with
    | none => none
    | some h3 =>
      let h4 := if commandLine then h3 ++ [⟨"commandline", none, "", "", ""⟩] else h3
      let h5 := removeFirstPhasing h4
      let t := match tag with | .PS => ("PS", "1", "Integer") | .HP => ("HP", ".", "String")
      some (addLine h5 ⟨"FORMAT", some t.1, t.2.1, t.2.2, ""⟩)

end WhVerif.C04

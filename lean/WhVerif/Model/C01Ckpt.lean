import WhVerif.Model.C01Witness
import WhVerif.Model.C01Gray
/-!
# C01 model, part 3: `compute_table` as coded — stored backtrace tables, √n check-pointing, backtrace by
# recomputation of the segment between two check-points, `get_optimal_partitioning`, `get_super_reads`.

`src/pedigreedptable.cpp`, what mirrors what:

* `computeColumn`      `compute_column` for a column that is not the last one: the cells `(index, transmission)` are
                       visited in the order of the `ColumnIndexingIterator` (Gray code of the indices, `ord = grayOrd`;
                       the order is a parameter so that the same machinery run in index order IS the older model
                       `witness`), the DP value of a cell is `dpCell`, `min_recomb_index[t]` is `minRecomb` (first `j`
                       attaining the minimum, `val < min`), and an entry of the forward projection is overwritten
                       only by a strictly smaller value (`updBest`).  One array entry `some (value, index, j)` stands
                       for the three parallel tables `projection_column_table[c]`, `index_backtrace_table[c]`,
                       `transmission_backtrace_table[c]`, which are always written together (`none` = the three
                       initial `UINT_MAX`).
* `lastBest`           the last column: running `optimal_score`, `optimal_score_index`,
                       `optimal_transmission_value`, `previous_transmission_value` (strict `<`).
* `Tabs`               the three `std::vector<Vector2D*>` (one slot per column, `none` = `nullptr`).
* `computeColumnAt`    `compute_column(c)` on the table state: returns at once if the column is there, reads
                       `projection_column_table[c-1]` (`none` = null-pointer dereference — proved impossible).
* `fwdLoop`/`dropPrev` the forward pass: after column `c` the previous column is deleted unless `(c-1) % k = 0`.
* `btLoop`             the backtrace loop `for (i = n-1; i > 0; --i)`: if column `i-1` is not stored, recompute columns
                       `(i-1)/k*k + 1 … i-1` (`recompute`; the `assert` that the check-point exists = `none`), read
                       `index_backtrace_table[i-1]` / `transmission_backtrace_table[i-1]` at the backward projection of
                       the current index and the pending transmission value, and when `i % k = 0` free the columns
                       `i … min(i+k, n-1) - 1` (`freeLoop`; the `assert` that they exist = `none`).
* `ckptPathK`          `compute_table`'s `index_path`, for a check-point spacing `k` (`ckptK n = ⌊√n⌋` in the code).
* `partOf`             `get_optimal_partitioning` (+ the inversion in `core.pyx`): every column overwrites the bits of
                       its reads; reads of no column keep the initial value.
* `ckptSuperReads`     `get_super_reads`: `get_alleles` per column for the path's index and transmission value.

Core Lean only.
-/
namespace WhVerif.C01
open WhVerif.Cost

/-! ## visiting order of the bipartition indices of a column -/

/-- `ord k` = the indices of a column with `k` active reads in the order they are visited -/
abbrev Ord := Nat → List Nat

/-- the code's order: `GrayCodes` -/
def grayOrd : Ord := fun k => (grayList k).map Prod.fst

/-- increasing index order (the order of the executable model `projTable`/`witness`) -/
def idxOrd : Ord := fun k => List.range (2 ^ k)

/-- cells `(index, transmission)` in visiting order: outer loop over the indices, inner loop over `t` -/
def cellsOf (ord : Ord) (k m : Nat) : List (Nat × Nat) :=
  (ord k).flatMap (fun i => (List.range m).map (fun t => (i, t)))

/-! ## "overwrite only if strictly smaller" -/

/-- `if (v < old.value) { old = (v, p); }` with `none` = `UINT_MAX` on both sides -/
def updBest {β} (old : Option (Nat × β)) (v : Option Nat) (p : β) : Option (Nat × β) :=
  match v with
  | none => old
  | some x =>
    match old with
    | none => some (x, p)
    | some (y, q) => if x < y then some (x, p) else some (y, q)

/-- running strict minimum over a list, with a payload remembered for the first element attaining it -/
def strictMin {α β} (l : List α) (f : α → Option Nat) (g : α → β) : Option (Nat × β) :=
  l.foldl (fun acc a => updBest acc (f a) (g a)) none

/-! ## one column -/

/-- `(value, index_backtrace, transmission_backtrace)` of a forward projection entry -/
abbrev Ent := Option (Nat × Nat × Nat)

/-- `previous_cost` of the inner loop over `j` -/
def prevCost (I : Inst) (c : Nat) (prev : Array (Option Nat)) (idx j : Nat) : Option Nat :=
  if c = 0 then some 0 else prev.getD (idx % 2 ^ (I.sharedAt (c - 1)).length * I.ntrans + j) none

/-- `min_recomb_index[t]` of cell `(idx, t)`: the first `j` with the smallest `previous_cost + popcount(t^j)·recomb[c]`
(the column cost is a common summand); 0 if all are infinite -/
def minRecomb (I : Inst) (c : Nat) (prev : Array (Option Nat)) (idx t : Nat) : Nat :=
  (argminOver (List.range I.ntrans) (fun j =>
    cadd (prevCost I c prev idx j) (some (popcount (t ^^^ j) * I.recombAt c)))).getD 0

/-- position of cell `(i, t)`'s forward projection entry -/
def fwdKey (I : Inst) (c i t : Nat) : Nat :=
  natOfBits (fwdBits I c (bitsOf (I.activeAt c).length i)) * I.ntrans + t

/-- `compute_column(c)`, `c` not the last column: the forward projection with its two backtrace tables -/
def computeColumn (I : Inst) (ord : Ord) (c : Nat) (prev : Array (Option Nat)) : Array Ent :=
  (cellsOf ord (I.activeAt c).length I.ntrans).foldl (fun arr it =>
      arr.modify (fwdKey I c it.1 it.2) (fun old =>
        updBest old (dpCell I c prev it.1 it.2) (it.1, minRecomb I c prev it.1 it.2)))
    (Array.replicate (2 ^ (I.sharedAt c).length * I.ntrans) none)

/-- `projection_column_table[c]` of a stored column -/
def projOf (tab : Array Ent) : Array (Option Nat) := tab.map (fun e => e.map (·.1))

/-- `compute_column(c)`, `c` the last column: `(optimal_score, optimal_score_index, optimal_transmission_value,
previous_transmission_value)`; `none` = the score is still `UINT_MAX` -/
def lastBest (I : Inst) (ord : Ord) (c : Nat) (prev : Array (Option Nat)) : Option (Nat × Nat × Nat × Nat) :=
  strictMin (cellsOf ord (I.activeAt c).length I.ntrans) (fun it => dpCell I c prev it.1 it.2)
    (fun it => (it.1, it.2, minRecomb I c prev it.1 it.2))

/-! ## the table state -/

/-- one slot per column; `none` = `nullptr` -/
abbrev Tabs := List (Option (Array Ent))

/-- `compute_column(c)` for a column that is not the last one, on the table state.
`none` = the previous projection column is a null pointer. -/
def computeColumnAt (I : Inst) (ord : Ord) (T : Tabs) (c : Nat) : Option Tabs :=
  match T.getD c none with
  | some _ => some T
  | none =>
    if c = 0 then some (T.set 0 (some (computeColumn I ord 0 #[])))
    else
      match T.getD (c - 1) none with
      | none => none
      | some p => some (T.set c (some (computeColumn I ord c (projOf p))))

/-- forward pass, after `compute_column(c)`: "determine whether to delete previous column" -/
def dropPrev (k : Nat) (T : Tabs) (c : Nat) : Tabs :=
  if 1 < k ∧ 0 < c ∧ (c - 1) % k ≠ 0 then T.set (c - 1) none else T

/-- forward pass over the columns `0 … m-1` (none of them the last one) of an `n`-column table -/
def fwdLoop (I : Inst) (ord : Ord) (k n : Nat) : Nat → Option Tabs
  | 0 => some (List.replicate n none)
  | m + 1 => (fwdLoop I ord k n m).bind (fun T => (computeColumnAt I ord T m).map (fun T' => dropPrev k T' m))

/-- `for (j = j+1; j < i; ++j) compute_column(j)`: columns `j+1 … j+m` -/
def recompute (I : Inst) (ord : Ord) (T : Tabs) (j : Nat) : Nat → Option Tabs
  | 0 => some T
  | m + 1 => (recompute I ord T j m).bind (fun T' => computeColumnAt I ord T' (j + 1 + m))

/-- "free parts of the DP table no longer needed": columns `i … i+m-1`, each asserted to be there -/
def freeLoop (T : Tabs) (i : Nat) : Nat → Option Tabs
  | 0 => some T
  | m + 1 => (freeLoop T i m).bind (fun T' =>
      if (T'.getD (i + m) none).isSome then some (T'.set (i + m) none) else none)

/-- "ensure that index_backtrace_table[i] and transmission_backtrace_table[i] exist" (loop variable `i+1`) -/
def ensureCol (I : Inst) (ord : Ord) (k : Nat) (T : Tabs) (i : Nat) : Option Tabs :=
  match T.getD i none with
  | some _ => some T
  | none =>
    let j := i / k * k
    if (T.getD j none).isSome then recompute I ord T j (i - j) else none

/-- the backtrace loop; first argument = loop variable `i` of the code (runs down to 1).  `vidx` = `v.index`
(an index of column `i`), `pt` = `prev_inheritance_value`, `path` = `index_path[i …]`. -/
def btLoop (I : Inst) (ord : Ord) (k n : Nat) : Nat → Tabs → Nat → Nat → List (Nat × Nat) → Option (List (Nat × Nat))
  | 0, _, _, _, path => some path
  | i + 1, T, vidx, pt, path =>
    (ensureCol I ord k T i).bind (fun T1 =>
      match (T1.getD i none).bind (fun tab => tab.getD (vidx % 2 ^ (I.sharedAt i).length * I.ntrans + pt) none) with
      | none => none
      | some (_, idx', j') =>
        (if (i + 1) % k = 0 then freeLoop T1 (i + 1) (min (i + 1 + k) (n - 1) - (i + 1)) else some T1).bind
          (fun T2 => btLoop I ord k n i T2 idx' j' ((idx', pt) :: path)))

/-- projection column handed to the last column -/
def lastPrev (T : Tabs) (n : Nat) : Option (Array (Option Nat)) :=
  if n - 1 = 0 then some #[] else (T.getD (n - 2) none).map projOf

/-- `compute_table`: `index_path` (per column `(index, transmission value)`), check-point spacing `k`.
`none` = no finite optimum ("Mendelian conflict") — or a null-pointer dereference / failed assert, which
`ckptPathK_eq` proves impossible for `k ≥ 1`. -/
def ckptPathK (I : Inst) (ord : Ord) (k : Nat) : Option (List (Nat × Nat)) :=
  let n := I.ncols
  if n = 0 then some []
  else
    (fwdLoop I ord k n (n - 1)).bind (fun T =>
      (lastPrev T n).bind (fun prev =>
        match lastBest I ord (n - 1) prev with
        | none => none
        | some (_, idx, t, pt) => btLoop I ord k n (n - 1) (dropPrev k T (n - 1)) idx pt [(idx, t)]))

/-- `(size_t) sqrt(n)` -/
def isqrt (n : Nat) : Nat := (List.range (n + 1)).foldl (fun k x => if x * x ≤ n then x else k) 0

/-! ## results read off the path -/

/-- the writes `partitioning->at(read) = bit` of `get_optimal_partitioning`, in execution order -/
def partWrites (I : Inst) (path : List (Nat × Nat)) : List (Nat × Bool) :=
  (List.range path.length).flatMap (fun c =>
    (List.range (I.activeAt c).length).map (fun j =>
      ((I.activeAt c).getD j 0, (path.getD c (0, 0)).1.testBit j)))

/-- `get_optimal_partitioning` as Python sees it (`true` = partition 1 = bit set; never written = 1) -/
def partOf (I : Inst) (path : List (Nat × Nat)) : List Bool :=
  (partWrites I path).foldl (fun p w => p.set w.1 w.2) (List.replicate I.nreads true)

/-- read bipartition and transmission vector -/
def ckptWitnessK (I : Inst) (ord : Ord) (k : Nat) : Option (List Bool × List Nat) :=
  (ckptPathK I ord k).map (fun path => (partOf I path, path.map (·.2)))

/-- `get_super_reads`: per column `get_alleles` after `set_partitioning(index_path[c].index)` under
`index_path[c].inheritance_value` -/
def superReadsOf (I : Inst) (path : List (Nat × Nat)) : List (Option (List (Nat × Nat))) :=
  (List.range path.length).map (fun c =>
    getAlleles I c (bitsOf (I.activeAt c).length (path.getD c (0, 0)).1) (path.getD c (0, 0)).2)

/-- the solver as coded: Gray-code order, spacing `⌊√n⌋` -/
def ckptPath (I : Inst) : Option (List (Nat × Nat)) := ckptPathK I grayOrd (isqrt I.ncols)
def ckptWitness (I : Inst) : Option (List Bool × List Nat) := ckptWitnessK I grayOrd (isqrt I.ncols)

end WhVerif.C01

/-!
# C14 model: `whatshap/cli/split.py`

Core Lean only.  Mirrors, as the code is:

* `check_haplotag_list_information` (2- vs 4-column decided by the first line, header included),
  `process_haplotag_list_file` (header = first line starting with `#`; `none` ↦ 0, `H1..Hploidy`, anything else
  `KeyError`; `readname_to_haplotype` = dict, last assignment wins, `none` lines never reset it; `known_reads`
  only with `--discard-unknown-reads`, with the `assert total_reads == len(known_reads)`; largest-block selection
  by `Counter.most_common(1)` = first block in insertion order among those with the maximal number of tagged lines),
* `run_split`'s single pass: unknown / skipped / processed, `histogram_data[h][len] += 1`, `writer[h].write`,
  with `--add-untagged` additionally every `writer[1:]`, the `missing_reads` early exit,
* `write_read_length_histogram`.

The pass is modelled as the *sequence of `write` calls* `(sink, read index)` — sink 0 = untagged, `i` = H`i`,
sinks whose output was not requested are `/dev/null` writers exactly as in the code — and the sequence of histogram
increments `(column, length)`.  A read is identified by its index in the input.

Two variants: `loopCur` (HEAD, with the early exit — defect F7a) and `loopFix` (after `fixes/F7a.patch`, the early exit
removed); `histRowsCur` (HEAD: one row per *counter* containing a length — defect F7c) and `histRowsFix`.
-/
namespace WhVerif.C14

inductive Err
  | valueError      -- first line has < 2 columns / empty list file / --only-largest-block without 4 columns / short 4-col line
  | indexError      -- a line of a 2-column list with a single column
  | keyError        -- haplotype name not in {none, H1..Hploidy}
  | assertDuplicate -- --discard-unknown-reads and a read name listed twice
  | assertNoKnown   -- --discard-unknown-reads and no read in the list
deriving DecidableEq, Repr

structure Opts where
  ploidy : Nat
  /-- `requested[k]`: output `k` was given on the command line (0 = `--output-untagged`, `i` = H`i`) -/
  requested : List Bool
  addUntagged : Bool
  discardUnknown : Bool
  onlyLargest : Bool
deriving Repr

structure Read where
  name : String
  len : Nat
deriving Repr, DecidableEq

/-- a parsed list line: read name, haplotype number (0 = `none`), phase set, chromosome -/
structure Line where
  name : String
  hap : Nat
  ps : String
  chrom : String
deriving Repr, DecidableEq

/-- `haplotype_to_int` -/
def hapNum (ploidy : Nat) (s : String) : Option Nat :=
  if s == "none" then some 0
  else (List.range' 1 ploidy).find? (fun i => s == "H" ++ toString i)

/-- the two line parsers -/
def parseLine (fourCol : Bool) (ploidy : Nat) (cols : List String) : Except Err Line :=
  if fourCol then
    match cols with
    | n :: h :: ps :: c :: _ =>
      match hapNum ploidy h with
      | some k => .ok ⟨n, k, ps, c⟩
      | none => .error .keyError
    | _ => .error .valueError
  else
    match cols with
    | n :: h :: _ =>
      match hapNum ploidy h with
      | some k => .ok ⟨n, k, "", ""⟩
      | none => .error .keyError
    | _ => .error .indexError

/-- what `process_haplotag_list_file` returns -/
structure Table where
  /-- `readname_to_haplotype` as the list of assignments in list order (dict: the last one for a name counts) -/
  assign : List (String × Nat)
  /-- `known_reads` (empty unless `--discard-unknown-reads`) -/
  known : List String
deriving Repr

def Table.hapOf (t : Table) (name : String) : Nat :=
  match t.assign.reverse.find? (fun p => p.1 == name) with
  | some p => p.2
  | none => 0

/-- distinct elements in order of first occurrence (a Python `set` / `dict` keyed by the names) -/
def dedup : List String → List String
  | [] => []
  | x :: xs => x :: (dedup xs).filter (fun y => y != x)

/-- blocks `(chromosome, phase set)` of tagged lines in insertion order with their line counts -/
def blockCounts (tagged : List Line) : List ((String × String) × Nat) :=
  tagged.foldl (fun acc l =>
    let key := (l.chrom, l.ps)
    if acc.any (fun p => p.1 == key) then acc.map (fun p => if p.1 == key then (p.1, p.2 + 1) else p)
    else acc ++ [(key, 1)]) []

/-- first element with maximal count (`Counter.most_common(1)` = `max(items, key=count)`) -/
def firstMax : List ((String × String) × Nat) → Option ((String × String) × Nat)
  | [] => none
  | x :: xs =>
    match firstMax xs with
    | none => some x
    | some y => if x.2 ≥ y.2 then some x else some y

/-- `select_reads_in_largest_phased_blocks` -/
def selectedBlocks (tagged : List Line) : List (String × String) :=
  let bc := blockCounts tagged
  let chroms := dedup (bc.map (·.1.1))
  chroms.filterMap (fun c => (firstMax (bc.filter (fun p => p.1.1 == c))).map (·.1))

/-- 4-column parser iff the first line (header included) has at least 4 columns -/
def fourColOf (first : List String) : Bool := decide (first.length ≥ 4)

/-- the lines to parse: the first line is dropped iff it starts with `#` -/
def bodyOf (first : List String) (rest : List (List String)) : List (List String) :=
  match first with
  | c :: _ => if c.startsWith "#" then rest else first :: rest
  | [] => first :: rest

/-- `check_haplotag_list_information` + header detection + the line parser applied to every line -/
def parseRows (o : Opts) (rows : List (List String)) : Except Err (List Line) :=
  match rows with
  | [] => .error .valueError                       -- empty file: first line has no two columns
  | first :: rest =>
    if first.length < 2 then .error .valueError
    else if o.onlyLargest && !fourColOf first then .error .valueError
    else (bodyOf first rest).mapM (parseLine (fourColOf first) o.ploidy)

def taggedOf (lines : List Line) : List Line := lines.filter (fun l => l.hap != 0)

/-- `known_reads` -/
def knownOf (o : Opts) (lines : List Line) : List String :=
  if o.discardUnknown then dedup (lines.map (·.name)) else []

/-- `readname_to_haplotype` after the optional restriction to the largest blocks -/
def assignOf (o : Opts) (lines : List Line) : List (String × Nat) :=
  let tagged := taggedOf lines
  let assign := tagged.map (fun l => (l.name, l.hap))
  if o.onlyLargest then
    let sel := selectedBlocks tagged
    let names := (tagged.filter (fun l => sel.contains (l.chrom, l.ps))).map (·.name)
    assign.filter (fun p => names.contains p.1)
  else assign

/-- the rest of `process_haplotag_list_file` and the `assert len(known_reads) > 0` of `run_split` -/
def buildTable (o : Opts) (lines : List Line) : Except Err Table :=
  if o.discardUnknown && lines.length != (knownOf o lines).length then .error .assertDuplicate
  else if o.discardUnknown && (knownOf o lines).isEmpty then .error .assertNoKnown
  else .ok { assign := assignOf o lines, known := knownOf o lines }

def processList (o : Opts) (rows : List (List String)) : Except Err Table :=
  match parseRows o rows with
  | .error e => .error e
  | .ok lines => buildTable o lines

/-- `process_haplotype` -/
def processHap (o : Opts) (h : Nat) : Bool :=
  if h == 0 then o.requested.getD 0 false || o.addUntagged else o.requested.getD h false

/-- the haplotype whose writer gets the read, `none` if the read is dropped (unknown or skipped) -/
def routeOf (o : Opts) (t : Table) (r : Read) : Option Nat :=
  if o.discardUnknown && !t.known.contains r.name then none
  else
    let h := t.hapOf r.name
    if processHap o h then some h else none

/-- the writers written to for a processed read of haplotype `h` -/
def sinks (o : Opts) (h : Nat) : List Nat :=
  if h == 0 && o.addUntagged then 0 :: List.range' 1 o.ploidy else [h]

/-- result of the pass: `write` calls `(sink, read index)` and histogram increments `(column, length)`, in order -/
structure Pass where
  writes : List (Nat × Nat)
  hist : List (Nat × Nat)
deriving Repr, DecidableEq

def Pass.append (a b : Pass) : Pass := ⟨a.writes ++ b.writes, a.hist ++ b.hist⟩
def Pass.empty : Pass := ⟨[], []⟩

/-- what one processed read contributes -/
def emit (o : Opts) (h i : Nat) (r : Read) : Pass := ⟨(sinks o h).map (fun k => (k, i)), [(h, r.len)]⟩

/-- the pass after `fixes/F7a.patch` (no early exit) -/
def loopFix (o : Opts) (t : Table) : Nat → List Read → Pass
  | _, [] => Pass.empty
  | i, r :: rs =>
    match routeOf o t r with
    | none => loopFix o t (i + 1) rs
    | some h => (emit o h i r).append (loopFix o t (i + 1) rs)

/-- the pass as in HEAD: with `--discard-unknown-reads`, `missing_reads` (initially `len(known_reads)`) is decremented
per processed read and the loop stops when it reaches 0 -/
def loopCur (o : Opts) (t : Table) : Nat → Nat → List Read → Pass
  | _, _, [] => Pass.empty
  | m, i, r :: rs =>
    match routeOf o t r with
    | none => loopCur o t m (i + 1) rs
    | some h =>
      if o.discardUnknown then
        if m - 1 == 0 then emit o h i r else (emit o h i r).append (loopCur o t (m - 1) (i + 1) rs)
      else (emit o h i r).append (loopCur o t m (i + 1) rs)

def splitFix (o : Opts) (rows : List (List String)) (reads : List Read) : Except Err Pass :=
  match processList o rows with
  | .error e => .error e
  | .ok t => .ok (loopFix o t 0 reads)

def splitCur (o : Opts) (rows : List (List String)) (reads : List Read) : Except Err Pass :=
  match processList o rows with
  | .error e => .error e
  | .ok t => .ok (loopCur o t t.known.length 0 reads)

/-- the reads written to sink `k`, in order -/
def written (p : Pass) (k : Nat) : List Nat := (p.writes.filter (fun e => e.1 == k)).map (·.2)

/-- `histogram_data[k][len]` -/
def histCount (p : Pass) (k len : Nat) : Nat := (p.hist.filter (fun e => e.1 == k && e.2 == len)).length

def sortNat (l : List Nat) : List Nat := l.mergeSort (fun a b => decide (a ≤ b))

def dedupNat : List Nat → List Nat
  | [] => []
  | x :: xs => x :: (dedupNat xs).filter (fun y => y != x)

/-- keys of `histogram_data[k]` in insertion order -/
def histKeys (p : Pass) (k : Nat) : List Nat := dedupNat ((p.hist.filter (fun e => e.1 == k)).map (·.2))

def histRow (o : Opts) (p : Pass) (len : Nat) : List Nat :=
  len :: (List.range (o.ploidy + 1)).map (fun k => histCount p k len)

/-- `write_read_length_histogram` as in HEAD: `sorted(chain(*(lc.keys() for lc in length_counts)))` — a length is
listed once per counter that contains it -/
def histRowsCur (o : Opts) (p : Pass) : List (List Nat) :=
  (sortNat ((List.range (o.ploidy + 1)).flatMap (histKeys p))).map (histRow o p)

/-- after `fixes/F7c.patch`: `sorted(set(chain(...)))` -/
def histRowsFix (o : Opts) (p : Pass) : List (List Nat) :=
  (sortNat (dedupNat ((List.range (o.ploidy + 1)).flatMap (histKeys p)))).map (histRow o p)

end WhVerif.C14

/-!
# C12 model: `whatshap/cli/stats.py` and the part of `VcfReader(phases=True)` it depends on

Core Lean only.  One sample (the one `stats` reports), per chromosome the data lines in file order.

* `readChrom` = `_process_single_chromosome` as far as stats sees it: records without ALT and multi-ALT records are
  skipped, `--only-snvs`, `VcfNotSortedError`, duplicated positions skipped, genotype classification through
  `genotype_code` (any missing allele ↦ the "none" genotype) and `Genotype.is_homozygous`, phase through
  `_extract_HP_phase` / `_extract_GT_PS_phase` (block id = `call.get("PS", 0)`: 0 when FORMAT has no PS key, Python `None`
  when the key is there but the value is `.`).
* `chromStats` = `get_phase_blocks` + `PhasingStats.add_blocks` + `get_detailed_stats`; `PhasedBlock.add/split`,
  `get_nonoverlapping_blocks` (pop / split / re-sort loop, with explicit fuel), `write_to_block_list`, the GTF writer,
  `n50`; `addStats` = `PhasingStats.__iadd__`.

Flags select HEAD or repaired behaviour:
* `fixMissing` (fixes/F5.patch): a call whose genotype is the "none" genotype is neither homozygous nor heterozygous
  (HEAD: `is_homozygous()` is false for it, so it is counted heterozygous — and unphased, or phased if it carries HP / `0|.`);
* `fixPs` (fixes/F5b.patch): a phased call whose PS value is `.` belongs to phase set 0 like a call without PS key
  (HEAD: block id `None`, `--block-list` then raises `TypeError` when it sorts `None` with ints).

Outside the model: consistency checks over *all* samples (`MixedPhasingError`, `PloidyError`), HP fields that do not match the
ploidy, htslib parsing.
-/
namespace WhVerif.C12

inductive Err
  | notSorted            -- VcfNotSortedError
  | typeErrorBlockNone   -- sorted([None, 10, ...]) in write_to_block_list
  | noFuel               -- never happens (see `nonoverlap_terminates`)
deriving DecidableEq, Repr

/-- one data line, seen from the reported sample -/
structure Rec where
  pos : Nat                      -- 0-based
  ref : String
  alts : List String             -- `[]` = `.`
  gt : List (Option Nat)         -- alleles, `none` = `.`
  phased : Bool                  -- `call.phased`
  psKey : Bool                   -- FORMAT has a PS key
  ps : Option Nat                -- its value (`none` = `.`)
  hp : Option Nat                -- phase-set id of the HP field (`none` = no HP key or `.`)
deriving Repr

/-- block id: `none` = Python `None` -/
abbrev BlockId := Option Nat

inductive Geno | hom | het | missing
deriving DecidableEq, Repr

/-- a variant as stats sees it -/
structure Var where
  pos : Nat
  snv : Bool
  geno : Geno
  phase : Option BlockId         -- `none` = unphased
deriving Repr, DecidableEq

structure Flags where
  fixMissing : Bool
  fixPs : Bool
deriving Repr

def allEq : List (Option Nat) → Bool
  | [] => true
  | a :: rest => rest.all (· == a)

/-- `genotype_code` + `is_homozygous` -/
def genoOf (gt : List (Option Nat)) : Geno :=
  if gt.any Option.isNone || gt.isEmpty then .missing
  else if allEq gt then .hom else .het

/-- `_extract_HP_phase`, else `_extract_GT_PS_phase` -/
def phaseOf (f : Flags) (r : Rec) : Option BlockId :=
  match r.hp with
  | some b => some (some b)
  | none =>
    if r.phased && !allEq r.gt then
      if r.psKey then (match r.ps with
        | some v => some (some v)
        | none => if f.fixPs then some (some 0) else some none)
      else some (some 0)
    else none

/-- `len(ref) == 1 and all(len(alt) == 1 ...)`: the reader's test for `--only-snvs` -/
def snvLike (r : Rec) : Bool := r.ref.length == 1 && r.alts.all (·.length == 1)

/-- `VcfVariant.is_snv` of the `BiallelicVcfVariant` the reader builds: one base against a *different* base
(the reader's own `--only-snvs` test `snvLike` looks at the lengths only; the two differ for ALT = REF) -/
def isSnvVariant (r : Rec) : Bool :=
  match r.alts with
  | [a] => r.ref != a && r.ref.length == 1 && a.length == 1
  | _ => false

/-- `_process_single_chromosome`: `prev` = `prev_position` -/
def readLoop (f : Flags) (onlySnvs : Bool) : Option Nat → List Rec → Except Err (List Var)
  | _, [] => .ok []
  | prev, r :: rs =>
    if r.alts.isEmpty then readLoop f onlySnvs prev rs
    else if r.alts.length > 1 then readLoop f onlySnvs prev rs
    else if onlySnvs && !snvLike r then readLoop f onlySnvs prev rs
    else
      match prev with
      | some p =>
        if p > r.pos then .error .notSorted
        else if p == r.pos then readLoop f onlySnvs prev rs
        else (readLoop f onlySnvs (some r.pos) rs).map (⟨r.pos, isSnvVariant r, genoOf r.gt, phaseOf f r⟩ :: ·)
      | none => (readLoop f onlySnvs (some r.pos) rs).map (⟨r.pos, isSnvVariant r, genoOf r.gt, phaseOf f r⟩ :: ·)

def readChrom (f : Flags) (onlySnvs : Bool) (recs : List Rec) : Except Err (List Var) := readLoop f onlySnvs none recs

/-! ## blocks -/

/-- member of a block: position and `is_snv` -/
abbrev Member := Nat × Bool
/-- `PhasedBlock.phases` in insertion order -/
abbrev Block := List Member

/-- `leftmost_variant.position` as `PhasedBlock.add` maintains it -/
def lo (b : Block) : Nat :=
  match b with
  | [] => 0
  | m :: rest => rest.foldl (fun acc x => if x.1 < acc then x.1 else acc) m.1

/-- `rightmost_variant.position` -/
def hi (b : Block) : Nat :=
  match b with
  | [] => 0
  | m :: rest => rest.foldl (fun acc x => if acc < x.1 then x.1 else acc) m.1

/-- `span()` -/
def span (b : Block) : Nat := hi b - lo b

def countSnvs (b : Block) : Nat := (b.filter (·.2)).length

/-- `split(split_left, split_right)` -/
def splitBlock (b : Block) (l r : Nat) : Block × Block := (b.filter (·.1 < l), b.filter (·.1 > r))

def sortBlocks (q : List Block) : List Block := q.mergeSort (fun a b => decide (lo a ≤ lo b))

def totalLen (q : List Block) : Nat := (q.map List.length).sum

/-- the `while pos_sorted_blocks` loop; the queue is kept ascending (the code keeps it descending and pops from the
end).  `none` = fuel exhausted. -/
def nonoverlapLoop : Nat → List Block → Option (List Block)
  | 0, _ => none
  | _ + 1, [] => some []
  | _ + 1, [b] => some [b]
  | n + 1, b :: nxt :: rest =>
    if hi b > lo nxt then
      let (left, right) := splitBlock b (lo nxt) (hi nxt)
      let q' := if right.length > 1 then sortBlocks (right :: nxt :: rest) else nxt :: rest
      if left.length < 2 then nonoverlapLoop n q'
      else (nonoverlapLoop n q').map (left :: ·)
    else (nonoverlapLoop n (nxt :: rest)).map (b :: ·)

/-- blocks with more than one variant -/
def bigOf (l : List Block) : List Block := l.filter (fun b => decide (b.length > 1))

/-- `get_nonoverlapping_blocks` -/
def nonoverlap (blocks : List Block) : Option (List Block) :=
  nonoverlapLoop (totalLen (sortBlocks (bigOf blocks)) + 1) (sortBlocks (bigOf blocks))

/-! ## per-chromosome statistics -/

def dedupIds : List BlockId → List BlockId
  | [] => []
  | x :: xs => x :: (dedupIds xs).filter (fun y => y != x)

/-- the calls `get_phase_blocks` looks at after the homozygous test -/
def considered (f : Flags) (vars : List Var) : List Var :=
  vars.filter (fun v => v.geno != .hom && !(f.fixMissing && v.geno == .missing))

/-- phased considered variants with their block id, in file order -/
def phasedOf (f : Flags) (vars : List Var) : List (BlockId × Member) :=
  (considered f vars).filterMap (fun v => v.phase.map (fun id => (id, (v.pos, v.snv))))

/-- `blocks` of `get_phase_blocks`: dict in insertion order of the ids; members in file order -/
def blocksOf (ph : List (BlockId × Member)) : List (BlockId × Block) :=
  (dedupIds (ph.map (·.1))).map (fun id => (id, (ph.filter (fun p => p.1 == id)).map (·.2)))

/-- accumulated state of a `PhasingStats` object -/
structure Stats where
  blocks : List Block := []
  splitBlocks : List Block := []
  unphased : Nat := 0
  variants : Nat := 0
  het : Nat := 0
  hetSnvs : Nat := 0
deriving Repr

/-- `__iadd__` -/
def addStats (a b : Stats) : Stats :=
  { blocks := a.blocks ++ b.blocks, splitBlocks := a.splitBlocks ++ b.splitBlocks, unphased := a.unphased + b.unphased,
    variants := a.variants + b.variants, het := a.het + b.het, hetSnvs := a.hetSnvs + b.hetSnvs }

/-- `get_phase_blocks` + `add_blocks` for one chromosome -/
def chromStats (f : Flags) (vars : List Var) : Option Stats :=
  let cons := considered f vars
  let blocks := (blocksOf (phasedOf f vars)).map (·.2)
  (nonoverlap blocks).map fun sb =>
    { blocks := blocks, splitBlocks := sb,
      unphased := (cons.filter (fun v => v.phase.isNone)).length,
      variants := vars.length, het := cons.length, hetSnvs := (cons.filter (·.snv)).length }

def sortNat (l : List Nat) : List Nat := l.mergeSort (fun a b => decide (a ≤ b))

/-- `n50(lengths, target)` with `total >= 0.5 * target` -/
def n50Loop (target : Nat) : Nat → List Nat → Nat
  | _, [] => 0
  | total, l :: ls => if 2 * (total + l) ≥ target then l else n50Loop target (total + l) ls

def n50 (lengths : List Nat) (target : Nat) : Nat := n50Loop target 0 (sortNat lengths).reverse

/-- the integer-valued fields of `DetailedStats` + the two sorted lists its medians/averages are taken from -/
structure Row where
  variants : Nat
  phased : Nat
  unphased : Nat
  singletons : Nat
  blocks : Nat
  sizes : List Nat          -- sorted block sizes (> 1)
  lengths : List Nat        -- sorted spans of the non-overlapping pieces
  bpSum : Nat
  het : Nat
  hetSnvs : Nat
  phasedSnvs : Nat
deriving Repr, DecidableEq

/-- `get_detailed_stats` (`if block_sizes:` = there is a block with more than one variant) -/
def detailed (s : Stats) : Row :=
  if (bigOf s.blocks).isEmpty then
    { variants := s.variants, phased := 0, unphased := s.unphased,
      singletons := (s.blocks.filter (fun b => b.length == 1)).length, blocks := 0, sizes := [], lengths := [], bpSum := 0,
      het := s.het, hetSnvs := s.hetSnvs, phasedSnvs := 0 }
  else
    { variants := s.variants, phased := (sortNat ((bigOf s.blocks).map List.length)).sum, unphased := s.unphased,
      singletons := (s.blocks.filter (fun b => b.length == 1)).length,
      blocks := (sortNat ((bigOf s.blocks).map List.length)).length,
      sizes := sortNat ((bigOf s.blocks).map List.length),
      lengths := sortNat ((bigOf s.splitBlocks).map span),
      bpSum := (sortNat ((bigOf s.splitBlocks).map span)).sum, het := s.het, hetSnvs := s.hetSnvs,
      phasedSnvs := ((bigOf s.blocks).map countSnvs).sum }

/-! ## block list and GTF -/

def idLe : BlockId → BlockId → Bool
  | none, _ => true
  | some _, none => false
  | some a, some b => decide (a ≤ b)

/-- `write_to_block_list`: rows `(phase_set, from, to, variants)` (1-based positions), sorted by id -/
def blockList (bl : List (BlockId × Block)) : Except Err (List (BlockId × Nat × Nat × Nat)) :=
  if bl.any (·.1.isNone) && bl.any (·.1.isSome) then .error .typeErrorBlockNone
  else .ok ((bl.mergeSort (fun a b => idLe a.1 b.1)).map (fun p => (p.1, lo p.2 + 1, hi p.2 + 1, p.2.length)))

/-- the GTF writer of `get_phase_blocks`: `(start + 1, end, id)` per run of consecutive phased variants with the same id.
A `GtfBlock` whose id is Python `None` is indistinguishable from "no block yet" and is silently dropped. -/
def gtfLoop : Option (Nat × Nat × BlockId) → List (BlockId × Member) → List (Nat × Nat × Nat)
  | prev, [] =>
    match prev with
    | some (s, e, some k) => [(s + 1, e, k)]
    | _ => []
  | prev, (id, (pos, _)) :: rest =>
    match prev with
    | some (s, e, some k) =>
      if some k != id then (s + 1, e, k) :: gtfLoop (some (pos, pos + 1, id)) rest
      else gtfLoop (some (s, pos + 1, some k)) rest
    | _ => gtfLoop (some (pos, pos + 1, id)) rest

def gtf (ph : List (BlockId × Member)) : List (Nat × Nat × Nat) := gtfLoop none ph

end WhVerif.C12

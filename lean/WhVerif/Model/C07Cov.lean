/-!
# C07 model: `whatshap/coverage.py` (`CovMonitor`) as coded — an array of counters

`Model/C07.lean` keeps the coverage monitor as the *history* of `add_read` calls (`Cov`, `Cov.at` = number of
recorded calls whose range contains the variant).  That is a statement about what the counters of the real
class contain; it holds because the counters are Python ints (exact naturals).  This file models the class the
way it is written — `self.coverage = [0] * length`, `coverage[i] += 1` for `i in range(begin, end)`,
`max(coverage[begin:end])` — with the counter arithmetic as a parameter:

* `w = none`    : Python `int` (unbounded) — the code as it is;
* `w = some b`  : a `b`-bit unsigned counter that wraps (`uint8`, `uint16`, … — what a "vectorised" or C-level
                  re-implementation would use).

`Props.C07.monitor_exact` / `monitor_guard_keeps_cap` show that the `none` instance is exactly the history
abstraction for EVERY cap and EVERY depth, `Props.C07.narrow_monitor_never_blocks` / `narrow_monitor_exceeds_cap`
that every `b`-bit instance lets the cap be exceeded as soon as `k ≥ 2^b`.  Core Lean only.
-/
namespace WhVerif.C07.Mon

/-- `coverage[i] += 1` -/
def inc (w : Option Nat) (x : Nat) : Nat :=
  match w with
  | none => x + 1
  | some b => (x + 1) % 2 ^ b

/-- `CovMonitor.__init__(length)`: `[0] * length` -/
def init (n : Nat) : List Nat := List.replicate n 0

/-- `add_read(begin, end)`: `for i in range(begin, end): self.coverage[i] += 1` (for `end ≤ len(coverage)`; the
`IndexError` of a larger `end` is in `runOps`) -/
def addRead (w : Option Nat) (cov : List Nat) (b e : Nat) : List Nat :=
  cov.mapIdx (fun i x => if b ≤ i ∧ i < e then inc w x else x)

/-- `self.coverage[begin:end]` -/
def slice (cov : List Nat) (b e : Nat) : List Nat := (cov.take e).drop b

/-- `max_coverage_in_range(begin, end)`: `max(self.coverage[begin:end])`; `none` = `ValueError` (empty slice) -/
def maxIn (cov : List Nat) (b e : Nat) : Option Nat :=
  match slice cov b e with
  | [] => none
  | x :: xs => some (xs.foldl max x)

/-- does the call `add_read(b, e)` count for variant index `i` -/
def contains (c : Nat × Nat) (i : Nat) : Bool := decide (c.1 ≤ i) && decide (i < c.2)

/-- number of calls in `calls` whose range contains `i`: what `coverage[i]` is meant to be -/
def count (calls : List (Nat × Nat)) (i : Nat) : Nat := calls.countP (fun c => contains c i)

/-- the monitor and the calls it has admitted (most recent first) -/
structure St where
  cov : List Nat
  admitted : List (Nat × Nat)
deriving Repr, DecidableEq

/-- the use every caller makes of the monitor (`_slice_read_selection`, the bridging loop):
`if coverages.max_coverage_in_range(begin, end) >= max_cov: reject  else: coverages.add_read(begin, end)` -/
def step (w : Option Nat) (k : Nat) (s : St) (c : Nat × Nat) : St :=
  match maxIn s.cov c.1 c.2 with
  | some m => if k ≤ m then s else ⟨addRead w s.cov c.1 c.2, c :: s.admitted⟩
  | none => s

def guardedRun (w : Option Nat) (k : Nat) (n : Nat) (calls : List (Nat × Nat)) : St :=
  calls.foldl (step w k) ⟨init n, []⟩

/-! ## executable replay of an operation sequence (driver op `c07.covmon`) -/

/-- `times` × `add_read(b, e)` -/
def addMany (w : Option Nat) (cov : List Nat) (b e : Nat) : Nat → List Nat
  | 0 => cov
  | t + 1 => addMany w (addRead w cov b e) b e t

inductive Ans where
  | val (m : Nat)
  | valueError
  | indexError
deriving Repr, DecidableEq

/-- operations: `(true, b, e, times)` = `times` calls of `add_read(b, e)`; `(false, b, e, _)` = one query
`max_coverage_in_range(b, e)`.  Returns the answers of the queries in order; an `add_read` that runs past the end
of the array is an `IndexError` and ends the replay. -/
def runOps (w : Option Nat) : List Nat → List (Bool × Nat × Nat × Nat) → List Ans
  | _, [] => []
  | cov, (true, b, e, t) :: rest =>
    if b < e ∧ cov.length < e ∧ 0 < t then [.indexError] else runOps w (addMany w cov b e t) rest
  | cov, (false, b, e, _) :: rest =>
    (match maxIn cov b e with | some m => Ans.val m | none => Ans.valueError) :: runOps w cov rest

end WhVerif.C07.Mon

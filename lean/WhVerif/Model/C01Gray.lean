/-!
# `src/graycodes.cpp` (Mossige 1977), state `(c, s, i, changed)` exactly as coded.

`s` starts as all ones; only its low `length` bits are ever inspected, so the model keeps `s` as a
natural number whose bits ≥ `length` are irrelevant (we start it at `2^length - 1`).
-/
namespace WhVerif.C01

structure Gray where
  length : Nat
  s : Nat
  c : Nat
  i : Int
  changed : Int
deriving Repr

def Gray.init (length : Nat) : Gray := { length, s := 2 ^ length - 1, c := 0, i := -1, changed := -1 }

def Gray.hasNext (g : Gray) : Bool := g.i < g.length

/-- the `while (i < length)` loop of `get_next`, from bit `i` upwards -/
def Gray.scan (g : Gray) (i : Nat) : Gray :=
  if h : i < g.length then
    if g.c.testBit i != g.s.testBit i then
      { g with c := g.c ^^^ (1 <<< i), changed := i, i := i }
    else
      Gray.scan { g with s := g.s ^^^ (1 <<< i) } (i + 1)
  else { g with i := i }
termination_by g.length - i
decreasing_by simp_all; omega

/-- `get_next`: returns (result, changed bit reported for it, new state) -/
def Gray.next (g : Gray) : Nat × Int × Gray := (g.c, g.changed, Gray.scan g 0)

def Gray.runFuel : Nat → Gray → List (Nat × Int)
  | 0, _ => []
  | fuel + 1, g =>
    if g.hasNext then
      let (r, ch, g') := g.next
      (r, ch) :: Gray.runFuel fuel g'
    else []

/-- the whole enumeration: (code, bit that changed w.r.t. the previous code, -1 for the first) -/
def grayList (n : Nat) : List (Nat × Int) := Gray.runFuel (2 ^ n + 1) (Gray.init n)

end WhVerif.C01
